import AsyncVerif.Proofs.LruConc
import AsyncVerif.Properties.C10
/-!
# C11 — lru_cache stays correct under overlapping calls and cancellation

Property theorems only.  Model: `Machines/Lru.lean`, `cstep`: a call is two steps, `begin c p`
(`__call__` up to its only `await`) and `finish c r` (the awaited wrapped function returns, raises
or is cancelled; then the re-check / insert / evict code), interleaved in any order with any number
of other calls, `cache_clear`, `cache_discard`, `cache_info`.  `grun` = `crun` plus ghost
bookkeeping (calls begun / wrapped invocations since the last clear, values produced).
`schedStep` runs task programs one `send` / one cancellation at a time.
-/
namespace AsyncVerif.Lru

/-- Under every interleaving, at every moment: the number of stored entries never exceeds
    `maxsize`, and no two entries have equal keys. -/
theorem C11_size_bounded (cfg : Cfg) (hok : cfg.ok) (ops : List COp) :
    (∀ n, cfg.maxsize = some n → (crun cfg CSt.init ops).core.store.length ≤ n) ∧
    Distinct cfg.typed (crun cfg CSt.init ops).core.store := by
  have h := grun_inv cfg hok ops (CSt.init, Ghost.init) (CInv.init cfg)
  rw [← grun_fst cfg ops (CSt.init, Ghost.init)]
  refine ⟨?_, h.inv.distinct⟩
  intro n hn
  obtain ⟨var, typed⟩ := cfg
  cases var with
  | uncached =>
    simp only [Cfg.maxsize, Option.some.injEq] at hn
    have := (h.inv.wf rfl).2
    rw [this]; simp
  | memo => simp [Cfg.maxsize] at hn
  | bounded m =>
    simp only [Cfg.maxsize, Option.some.injEq] at hn
    subst hn
    exact h.inv.bound m rfl

/-- Under every interleaving: hits plus misses equals the number of calls made, and misses equals
    the number of invocations of the wrapped function (both since the last `cache_clear`, which
    resets the counters). -/
theorem C11_counters (cfg : Cfg) (hok : cfg.ok) (ops : List COp) :
    let x := grun cfg (CSt.init, Ghost.init) ops
    x.1.core.hits + x.1.core.misses = x.2.calls ∧ x.1.core.misses = x.2.invoked := by
  have h := grun_inv cfg hok ops (CSt.init, Ghost.init) (CInv.init cfg)
  exact ⟨h.total, h.missed⟩

/-- Every caller receives a value the wrapped function produced for an equal argument pattern:
    after any interleaving, a call that is answered from the cache gets a value that an earlier
    invocation with an equal key returned; a call that ran the wrapped function gets its own result. -/
theorem C11_values (cfg : Cfg) (hok : cfg.ok) (ops : List COp) (c : Nat) (p : Pattern) (v : Nat) :
    let x := grun cfg (CSt.init, Ghost.init) ops
    ((cstep cfg x.1 (.begin c p)).2 = .hit v →
        ∃ q, (q, v) ∈ x.2.produced ∧ Impl.eqv cfg.typed q p = true) ∧
    (∀ r, (cstep cfg x.1 (.finish c r)).2 = .ret v → r = .ok v) := by
  have h := grun_inv cfg hok ops (CSt.init, Ghost.init) (CInv.init cfg)
  generalize grun cfg (CSt.init, Ghost.init) ops = x at h
  refine ⟨?_, ?_⟩
  · intro hh
    simp only [cstep] at hh
    by_cases hl : (lookupCall c x.1.inflight).isSome = true
    · simp [hl] at hh
    · simp only [hl, Bool.false_eq_true, if_false] at hh
      have hb := begin_hit cfg x.1.core p
      rcases hbe : Impl.begin cfg x.1.core p with ⟨s1, o⟩
      rw [hbe] at hh hb
      cases o with
      | none => simp at hh
      | some w =>
        simp only [COut.hit.injEq] at hh
        subst hh
        obtain ⟨q, hq, hqe⟩ := hb w rfl
        exact ⟨q, h.produced _ hq, hqe⟩
  · intro r hr
    simp only [cstep] at hr
    cases hl : lookupCall c x.1.inflight with
    | none => simp [hl] at hr
    | some q =>
      cases r with
      | ok w => simp only [hl, COut.ret.injEq] at hr; rw [hr]
      | fail e => simp [hl] at hr
      | cancel => simp [hl] at hr

/-- A call that fails or is cancelled (at whichever suspension point of the wrapped function) stores
    nothing and changes no counter: the cache is exactly as if the call were still in flight, minus
    the call. -/
theorem C11_failure_stores_nothing (cfg : Cfg) (s : CSt) (c : Nat) (r : CRes) (hr : ∀ v, r ≠ .ok v) :
    (cstep cfg s (.finish c r)).1.core = s.core := by
  simp only [cstep]
  cases lookupCall c s.inflight with
  | none => rfl
  | some p =>
    cases r with
    | ok v => exact absurd rfl (hr v)
    | fail e => rfl
    | cancel => rfl

/-- … and leaves the cache fully usable: after any interleaving (with any failures and
    cancellations) the cache is in a state from which every sequential history behaves exactly like
    `functools.lru_cache` started from the same contents and counters (C10). -/
theorem C11_then_C10 (cfg : Cfg) (hok : cfg.ok) (cops : List COp) (ops : List Op) :
    run (Impl.step cfg) (crun cfg CSt.init cops).core ops = run (Spec.step cfg) (crun cfg CSt.init cops).core ops := by
  have h := grun_inv cfg hok cops (CSt.init, Ghost.init) (CInv.init cfg)
  have hw := h.inv.wf
  rw [grun_fst] at hw
  exact C10_refines_from cfg hok _ hw ops

/-- A call with nothing in between its two halves is the sequential call of C10. -/
theorem C11_sequential_call (cfg : Cfg) (s : CSt) (c : Nat) (p : Pattern) (r : Res)
    (hc : lookupCall c s.inflight = none) :
    let x := cstep cfg s (.begin c p)
    (∀ v, x.2 = .hit v → x.1 = ⟨(Impl.call cfg s.core p r).1, s.inflight⟩ ∧ (Impl.call cfg s.core p r).2 = .ret v false) ∧
    (x.2 = .started →
      (cstep cfg x.1 (.finish c r.toC)).1 = ⟨(Impl.call cfg s.core p r).1, s.inflight⟩ ∧
      (cstep cfg x.1 (.finish c r.toC)).2 = (match (Impl.call cfg s.core p r).2 with
        | .ret v _ => .ret v | .raised e => .raised e | o => .seq o)) := by
  simp only [cstep, hc, Option.isSome_none, Bool.false_eq_true, if_false, Impl.call]
  rcases hb : Impl.begin cfg s.core p with ⟨s1, o⟩
  cases o with
  | some w =>
    simp only
    refine ⟨?_, ?_⟩
    · intro v hv
      simp only [COut.hit.injEq] at hv
      subst hv
      simp
    · intro h; simp at h
  | none =>
    simp only
    refine ⟨?_, ?_⟩
    · intro v hv; simp at hv
    · intro _
      rw [lookupCall_append_new c p _ hc, dropCall_append_new c p _ hc]
      cases r with
      | ok v => exact ⟨rfl, rfl⟩
      | fail e => exact ⟨rfl, rfl⟩

/-- Whatever the tasks' programs (calls whose wrapped function suspends any number of times and then
    returns or raises, clears, discards) and whatever the schedule of `send`s and cancellations, the
    cache only ever performs steps of the machine above — so every theorem of this file holds after
    every scheduling step; in particular the size bound. -/
theorem C11_schedules (cfg : Cfg) (hok : cfg.ok) (tasks : List Task) (sched : List SOp) :
    (schedFinal cfg (CSt.init, tasks) sched).1
      = crun cfg CSt.init ((schedEvents cfg (CSt.init, tasks) sched).map Prod.fst) ∧
    (∀ n, cfg.maxsize = some n → (schedFinal cfg (CSt.init, tasks) sched).1.core.store.length ≤ n) := by
  have h := schedFinal_crun cfg sched (CSt.init, tasks)
  refine ⟨h, ?_⟩
  rw [h]
  exact (C11_size_bounded cfg hok _).1

/-! Non-vacuity: two overlapping misses on a full cache of size 1, a clear during flight, a
    cancellation and a failure; then the same through the task layer. -/
private def k (n : Int) : Pattern := ⟨[.prim (.int n)], []⟩
private def c1 : Cfg := ⟨.bounded 1, false⟩

example : c1.ok := by decide

example : grun c1 (CSt.init, Ghost.init)
    [.begin 0 (k 1), .begin 1 (k 1), .begin 2 (k 2), .finish 1 (.ok 11), .finish 2 (.ok 22), .clear,
     .finish 0 (.ok 10), .begin 3 (k 1), .begin 4 (k 3), .begin 5 (k 4), .finish 4 .cancel, .finish 5 (.fail 9)]
  = (⟨⟨1, 2, [(k 1, 10)]⟩, []⟩, ⟨3, 2, [(k 1, 11), (k 2, 22), (k 1, 10)]⟩) := by decide

example : (schedRun c1 (CSt.init, [⟨[.call (k 1) 2 (.ok 5), .call (k 2) 0 (.ok 6)], 0, none⟩,
      ⟨[.call (k 1) 1 (.ok 7), .info], 0, none⟩]) [.send 0, .send 1, .send 0, .send 1, .cancel 0]).map (·.1)
  = [[(.begin 0 (k 1), .started)], [(.begin 100 (k 1), .started)], [],
     [(.finish 100 (.ok 7), .ret 7), (.info, .seq (.info 0 2 (some 1) 1))],
     [(.finish 0 .cancel, .cancelled)]] := by decide

end AsyncVerif.Lru
