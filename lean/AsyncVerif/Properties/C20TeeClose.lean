import AsyncVerif.Proofs.TeeClose
import AsyncVerif.Properties.C09
/-!
# C20 / C04 / C09 — `Tee.aclose()` releases everything, closes the source once, and can be repeated

Property theorems only.  Models: `Machines/Tee.lean` (the tee machine; `reach items n susp lock
closeable dies ops` is the state after an ARBITRARY operation sequence `ops` over {one `send` on
consumer `i`, `child.aclose()`, cancellation of consumer `i`, `Tee.aclose()`} from a fresh tee with `n`
children) and `Machines/TeeClose.lean`: `closeAllF s sc` is one call of `Tee.aclose()` in state `s`
when the source's `aclose()` succeeds / raises / does not exist (`sc : SrcClose`), following
asyncstdlib/itertools.py `Tee.aclose` and the `finally:` block of `tee_peer` statement by statement; its
result is (state, answer, "the source's error was raised").  The source can be closed by the call iff
`closeable = true ∧ sc ≠ .none`.  `retained s` is the total number of items in registered buffers.

All theorems hold for every reachable state and every `sc`; they are proved from the invariant `Inv`
of `Proofs/Tee.lean` (by induction over `ops`), the new invariant `Once` ("`iterator.aclose()` has
been called at most once", `Proofs/TeeClose.lean`, also by induction over `ops`) and inductions over
the loop of `Tee.aclose()`.
-/
namespace AsyncVerif.TeeClose
open AsyncVerif.Tee

/-- **Bounded retention = lag of the registered children.** In every reachable state (whatever the
    operations were, `Tee.aclose()` included) the number of items the tee holds in registered buffers
    is the sum, over the children whose buffer is registered, of (number of items fetched from the
    source so far − number of items that child has yielded): nothing but the lag of registered
    children is retained.  (Per child this is `C09_yielded_plus_buffer`, from which it is proved.) -/
theorem C20_tee_retained_eq_lag (items n susp lock closeable dies ops) :
    retained (reach items n susp lock closeable dies ops)
      = lag (reach items n susp lock closeable dies ops) :=
  retained_eq_lag fun j hj b hb =>
    C09_yielded_plus_buffer items n susp lock closeable dies ops j
      (by rw [← reach_len items n susp lock closeable dies ops]; exact hj) b hb

/-- **`Tee.aclose()` releases everything** (any state `s` of the tee machine, reachable or not, every
    behaviour `sc` of the source's `aclose()`): unless a busy child aborts the call with RuntimeError,
    no buffer is registered afterwards, so nothing is retained — also when the source's `aclose()`
    raises, be it in the `finally:` block of the last registered child or at the end of
    `Tee.aclose()` (`self._buffers.clear()` comes before `iterator.aclose()`). -/
theorem C20_tee_close_releases_everything (s : St) (sc : SrcClose)
    (hb : (closeAllF s sc).2.1 ≠ .busy) :
    (∀ j, j < s.kids.length → ((closeAllF s sc).1.kid j).buf = none) ∧
    retained (closeAllF s sc).1 = 0 := by
  have h : ∀ j, j < s.kids.length → ((closeAllF s sc).1.kid j).buf = none :=
    fun j hj => closeAllF_buf_none s sc hb j hj
  exact ⟨h, retained_zero (fun j hj => h j (by simpa using hj))⟩

/-- **The busy case, precisely.** In every reachable state: if `Tee.aclose()` answers RuntimeError,
    there is a first busy child `k` (its consumer is suspended inside the generator — in
    `lock.__aenter__` or in `iterator.__anext__()` — so `child.aclose()` raises); the loop stopped there:
    * the children before `k` are not busy and have been closed as `child.aclose()` does
      (`closedChild`: closed; unregistered if they were at the `yield`; a child that was never started
      keeps its buffer registered — `self._buffers.clear()` was not reached),
    * child `k` and all children after it are untouched,
    * nothing else has changed: the source's `aclose()` was not called, its error was not raised,
      and the state differs from the one before in the children only,
    * the tee retains no more than before (and `retained` is not 0 in general: see the example). -/
theorem C20_tee_close_busy_closes_only_a_prefix (items n susp lock closeable dies ops) (sc : SrcClose)
    (hb : (closeAllF (reach items n susp lock closeable dies ops) sc).2.1 = .busy) :
    ∃ k, k < n ∧ isBusy ((reach items n susp lock closeable dies ops).kid k).pc = true ∧
      (∀ j, j < k → isBusy ((reach items n susp lock closeable dies ops).kid j).pc = false ∧
        (closeAllF (reach items n susp lock closeable dies ops) sc).1.kid j
          = closedChild ((reach items n susp lock closeable dies ops).kid j)) ∧
      (∀ j, k ≤ j → (closeAllF (reach items n susp lock closeable dies ops) sc).1.kid j
          = (reach items n susp lock closeable dies ops).kid j) ∧
      (closeAllF (reach items n susp lock closeable dies ops) sc).2.2 = false ∧
      (closeAllF (reach items n susp lock closeable dies ops) sc).1.srcCloses
        = (reach items n susp lock closeable dies ops).srcCloses ∧
      { (closeAllF (reach items n susp lock closeable dies ops) sc).1 with
          kids := (reach items n susp lock closeable dies ops).kids }
        = reach items n susp lock closeable dies ops ∧
      retained (closeAllF (reach items n susp lock closeable dies ops) sc).1
        ≤ retained (reach items n susp lock closeable dies ops) := by
  have hinv := reach_inv items n susp lock closeable dies ops
  have hlen := reach_len items n susp lock closeable dies ops
  obtain ⟨k, hk1, hk2, hk3, hk4, hk5, hk6⟩ := closeAllF_busy hinv sc hb
  refine ⟨k, by omega, hk2, hk3, hk4, hk5, hk6, base_ext (closeAllF_base _ sc) hk6, ?_⟩
  apply retained_le (closeAllF_length _ sc)
  intro j _
  by_cases hjk : j < k
  · rw [(hk3 j hjk).2]; exact bufLen_closedChild _
  · rw [hk4 j (by omega)]; exact Nat.le_refl _

/-- **The source is closed once, and exactly when it can be closed.** In every reachable state `s`,
    for a `Tee.aclose()` that no busy child aborts:
    * every child is as before, except that it is closed and its buffer is unregistered — what it
      has yielded and its consumer's state are kept — also when the source's `aclose()` raises in
      the middle of the loop over the children (the remaining children are closed already then);
    * if the source can be closed (`closeable = true` and `sc ≠ .none`) and the tee has a child,
      `iterator.aclose()` has been called exactly once altogether — by this call, or earlier by the
      last child that finished, and then not again;
    * otherwise (no `aclose`, or no child: `if self._buffers:` is false) it is not called;
    * the source's error comes out of `Tee.aclose()` iff `aclose()` raises and is called by THIS
      call: the source can be closed, there is a child and it had not been closed before;
    * the answer is that error, or a normal return. -/
theorem C04_tee_close_closes_source_once (items n susp lock closeable dies ops) (sc : SrcClose)
    (hb : (closeAllF (reach items n susp lock closeable dies ops) sc).2.1 ≠ .busy) :
    (∀ j, j < n → (closeAllF (reach items n susp lock closeable dies ops) sc).1.kid j
        = { (reach items n susp lock closeable dies ops).kid j with pc := .done, buf := none }) ∧
    (closeable = true → sc ≠ .none → 0 < n →
      (closeAllF (reach items n susp lock closeable dies ops) sc).1.srcCloses = 1) ∧
    ((closeable = false ∨ sc = .none ∨ n = 0) →
      (closeAllF (reach items n susp lock closeable dies ops) sc).1.srcCloses
        = (reach items n susp lock closeable dies ops).srcCloses) ∧
    ((closeAllF (reach items n susp lock closeable dies ops) sc).2.2 = true ↔
      sc = .raises ∧ closeable = true ∧ 0 < n ∧
        (reach items n susp lock closeable dies ops).srcCloses = 0) ∧
    (closeAllF (reach items n susp lock closeable dies ops) sc).2.1
      = if (closeAllF (reach items n susp lock closeable dies ops) sc).2.2 = true then .error else .closed := by
  have hinv := reach_inv items n susp lock closeable dies ops
  have hlen := reach_len items n susp lock closeable dies ops
  have hcl := reach_closeable items n susp lock closeable dies ops
  have honce := reach_once items n susp lock closeable dies ops
  have hlast := reach_closedLast items n susp lock closeable dies ops
  have hcan : canClose (reach items n susp lock closeable dies ops) sc
      = (closeable && decide (sc ≠ .none)) := by simp [canClose, hcl]
  have h1 : closeable = true → sc ≠ .none → 0 < n →
      (closeAllF (reach items n susp lock closeable dies ops) sc).1.srcCloses = 1 := by
    intro hc hs hn
    exact closeAllF_closes_once (by rw [hcan]; simp [hc, hs]) hinv honce hlast hb (by omega)
  have h2 : (closeable = false ∨ sc = .none ∨ n = 0) →
      (closeAllF (reach items n susp lock closeable dies ops) sc).1.srcCloses
        = (reach items n susp lock closeable dies ops).srcCloses := by
    intro h
    rcases h with h | h | h
    · exact closeAllF_cannot _ sc (by rw [hcan]; simp [h])
    · exact closeAllF_cannot _ sc (by rw [hcan]; simp [h])
    · rw [closeAllF_no_kids _ sc (by omega)]
  refine ⟨fun j hj => closeAllF_kid hinv sc hb j (by omega), h1, h2, ?_, closeAllF_out _ sc hb⟩
  have hacct := (closeAllF_acct (reach items n susp lock closeable dies ops) sc).2
  rw [hacct]
  simp only [Bool.and_eq_true, decide_eq_true_eq]
  constructor
  · rintro ⟨hr, hlt⟩
    have hc : closeable = true := by
      cases closeable with
      | true => rfl
      | false => have := h2 (Or.inl rfl); omega
    have hn : 0 < n := by
      cases n with
      | zero => have := h2 (Or.inr (Or.inr rfl)); omega
      | succ m => omega
    have := h1 hc (by rw [hr]; simp) hn
    exact ⟨hr, hc, hn, by omega⟩
  · rintro ⟨hr, hc, hn, h0⟩
    have := h1 hc (by rw [hr]; simp) hn
    exact ⟨hr, by omega⟩

/-- **`Tee.aclose()` can be repeated.** In every reachable state, after a first `Tee.aclose()` (source
    behaviour `sc`) a second one (source behaviour `sc2`, possibly different) changes nothing, does
    not call the source's `aclose()` again and raises no error of the source: it is aborted by the
    same busy child if the first one was, and returns normally otherwise — also after a first call
    that raised the source's error; in that case nothing is retained before and after it. -/
theorem C09_tee_close_idempotent (items n susp lock closeable dies ops) (sc sc2 : SrcClose) :
    closeAllF (closeAllF (reach items n susp lock closeable dies ops) sc).1 sc2 =
      ((closeAllF (reach items n susp lock closeable dies ops) sc).1,
        if (closeAllF (reach items n susp lock closeable dies ops) sc).2.1 = .busy then .busy else .closed,
        false) ∧
    ((closeAllF (reach items n susp lock closeable dies ops) sc).2.1 ≠ .busy →
      retained (closeAllF (closeAllF (reach items n susp lock closeable dies ops) sc).1 sc2).1 = 0) := by
  have h := closeAllF_idem (reach_inv items n susp lock closeable dies ops) sc sc2
  refine ⟨h, fun hb => ?_⟩
  rw [h]
  exact (C20_tee_close_releases_everything _ sc hb).2

/-- **Same machine.** For a source whose `aclose()` does not raise (it succeeds, or the source has
    none and the state says so), `closeAllF` is `Tee.aclose()` of the tee machine (`closeAll`,
    `Op.closeAll` of `Machines/Tee.lean`) in every state: the theorems of `Properties/C09.lean` about
    `Op.closeAll` and the ones above speak about the same function. -/
theorem C04_tee_close_agrees_with_machine (s : St) (sc : SrcClose)
    (hc : canClose s sc = s.closeable) (hr : sc ≠ .raises) :
    closeAllF s sc = ((step s .closeAll).1, (step s .closeAll).2, false) :=
  closeAllF_eq s sc hc hr

/-! ## Examples: the hypotheses are satisfiable on concrete, non-trivial runs -/

/-- child 0 closed before its first step (buffer stays registered and is fed), child 1 two items
    ahead, child 2 never started: 4 items retained = lag 2 + 0 + 2 (`C20_tee_retained_eq_lag`) -/
private def sA : St := reach [1, 2, 3] 3 [] true true true [.close 0, .sched 1, .sched 1]

example : retained sA = 4 ∧ lag sA = 4 ∧ (sA.kid 0).buf = some [1, 2] ∧ (sA.kid 1).buf = some [] := by
  decide

/-- `C20_tee_close_releases_everything`, `C04_tee_close_closes_source_once`: the source's `aclose()`
    raises at the end of `Tee.aclose()`; the answer is that error, everything is released, every
    child is closed, the source was closed once -/
example : (closeAllF sA .raises).2.1 ≠ .busy ∧ (closeAllF sA .raises).2 = (.error, true) ∧
    retained (closeAllF sA .raises).1 = 0 ∧ (closeAllF sA .raises).1.srcCloses = 1 ∧
    ((closeAllF sA .raises).1.kid 1).out = [1, 2] ∧ ((closeAllF sA .raises).1.kid 2).pc = .done := by
  decide

/-- the source's `aclose()` raises inside the loop, in the `finally:` block of the last registered
    child (child 1; child 0 finished before, child 2 is not visited any more but is closed already) -/
private def sB : St :=
  reach [1, 2] 3 [] false true true
    [.sched 0, .sched 0, .sched 1, .sched 2, .sched 2, .close 0, .close 2]

example : retained sB = 1 ∧ (closeFromF sB .raises [0, 1]).2 = (.error, true) ∧
    (closeAllF sB .raises).2 = (.error, true) ∧ retained (closeAllF sB .raises).1 = 0 ∧
    (closeAllF sB .raises).1.srcCloses = 1 ∧ sB.srcCloses = 0 := by
  decide

/-- the source was closed earlier by the last child: `Tee.aclose()` does not call `aclose()` again and
    so does not raise (last clause but one of `C04_tee_close_closes_source_once`) -/
example :
    let s := reach [1] 2 [] false true true [.sched 0, .sched 1, .sched 0, .sched 1]
    s.srcCloses = 1 ∧ closeAllF s .raises = (s, .closed, false) := by
  decide

/-- no `aclose` on the source: nothing is called, everything is released -/
example : (closeAllF (reach [1, 2, 3] 3 [] true false true [.close 0, .sched 1, .sched 1]) .none).2
      = (.closed, false) ∧
    (closeAllF (reach [1, 2, 3] 3 [] true false true [.close 0, .sched 1, .sched 1]) .none).1.srcCloses = 0 ∧
    retained (closeAllF (reach [1, 2, 3] 3 [] true false true [.close 0, .sched 1, .sched 1]) .none).1 = 0 := by
  decide

/-- `C20_tee_close_busy_closes_only_a_prefix`: child 1 is inside the source (k = 1); child 0, two items
    behind, was at its `yield` and is unregistered; child 2, never started, still holds what has been
    fetched: 2 items stay retained -/
private def sC : St :=
  reach [1, 2, 3] 3 [0, 0, 1] true true true [.sched 0, .sched 1, .sched 1, .sched 1]

example : retained sC = 3 ∧ (closeAllF sC .raises).2 = (.busy, false) ∧
    isBusy (sC.kid 1).pc = true ∧ isBusy (sC.kid 0).pc = false ∧
    ((closeAllF sC .raises).1.kid 0).buf = none ∧ (closeAllF sC .raises).1.kid 2 = sC.kid 2 ∧
    retained (closeAllF sC .raises).1 = 2 := by
  decide

/-- `C09_tee_close_idempotent` after an error and after a busy abort -/
example : closeAllF (closeAllF sA .raises).1 .raises = ((closeAllF sA .raises).1, .closed, false) ∧
    closeAllF (closeAllF sC .ok).1 .raises = ((closeAllF sC .ok).1, .busy, false) := by
  decide

/-- `C04_tee_close_agrees_with_machine` -/
example : canClose sA .ok = sA.closeable ∧ closeAllF sA .ok = ((step sA .closeAll).1, .closed, false) := by
  decide

end AsyncVerif.TeeClose
