import AsyncVerif.Proofs.GroupByFault
import AsyncVerif.Proofs.GroupByRuns
/-!
# C16 under faults — groupby matches itertools.groupby also when the key function or the source raises

Model: `Machines/GroupByFault.lean`.  `stepIF` = asyncstdlib (`GroupBy.__anext__`, `_Grouper.__anext__`,
`_GroupByState.step`), `stepSF` = CPython 3.12 `itertoolsmodule.c` (`groupby_next`, `_grouper_next`, `groupby_step`).
The source is a script of responses: `item v k` | `keyErr v e` (the key function raises `e` on `v`) | `srcErr e`
(the pull raises `e`).  The consumer catches every exception and carries on with the same handles.
-/
namespace AsyncVerif.GroupByFault
open AsyncVerif.GroupBy (Val Key Op)

/-- For EVERY script (any mixture of items, items whose key computation raises, and raising pulls) and EVERY
    sequence of operations {advance the groupby, advance group handle g, close group handle g}, asyncstdlib's
    groupby and CPython's groupby produce the same outputs (keys, group handles, items, stops, exceptions) and have
    consumed the same number of script entries after every single operation. -/
theorem C16_refines_under_faults (script : List Resp) (ops : List Op) :
    run stepIF (init script) ops = run stepSF (init script) ops ∧
    consumed stepIF script.length (init script) ops = consumed stepSF script.length (init script) ops := by
  refine ⟨run_eq ops (init script) (init_inv script), ?_⟩
  unfold consumed
  rw [remaining_eq ops (init script) (init_inv script)]

/-- The simulation behind `C16_refines_under_faults`: on every consistent state (`Inv`: the states reachable from
    `init`) one operation of the two machines yields the same output AND the same successor state, which is
    consistent again. -/
theorem C16_fault_step_agrees (s : St) (h : Inv s) (op : Op) :
    stepIF s op = stepSF s op ∧ Inv (stepIF s op).1 :=
  ⟨step_eq s h op, stepIF_inv s h op⟩

/-! Non-vacuity: a run with a failing key inside a group, a failing pull at an advance (which detaches the
    group: handle 0 is stale afterwards), a failing key in the middle of the scan loop, and the consumer
    carrying on each time.  Both machines, outputs and consumption. -/
example : run stepIF (init [.item 1 0, .keyErr 2 7, .item 3 0, .srcErr 8, .item 4 1, .keyErr 5 9, .item 6 1])
    [.adv, .grpNext 0, .grpNext 0, .grpNext 0, .adv, .grpNext 0, .adv, .adv, .grpNext 1, .adv]
  = [.key 0 0, .item 1, .exc 7, .item 3, .exc 8, .stop, .key 1 1, .exc 9, .stop, .stop] := by decide
example : run stepSF (init [.item 1 0, .keyErr 2 7, .item 3 0, .srcErr 8, .item 4 1, .keyErr 5 9, .item 6 1])
    [.adv, .grpNext 0, .grpNext 0, .grpNext 0, .adv, .grpNext 0, .adv, .adv, .grpNext 1, .adv]
  = [.key 0 0, .item 1, .exc 7, .item 3, .exc 8, .stop, .key 1 1, .exc 9, .stop, .stop] := by decide
example : consumed stepIF 7 (init [.item 1 0, .keyErr 2 7, .item 3 0, .srcErr 8, .item 4 1, .keyErr 5 9, .item 6 1])
    [.adv, .grpNext 0, .grpNext 0, .grpNext 0, .adv, .grpNext 0, .adv, .adv, .grpNext 1, .adv]
  = [1, 1, 2, 3, 4, 4, 5, 6, 6, 7] := by decide

/-- On scripts without faults the new machines are the existing ones (`Machines/GroupBy.lean`): for every input
    and every operation sequence, `stepIF` produces the outputs of `stepI` and `stepSF` those of `stepS`, and they
    leave the same number of items unread after every operation.  Hence every existing C16 theorem carries over
    to the fault machines on fault-free scripts. -/
theorem C16_fault_free_agrees (items : List (Val × Key)) (ops : List Op) :
    run stepIF (init (ofItems items)) ops = (GroupBy.run GroupBy.stepI (GroupBy.init items) ops).map liftOut ∧
    run stepSF (init (ofItems items)) ops = (GroupBy.run GroupBy.stepS (GroupBy.init items) ops).map liftOut ∧
    remaining stepIF (init (ofItems items)) ops = remaining0 GroupBy.stepI (GroupBy.init items) ops ∧
    remaining stepSF (init (ofItems items)) ops = remaining0 GroupBy.stepS (GroupBy.init items) ops := by
  rw [← embed_init]
  exact ⟨run_embed stepIF_embed ops _, run_embed stepSF_embed ops _,
    remaining_embed stepIF_embed ops _, remaining_embed stepSF_embed ops _⟩

/-- The per-operation form of `C16_fault_free_agrees`: on the image of a fault-free state, one operation of the
    fault machine is the operation of the fault-free machine (state and output). -/
theorem C16_fault_free_step (s : GroupBy.St) (op : Op) :
    stepIF (embed s) op = (embed (GroupBy.stepI s op).1, liftOut (GroupBy.stepI s op).2) ∧
    stepSF (embed s) op = (embed (GroupBy.stepS s op).1, liftOut (GroupBy.stepS s op).2) :=
  ⟨stepIF_embed s op, stepSF_embed s op⟩

/-- An existing theorem carried over (`C16_full_consumption`): on a fault-free script the draining consumer sees,
    run by run, key / items / stop — on the fault machine of either library. -/
theorem C16_full_consumption_fault_free (items : List (Val × Key)) :
    run stepIF (init (ofItems items)) (GroupBy.fullOps 0 (GroupBy.runs items)) =
      (GroupBy.fullOuts 0 (GroupBy.runs items)).map liftOut ∧
    run stepSF (init (ofItems items)) (GroupBy.fullOps 0 (GroupBy.runs items)) =
      (GroupBy.fullOuts 0 (GroupBy.runs items)).map liftOut := by
  have h := C16_fault_free_agrees items (GroupBy.fullOps 0 (GroupBy.runs items))
  refine ⟨?_, ?_⟩
  · rw [h.1, GroupBy.full_consumption]
  · rw [h.2.1, ← GroupBy.run_eq _ _ (GroupBy.init_inv items), GroupBy.full_consumption]

example : run stepIF (init (ofItems [(1,0),(2,0),(3,1)])) (GroupBy.fullOps 0 (GroupBy.runs [(1,0),(2,0),(3,1)])) =
    [.key 0 0, .item 1, .item 2, .stop, .key 1 1, .item 3, .stop, .stop] := by decide
example : ofItems [(1,0),(3,1)] = [.item 1 0, .item 3 1] := by decide

/-- An item whose key raised is DROPPED, and a raised exception is delivered exactly once, in order:
    for every script and every operation sequence,
    (1) the items delivered by the group handles, in delivery order, are a subsequence of the values of the
        SUCCESSFUL script entries (`values` skips `keyErr`/`srcErr` entries) — a `keyErr v e` entry contributes
        nothing to any group;
    (2) in particular a value that only occurs in failing entries is never delivered;
    (3) the exceptions delivered over the run are exactly the faults of the consumed prefix of the script, in
        script order (none lost, none duplicated, none invented). -/
theorem C16_failed_item_dropped (script : List Resp) (ops : List Op) :
    (delivered (run stepIF (init script) ops)).Sublist (values script) ∧
    (∀ v, (∀ k, Resp.item v k ∉ script) → Out.item v ∉ run stepIF (init script) ops) ∧
    (∃ pulled, script = pulled ++ (final stepIF (init script) ops).script ∧
      raised (run stepIF (init script) ops) = faults pulled) := by
  have hsub : (delivered (run stepIF (init script) ops)).Sublist (values script) := by
    simpa [pend, init] using run_delivered ops (init script)
  refine ⟨hsub, ?_, run_raised ops (init script)⟩
  intro v hv hmem
  have h1 : v ∈ delivered (run stepIF (init script) ops) :=
    List.mem_filterMap.mpr ⟨_, hmem, rfl⟩
  have h2 : v ∈ values script := hsub.subset h1
  obtain ⟨x, hx, hxv⟩ := List.mem_filterMap.mp h2
  cases x with
  | item v' k => simp only [valOf, Option.some.injEq] at hxv; subst hxv; exact hv k hx
  | keyErr v' e => simp [valOf] at hxv
  | srcErr e => simp [valOf] at hxv

/-- The same for CPython's algorithm (by `C16_refines_under_faults`). -/
theorem C16_failed_item_dropped_cpython (script : List Resp) (ops : List Op) :
    (delivered (run stepSF (init script) ops)).Sublist (values script) ∧
    (∀ v, (∀ k, Resp.item v k ∉ script) → Out.item v ∉ run stepSF (init script) ops) ∧
    (∃ pulled, script = pulled ++ (final stepSF (init script) ops).script ∧
      raised (run stepSF (init script) ops) = faults pulled) := by
  rw [← run_eq ops (init script) (init_inv script), ← final_eq ops (init script) (init_inv script)]
  exact C16_failed_item_dropped script ops

/-- The exception is delivered by exactly the operation that pulled the failing entry: in ANY state, the script
    entries one operation consumes are some successful entries `pre` followed either by nothing — then the
    operation reports no exception — or by exactly one failing entry `x`, the LAST entry it consumes — then the
    operation reports precisely the exception of `x`.  So a fault is never swallowed, never deferred to a later
    operation, and an operation never reads on after a fault. -/
theorem C16_fault_delivered_by_puller (s : St) (op : Op) :
    ∃ pre, (∀ x ∈ pre, faultOf x = none) ∧
      ((outExc (stepIF s op).2 = none ∧ s.script = pre ++ (stepIF s op).1.script) ∨
       (∃ x e, outExc (stepIF s op).2 = some e ∧ faultOf x = some e ∧
          s.script = pre ++ x :: (stepIF s op).1.script)) :=
  (stepIF_pulled s op).explicit

/-- A raising group pull leaves the shared state exactly as it was (buffered value, keys, current group — the
    handle stays live — and handed-out groups); only the failing script entry is gone. -/
theorem C16_failed_group_pull_keeps_state (s : St) (g : Nat) (e : Exc) (h : (grpNextI s g).2 = .exc e) :
    (grpNextI s g).1 = { s with script := (grpNextI s g).1.script } :=
  grpNextI_exc_state s g e h

/-- A raising advance of the groupby has already detached the previous group (`state.current_group = None` /
    `gbo->currgrouper = NULL` come first in both libraries): afterwards NO group handle is live. -/
theorem C16_failed_advance_detaches (s : St) (e : Exc) (h : (advI s).2 = .exc e) (g : Nat) :
    (advI s).1.grp = none ∧ (grpNextI (advI s).1 g).2 = .stop := by
  have hg := advI_exc_grp s e h
  refine ⟨hg, ?_⟩
  unfold grpNextI
  rw [if_pos (by rw [hg]; simp)]

/-! Non-vacuity: value 2 only occurs in a failing entry and is dropped; the faults of the consumed prefix are
    reported in order; a step that pulls `[item 3 0, keyErr 5 9]` in its scan loop reports 9 and stops there. -/
example : delivered (run stepIF (init [.item 1 0, .keyErr 2 7, .item 3 0, .srcErr 8, .item 4 1])
    [.adv, .grpNext 0, .grpNext 0, .grpNext 0, .grpNext 0, .grpNext 0]) = [1, 3] := by decide
example : values [.item 1 0, .keyErr 2 7, .item 3 0, .srcErr 8, .item 4 1] = [1, 3, 4] := by decide
example : raised (run stepIF (init [.item 1 0, .keyErr 2 7, .item 3 0, .srcErr 8, .item 4 1])
    [.adv, .grpNext 0, .grpNext 0, .grpNext 0, .grpNext 0, .grpNext 0]) = [7, 8] ∧
    faults [.item 1 0, .keyErr 2 7, .item 3 0, .srcErr 8] = [7, 8] ∧
    (final stepIF (init [.item 1 0, .keyErr 2 7, .item 3 0, .srcErr 8, .item 4 1])
      [.adv, .grpNext 0, .grpNext 0, .grpNext 0, .grpNext 0, .grpNext 0]).script = [] := by decide
example : stepIF ⟨[.item 3 0, .keyErr 5 9, .item 6 1], some 1, some 0, some 0, some 0, [0]⟩ .adv =
    (⟨[.item 6 1], some 3, some 0, some 0, none, [0]⟩, .exc 9) := by decide
example : (grpNextI ⟨[.keyErr 5 9, .item 6 0], none, some 0, some 0, some 0, [0]⟩ 0) =
    (⟨[.item 6 0], none, some 0, some 0, some 0, [0]⟩, .exc 9) := by decide

end AsyncVerif.GroupByFault
