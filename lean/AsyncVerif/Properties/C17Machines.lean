import AsyncVerif.Proofs.C17Machines
/-!
# C17 on the schedule-driven machines — a task is suspended only inside a user awaitable

`Properties/C17.lean` is about the S1 tools (the loop channel is a function of the visible log).
The stateful parts of the library are modelled by the S2 machines, which make every suspension
point EXPLICIT: one scheduling step (`Op.sched i`, `SOp.send t`, ...) runs a task from its current
suspension point to its next one, and the correspondence harness performs exactly one real
`coro.send` per machine step and compares the token the real coroutine yields with the machine's
output.  So "where can a task be suspended" is a question about the machines' program counters and
outputs, and this file answers it, machine by machine:

* `C17_<m>_suspends_only_in_user_awaitables` — for EVERY state (reachable or not) and every step:
  if the step's output says that the task ended suspended, the task's new program counter is one
  of the positions *inside a user awaitable* (the user's lock, the user source's `__anext__`, the
  user getter, the wrapped user function, the user's generator / `__aenter__` / `__aexit__`, the
  decorated user function), and it is there because the suspension script of that user awaitable
  says so: either the task was already suspended in it with one more suspension to go, or the step
  started the awaitable and its scripted number of suspensions is positive.  There is no
  library-internal suspension point.  For reachable states the lock statements are sharpened with
  the existing invariants (the lock is held by ANOTHER task that is itself inside a user awaitable).
* `C17_<m>_sync_arguments_never_suspend` — if the scripts say that no user awaitable ever suspends,
  no step of any run (all operation sequences, by induction) reports a suspension, no task is ever
  left inside a user awaitable, and every lock is free between two steps: every operation
  completes within the step that started it.

Machines covered: tee (`Machines/Tee.lean`), cached_property (`Machines/CachedProperty.lean`),
lru_cache's concurrent part (`Machines/Lru.lean`, `sendTask`/`schedStep`), context managers used as
decorators (`Machines/Decorator.lean`), and the asynctools adapters (`Machines/Adapters.lean`, whose
steps list the tokens reaching the loop as `Ev.susp` events).
Not covered because they do not model suspensions: `Machines/ContextManager.lean` ("awaits inside
the generator are transparent and not modelled"), `ExitStack.lean`, `GroupBy.lean`,
`GroupByFault.lean` (pure decision logic / atomic steps), `Borrow.lean` and `Cleanup.lean` (their only
suspension is the one a cancellation is thrown into, which is by construction the one inside the
user iterator's `__anext__` / `aclose`; it has no scripted count).
-/

/-! ## tee -/
namespace AsyncVerif.Tee

/-- **tee: a consumer is suspended only inside the user's lock or the user's source** — every
    state, reachable or not, every operation.  If an operation reports `suspSrc`, it was a `send`
    on an existing consumer `i`, child `i` is now at `fetching k` (inside the user source's
    `__anext__`, `k` more suspensions to come), and that is what the suspension script says: the
    child was at `fetching (k+1)` before, or the step started pull number `s.pulls` of a live source
    and `suspPat[s.pulls] = k + 1 > 0` (`InUserPull`).  If it reports `suspLock`, it was a `send` on
    an existing consumer `i`, child `i` is now at `acquiring` (inside the user lock's `__aenter__`)
    and the lock is held, by the same child before and after the step (`InUserLock`).  No other
    operation (`aclose()` of a child, `Tee.aclose()`, a cancellation) ever ends suspended, and a
    `send` has no third way of not completing (`C17_tee_send_completes_or_suspends_in_user_code`). -/
theorem C17_tee_suspends_only_in_user_awaitables (s : St) (op : Op) :
    ((step s op).2 = .suspSrc →
      ∃ i, op = .sched i ∧ i < s.kids.length ∧ InUserPull s (step s op).1 i) ∧
    ((step s op).2 = .suspLock →
      ∃ i, op = .sched i ∧ i < s.kids.length ∧ InUserLock s (step s op).1 i) := by
  constructor
  · intro h
    obtain ⟨i, rfl, hi⟩ := step_susp_is_sched s op (Or.inl h)
    simp only [step, hi, if_true] at h ⊢
    exact ⟨i, rfl, hi, (sched_susp s i hi).2 h⟩
  · intro h
    obtain ⟨i, rfl, hi⟩ := step_susp_is_sched s op (Or.inr h)
    simp only [step, hi, if_true] at h ⊢
    exact ⟨i, rfl, hi, (sched_susp s i hi).1 h⟩

/-- **tee: a `send` completes or is suspended in user code** — every reachable state: one `send`
    on a consumer delivers an item, ends the iteration or finds the task finished
    (`Out.completed`), or it reports one of the two suspensions of
    `C17_tee_suspends_only_in_user_awaitables`; there is no other outcome. -/
theorem C17_tee_send_completes_or_suspends_in_user_code (items n susp lock closeable dies ops)
    (i : Nat) :
    let s := reach items n susp lock closeable dies ops
    (step s (.sched i)).2.completed ∨ (step s (.sched i)).2 = .suspSrc ∨
      (step s (.sched i)).2 = .suspLock := by
  intro s
  have hne := (reach_inv items n susp lock closeable dies ops).step_noerr (.sched i)
  simp only [step] at hne ⊢
  split
  · rcases sched_out s i with h | h | h
    · exact Or.inl h
    · rename_i hi; simp only [s, hi, if_true] at hne h; exact absurd h hne
    · exact Or.inr h
  · left; trivial

/-- **tee: waiting for the lock means waiting for a user pull** — every reachable state: if a
    `send` on consumer `i` ends in `suspLock`, then a lock was supplied (`NoLock` never suspends),
    and the lock is held by ANOTHER child `h` which is itself suspended inside the user source's
    `__anext__` — the library never holds the lock across a suspension point of its own. -/
theorem C17_tee_lock_wait_is_behind_a_user_pull (items n susp lock closeable dies ops) (i : Nat)
    (h : (step (reach items n susp lock closeable dies ops) (.sched i)).2 = .suspLock) :
    lock = true ∧ i < n ∧
    ((step (reach items n susp lock closeable dies ops) (.sched i)).1.kid i).pc = .acquiring ∧
    ∃ h, h ≠ i ∧ h < n ∧ (reach items n susp lock closeable dies ops).holder = some h ∧
      isFetching ((reach items n susp lock closeable dies ops).kid h).pc = true := by
  have hinv := reach_inv items n susp lock closeable dies ops
  obtain ⟨j, hj, hi, hpc, hh, hhold, _⟩ :=
    (C17_tee_suspends_only_in_user_awaitables _ _).2 h
  cases hj
  obtain ⟨hlt, hw, hf⟩ := hinv.holder_lt hh hhold
  rw [reach_len] at hi hlt
  rw [reach_withLock] at hw
  refine ⟨hw, hi, hpc, hh, ?_, hlt, hhold, hf⟩
  rintro rfl
  -- child `i` itself is not inside the source when its `send` ends in `suspLock`
  have hi' : hh < (reach items n susp lock closeable dies ops).kids.length := by
    rw [reach_len]; exact hi
  simp only [step, hi', if_true] at h
  unfold sched at h
  split at h
  · split at h
    · simp at h
    · rename_i hp; rw [hp] at hf; simp [isFetching] at hf
    · rename_i hp; rw [hp] at hf; simp [isFetching] at hf
    · rename_i hp; rw [hp] at hf; simp [isFetching] at hf
    · exact absurd h (completeFetch_nosusp _ _).2
    · simp at h
  · simp at h

/-- **tee: every suspension inside the source is one the script asks for** — every reachable
    state: if a `send` on consumer `i` ends in `suspSrc`, child `i` is at `fetching k` inside a pull
    of the user's source that has been started (pull number `m`, below the number of pulls made so
    far) and `k < susp[m]`: the suspension just reported is one of the `susp[m]` suspensions the
    user's `__anext__` makes in that pull; the library adds none. -/
theorem C17_tee_suspension_within_script (items n susp lock closeable dies ops) (i : Nat)
    (h : (step (reach items n susp lock closeable dies ops) (.sched i)).2 = .suspSrc) :
    ∃ k m, ((step (reach items n susp lock closeable dies ops) (.sched i)).1.kid i).pc = .fetching k ∧
      m < (step (reach items n susp lock closeable dies ops) (.sched i)).1.pulls ∧
      k < susp.getD m 0 := by
  obtain ⟨j, hj, _, k, hk, _⟩ := (C17_tee_suspends_only_in_user_awaitables _ _).1 h
  cases hj
  have hw := (reach_within items n susp lock closeable dies ops).step (.sched i)
  obtain ⟨m, h1, h2⟩ := hw.kid i k hk
  refine ⟨k, m, hk, h1, ?_⟩
  have hc := cfg_step (reach items n susp lock closeable dies ops) (.sched i)
  simp only [St.cfg, Prod.mk.injEq] at hc
  rw [hc.2.1, reach_suspPat] at h2
  exact h2

/-- **tee with a source that never suspends**: if every entry of the suspension script is 0, then
    in every reachable state — any number of children, with or without a lock, every sequence of
    `send`s, closes and cancellations — the lock is free, no child is inside the lock's
    `__aenter__` or the source's `__anext__`, and whatever operation comes next reports no
    suspension: every `send` delivers its item (or the end) within the step.  In particular the
    user's lock is never contended, because nobody is ever suspended while holding it. -/
theorem C17_tee_sync_arguments_never_suspend (items n susp lock closeable dies ops)
    (hsync : ∀ k ∈ susp, k = 0) (op : Op) :
    let s := reach items n susp lock closeable dies ops
    (step s op).2 ≠ .suspSrc ∧ (step s op).2 ≠ .suspLock ∧
    s.holder = none ∧ (∀ j, (s.kid j).pc ≠ .acquiring ∧ isFetching (s.kid j).pc = false) ∧
    (∀ i, (step s (.sched i)).2.completed) := by
  intro s
  obtain ⟨hq, hn⟩ := reach_quiet items n susp lock closeable dies ops hsync
  have h1 := step_quiet s op hn hq
  refine ⟨h1.2.1, h1.2.2, hq.holder, fun j => hq.kids.kid j, fun i => ?_⟩
  have h2 := step_quiet s (.sched i) hn hq
  rcases C17_tee_send_completes_or_suspends_in_user_code items n susp lock closeable dies ops i
    with h | h | h
  · exact h
  · exact absurd h h2.2.1
  · exact absurd h h2.2.2

/-! ### Examples -/

/-- a `send` that ends inside the user's source: pull 0 is scripted to suspend twice -/
example : (step (reach [1, 2] 2 [2, 0, 1] true true true []) (.sched 0)).2 = .suspSrc ∧
    ((step (reach [1, 2] 2 [2, 0, 1] true true true []) (.sched 0)).1.kid 0).pc = .fetching 1 := by
  decide
/-- a `send` that ends inside the user's lock: child 0 holds it, suspended in the source -/
example : (step (reach [1, 2] 2 [2, 0, 1] true true true [.sched 0]) (.sched 1)).2 = .suspLock ∧
    (reach [1, 2] 2 [2, 0, 1] true true true [.sched 0]).holder = some 0 := by decide
/-- why `C17_tee_suspends_only_in_user_awaitables` does not claim `withLock = true` for ARBITRARY
    states: in this unreachable state (no lock supplied, yet a holder recorded and child 0 already
    at `acquiring`) a `send` reports `suspLock`; for reachable states
    `C17_tee_lock_wait_is_behind_a_user_pull` does give `lock = true` -/
example : (step { src := [], suspPat := [], withLock := false, holder := some 1,
                  kids := [{ pc := .acquiring }, {}] } (.sched 0)).2 = .suspLock := by decide
/-- the hypothesis of `C17_tee_sync_arguments_never_suspend`, with a lock and three children -/
example : ∀ k ∈ [0, 0, 0], k = 0 := by decide
example : (trace (init [1, 2] 3 [0, 0, 0] true true true)
    [.sched 0, .sched 1, .sched 2, .sched 1, .sched 1, .sched 0]).map Prod.fst
    = [.item 1, .item 1, .item 1, .item 2, .end_, .item 2] := by decide

end AsyncVerif.Tee

/-! ## cached_property -/
namespace AsyncVerif.CachedProperty

/-- **cached_property: an awaiting task is suspended only inside the user's getter or the user's
    lock** — every state, reachable or not, every operation.  If an operation reports
    `suspended r`, it was a `sched` of some task `t`, the task is now at `getter p r k` (inside run
    `r` of the USER's getter, `k` more suspensions to come), and that is what the script of run `r`
    says: the task was at `getter p r (k+1)` before, or this step started the run and
    `cfg.susp r = k + 1 > 0`.  If it reports `blocked`, it was a `sched` of some task `t`, the task
    is now at `lockwait p` (inside `__aenter__` of the USER-supplied lock type's lock of placeholder
    `p`) and that lock is held.  Attribute access (`spawn`/`respawn`), `del` and a cancellation never
    end suspended. -/
theorem C17_cached_property_suspends_only_in_user_awaitables (cfg : Cfg) (s : State) (op : Op) :
    (∀ r, (step cfg s op).2 = .suspended r →
      ∃ t p k, op = .sched t ∧ (step cfg s op).1.pc t = .getter p r k ∧
        (s.pc t = .getter p r (k + 1) ∨ cfg.susp r = k + 1)) ∧
    ((step cfg s op).2 = .blocked →
      ∃ t p ow, op = .sched t ∧ (step cfg s op).1.pc t = .lockwait p ∧
        (step cfg s op).1.lock p = some ow) := by
  constructor
  · intro r h
    obtain ⟨t, rfl⟩ := step_susp_is_sched cfg s op (Or.inr ⟨r, h⟩)
    obtain ⟨p, k, h1, h2⟩ := (schedN_spec cfg schedFuel s t).1 r h
    exact ⟨t, p, k, rfl, h1, h2⟩
  · intro h
    obtain ⟨t, rfl⟩ := step_susp_is_sched cfg s op (Or.inl h)
    obtain ⟨p, ow, h1, h2⟩ := (schedN_spec cfg schedFuel s t).2 h
    exact ⟨t, p, ow, rfl, h1, h2⟩

/-- **cached_property: a `sched` completes or is suspended in user code** — every reachable state:
    one `send` on an awaiting task returns the value, raises the getter's exception or finds the
    task finished (`Out.completed`), or it reports one of the two suspensions of
    `C17_cached_property_suspends_only_in_user_awaitables`; there is no other outcome. -/
theorem C17_cached_property_send_completes_or_suspends_in_user_code (cfg : Cfg) (ops : List Op)
    (t : Nat) :
    (step cfg (reach cfg ops) (.sched t)).2.completed ∨
      (step cfg (reach cfg ops) (.sched t)).2 = .blocked ∨
      ∃ r, (step cfg (reach cfg ops) (.sched t)).2 = .suspended r := by
  rcases schedN_out cfg schedFuel (reach cfg ops) t with h | h | h | h
  · exact Or.inl h
  · exact Or.inr (Or.inl h)
  · exact Or.inr (Or.inr h)
  · exact absurd h (step_not_stuck cfg _ (.sched t) (reach_inv cfg ops))

/-- **cached_property: every suspension inside the getter is one the script asks for** — every
    reachable state: if a `sched` of task `t` reports `suspended r`, the task is inside getter run
    `r` with `k` suspensions still to come and `k < cfg.susp r`: this is suspension number
    `cfg.susp r - k` of the `cfg.susp r` suspensions the user's getter makes in that run. -/
theorem C17_cached_property_suspension_within_script (cfg : Cfg) (ops : List Op) (t r : Nat)
    (h : (step cfg (reach cfg ops) (.sched t)).2 = .suspended r) :
    ∃ p k, (step cfg (reach cfg ops) (.sched t)).1.pc t = .getter p r k ∧ k < cfg.susp r := by
  obtain ⟨p, k, h1, h2⟩ := (schedN_spec cfg schedFuel (reach cfg ops) t).1 r h
  refine ⟨p, k, h1, ?_⟩
  rcases h2 with h2 | h2
  · have := reach_getterBound cfg ops t p r (k + 1) h2; omega
  · omega

/-- **cached_property: waiting for the lock means waiting for a user getter** — every reachable
    state: if a `sched` of task `t` reports `blocked`, then a lock type was supplied (the default
    `nullcontext` never suspends), the task is inside `__aenter__` of the lock of a placeholder `p`,
    and that lock is owned by ANOTHER task which is itself suspended inside a run of the user's
    getter — the library holds the lock across no suspension point of its own. -/
theorem C17_cached_property_lock_wait_is_behind_a_user_getter (cfg : Cfg) (ops : List Op) (t : Nat)
    (h : (step cfg (reach cfg ops) (.sched t)).2 = .blocked) :
    cfg.lock = true ∧ ∃ p ow r k, (step cfg (reach cfg ops) (.sched t)).1.pc t = .lockwait p ∧
      (step cfg (reach cfg ops) (.sched t)).1.lock p = some ow ∧ ow ≠ t ∧
      (step cfg (reach cfg ops) (.sched t)).1.pc ow = .getter p r k := by
  obtain ⟨p, ow, h1, h2⟩ := (schedN_spec cfg schedFuel (reach cfg ops) t).2 h
  have hinv := step_inv' cfg _ (.sched t) (reach_inv' cfg ops)
  refine ⟨hinv.lockwait_lock t p h1, p, ow, ?_⟩
  rcases hinv.lock_owner p ow h2 with h3 | ⟨r, k, h3⟩
  · have := hinv.settled ow
    rw [h3] at this; simp [Pc.transient] at this
  · refine ⟨r, k, h1, h2, ?_, h3⟩
    rintro rfl
    have h1' : (step cfg (reach cfg ops) (.sched ow)).1.pc ow = .lockwait p := h1
    rw [h1'] at h3; cases h3

/-- **cached_property with a getter that never suspends**: if `cfg.susp r = 0` for every run `r`,
    then in every reachable state — any number of instances and tasks, with or without a lock
    type, every sequence of attribute accesses, `send`s, cancellations and `del`s — every lock is
    free, no task is in the middle of an `await` (`Pc.idle`: not yet started, or finished), and
    whatever operation comes next reports no suspension; every `sched` completes the whole
    `await` (returns / raises / finds the task finished) within the step.  In particular the lock
    is never contended. -/
theorem C17_cached_property_sync_arguments_never_suspend (cfg : Cfg) (hsync : ∀ r, cfg.susp r = 0)
    (ops : List Op) (op : Op) :
    (step cfg (reach cfg ops) op).2 ≠ .blocked ∧
    (∀ q, (step cfg (reach cfg ops) op).2 ≠ .suspended q) ∧
    (∀ p, (reach cfg ops).lock p = none) ∧ (∀ t, ((reach cfg ops).pc t).idle) ∧
    (∀ t, (step cfg (reach cfg ops) (.sched t)).2.completed) := by
  have hi := reach_idle cfg hsync ops
  have h1 := step_sync cfg hsync _ op (reach_inv cfg ops) hi
  refine ⟨h1.2.1, h1.2.2, hi.locks, hi.pcs, fun t => ?_⟩
  have h2 := step_sync cfg hsync _ (.sched t) (reach_inv cfg ops) hi
  rcases C17_cached_property_send_completes_or_suspends_in_user_code cfg ops t with h | h | ⟨r, h⟩
  · exact h
  · exact absurd h h2.2.1
  · exact absurd h (h2.2.2 r)

/-! ### Examples -/

/-- a getter whose first run suspends twice, with a lock: task 0 ends inside the getter, task 1
    (same instance) ends inside the lock, and both then complete with the value of run 0 -/
private def cfgA : Cfg := ⟨true, fun r => if r = 0 then 2 else 0, fun _ => true⟩
example : outs cfgA State.init [.spawn 0, .spawn 0, .sched 0, .sched 1, .sched 0, .sched 0, .sched 1]
    = [.handle (.ph 0), .handle (.ph 0), .suspended 0, .blocked, .suspended 0, .ret 0, .ret 0] := by
  decide
/-- the hypothesis of `C17_cached_property_sync_arguments_never_suspend` -/
private def cfgB : Cfg := ⟨true, fun _ => 0, fun r => r != 1⟩
example : ∀ r, cfgB.susp r = 0 := fun _ => rfl
example : outs cfgB State.init [.spawn 0, .spawn 0, .sched 1, .sched 0, .del 0, .spawn 0, .sched 2, .spawn 0, .sched 3]
    = [.handle (.ph 0), .handle (.ph 0), .ret 0, .ret 0, .deleted, .handle (.ph 1), .raised 1,
       .handle (.ph 1), .ret 2] := by
  decide

end AsyncVerif.CachedProperty

/-! ## lru_cache, overlapping calls -/
namespace AsyncVerif.Lru

/-- **lru_cache: a calling task is suspended only inside the wrapped user function** — every
    cache state, every task list (reachable or not), every scheduling step on an existing task
    `t` (`send` = one `coro.send`, `cancel` = one `coro.throw`).  If task `t` is suspended after the
    step (`waiting = some (c, k, r)`: inside call `c`, `k` more suspensions to come, then result
    `r`), then either the step was a `send` and the task was already inside that very call with one
    more suspension to go, or the step reached an action `call p (k+1) r` of the task's program —
    a call whose script says that the wrapped USER function suspends `k + 1 > 0` times —, the last
    thing the step did was `begin c p` with answer `started` (a cache miss: the wrapped function
    was invoked), and call `c` is in flight with pattern `p`.  Cache hits, `cache_clear`,
    `cache_discard`, `cache_info` and everything `__call__` does after the wrapped function
    returned (re-check, insert, evict) never suspend. -/
theorem C17_lru_suspends_only_in_user_awaitables (cfg : Cfg) (x : CSt × List Task) (op : SOp)
    (t : Nat) (hop : op = .send t ∨ op = .cancel t) (tk : Task) (h0 : x.2[t]? = some tk) :
    ∃ tk', (schedStep cfg x op).1.2[t]? = some tk' ∧ ∀ c k r, tk'.waiting = some (c, k, r) →
      (op = .send t ∧ tk.waiting = some (c, k + 1, r)) ∨
      ∃ p, Act.call p (k + 1) r ∈ tk.prog ∧
        (schedStep cfg x op).2.getLast? = some (.begin c p, .started) ∧
        lookupCall c (schedStep cfg x op).1.1.inflight = some p := by
  have hlt : t < x.2.length := by
    rcases Nat.lt_or_ge t x.2.length with h | h
    · exact h
    · rw [List.getElem?_eq_none h] at h0; cases h0
  rcases hop with rfl | rfl
  · simp only [schedStep, h0]
    refine ⟨_, getElem?_setTask _ _ _ hlt, fun c k r hw => ?_⟩
    rcases sendTask_waiting cfg t tk x.1 c k r hw with h | h
    · exact Or.inl ⟨trivial, h⟩
    · exact Or.inr h
  · simp only [schedStep, h0]
    refine ⟨_, getElem?_setTask _ _ _ hlt, fun c k r hw => ?_⟩
    obtain ⟨_, he⟩ := cancelTask_waiting cfg t tk x.1 c k r hw
    rw [he] at hw ⊢
    rcases sendTask_waiting cfg t tk x.1 c k r hw with h | h
    · rename_i hn; rw [hn] at h; cases h
    · exact Or.inr h

/-- **lru_cache with a wrapped function that never suspends**: if no task starts inside a call and
    every call of every program is scripted with 0 suspensions (`Task.sync`), then after every
    schedule of `send`s and cancellations — any cache variant, any number of tasks — no task is
    suspended and no call is in flight, the same holds after whatever step comes next, and a step
    on an existing task runs its WHOLE remaining program within that step (the task is left at
    the end of its program): every `__call__` — hit or miss —, `cache_clear`, `cache_discard`,
    `cache_info` completes without suspending at all. -/
theorem C17_lru_sync_arguments_never_suspend (cfg : Cfg) (tasks : List Task)
    (hsync : ∀ tk ∈ tasks, tk.sync) (sched : List SOp) (op : SOp) :
    let x := schedFinal cfg (CSt.init, tasks) sched
    (∀ tk ∈ x.2, tk.waiting = none) ∧ x.1.inflight = [] ∧
    (∀ tk ∈ (schedStep cfg x op).1.2, tk.waiting = none) ∧
    (schedStep cfg x op).1.1.inflight = [] ∧
    (∀ t tk, (op = .send t ∨ op = .cancel t) → x.2[t]? = some tk →
      (schedStep cfg x op).1.2[t]? = some ⟨[], tk.pc + tk.prog.length, none⟩) := by
  intro x
  obtain ⟨h1, h2⟩ := schedFinal_sync cfg sched (CSt.init, tasks) hsync
  obtain ⟨h3, h4⟩ := schedStep_sync cfg x op h1
  refine ⟨fun tk h => (h1 tk h).1, h2, fun tk h => (h3 tk h).1, by rw [h4]; exact h2, ?_⟩
  intro t tk hop h0
  have hlt : t < x.2.length := by
    rcases Nat.lt_or_ge t x.2.length with h | h
    · exact h
    · rw [List.getElem?_eq_none h] at h0; cases h0
  have hs := h1 tk (List.mem_of_getElem? h0)
  rcases hop with rfl | rfl
  · simp only [schedStep, h0]
    rw [getElem?_setTask _ _ _ hlt, (sendTask_sync cfg t tk x.1 hs).1]
  · simp only [schedStep, h0]
    rw [getElem?_setTask _ _ _ hlt, cancelTask_sync cfg t tk x.1 hs, (sendTask_sync cfg t tk x.1 hs).1]

/-! ### Examples -/

private def k (n : Int) : Pattern := ⟨[.prim (.int n)], []⟩
private def c1 : Cfg := ⟨.bounded 1, false⟩

/-- task 0 ends inside its first call (scripted with 2 suspensions); task 1 hits nothing and ends
    inside its own call; the second `send` on task 0 continues the same user suspension -/
example : ((schedFinal c1 (CSt.init, [⟨[.call (k 1) 2 (.ok 5), .info], 0, none⟩,
      ⟨[.call (k 1) 1 (.ok 7)], 0, none⟩]) [.send 0, .send 1, .send 0]).2.map (·.waiting))
    = [some (0, 0, .ok 5), some (100, 0, .ok 7)] := by decide
/-- the hypothesis of `C17_lru_sync_arguments_never_suspend`, and a run under it: each `send` runs
    the whole program (a miss, a hit, `cache_info`) -/
example : ∀ tk ∈ [(⟨[.call (k 1) 0 (.ok 5), .call (k 1) 0 (.ok 6), .info], 0, none⟩ : Task),
    ⟨[.call (k 2) 0 (.fail 3), .clear], 0, none⟩], tk.sync := by
  intro tk h
  simp only [List.mem_cons, List.not_mem_nil, or_false] at h
  rcases h with rfl | rfl <;> exact ⟨rfl, by simp [Act.sync]⟩
example : (schedFinal c1 (CSt.init, [⟨[.call (k 1) 0 (.ok 5), .call (k 1) 0 (.ok 6), .info], 0, none⟩,
      ⟨[.call (k 2) 0 (.fail 3), .clear], 0, none⟩]) [.send 1, .send 0]).2
    = [⟨[], 3, none⟩, ⟨[], 2, none⟩] := by decide

end AsyncVerif.Lru

/-! ## context managers used as decorators -/
namespace AsyncVerif.Decorator

/-- **decorator: a decorated call is suspended only inside user code** — one `send`/`throw` on
    the coroutine `inner(*args, **kwds)` of `ContextDecorator.__call__`, for EVERY local state
    (program counter of the call, state and program of its manager's generator; reachable or not),
    both kinds of manager (`contextmanager`-created: `gb = true`; class-based: `gb = false`).  The
    generator's program is untouched, and the step either finishes the call (`Ends`), or finds it
    finished (`skipped`, nothing changes), or reports `suspended st`, and then (`InUser`):
    * `st = enter`: the call is at `entering left`; for a generator-based manager the USER's
      generator is suspended at an inner `await` (`pre k` / `post k` / `thr e k`) of a segment this
      step started and whose scripted suspension count is `k + 1 > 0` (`GenStart`), or of the
      segment it was suspended in before with `k + 1` suspensions left (`GenCont`); for a
      class-based manager the user's `__aenter__` was started by this step and is scripted to
      suspend `left + 1` times, or the call was at `entering (left + 1)`;
    * `st = body`: the call is at `body k`, inside the decorated USER function, which this step
      started with `bodySusp = k + 1`, or in which the call was at `body (k + 1)`;
    * `st = exit`: the call is at `exiting o left`, inside the user's generator / `__aexit__`, in
      the same two ways.
    So `_recreate_cm()`, the `async with` statement, `__aenter__`/`__aexit__` of
    `_AsyncGeneratorContextManager` contribute no suspension point of their own. -/
theorem C17_decorator_call_suspends_only_in_user_awaitables (gb : Bool) (cc : CallCfg) (l : Local)
    (cop : COp) :
    (callStep gb cc l cop).1.cell.prog = l.cell.prog ∧
    (Ends (callStep gb cc l cop) ∨
     ((callStep gb cc l cop).2.2 = .skipped ∧ (callStep gb cc l cop).1 = l) ∨
     ∃ st, (callStep gb cc l cop).2.2 = .suspended st ∧ InUser gb cc l (callStep gb cc l cop).1 st) :=
  callStep_spec gb cc l cop

/-- **decorator, heap machine: a task is suspended only inside user code** — every heap state
    (store of generator objects, calls, references; reachable or not) and every scheduling
    operation (`send` or `throw` on the task of call `op.call`).  If the operation reports
    `suspended st`, the call exists in the configuration, and with `l` = what the call sees when
    its coroutine runs (its program counter and, through its reference, the generator of ITS
    manager — `_recreate_cm()` having run if this is the first `send`) there is a local state `l'`
    — the call's new program counter, and the new contents of the generator object the call
    refers to — such that `InUser … l l' st` holds: the suspension is one of the user's generator /
    `__aenter__` / `__aexit__` / decorated function, as scripted
    (see `C17_decorator_call_suspends_only_in_user_awaitables`). -/
theorem C17_decorator_suspends_only_in_user_awaitables (cfg : Cfg) (s : State) (op : Op) (st : Stage)
    (h : (step cfg s op).2 = .suspended st) :
    ∃ cc, cfg.calls[op.call]? = some cc ∧
      ∃ l', l'.pc = ((step cfg s op).1.calls op.call).pc ∧
        (∀ g, ((step cfg s op).1.calls op.call).gid = some g → (step cfg s op).1.gens g = l'.cell) ∧
        InUser cfg.generatorBased cc (localOf (prepared cfg s op cc) op.call cc) l' st := by
  cases hcc : cfg.calls[op.call]? with
  | none => rw [step_none cfg s op hcc] at h; cases h
  | some cc =>
    refine ⟨cc, rfl, ?_⟩
    rw [step_eq_core cfg s op cc hcc] at h ⊢
    obtain ⟨c1, c2, c3, c4⟩ :=
      core_local cfg.generatorBased (prepared cfg s op cc) op.call cc op.cop
    refine ⟨(callStep cfg.generatorBased cc (localOf (prepared cfg s op cc) op.call cc) op.cop).1,
      c2.symm, fun g hg => c4 g (by rw [← c3]; exact hg), ?_⟩
    rw [c1] at h
    rcases (callStep_spec cfg.generatorBased cc (localOf (prepared cfg s op cc) op.call cc)
      op.cop).2 with ⟨x, h1, _⟩ | ⟨h1, _⟩ | ⟨st', h1, h2⟩
    · rw [h1] at h; cases h
    · rw [h1] at h; cases h
    · rw [h1] at h; cases h; exact h2

/-- **decorator, reachable states: a suspended call is inside its OWN user generator** — after
    every schedule, with a generator-based manager: a call at `entering` holds a reference to a
    generator object that is suspended at an inner `await` before its first `yield` (`pre j`); a
    call at `body` (inside the decorated user function) holds a generator waiting at its `yield`;
    a call at `exiting o` holds a generator suspended at an inner `await` after the `yield`
    (`post j`, body ended normally) resp. in its handler of the body's exception (`thr e j`).  So
    the stage reported with a suspension names the user code the task is really in. -/
theorem C17_decorator_suspended_call_is_inside_its_own_generator (cfg : Cfg) (ops : List Op)
    (hgb : cfg.generatorBased = true) (c : Nat) :
    let s := (run cfg ops).1
    (∀ k, (s.calls c).pc = .entering k → ∃ g j, (s.calls c).gid = some g ∧ (s.gens g).pc = .pre j) ∧
    (∀ k, (s.calls c).pc = .body k → ∃ g, (s.calls c).gid = some g ∧ (s.gens g).pc = .atYield) ∧
    (∀ o k, (s.calls c).pc = .exiting o k → ∃ g j, (s.calls c).gid = some g ∧
      match o.exc with
      | none => (s.gens g).pc = .post j
      | some e => (s.gens g).pc = .thr e j) := by
  intro s
  have hrel := rel_reach cfg ops
  have hcoh0 : Coh cfg.generatorBased ((prun cfg ops).1.calls c) :=
    (pinv_run ops (pinv_init cfg)).coh c
  unfold Coh at hcoh0
  have hcoh := hcoh0 hgb
  have hgid : ∀ pc, (s.calls c).pc = pc → pc ≠ .fresh → (∀ r, pc ≠ .done r) →
      ∃ g, (s.calls c).gid = some g ∧ s.gens g = ((prun cfg ops).1.calls c).cell := by
    intro pc hpc h1 h2
    cases hg : (s.calls c).gid with
    | none =>
      rcases hrel.gbnone hgb c hg with h | ⟨r, h⟩
      · exact absurd (hpc ▸ h) h1
      · exact absurd (hpc ▸ h) (h2 r)
    | some g => exact ⟨g, rfl, (hrel.own c g hg).2.2⟩
  have hpcs : ((prun cfg ops).1.calls c).pc = (s.calls c).pc := (hrel.pcs c).symm
  refine ⟨fun k hk => ?_, fun k hk => ?_, fun o k hk => ?_⟩
  · obtain ⟨g, h1, h2⟩ := hgid _ hk (by simp) (by simp)
    have hc : ∃ j, ((prun cfg ops).1.calls c).cell.pc = .pre j := by
      have := hcoh
      rw [hpcs, hk] at this; exact this
    obtain ⟨j, hj⟩ := hc
    exact ⟨g, j, h1, by rw [h2]; exact hj⟩
  · obtain ⟨g, h1, h2⟩ := hgid _ hk (by simp) (by simp)
    have hc : ((prun cfg ops).1.calls c).cell.pc = .atYield := by
      have := hcoh
      rw [hpcs, hk] at this; exact this
    exact ⟨g, h1, by rw [h2]; exact hc⟩
  · obtain ⟨g, h1, h2⟩ := hgid _ hk (by simp) (by simp)
    have hc : match o.exc with
        | none => ∃ j, ((prun cfg ops).1.calls c).cell.pc = .post j
        | some e => ∃ j, ((prun cfg ops).1.calls c).cell.pc = .thr e j := by
      have := hcoh
      rw [hpcs, hk] at this; exact this
    cases ho : o.exc with
    | none =>
      rw [ho] at hc; obtain ⟨j, hj⟩ := hc
      exact ⟨g, j, h1, by simp only; rw [h2]; exact hj⟩
    | some e =>
      rw [ho] at hc; obtain ⟨j, hj⟩ := hc
      exact ⟨g, j, h1, by simp only; rw [h2]; exact hj⟩

/-- **decorator with user code that never suspends**: if for every call of the configuration the
    generator's three segments (resp. `__aenter__`/`__aexit__` of a class-based manager) and the
    decorated function are scripted with 0 suspensions (`Cfg.sync`), then under every schedule of
    `send`s and `throw`s no operation ever reports a suspension, every call is either not started
    or finished between two operations, and whatever operation comes next finishes its call or is
    skipped: a decorated call runs `_recreate_cm()`, enter, body and exit to completion within its
    first `send`. -/
theorem C17_decorator_sync_arguments_never_suspend (cfg : Cfg) (hsync : cfg.sync) (ops : List Op)
    (op : Op) :
    (∀ o ∈ (run cfg ops).2, ∀ st, o ≠ .suspended st) ∧
    (∀ c, ((run cfg ops).1.calls c).pc = .fresh ∨ ∃ r, ((run cfg ops).1.calls c).pc = .done r) ∧
    ((step cfg (run cfg ops).1 op).2 = .skipped ∨ ∃ r, (step cfg (run cfg ops).1 op).2 = .finished r) := by
  obtain ⟨h1, h2⟩ := runFrom_sync cfg hsync ops State.init init_sync
  refine ⟨h2, h1.pcs, ?_⟩
  have h3 := (step_sync cfg hsync _ op h1).2
  cases ho : (step cfg (run cfg ops).1 op).2 with
  | suspended st => exact absurd ho (h3 st)
  | finished r => exact Or.inr ⟨r, rfl⟩
  | skipped => exact Or.inl rfl

/-! ### Examples -/

private def gSusp : GenProg := ⟨1, .yields, 2, .stops, 1, .swallow⟩
private def pDflt : PlainProg := ⟨1, .ok, 1, .falsy, .falsy⟩
private def cfgS : Cfg :=
  { generatorBased := true, calls := [⟨gSusp, pDflt, 1, .returns 7⟩, ⟨gSusp, pDflt, 0, .raises 11⟩] }
private def s (c : Nat) : Op := ⟨c, .resume⟩
/-- every suspension reported is one of the user's generator or function, and the generator of
    call 0 is where the stage says: `pre 0`, `atYield`, `post 1`, `post 0` -/
example : (run cfgS [s 0, s 0, s 0, s 0, s 0]).2 =
    [.suspended .enter, .suspended .body, .suspended .exit, .suspended .exit, .finished (.value 7)] := by
  decide
example : [[s 0], [s 0, s 0], [s 0, s 0, s 0], [s 0, s 0, s 0, s 0]].map
    (fun ops => ((run cfgS ops).1.gens 1).pc) = [.pre 0, .atYield, .post 1, .post 0] := by decide
/-- the hypothesis of `C17_decorator_sync_arguments_never_suspend`, and a run under it -/
private def gSync : GenProg := ⟨0, .yields, 0, .stops, 0, .swallow⟩
private def cfgZ : Cfg :=
  { generatorBased := true,
    calls := [⟨gSync, ⟨0, .ok, 0, .falsy, .falsy⟩, 0, .returns 7⟩,
              ⟨gSync, ⟨0, .ok, 0, .falsy, .falsy⟩, 0, .raises 11⟩] }
example : cfgZ.sync := by
  intro cc h
  simp only [cfgZ, List.mem_cons, List.not_mem_nil, or_false] at h
  rcases h with rfl | rfl <;> exact ⟨rfl, rfl, rfl, rfl, rfl, rfl⟩
example : (run cfgZ [s 1, s 0, s 1]).2 = [.finished .none, .finished (.value 7), .skipped] := by decide

end AsyncVerif.Decorator

/-! ## asynctools adapters -/
namespace AsyncVerif.Adapters

/-- **any_iter: every token that reaches the loop is a user token** — every argument (an iterable
    of any kind, possibly produced by an awaitable `o`; elements plain or awaitable), every
    sequence of consumer operations (`__anext__` / `aclose`): a token `t` that reaches the event
    loop during the run (`Ev.susp t`) was yielded by the awaitable producing the iterable, by an
    `__anext__` of the user's source (an element's pull or the pull that finds the end), or by an
    awaitable element.  `any_iter` itself never suspends. -/
theorem C17_adapters_any_iter_suspends_only_in_user_awaitables (o : Option Outer) (src : Src)
    (ops : List Op) (t : Tok) (h : Ev.susp t ∈ trace (run anyStep (.fresh o src) ops)) :
    (∃ o', o = some o' ∧ t ∈ o'.toks) ∨ (∃ p ∈ src.items, t ∈ p.1 ∨ t ∈ p.2.toks) ∨
      t ∈ src.endToks := by
  have := any_run_toks ops (.fresh o src) t h
  simp only [anyToks, userToks, List.mem_append, mem_srcToks] at this
  rcases this with h1 | h1 | h1
  · cases o with
    | none => simp at h1
    | some o' => exact Or.inl ⟨o', rfl, h1⟩
  · exact Or.inr (Or.inl h1)
  · exact Or.inr (Or.inr h1)

/-- **await_each: every token that reaches the loop is a token of one of the awaitables** (or of
    the source's scripted pulls, which are empty for the synchronous sources `await_each` accepts);
    `await_each` itself never suspends. -/
theorem C17_adapters_await_each_suspends_only_in_user_awaitables (src : Src) (ops : List Op)
    (t : Tok) (h : Ev.susp t ∈ trace (run eachStep (.live src) ops)) :
    (∃ p ∈ src.items, t ∈ p.1 ∨ t ∈ p.2.toks) ∨ t ∈ src.endToks := by
  have := each_run_toks ops (.live src) t h
  simpa only [eachToks, mem_srcToks] using this

/-- **apply: every token that reaches the loop is a token of an awaitable argument.** -/
theorem C17_adapters_apply_suspends_only_in_user_awaitables (f : Fn) (args : List Item)
    (kwargs : List (Nat × Item)) (t : Tok) (h : Ev.susp t ∈ (apply f args kwargs).1) :
    (∃ it ∈ args, t ∈ it.toks) ∨ ∃ kv ∈ kwargs, t ∈ kv.2.toks := by
  unfold apply at h
  have h1 := susp_awaitAll args t
  have h2 := susp_awaitKw kwargs t
  rcases hr : awaitAll args with ⟨evs, res⟩
  rw [hr] at h h1
  cases res with
  | error e => exact Or.inl (h1 h)
  | ok vs =>
    simp only at h
    rcases hr2 : awaitKw kwargs with ⟨evs', res'⟩
    rw [hr2] at h h2
    cases res' with
    | error e =>
      simp only [List.mem_append] at h
      rcases h with h | h
      · exact Or.inl (h1 h)
      · exact Or.inr (h2 h)
    | ok kvs =>
      simp only [List.mem_append, List.mem_singleton] at h
      rcases h with (h | h) | h
      · exact Or.inl (h1 h)
      · exact Or.inr (h2 h)
      · cases h

/-- **sync: every token that reaches the loop while awaiting `sync(function)(*args, **kwargs)` is a
    token of the awaitable the user's callable returned** — and there is one only if the callable
    does return an awaitable. -/
theorem C17_adapters_sync_suspends_only_in_user_awaitables (f : UFn) (args : List Val)
    (kw : List (Nat × Val)) (t : Tok) (h : Ev.susp t ∈ (callSynced f args kw).1) :
    f.flavour.returnsAw = true ∧ t ∈ f.toks args kw :=
  susp_callSynced f args kw t h

/-- **adapters with only synchronous arguments**: if none of the user awaitables involved has a
    token to yield (every token list is empty), no token reaches the loop at all, whatever the
    consumer does: `any_iter`, `await_each`, `apply` and `sync` complete every operation without
    suspending. -/
theorem C17_adapters_sync_arguments_never_suspend (o : Option Outer) (src : Src) (ops : List Op)
    (ho : ∀ o', o = some o' → o'.toks = []) (hitems : ∀ p ∈ src.items, p.1 = [] ∧ p.2.toks = [])
    (hend : src.endToks = []) (f : Fn) (args : List Item) (kwargs : List (Nat × Item))
    (hargs : ∀ it ∈ args, it.toks = []) (hkw : ∀ kv ∈ kwargs, kv.2.toks = [])
    (g : UFn) (vals : List Val) (kw : List (Nat × Val)) (hg : g.toks vals kw = []) (t : Tok) :
    Ev.susp t ∉ trace (run anyStep (.fresh o src) ops) ∧
    Ev.susp t ∉ trace (run eachStep (.live src) ops) ∧
    Ev.susp t ∉ (apply f args kwargs).1 ∧ Ev.susp t ∉ (callSynced g vals kw).1 := by
  have hsrc : ¬ ((∃ p ∈ src.items, t ∈ p.1 ∨ t ∈ p.2.toks) ∨ t ∈ src.endToks) := by
    rintro (⟨p, hp, h | h⟩ | h)
    · rw [(hitems p hp).1] at h; cases h
    · rw [(hitems p hp).2] at h; cases h
    · rw [hend] at h; cases h
  refine ⟨fun h => ?_, fun h => ?_, fun h => ?_, fun h => ?_⟩
  · rcases C17_adapters_any_iter_suspends_only_in_user_awaitables o src ops t h with
      ⟨o', h1, h2⟩ | h1 | h1
    · rw [ho o' h1] at h2; cases h2
    · exact hsrc (Or.inl h1)
    · exact hsrc (Or.inr h1)
  · exact hsrc (C17_adapters_await_each_suspends_only_in_user_awaitables src ops t h)
  · rcases C17_adapters_apply_suspends_only_in_user_awaitables f args kwargs t h with
      ⟨it, h1, h2⟩ | ⟨kv, h1, h2⟩
    · rw [hargs it h1] at h2; cases h2
    · rw [hkw kv h1] at h2; cases h2
  · have := (C17_adapters_sync_suspends_only_in_user_awaitables g vals kw t h).2
    rw [hg] at this; cases this

/-! ### Examples -/

/-- an async source whose pulls suspend, with an awaitable element, behind an awaitable: the
    tokens reaching the loop are exactly the user's, in program order -/
example : (trace (run anyStep (.fresh (some ⟨9, [100], none⟩)
      ⟨.aiter, [([1], .plain 5), ([2, 3], .aw ⟨7, [4], .ok 6⟩)], [8]⟩) [.next, .next, .next])).filterMap
      (fun e => match e with | .susp t => some t | _ => none)
    = [100, 1, 2, 3, 4, 8] := by decide
/-- only synchronous arguments: a list of plain values and finished awaitables -/
example : (trace (run anyStep (.fresh none ⟨.list, [([], .plain 5), ([], .aw ⟨7, [], .ok 6⟩)], []⟩)
      [.next, .next, .next])).filterMap (fun e => match e with | .susp t => some t | _ => none) = [] := by
  decide

end AsyncVerif.Adapters
