import AsyncVerif.Properties.C04
import AsyncVerif.Proofs.SetDictFuel
import AsyncVerif.Proofs.FuelAdequate
/-!
# C04, unconditionally: the fuel proviso of the release theorems discharged

`Properties/C04.lean` proves "owned iterators are released" under the proviso that the run did not
end with the model artefact `.outOfFuel`.  `Proofs/FuelAdequate.lean` shows that the proviso holds
whenever the fuel exceeds a bound that is read off the initial world (source scripts are finite and
only ever get shorter).  Here the two are combined: for **every** world and every sufficiently large
fuel, the sources are released.

* single-source tools: `fuelBound1 s w = (w.srcs s).script.length + 1`
  (one unit per scripted reply plus one for the pull that finds the source finished; this is tight:
  with `fuel = script length` a source of all-items runs out of fuel)
* `compress d sel`: `fuelBound1 d w` (the data iterator is pulled first in every row)
* multi-source tools (`zip`, `zip(strict=True)`, `map`, `zip_longest`, `merge`, `chain`):
  `fuelBoundN srcs w = (Σ s ∈ srcs, |script s|) + 1`

`cycle` and `iter(callable, sentinel)` have no C04 theorem and terminate only because of the
consumer / the callable, not because of the sources; for `cycle` with a consumer that closes or
throws after finitely many items see `cycle_fuel_adequate` (bound `max (|script s| + 1) (2k + 3)`
with `k` the consumer's budget).
-/
namespace AsyncVerif

/-- `filter`: released in every world, for every `fuel ≥ |script s| + 1` -/
theorem C04_filter_total (fn : Option Nat) (s : Nat) (w : World) :
    ∀ fuel, fuel ≥ fuelBound1 s w → Released ((Impl.filter fn s fuel w).2.srcs s) :=
  fun fuel h => C04_filter fn s fuel w (filter_fuel_adequate fn s w fuel h)

/-- `filterfalse`: released in every world, for every `fuel ≥ |script s| + 1` -/
theorem C04_filterfalse_total (fn : Option Nat) (s : Nat) (w : World) :
    ∀ fuel, fuel ≥ fuelBound1 s w → Released ((Impl.filterfalse fn s fuel w).2.srcs s) :=
  fun fuel h => C04_filterfalse fn s fuel w (filterfalse_fuel_adequate fn s w fuel h)

/-- `enumerate`: released in every world, for every `fuel ≥ |script s| + 1` -/
theorem C04_enumerate_total (s : Nat) (start : Int) (w : World) :
    ∀ fuel, fuel ≥ fuelBound1 s w → Released ((Impl.enumerate s start fuel w).2.srcs s) :=
  fun fuel h => C04_enumerate s start fuel w (enumerate_fuel_adequate s start w fuel h)

/-- `takewhile`: released in every world, for every `fuel ≥ |script s| + 1` -/
theorem C04_takewhile_total (f s : Nat) (w : World) :
    ∀ fuel, fuel ≥ fuelBound1 s w → Released ((Impl.takewhile f s fuel w).2.srcs s) :=
  fun fuel h => C04_takewhile f s fuel w (takewhile_fuel_adequate f s w fuel h)

/-- `dropwhile` (two loops sharing the fuel): released in every world, for every `fuel ≥ |script s| + 1` -/
theorem C04_dropwhile_total (f s : Nat) (w : World) :
    ∀ fuel, fuel ≥ fuelBound1 s w → Released ((Impl.dropwhile f s fuel w).2.srcs s) :=
  fun fuel h => C04_dropwhile f s fuel w (dropwhile_fuel_adequate f s w fuel h)

/-- `starmap`: released in every world, for every `fuel ≥ |script s| + 1` -/
theorem C04_starmap_total (f s : Nat) (w : World) :
    ∀ fuel, fuel ≥ fuelBound1 s w → Released ((Impl.starmap f s fuel w).2.srcs s) :=
  fun fuel h => C04_starmap f s fuel w (starmap_fuel_adequate f s w fuel h)

/-- `accumulate`: released in every world, for every `fuel ≥ |script s| + 1` -/
theorem C04_accumulate_total (fn : Option Nat) (initial : Option Val) (s : Nat) (w : World) :
    ∀ fuel, fuel ≥ fuelBound1 s w → Released ((Impl.accumulate fn initial s fuel w).2.srcs s) :=
  fun fuel h => C04_accumulate fn initial s fuel w (accumulate_fuel_adequate fn initial s w fuel h)

/-- `batched` with valid `n ≥ 1`: released in every world, for every `fuel ≥ |script s| + 1` -/
theorem C04_batched_total (n : Nat) (hn : 1 ≤ n) (strict : Bool) (s : Nat) (w : World) :
    ∀ fuel, fuel ≥ fuelBound1 s w → Released ((Impl.batched n strict s fuel w).2.srcs s) :=
  fun fuel h => C04_batched n hn strict s fuel w (batched_fuel_adequate n strict s w fuel h)

/-- `islice`: released in every world, for every `fuel ≥ |script s| + 1` -/
theorem C04_islice_total (s start : Nat) (stop : Option Nat) (step : Nat) (w : World) :
    ∀ fuel, fuel ≥ fuelBound1 s w → Released ((Impl.islice s start stop step fuel w).2.srcs s) :=
  fun fuel h => C04_islice s start stop step fuel w (islice_fuel_adequate s start stop step w fuel h)

/-- `pairwise`: released in every world, for every `fuel ≥ |script s| + 1` -/
theorem C04_pairwise_total (s : Nat) (w : World) :
    ∀ fuel, fuel ≥ fuelBound1 s w → Released ((Impl.pairwise s fuel w).2.srcs s) :=
  fun fuel h => C04_pairwise s fuel w (pairwise_fuel_adequate s w fuel h)

/-- `all`: released in every world, for every `fuel ≥ |script s| + 1` -/
theorem C04_all_total (s : Nat) (w : World) :
    ∀ fuel, fuel ≥ fuelBound1 s w → Released ((Impl.all s fuel w).2.srcs s) :=
  fun fuel h => C04_all s fuel w (all_fuel_adequate s w fuel h)

/-- `any`: released in every world, for every `fuel ≥ |script s| + 1` -/
theorem C04_any_total (s : Nat) (w : World) :
    ∀ fuel, fuel ≥ fuelBound1 s w → Released ((Impl.any s fuel w).2.srcs s) :=
  fun fuel h => C04_any s fuel w (any_fuel_adequate s w fuel h)

/-- `sum`: released in every world, for every `fuel ≥ |script s| + 1` -/
theorem C04_sum_total (start : Option Val) (s : Nat) (w : World) :
    ∀ fuel, fuel ≥ fuelBound1 s w → Released ((Impl.sum start s fuel w).2.srcs s) :=
  fun fuel h => C04_sum start s fuel w (sum_fuel_adequate start s w fuel h)

/-- `min` / `max`: released in every world, for every `fuel ≥ |script s| + 1` -/
theorem C04_min_max_total (fn : Option Nat) (isMax : Bool) (d : Option Val) (s : Nat) (w : World) :
    ∀ fuel, fuel ≥ fuelBound1 s w → Released ((Impl.minmax fn isMax d s fuel w).2.srcs s) :=
  fun fuel h => C04_min_max fn isMax d s fuel w (minmax_fuel_adequate fn isMax d s w fuel h)

/-- `reduce`: released in every world, for every `fuel ≥ |script s| + 1` -/
theorem C04_reduce_total (f : Nat) (ini : Option Val) (s : Nat) (w : World) :
    ∀ fuel, fuel ≥ fuelBound1 s w → Released ((Impl.reduce f ini s fuel w).2.srcs s) :=
  fun fuel h => C04_reduce f ini s fuel w (reduce_fuel_adequate f ini s w fuel h)

/-- `list`: released in every world, for every `fuel ≥ |script s| + 1` -/
theorem C04_list_total (s : Nat) (w : World) :
    ∀ fuel, fuel ≥ fuelBound1 s w → Released ((Impl.list s fuel w).2.srcs s) :=
  fun fuel h => C04_list s fuel w (list_fuel_adequate s w fuel h)

/-- `tuple`: released in every world, for every `fuel ≥ |script s| + 1` -/
theorem C04_tuple_total (s : Nat) (w : World) :
    ∀ fuel, fuel ≥ fuelBound1 s w → Released ((Impl.tuple s fuel w).2.srcs s) :=
  fun fuel h => C04_tuple s fuel w (tuple_fuel_adequate s w fuel h)

/-- `nlargest` / `nsmallest`: released in every world, for every `fuel ≥ |script s| + 1` -/
theorem C04_nlargest_nsmallest_total (largest : Bool) (n : Nat) (fn : Option Nat) (s : Nat) (w : World) :
    ∀ fuel, fuel ≥ fuelBound1 s w → Released ((Impl.nBest largest n fn s fuel w).2.srcs s) :=
  fun fuel h => C04_nlargest_nsmallest largest n fn s fuel w (nBest_fuel_adequate largest n fn s w fuel h)

/-- `compress`: both iterators released in every world, for every `fuel ≥ |script d| + 1` -/
theorem C04_compress_total (d sel : Nat) (w : World) :
    ∀ fuel, fuel ≥ fuelBound1 d w →
      Released ((Impl.compress d sel fuel w).2.srcs d) ∧ Released ((Impl.compress d sel fuel w).2.srcs sel) :=
  fun fuel h => C04_compress d sel fuel w (compress_fuel_adequate d sel w fuel h)

/-- `zip`: every source released in every world, for every `fuel ≥ Σ |script s| + 1` -/
theorem C04_zip_total (srcs : List Nat) (w : World) :
    ∀ fuel, fuel ≥ fuelBoundN srcs w → ∀ s ∈ srcs, Released ((Impl.zip srcs fuel w).2.srcs s) :=
  fun fuel h => C04_zip srcs fuel w (zip_fuel_adequate srcs w fuel h)

/-- `zip(strict=True)`: every source released in every world, for every `fuel ≥ Σ |script s| + 1` -/
theorem C04_zip_strict_total (srcs : List Nat) (w : World) :
    ∀ fuel, fuel ≥ fuelBoundN srcs w → ∀ s ∈ srcs, Released ((Impl.zipStrict srcs fuel w).2.srcs s) :=
  fun fuel h => C04_zip_strict srcs fuel w (zipStrict_fuel_adequate srcs w fuel h)

/-- `map`: every source released in every world, for every `fuel ≥ Σ |script s| + 1` -/
theorem C04_map_total (f : Nat) (srcs : List Nat) (w : World) :
    ∀ fuel, fuel ≥ fuelBoundN srcs w → ∀ s ∈ srcs, Released ((Impl.map f srcs fuel w).2.srcs s) :=
  fun fuel h => C04_map f srcs fuel w (map_fuel_adequate f srcs w fuel h)

/-- `zip_longest`: every source released in every world, for every `fuel ≥ Σ |script s| + 1` -/
theorem C04_zip_longest_total (fillv : Val) (srcs : List Nat) (w : World) :
    ∀ fuel, fuel ≥ fuelBoundN srcs w →
      ∀ s ∈ srcs, Released ((Impl.zipLongest fillv srcs fuel w).2.srcs s) :=
  fun fuel h => C04_zip_longest fillv srcs fuel w (zipLongest_fuel_adequate fillv srcs w fuel h)

/-- `merge`: every source released in every world, for every `fuel ≥ Σ |script s| + 1` -/
theorem C04_merge_total (fn : Option Nat) (reverse : Bool) (srcs : List Nat) (w : World) :
    ∀ fuel, fuel ≥ fuelBoundN srcs w →
      ∀ s ∈ srcs, Released ((Impl.merge fn reverse srcs fuel w).2.srcs s) :=
  fun fuel h => C04_merge fn reverse srcs fuel w (merge_fuel_adequate fn reverse srcs w fuel h)

/-- `chain`: with `fuel ≥ Σ |script s| + 1` the run never ends with `.outOfFuel`; so whenever the
    consumer exhausts or closes it (the two cases of `C04_chain_exhausted` / `C04_chain_closed`),
    every input is released -/
theorem C04_chain_total (srcs : List Nat) (w : World) :
    ∀ fuel, fuel ≥ fuelBoundN srcs w →
      (Impl.chain srcs fuel w).1 ≠ .error .outOfFuel ∧
      ((Impl.chain srcs fuel w).1 = .ok () ∨ (Impl.chain srcs fuel w).1 = .error .genExit →
        ∀ s ∈ srcs, Released ((Impl.chain srcs fuel w).2.srcs s)) :=
  fun fuel h => ⟨chain_fuel_adequate srcs w fuel h, fun hr =>
    hr.elim (C04_chain_exhausted srcs fuel w) (C04_chain_closed srcs fuel w)⟩

/-! Non-vacuity: a concrete world.  Source 0 is an async generator that fails at its fourth use,
    source 1 a class-based iterator with two items; the predicate is truthiness of the item; the
    consumer takes two items and closes.  The bound is computed from the world (`5` resp. `7`),
    and the conclusion can be checked by evaluation. -/
private def wEx : World :=
  { srcs := fun i =>
      if i = 0 then { kind := .agen, script := [.item (.obj 1 1), .item (.obj 2 0), .item (.obj 3 1), .err 7] }
      else { kind := .aobj, script := [.item (.int 5), .item (.int 6)] },
    fns := fun _ _ args => .ok (.bool ((args.headD .none).truthy)),
    calls := fun _ => 0, cons := .run 2 .close, vis := [], rel := [] }

example : fuelBound1 0 wEx = 5 := rfl
example : fuelBoundN [0, 1] wEx = 7 := rfl
example : Released ((Impl.filter (some 0) 0 5 wEx).2.srcs 0) :=
  C04_filter_total (some 0) 0 wEx 5 (by decide)
example : ∀ fuel, fuel ≥ 5 → Released ((Impl.filter (some 0) 0 fuel wEx).2.srcs 0) :=
  C04_filter_total (some 0) 0 wEx
example : ∀ fuel, fuel ≥ 7 → ∀ s ∈ [0, 1], Released ((Impl.zipLongest .fill [0, 1] fuel wEx).2.srcs s) :=
  C04_zip_longest_total .fill [0, 1] wEx
/-- the bound is tight: one unit less and an all-items source runs out of fuel -/
example : (Impl.list 1 2 wEx).1 = .error .outOfFuel ∧ (Impl.list 1 3 wEx).1 ≠ .error .outOfFuel :=
  ⟨rfl, list_fuel_adequate 1 wEx 3 (by decide)⟩

/-- `cycle` with a consumer that takes two items and closes (budget `3`): `fuel ≥ max 5 9` is enough -/
example : ∀ fuel, fuel ≥ 9 → (Impl.cycle 0 fuel wEx).1 ≠ .error .outOfFuel :=
  fun fuel h => cycle_fuel_adequate 0 wEx 3 rfl fuel (by show fuel ≥ 5; omega) h

/-- `set`: released in every world, for every `fuel ≥ |script s| + 1` -/
theorem C04_set_total (s : Nat) (w : World) :
    ∀ fuel, fuel ≥ fuelBound1 s w → Released ((Impl.set s fuel w).2.srcs s) :=
  fun fuel h => C04_set s fuel w (set_fuel_adequate s w fuel h)

/-- `dict`: released in every world, for every `fuel ≥ |script s| + 1` -/
theorem C04_dict_total (s : Nat) (w : World) :
    ∀ fuel, fuel ≥ fuelBound1 s w → Released ((Impl.dict s fuel w).2.srcs s) :=
  fun fuel h => C04_dict s fuel w (dict_fuel_adequate s w fuel h)

/-- `sorted`: released in every world, for every `fuel ≥ |script s| + 1` -/
theorem C04_sorted_total (fn : Option Nat) (reverse : Bool) (s : Nat) (w : World) :
    ∀ fuel, fuel ≥ fuelBound1 s w → Released ((Impl.sorted fn reverse s fuel w).2.srcs s) :=
  fun fuel h => C04_sorted fn reverse s fuel w (sorted_fuel_adequate fn reverse s w fuel h)

/-- `cycle` with a consumer that closes or throws after finitely many items (`cbudget = some k`): released
    for every `fuel ≥ |script s| + 1` and `≥ 2k + 3` (an exhausting consumer makes `cycle` diverge, as in Python) -/
theorem C04_cycle_total (s : Nat) (w : World) (k : Nat) (hk : cbudget w.cons = some k) :
    ∀ fuel, fuel ≥ fuelBound1 s w → fuel ≥ 2 * k + 3 → Released ((Impl.cycle s fuel w).2.srcs s) :=
  fun fuel h1 h2 => C04_cycle s fuel w (cycle_fuel_adequate s w k hk fuel h1 h2)

end AsyncVerif
