import AsyncVerif.Proofs.Decorator
/-!
# C15 — context managers as decorators wrap every call in a fresh, paired context

Property theorems only.  Model: `Machines/Decorator.lean`.

* `run cfg ops` — the **heap machine**: `ContextDecorator.__call__`'s `inner` coroutine per call,
  `_recreate_cm()` on the first send (a new generator object in the shared store for a
  `contextmanager`-created manager, `self` for a class-based one), `Op ⟨c, .resume⟩` = one `send`
  on task `c`, `Op ⟨c, .cancel x⟩` = one `throw`.
* `prun cfg ops` — the specification machine in which every call privately owns its manager.
* `specFrom` — the per-call automaton `enter, entered, bodyBegin, bodyEnd o, exit (exception of o),
  exited resp, finish (combine o resp)`.

All statements are for every configuration (any number of calls, any scripted behaviour of
generator / manager / body, any suspension counts) and every schedule `ops` (any interleaving,
any cancellations), by induction over `ops`.
-/
namespace AsyncVerif.Decorator

/-- **Calls never interfere (refinement).** Under every schedule the heap machine — where the
    generators of all calls live in one shared store and are reached through the reference
    `_recreate_cm()` returned — produces the same scheduler-visible outputs, the same event log
    and the same program counters as the machine in which every call owns its manager privately. -/
theorem C15_refines_private (cfg : Cfg) (ops : List Op) :
    (run cfg ops).2 = (prun cfg ops).2 ∧
    (run cfg ops).1.log.map (fun e => (e.call, e.ev)) = (prun cfg ops).1.log ∧
    ∀ c, ((run cfg ops).1.calls c).pc = ((prun cfg ops).1.calls c).pc := by
  have h := rel_run (cfg := cfg) ops (rel_init cfg)
  exact ⟨h.2, h.1.log, h.1.pcs⟩

/-- **Each call gets its own generator.** After any schedule: a generator reference held by a call
    points to an object created after decoration time (index ≥ 1) that exists; two different calls
    never hold the same generator; the generator the decorating manager itself was created with
    (index 0) has never been started; and with a generator-based manager every `enter` event was
    logged by such a per-call generator. -/
theorem C15_fresh_generator (cfg : Cfg) (ops : List Op) :
    let s := (run cfg ops).1
    (∀ c g, (s.calls c).gid = some g → 1 ≤ g ∧ g < s.ngens) ∧
    (∀ c c' g, (s.calls c).gid = some g → (s.calls c').gid = some g → c = c') ∧
    s.gens 0 = dfltCell ∧
    (cfg.generatorBased = true → ∀ e ∈ s.log, e.ev = .enter → ∃ g, e.gen = some g ∧ (s.calls e.call).gid = some g) := by
  have h := rel_reach cfg ops
  refine ⟨fun c g hg => ⟨(h.own c g hg).1, (h.own c g hg).2.1⟩, h.inj, h.gen0, ?_⟩
  intro hgb e he hev
  have h1 := h.genev hgb e he hev
  have h2 := h.tagged e he
  cases hg : e.gen with
  | none => exact absurd hg h1
  | some g => exact ⟨g, rfl, by rw [← h2, hg]⟩

/-- **Enter and exit of a call run in the same manager.** Every event of call `c` — in particular
    its `enter` and its `exit` — carries the generator reference call `c` holds at the end; a
    call's reference never changes once `_recreate_cm()` has run. -/
theorem C15_same_generator (cfg : Cfg) (ops : List Op) :
    ∀ e ∈ (run cfg ops).1.log, e.gen = ((run cfg ops).1.calls e.call).gid :=
  (rel_reach cfg ops).tagged

/-- **One step of another call changes nothing of mine.** In every reachable state, an operation
    on call `c'` leaves the program counter and generator reference of every other call `c`, the
    generator object `c` holds, and the events of `c` untouched. -/
theorem C15_noninterference (cfg : Cfg) (ops : List Op) (op : Op) (c : Nat) (hc : op.call ≠ c) :
    let s := (run cfg ops).1
    let s' := (step cfg s op).1
    s'.calls c = s.calls c ∧ (∀ g, (s.calls c).gid = some g → s'.gens g = s.gens g) ∧
    proj c s'.log = proj c s.log :=
  step_other (rel_reach cfg ops) op c hc

/-- **Per-call projection.** Whatever the other calls do and however they are interleaved with it,
    call `c` behaves exactly as if only its own operations had been performed: same program
    counter, same events, same outputs to the scheduler, same state of its own generator. -/
theorem C15_projection (cfg : Cfg) (ops : List Op) (c : Nat) :
    let s := (run cfg ops).1
    let t := (run cfg (ops.filter (fun op => op.call == c))).1
    (s.calls c).pc = (t.calls c).pc ∧ proj c s.log = proj c t.log ∧
    outsOf c ops (run cfg ops).2 = (run cfg (ops.filter (fun op => op.call == c))).2 ∧
    (∀ g g', (s.calls c).gid = some g → (t.calls c).gid = some g' → s.gens g = t.gens g') := by
  have hs := rel_run (cfg := cfg) ops (rel_init cfg)
  have ht := rel_run (cfg := cfg) (ops.filter (fun op => op.call == c)) (rel_init cfg)
  obtain ⟨p1, p2, p3⟩ := pproject cfg c ops (PState.init cfg) (PState.init cfg) rfl rfl
  refine ⟨?_, ?_, ?_, ?_⟩
  · show ((runFrom cfg State.init ops).1.calls c).pc = _
    rw [hs.1.pcs c, p1]; exact (ht.1.pcs c).symm
  · show proj c (runFrom cfg State.init ops).1.log = _
    rw [proj_eq_pproj, hs.1.log, p2, ← ht.1.log, ← proj_eq_pproj]; rfl
  · show outsOf c ops (runFrom cfg State.init ops).2 = _
    rw [hs.2, p3]; exact ht.2.symm
  · intro g g' hg hg'
    have a := (hs.1.own c g hg).2.2
    have b := (ht.1.own c g' hg').2.2
    show (runFrom cfg State.init ops).1.gens g = (runFrom cfg State.init _).1.gens g'
    rw [a, b, p1]

/-- **Every call is paired.** Under every schedule, the events of each call form a run of the
    specification automaton: the manager is entered before the body starts, the body starts only
    in an established context, the exit starts after the body ended and is handed exactly the
    body's exception (or none), a failed enter is followed by neither body nor exit, and the call
    finishes with `combine (body outcome) (answer of the exit)`.  The automaton ends in the state
    that corresponds to the call's program counter. -/
theorem C15_paired (cfg : Cfg) (ops : List Op) (c : Nat) :
    specFrom .init (proj c (run cfg ops).1.log) = some (absSt ((run cfg ops).1.calls c).pc) := by
  have h := rel_run (cfg := cfg) ops (rel_init cfg)
  have hp := pinv_run (cfg := cfg) ops (pinv_init cfg)
  show specFrom .init (proj c (runFrom cfg State.init ops).1.log) = some (absSt ((runFrom cfg State.init ops).1.calls c).pc)
  rw [proj_eq_pproj, h.1.log, h.1.pcs c]
  exact hp.acc c

/-- **A finished call has one of exactly three histories**: thrown into before it started (nothing
    ran); enter failed (no body, no exit, that exception leaves); or
    `enter, entered, bodyBegin, bodyEnd o, exit (exception of o), exited resp, finish r` with
    `r = combine o resp` — the body's value if it returned, `None` if its exception was suppressed,
    the body's own exception object if the exit answered falsy, whatever the exit raised otherwise. -/
theorem C15_complete_call (cfg : Cfg) (ops : List Op) (c : Nat) (r : Result)
    (h : ((run cfg ops).1.calls c).pc = .done r) :
    CompleteShape (proj c (run cfg ops).1.log) r := by
  have := C15_paired cfg ops c
  rw [h] at this
  exact shape_of_accepted _ _ this

/-- **A running call is on its way through the same history**: at every moment the events of a
    call are a prefix of one of the three complete histories. -/
theorem C15_prefix_of_complete (cfg : Cfg) (ops : List Op) (c : Nat) :
    ∃ full r, proj c (run cfg ops).1.log <+: full ∧ CompleteShape full r :=
  prefix_of_complete _ _ (C15_paired cfg ops c)

/-- **Every call completes.** Under every schedule, a call that has been operated on (sent to or
    thrown into) at least `sendBound` times — one operation per suspension its enter, body and
    exit can take, plus one — is done: it returned or raised.  No call can be blocked, starved or
    poisoned by the other calls. -/
theorem C15_terminates (cfg : Cfg) (ops : List Op) (c : Nat) (cc : CallCfg) (hcc : cfg.calls[c]? = some cc)
    (h : sendBound cfg.generatorBased cc ≤ opsOn c ops) :
    ∃ r, ((run cfg ops).1.calls c).pc = .done r := by
  have hrel := rel_run (cfg := cfg) ops (rel_init cfg)
  have hpot := prun_pot (cfg := cfg) ops (pinv_init cfg) c cc hcc
  rw [pot_init cfg c cc hcc] at hpot
  have hz : pot cfg.generatorBased cc ((prunFrom cfg (PState.init cfg) ops).1.calls c) = 0 := by omega
  obtain ⟨r, hr⟩ := pot_zero_done _ _ _ hz
  exact ⟨r, by show ((runFrom cfg State.init ops).1.calls c).pc = _; rw [hrel.1.pcs c]; exact hr⟩

/-- **Result of a decorated call** (the `async with` statement around `return await func(...)`):
    a returned value passes whatever the exit returns; a body exception is suppressed by a truthy
    answer (the call returns `None`) and re-raised as the same object by a falsy one; an exception
    raised by the exit replaces both. -/
theorem C15_combine (v : Nat) (e x : Exc) (b : Bool) :
    combine (.returned v) (.returned b) = .value v ∧
    combine (.raised e) (.returned true) = .none ∧
    combine (.raised e) (.returned false) = .raised e ∧
    combine (.returned v) (.raised x) = .raised x ∧
    combine (.raised e) (.raised x) = .raised x := by
  cases b <;> simp [combine]

/-! ## Non-vacuity: concrete schedules -/

private def gSusp : GenProg := ⟨1, .yields, 1, .stops, 1, .swallow⟩
private def pDflt : PlainProg := ⟨0, .ok, 0, .falsy, .falsy⟩
/-- call 0 returns 7; call 1 raises 11, which its generator swallows; call 2's generator re-raises -/
private def cfg3 : Cfg :=
  { generatorBased := true,
    calls := [⟨gSusp, pDflt, 1, .returns 7⟩, ⟨gSusp, pDflt, 1, .raises 11⟩,
              ⟨{ gSusp with thr := .reraise }, pDflt, 0, .raises 12⟩] }
private def s (c : Nat) : Op := ⟨c, .resume⟩
/-- three calls interleaved at every suspension point; call 2 is cancelled inside its exit -/
private def sched : List Op := [s 1, s 0, s 2, s 0, s 1, s 2, s 1, s 0, ⟨2, .cancel (.user 99)⟩, s 0, s 1]

example : (run cfg3 sched).2 =
    [.suspended .enter, .suspended .enter, .suspended .enter, .suspended .body, .suspended .body,
     .suspended .exit, .suspended .exit, .suspended .exit, .finished (.raised (.user 99)),
     .finished (.value 7), .finished .none] := by decide
example : proj 1 (run cfg3 sched).1.log =
    [.enter, .entered, .bodyBegin, .bodyEnd (.raised (.user 11)), .exit (some (.user 11)),
     .exited (.returned true), .finish .none] := by decide
example : (List.range 3).map (fun c => ((run cfg3 sched).1.calls c).gid) = [some 2, some 1, some 3] := by decide
example : ((run cfg3 sched).1.calls 0).pc = .done (.value 7) := by decide
example : (run cfg3 sched).1.ngens = 4 := by decide
example : sendBound true ⟨gSusp, pDflt, 1, .returns 7⟩ = 4 ∧ opsOn 0 sched = 4 := by decide
/-- a class-based manager: no generator at all, the same pairing -/
example : proj 0 (run { cfg3 with generatorBased := false } [s 0, s 0]).1.log =
    [.enter, .entered, .bodyBegin, .bodyEnd (.returned 7), .exit none, .exited (.returned false),
     .finish (.value 7)] := by decide
/-- thrown into before the first send: nothing runs, no generator is created -/
example : (run cfg3 [⟨0, .cancel (.user 5)⟩]).1.log = [⟨0, none, .finish (.raised (.user 5))⟩] ∧
    (run cfg3 [⟨0, .cancel (.user 5)⟩]).1.ngens = 1 := by decide

end AsyncVerif.Decorator
