import AsyncVerif.Proofs.CachedPropertyHandoff
/-!
# C12 under a hand-off lock — the value is published before the lock is released

Property theorems only.  Model: `Machines/CachedPropertyHandoff.lean` — the plain cached_property
machine (`Machines/CachedProperty.lean`) with a user lock whose `__aexit__` releases and THEN suspends
`hc.handoff` times before returning; while the releasing task is suspended there (`unl t = some _`)
every other task may run.  `hreach hc ops` is the state after ANY operation sequence (attribute
accesses, single task steps in any interleaving — including steps of other tasks between the
release and the end of `__aexit__` —, cancellations, `del`), for ANY environment: any number of
tasks and instances, every getter run suspending any number of times and returning or raising, any
number `handoff` of release suspensions.  `hc.lateStore = false` selects the library's order (store
inside the `async with`); `true` is the mutant that stores after `__aexit__` has returned.
-/
namespace AsyncVerif.CachedPropertyHandoff
open AsyncVerif.CachedProperty

/-- The computed value is in the instance `__dict__` before anybody can get the lock.  In EVERY
    reachable state — in particular in the states in which the lock is already free and no getter
    run is in progress while the task that released it is still suspended inside `__aexit__` —:
    if some getter run on instance i has returned since the last `del` of the attribute (`lastOk i
    = some r`, r the last such run), then the slot of i holds exactly r's value, and r is a run that
    was called with instance i and returned.  (Otherwise no run has succeeded since the last `del`:
    `lastOk i = none`.)  No hypothesis on the lock being free or on running getters is needed. -/
theorem C12_handoff_value_published_before_release (hc : HCfg) (hs : hc.lateStore = false) (ops : List Op)
    (i r : Nat) (h : (hreach hc ops).lastOk i = some r) :
    (hreach hc ops).base.slot i = some (.val r) ∧ r < (hreach hc ops).base.nRuns ∧
    ((hreach hc ops).base.run r).st = .returned ∧ ((hreach hc ops).base.run r).inst = i := by
  have hi := hreach_inv hc hs ops
  have hsl := hi.last i r h
  obtain ⟨a, b, c, _⟩ := hi.inv.slot_val i r hsl
  exact ⟨hsl, a, b, c⟩

/-- The release step itself, in EVERY state (reachable or not): when the getter run r of a task
    returns under a hand-off lock, the one step of that task stores r's value in the instance slot,
    marks the run returned, frees the lock and leaves the task suspended inside `__aexit__` with its
    result pending — the value is in the slot at the moment the lock becomes free. -/
theorem C12_handoff_release_leaves_value_in_slot (hc : HCfg) (hs : hc.lateStore = false)
    (hl : hc.cfg.lock = true) (hh : 0 < hc.handoff) (s : HState) (t p r : Nat) (hu : s.unl t = none)
    (hpc : s.base.pc t = .getter p r 0) (hok : hc.cfg.ok r = true) :
    (hstep hc s (.sched t)).2 = .handoff ∧
    (hstep hc s (.sched t)).1.base.slot (s.base.phInst p) = some (.val r) ∧
    (hstep hc s (.sched t)).1.base.lock p = none ∧
    ((hstep hc s (.sched t)).1.base.run r).st = .returned ∧
    (hstep hc s (.sched t)).1.lastOk (s.base.phInst p) = some r ∧
    (hstep hc s (.sched t)).1.unl t = some ⟨hc.handoff - 1, none⟩ ∧
    (hstep hc s (.sched t)).1.base.pc t = .done (.ok r) := by
  have hh' : hc.handoff > 0 := hh
  simp [hstep, hsched, schedFuel, hschedN, hmicro, hu, hpc, hok, hs, micro, complete, exitLock, hl, hh', setUnl, setPc,
    setRunSt, release, setLock, setSlot, setAt]

/-- A waiter that gets the lock during somebody's suspended release, in EVERY state (so whatever other
    tasks are doing inside `__aexit__`): a task blocked on placeholder p's lock that is resumed when
    the lock is free and the instance holds v acquires, finds v, starts NO getter run, changes no
    slot, frees the lock and is itself suspended inside `__aexit__` with v as its pending result. -/
theorem C12_handoff_waiter_served_during_release (hc : HCfg) (hl : hc.cfg.lock = true) (hh : 0 < hc.handoff)
    (s : HState) (t p v : Nat) (hu : s.unl t = none) (hpc : s.base.pc t = .lockwait p)
    (hfree : s.base.lock p = none) (h : s.base.slot (s.base.phInst p) = some (.val v)) :
    (hstep hc s (.sched t)).2 = .handoff ∧
    (hstep hc s (.sched t)).1.base.nRuns = s.base.nRuns ∧
    (hstep hc s (.sched t)).1.starts = s.starts ∧
    (hstep hc s (.sched t)).1.base.slot = s.base.slot ∧
    (hstep hc s (.sched t)).1.base.lock p = none ∧
    (hstep hc s (.sched t)).1.base.pc t = .done (.ok v) := by
  have hh' : hc.handoff > 0 := hh
  simp [hstep, hsched, schedFuel, hschedN, hmicro, hu, hpc, micro, exitLock, hl, hh', setUnl, setPc, hfree,
    release, setLock, instanceValue, access, h, awaitStored]

/-- With a lock, however the schedule interleaves arrivals, lock acquisitions and `del`s with the
    suspended release: on every instance, the number of getter runs STARTED since the last `del` of
    the attribute is at most one more than the number of getter runs on it that raised or were
    cancelled since then.  So between two `del`s, with no failing (or cancelled) run, the getter
    starts at most once — a task that acquires the lock while the previous holder is still inside
    `__aexit__` finds the value and does not compute again. -/
theorem C12_handoff_getter_runs_once_per_value (hc : HCfg) (hl : hc.cfg.lock = true) (hs : hc.lateStore = false)
    (ops : List Op) (i : Nat) :
    (hreach hc ops).starts i ≤ (hreach hc ops).fails i + 1 :=
  ((hreach_inv hc hs ops).once hl).le i

/-- The same at the level of the getter-run records, for EVERY history (with `del`s, failures,
    cancellations): among the getter runs started for one placeholder at most one is ever
    running-or-returned — a second run for the placeholder starts only after the first raised or was
    cancelled, never while the first is running or after it returned, whatever happens during the
    release suspensions. -/
theorem C12_handoff_lock_once_per_placeholder (hc : HCfg) (hl : hc.cfg.lock = true) (hs : hc.lateStore = false)
    (ops : List Op) (r r' : Nat)
    (hr : r < (hreach hc ops).base.nRuns) (hr' : r' < (hreach hc ops).base.nRuns)
    (hp : ((hreach hc ops).base.run r).ph = ((hreach hc ops).base.run r').ph)
    (h1 : ((hreach hc ops).base.run r).st = .running ∨ ((hreach hc ops).base.run r).st = .returned)
    (h2 : ((hreach hc ops).base.run r').st = .running ∨ ((hreach hc ops).base.run r').st = .returned) : r = r' := by
  refine (hreach_inv hc hs ops).inv.live_unique hl r r' hr hr' hp ?_ ?_
  · rcases h1 with h | h <;> rw [h] <;> trivial
  · rcases h2 with h | h <;> rw [h] <;> trivial

/-- A task suspended inside `__aexit__` has released the lock and has nothing left to do with the
    shared state: it is finished but for delivering its result (`done`), or it is about to await the
    object it read before the release (`entered`); it does not own any lock. -/
theorem C12_handoff_releaser_owns_nothing (hc : HCfg) (hs : hc.lateStore = false) (ops : List Op) (t : Nat) (u : Unl)
    (h : (hreach hc ops).unl t = some u) :
    ((∃ res, (hreach hc ops).base.pc t = .done res) ∨ (∃ p, (hreach hc ops).base.pc t = .entered p)) ∧
    (∀ p, (hreach hc ops).base.lock p ≠ some t) ∧ hc.cfg.lock = true ∧ hc.handoff ≠ 0 := by
  have hi := hreach_inv hc hs ops
  have hc' := hi.unl_pc t u h
  refine ⟨hc', ?_, unl_some_handoff hi t u h⟩
  intro p hp
  rcases hi.inv.lock_owner p t hp with e | ⟨r, k, e⟩ <;> rcases hc' with ⟨_, e'⟩ | ⟨_, e'⟩ <;> rw [e] at e' <;> cases e'

/-- Erasing the release suspensions gives the plain machine.  With `handoff = 0` (or without a lock
    type: `nullcontext.__aexit__` does not suspend) the hand-off machine IS the machine of
    `Machines/CachedProperty.lean`: for every environment and every operation sequence, the same
    state (slots, placeholders, locks, program counters, getter runs) after the sequence, the same
    output for every operation, and no task is ever inside `__aexit__`. -/
theorem C12_handoff_refines_plain (hc : HCfg) (h0 : hc.cfg.lock = false ∨ hc.handoff = 0) (hs : hc.lateStore = false)
    (ops : List Op) :
    (hreach hc ops).base = reach hc.cfg ops ∧
    houts hc HState.init ops = (outs hc.cfg State.init ops).map HOut.base ∧
    ∀ t, (hreach hc ops).unl t = none :=
  hexec_plain hc ⟨h0, hs⟩ ops HState.init (fun _ => rfl)

/-- Erasing the release suspensions of a schedule, any number `handoff` of them.  PARTIAL: for
    histories without `del` and without cancellations (accesses and task steps in any interleaving,
    any number of tasks and instances, any getter programs).  The state of the shared objects and
    of every task's continuation — slots, placeholders, locks, getter runs, program counters — after
    the schedule is the state of the plain machine after the schedule from which every step that
    only moved a task inside `__aexit__` (`eraseExit`) has been erased: what other tasks do while
    the releasing task is suspended after the release is exactly what they would do after an atomic
    release.  Not claimed: (1) outputs — the result of a releasing task is delivered by its last,
    erased step; (2) histories with `del`: then a task can leave the `async with` with another
    placeholder to await, reads the slot only after the suspensions, and the erased schedule is no
    longer equivalent (second example below); (3) cancellations: one thrown at a release suspension
    replaces the task's result, which the plain machine cannot express. -/
theorem C12_handoff_refines_plain_projected_partial (hc : HCfg) (hs : hc.lateStore = false) (ops : List Op)
    (hp : ∀ op ∈ ops, plainOp op = true) :
    (hreach hc ops).base = reach hc.cfg (eraseExit hc HState.init ops) :=
  hexec_proj hc hs ops HState.init (hinit_pinv hc) hp

/-- With a lock, on an instance whose attribute is never deleted in the history, whatever the number
    of release suspensions and however arrivals interleave with them: at most one getter run on that
    instance is ever running-or-returned — the getter succeeds at most once and no run overlaps
    another.  PARTIAL: the hypothesis excludes `del` on this instance (with a `del` during a
    computation two placeholders, each with its own lock, compute concurrently — already in the
    plain machine, `C12_lock_once_per_instance_counterexample`). -/
theorem C12_handoff_lock_once_per_instance_partial (hc : HCfg) (hl : hc.cfg.lock = true) (hs : hc.lateStore = false)
    (ops : List Op) (i : Nat) (hnodel : ∀ op ∈ ops, op ≠ .del i) (r r' : Nat)
    (hr : r < (hreach hc ops).base.nRuns) (hr' : r' < (hreach hc ops).base.nRuns)
    (hi1 : ((hreach hc ops).base.run r).inst = i) (hi2 : ((hreach hc ops).base.run r').inst = i)
    (h1 : ((hreach hc ops).base.run r).st = .running ∨ ((hreach hc ops).base.run r).st = .returned)
    (h2 : ((hreach hc ops).base.run r').st = .running ∨ ((hreach hc ops).base.run r').st = .returned) : r = r' := by
  have hi := (hreach_inv hc hs ops).inv
  have hd : (hreach hc ops).base.dels i = 0 := hexec_dels hc hs i ops _ (hinit_inv hc) hnodel
  obtain ⟨hp1, he1⟩ := hi.run_ph r hr
  obtain ⟨hp2, he2⟩ := hi.run_ph r' hr'
  have hp : ((hreach hc ops).base.run r).ph = ((hreach hc ops).base.run r').ph :=
    hi.df_inj _ _ hp1 hp2 (by rw [← he1, ← he2, hi1, hi2]) (by rw [← he1, hi1]; exact hd)
  exact C12_handoff_lock_once_per_placeholder hc hl hs ops r r' hr hr' hp h1 h2

/-- The ghost counters of `C12_handoff_getter_runs_once_per_value` mean what they say.  PARTIAL: on an
    instance whose attribute is never deleted in the history (after a `del` the counters restart,
    the run records do not): `starts i` is the number of getter-run records with instance i, and
    `fails i` the number of those whose run raised or was cancelled. -/
theorem C12_handoff_counters_are_run_counts_partial (hc : HCfg) (hs : hc.lateStore = false) (ops : List Op) (i : Nat)
    (hnodel : ∀ op ∈ ops, op ≠ .del i) :
    (hreach hc ops).starts i = countRuns (hreach hc ops).base (onInst i) (hreach hc ops).base.nRuns ∧
    (hreach hc ops).fails i = countRuns (hreach hc ops).base (failedOn i) (hreach hc ops).base.nRuns :=
  (hreach_inv hc hs ops).counts i (hexec_dels hc hs i ops _ (hinit_inv hc) hnodel)

/-- "The getter runs once per value" in terms of the getter-run records alone.  With a lock, on an
    instance whose attribute is never deleted in the history, for every number of release
    suspensions and every interleaving: the number of getter runs ever started on the instance is at
    most one more than the number of those that raised or were cancelled — if none fails, the getter
    is called at most once.  PARTIAL: no `del` on this instance (see
    `C12_handoff_getter_runs_once_per_value` for the statement between two `del`s). -/
theorem C12_handoff_runs_at_most_failures_plus_one_partial (hc : HCfg) (hl : hc.cfg.lock = true)
    (hs : hc.lateStore = false) (ops : List Op) (i : Nat) (hnodel : ∀ op ∈ ops, op ≠ .del i) :
    countRuns (hreach hc ops).base (onInst i) (hreach hc ops).base.nRuns ≤
      countRuns (hreach hc ops).base (failedOn i) (hreach hc ops).base.nRuns + 1 := by
  obtain ⟨e1, e2⟩ := C12_handoff_counters_are_run_counts_partial hc hs ops i hnodel
  rw [← e1, ← e2]
  exact C12_handoff_getter_runs_once_per_value hc hl hs ops i

/-- Model adequacy: from every reachable state every operation ends at a real suspension point (in
    the getter, on the lock, inside `__aexit__`) or at the end of the task — the micro-step budget of
    `hsched` is never exhausted. -/
theorem C12_handoff_never_stuck (hc : HCfg) (hs : hc.lateStore = false) (ops : List Op) (op : Op) :
    (hstep hc (hreach hc ops) op).2 ≠ .base .stuck :=
  hstep_not_stuck hc hs _ op (hreach_inv hc hs ops)

/-- The order matters: the MUTANT that stores after `__aexit__` has returned (`lateStore = true`)
    violates all of the above.  Two tasks await the same placeholder under a hand-off lock with one
    release suspension; task 0 computes, releases and is suspended inside `__aexit__`: the lock is
    free, no getter is running, run 0 has returned — but the slot still holds the placeholder (not
    `C12_handoff_value_published_before_release`); task 1 acquires, finds the placeholder and runs
    the getter a second time without any failure or `del` (not
    `C12_handoff_getter_runs_once_per_value`); both runs of the one placeholder return (not
    `C12_handoff_lock_once_per_placeholder`) and the two awaiters get different values. -/
theorem C12_handoff_store_after_release_counterexample :
    let hc : HCfg := ⟨⟨true, fun _ => 1, fun _ => true⟩, 1, true⟩
    let mid := hreach hc [.spawn 0, .spawn 0, .sched 0, .sched 1, .sched 0]
    let fin := hreach hc [.spawn 0, .spawn 0, .sched 0, .sched 1, .sched 0, .sched 1, .sched 0, .sched 1, .sched 1]
    (mid.base.lock 0 = none ∧ (mid.base.run 0).st = .returned ∧ mid.base.nRuns = 1 ∧ mid.lastOk 0 = some 0 ∧
      mid.base.slot 0 = some (.ph 0)) ∧
    (fin.starts 0 = 2 ∧ fin.fails 0 = 0) ∧
    ((fin.base.run 0).ph = (fin.base.run 1).ph ∧ (fin.base.run 0).st = .returned ∧ (fin.base.run 1).st = .returned) ∧
    (fin.base.pc 0 = .done (.ok 0) ∧ fin.base.pc 1 = .done (.ok 1)) := by
  decide

/-! Non-vacuity: concrete worlds and schedules on which the hypotheses hold and the machine does
    something non-trivial. -/

/-- the library's order on the schedule of the counterexample, two release suspensions: while task 0
    is suspended inside `__aexit__` the lock is free, no getter is running, and the value is there;
    task 1 acquires, is served (and hands the lock off in turn); one getter run -/
example :
    let hc : HCfg := ⟨⟨true, fun _ => 1, fun _ => true⟩, 2, false⟩
    let mid := hreach hc [.spawn 0, .spawn 0, .sched 0, .sched 1, .sched 0]
    (mid.unl 0 = some ⟨1, none⟩ ∧ mid.base.lock 0 = none ∧ (mid.base.run 0).st = .returned ∧ mid.lastOk 0 = some 0 ∧
      mid.base.slot 0 = some (.val 0)) ∧
    houts hc HState.init [.spawn 0, .spawn 0, .sched 0, .sched 1, .sched 0, .sched 1, .sched 1, .sched 0, .sched 0, .sched 1]
      = [.base (.handle (.ph 0)), .base (.handle (.ph 0)), .base (.suspended 0), .base .blocked, .handoff, .handoff,
         .handoff, .handoff, .base (.ret 0), .base (.ret 0)] ∧
    (hreach hc [.spawn 0, .spawn 0, .sched 0, .sched 1, .sched 0, .sched 1, .sched 1, .sched 0, .sched 0, .sched 1]).starts 0 = 1 := by
  decide

/-- the hypotheses of the two step theorems hold one after the other on that schedule: task 0 is at the
    end of its getter run when it is scheduled the second time, and task 1 is blocked on the free
    lock of placeholder 0, whose instance holds the value, right after -/
example :
    let hc : HCfg := ⟨⟨true, fun _ => 1, fun _ => true⟩, 2, false⟩
    let s0 := hreach hc [.spawn 0, .spawn 0, .sched 0, .sched 1]
    let s1 := hreach hc [.spawn 0, .spawn 0, .sched 0, .sched 1, .sched 0]
    (s0.unl 0 = none ∧ s0.base.pc 0 = .getter 0 0 0 ∧ hc.cfg.ok 0 = true) ∧
    (s1.unl 1 = none ∧ s1.base.pc 1 = .lockwait 0 ∧ s1.base.lock 0 = none ∧
      s1.base.slot (s1.base.phInst 0) = some (.val 0) ∧ s1.unl 0 = some ⟨1, none⟩) := by
  decide

/-- a third task arrives (attribute access) during the suspended release and gets the value itself;
    then a failing run, a `del` during a hand-off, and the recomputation: the counters move -/
example :
    let hc : HCfg := ⟨⟨true, fun _ => 0, fun r => r != 1⟩, 1, false⟩
    houts hc HState.init [.spawn 0, .sched 0, .spawn 0, .sched 1, .sched 0, .del 0, .spawn 0, .spawn 0, .sched 2, .sched 3,
        .sched 2, .sched 3, .sched 3]
      = [.base (.handle (.ph 0)), .handoff, .base (.handle (.val 0)), .base (.ret 0), .base (.ret 0), .base .deleted,
         .base (.handle (.ph 1)), .base (.handle (.ph 1)), .handoff, .handoff, .base (.raised 1), .base (.ret 2), .base .noop] ∧
    (hreach hc [.spawn 0, .sched 0, .spawn 0, .sched 1, .sched 0, .del 0, .spawn 0, .spawn 0, .sched 2, .sched 3]).starts 0 = 2 ∧
    (hreach hc [.spawn 0, .sched 0, .spawn 0, .sched 1, .sched 0, .del 0, .spawn 0, .spawn 0, .sched 2, .sched 3]).fails 0 = 1 ∧
    (hreach hc [.spawn 0, .sched 0, .spawn 0, .sched 1, .sched 0, .del 0, .spawn 0, .spawn 0, .sched 2, .sched 3]).lastOk 0 = some 2 := by
  decide

/-- `del` while a waiter that found the value is suspended inside `__aexit__`: it still returns the
    value it read before releasing (as the library does), and a cancellation thrown at the release
    suspension propagates without touching the cache -/
example :
    let hc : HCfg := ⟨⟨true, fun _ => 1, fun _ => true⟩, 2, false⟩
    houts hc HState.init [.spawn 0, .spawn 0, .sched 0, .sched 1, .sched 0, .sched 1, .del 0, .sched 1, .sched 1, .cancel 0]
      = [.base (.handle (.ph 0)), .base (.handle (.ph 0)), .base (.suspended 0), .base .blocked, .handoff, .handoff,
         .base .deleted, .handoff, .base (.ret 0), .base .cancelled] := by
  decide

/-- `C12_handoff_refines_plain` is about `handoff = 0`: with one release suspension the same schedule
    has a different output (the releasing task is still suspended where the plain machine's task
    has returned) -/
example :
    houts ⟨⟨true, fun _ => 1, fun _ => true⟩, 0, false⟩ HState.init [.spawn 0, .sched 0, .sched 0]
      = (outs ⟨true, fun _ => 1, fun _ => true⟩ State.init [.spawn 0, .sched 0, .sched 0]).map .base ∧
    houts ⟨⟨true, fun _ => 1, fun _ => true⟩, 1, false⟩ HState.init [.spawn 0, .sched 0, .sched 0]
      = [.base (.handle (.ph 0)), .base (.suspended 0), .handoff] ∧
    outs ⟨true, fun _ => 1, fun _ => true⟩ State.init [.spawn 0, .sched 0, .sched 0]
      = [.handle (.ph 0), .suspended 0, .ret 0] := by
  decide

/-- `C12_handoff_refines_plain_projected_partial` on a schedule with three tasks, one arriving during
    the release: four of the steps happen inside `__aexit__` and are erased -/
example :
    let hc : HCfg := ⟨⟨true, fun _ => 1, fun _ => true⟩, 2, false⟩
    let ops : List Op := [.spawn 0, .spawn 0, .sched 0, .sched 1, .sched 0, .spawn 0, .sched 1, .sched 2, .sched 0, .sched 1,
      .sched 0, .sched 1]
    (∀ op ∈ ops, plainOp op = true) ∧
    eraseExit hc HState.init ops = [.spawn 0, .spawn 0, .sched 0, .sched 1, .sched 0, .spawn 0, .sched 1, .sched 2] ∧
    (hreach hc ops).base.pc 1 = .done (.ok 0) ∧ (reach hc.cfg (eraseExit hc HState.init ops)).pc 1 = .done (.ok 0) := by
  decide

/-- what its hypothesis excludes: run 0 raises, a `del` and a new access happened while task 1 waited
    for the lock, so task 1 leaves the `async with` with placeholder 1 to await; a second `del`
    during its release suspension makes it create placeholder 2, whereas on the erased schedule the
    plain machine's task 1 reaches placeholder 1 before that `del` -/
example :
    let hc : HCfg := ⟨⟨true, fun _ => 1, fun r => r != 0⟩, 1, false⟩
    let ops : List Op := [.spawn 0, .spawn 0, .sched 0, .sched 1, .del 0, .spawn 0, .sched 0, .sched 1, .del 0, .sched 1]
    eraseExit hc HState.init ops = [.spawn 0, .spawn 0, .sched 0, .sched 1, .del 0, .spawn 0, .sched 0, .sched 1, .del 0] ∧
    (hreach hc ops).base.nextP = 3 ∧ (reach hc.cfg (eraseExit hc HState.init ops)).nextP = 2 := by
  decide

/-- the hypotheses of the no-`del` theorems (`C12_handoff_lock_once_per_instance_partial`,
    `C12_handoff_counters_are_run_counts_partial`, `C12_handoff_runs_at_most_failures_plus_one_partial`) on a
    history with contention and a failing first run: runs 0 (raised) and 1 (returned) -/
example :
    let hc : HCfg := ⟨⟨true, fun _ => 0, fun r => r != 0⟩, 1, false⟩
    let ops : List Op := [.spawn 0, .spawn 0, .sched 0, .sched 1, .sched 0, .sched 1]
    (∀ op ∈ ops, op ≠ .del 0) ∧ (hreach hc ops).base.nRuns = 2 ∧ ((hreach hc ops).base.run 0).st = .raised ∧
    ((hreach hc ops).base.run 1).st = .returned ∧ houts hc HState.init ops =
      [.base (.handle (.ph 0)), .base (.handle (.ph 0)), .handoff, .handoff, .base (.raised 0), .base (.ret 1)] ∧
    countRuns (hreach hc ops).base (onInst 0) (hreach hc ops).base.nRuns = 2 ∧
    countRuns (hreach hc ops).base (failedOn 0) (hreach hc ops).base.nRuns = 1 ∧
    (hreach hc ops).starts 0 = 2 ∧ (hreach hc ops).fails 0 = 1 := by
  decide

end AsyncVerif.CachedPropertyHandoff
