import AsyncVerif.Proofs.GroupBy
/-!
# C16 — groupby matches itertools.groupby under every pattern of consuming groups

Model: `Machines/GroupBy.lean`. `stepI` = asyncstdlib, `stepS` = CPython `itertoolsmodule.c`.
-/
namespace AsyncVerif.GroupBy

/-- For every input (keys with decidable, hence reflexive, equality) and every sequence of
    operations {advance groupby, advance group handle i}, asyncstdlib's groupby produces exactly
    the outputs (keys, group handles, items, stops) of CPython's groupby. -/
theorem C16_refines (items : List (Val × Key)) (ops : List Op) :
    run stepI (init items) ops = run stepS (init items) ops :=
  run_eq ops (init items) (init_inv items)

/-- A stale group (not the one most recently returned) yields nothing and touches nothing. -/
theorem C16_stale (s : St) (g : Nat) (h : s.grp ≠ some g) : grpNext s g = (s, .stop) := by
  unfold grpNext; rw [if_pos h]

/-- Advancing the groupby detaches every earlier group: afterwards the only live group, if any,
    is the one just handed out. -/
theorem C16_adv_detaches (s : St) (g : Nat) (hg : g < s.groups.length) :
    (advI s).1.grp ≠ some g := by
  rcases advI_grp s with h | h
  · rw [h]; simp
  · rw [h]; simp; omega

/-- A group closed by its consumer yields nothing more. -/
theorem C16_closed_group_stops (s : St) (g : Nat) : (grpNext (grpClose s g) g).2 = .stop := by
  unfold grpClose
  by_cases h : s.grp = some g
  · simp only [h, if_true]; unfold grpNext; simp
  · simp only [h, if_false]; rw [C16_stale s g h]

/-! Non-vacuity: a run with a stale group, a partly consumed group and a skipped item. -/
example : run stepI (init [(1,0),(2,0),(3,1),(4,0)])
    [.adv, .grpNext 0, .adv, .grpNext 0, .grpNext 1, .adv, .grpNext 2, .grpNext 2, .adv]
  = [.key 0 0, .item 1, .key 1 1, .stop, .item 3, .key 0 2, .item 4, .stop, .stop] := by decide

end AsyncVerif.GroupBy
