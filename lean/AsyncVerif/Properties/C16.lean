import AsyncVerif.Proofs.GroupBy
import AsyncVerif.Proofs.GroupByRuns
/-!
# C16 — groupby matches itertools.groupby under every pattern of consuming groups

Model: `Machines/GroupBy.lean`. `stepI` = asyncstdlib, `stepS` = CPython `itertoolsmodule.c`.
-/
namespace AsyncVerif.GroupBy

/-- For every input (keys with decidable, hence reflexive, equality) and every sequence of
    operations {advance groupby, advance group handle i}, asyncstdlib's groupby produces exactly
    the outputs (keys, group handles, items, stops) of CPython's groupby. -/
theorem C16_refines (items : List (Val × Key)) (ops : List Op) :
    run stepI (init items) ops = run stepS (init items) ops :=
  run_eq ops (init items) (init_inv items)

/-- A stale group (not the one most recently returned) yields nothing and touches nothing. -/
theorem C16_stale (s : St) (g : Nat) (h : s.grp ≠ some g) : grpNext s g = (s, .stop) := by
  unfold grpNext; rw [if_pos h]

/-- Advancing the groupby detaches every earlier group: afterwards the only live group, if any,
    is the one just handed out. -/
theorem C16_adv_detaches (s : St) (g : Nat) (hg : g < s.groups.length) :
    (advI s).1.grp ≠ some g := by
  rcases advI_grp s with h | h
  · rw [h]; simp
  · rw [h]; simp; omega

/-- A group closed by its consumer yields nothing more. -/
theorem C16_closed_group_stops (s : St) (g : Nat) : (grpNext (grpClose s g) g).2 = .stop := by
  unfold grpClose
  by_cases h : s.grp = some g
  · simp only [h, if_true]; unfold grpNext; simp
  · simp only [h, if_false]; rw [C16_stale s g h]

/-! Non-vacuity: a run with a stale group, a partly consumed group and a skipped item. -/
example : run stepI (init [(1,0),(2,0),(3,1),(4,0)])
    [.adv, .grpNext 0, .adv, .grpNext 0, .grpNext 1, .adv, .grpNext 2, .grpNext 2, .adv]
  = [.key 0 0, .item 1, .key 1 1, .stop, .item 3, .key 0 2, .item 4, .stop, .stop] := by decide

/-- Against the readable specification `runs items` (the maximal runs of equal keys), draining consumer:
    for EVERY input, advancing the groupby and draining each group before the next advance yields,
    run by run, the run's key with a fresh handle, exactly the run's items in order, and a stop;
    after the last run the groupby stops.  (asyncstdlib's machine; CPython's agrees by `C16_refines`.) -/
theorem C16_full_consumption (items : List (Val × Key)) :
    run stepI (init items) (fullOps 0 (runs items)) = fullOuts 0 (runs items) :=
  full_consumption items

/-- The same for CPython's algorithm: the specification `runs` describes itertools.groupby too. -/
theorem C16_full_consumption_cpython (items : List (Val × Key)) :
    run stepS (init items) (fullOps 0 (runs items)) = fullOuts 0 (runs items) := by
  rw [← C16_refines]; exact full_consumption items

/-- Keys-only consumer: advancing only the groupby yields the key of every maximal run, in order,
    each with a fresh group handle, then stops; skipped groups are consumed silently. -/
theorem C16_keys_only (items : List (Val × Key)) :
    run stepI (init items) (List.replicate ((runs items).length + 1) .adv) = keyOuts 0 (runs items) :=
  keys_only items

/-! Non-vacuity: the specification and both consumers on a concrete stream. -/
example : runs [(1,0),(2,0),(3,1),(4,0)] = [(0,[1,2]),(1,[3]),(0,[4])] := by decide
example : fullOuts 0 (runs [(1,0),(2,0),(3,1)]) =
    [.key 0 0, .item 1, .item 2, .stop, .key 1 1, .item 3, .stop, .stop] := by decide
example : keyOuts 0 (runs [(1,0),(2,0),(3,1),(4,0)]) = [.key 0 0, .key 1 1, .key 0 2, .stop] := by decide

end AsyncVerif.GroupBy
