import AsyncVerif.Proofs.TeeLive
import AsyncVerif.Properties.C09
/-!
# C09 — liveness of `tee` under fair schedules

`Properties/C09.lean` holds the SAFETY theorems of the `tee` machine (`Machines/Tee.lean`).  This
file adds PROGRESS: whatever has happened before (any sequence `ops` of `send`s, `aclose()`s,
cancellations and `Tee.aclose()`s in any interleaving), a fair scheduler — one that keeps giving
every consumer a turn, `roundRobin n k` = `k` rounds `[sched 0, …, sched (n-1)]`, the "drain" of
the harness — runs every child to its end in a bounded number of rounds.

The argument is a natural-number measure `St.measure` (`Proofs/TeeLive.lean`):

    (suspensions of the pulls the source's script has not started yet)
      + Σ over the children whose consumer is still running of
          2 · (items in its buffer + items the source still holds) + rank of its program counter

with rank 2 before the first step and at the `yield`, 1 while waiting for the lock, `k+1` inside a
pull of the source with `k` further suspensions to come, 1 for a child that was closed under a
running consumer.  No operation makes it larger (`C09_work_never_grows`); a `send` on a running
consumer makes it strictly smaller unless the child waits for a lock that is held — and a held lock
has a holder that is inside the source with a running consumer (`C09_lock_not_leaked`), whose `send`
makes it strictly smaller.  Hence one round makes it strictly smaller while anybody is running
(`C09_round_makes_progress`), and as many rounds as the measure says finish everybody
(`C09_fair_drain_finishes`).

None of the progress theorems needs the property's precondition `Pre lock susp` (without a lock
nobody ever waits); it is needed only where they are combined with the safety theorems
(`C09_drained_children_saw_everything`).
-/
namespace AsyncVerif.Tee

theorem reach_append (items n susp lock closeable dies) (ops l : List Op) :
    reach items n susp lock closeable dies (ops ++ l)
      = runOps (reach items n susp lock closeable dies ops) l := by
  simp only [reach, runOps_append]

/-- **No operation adds work.** A `send`, an `aclose()` of a child, a cancellation and a
    `Tee.aclose()` all leave the measure unchanged or make it smaller — in every state, reachable or
    not.  Hence in every reachable state it is at most the measure of the fresh tee,
    `drainBound items n susp = susp.sum + n * (2 * items.length + 2)`: every suspension of the
    source's script, and for each child two `send`s per item plus two. -/
theorem C09_work_never_grows (items n susp lock closeable dies ops) :
    (∀ (s : St) (op : Op), (step s op).1.measure ≤ s.measure) ∧
    (reach items n susp lock closeable dies ops).measure ≤ drainBound items n susp :=
  ⟨step_measure_le, reach_measure_le items n susp lock closeable dies ops⟩

/-- **A `send` makes progress unless the consumer is finished or waits for a held lock** (any
    state): a `send` on consumer `i` that is still running and whose child is not suspended in
    `lock.__aenter__` with the lock held makes the measure strictly smaller; every other `send` —
    the consumer has ended, was stopped, cancelled, or waits for the lock — changes nothing at all. -/
theorem C09_send_makes_progress (s : St) (i : Nat) (hi : i < s.kids.length) :
    ((s.kid i).task = .active → ¬ ((s.kid i).pc = .acquiring ∧ s.holder.isSome = true) →
      (step s (.sched i)).1.measure < s.measure) ∧
    (((s.kid i).task ≠ .active ∨ ((s.kid i).pc = .acquiring ∧ s.holder.isSome = true)) →
      (step s (.sched i)).1 = s) := by
  simp only [step, hi, if_true]
  refine ⟨fun ha hb => sched_measure_lt s i hi ?_, fun h => sched_blocked s i h⟩
  rintro (h | h)
  · exact h ha
  · exact hb h

/-- **One fair round makes progress.** In every reachable state — after any operations, with or
    without a lock, whatever the source's suspension script — in which the consumer of some child
    is still running (`Task.active`: it has not seen the end of its `async for`, has not been
    cancelled), one round of `send`s over all `n` consumers makes the measure strictly smaller. -/
theorem C09_round_makes_progress (items n susp lock closeable dies ops) (j : Nat) (hj : j < n)
    (ha : ((reach items n susp lock closeable dies ops).kid j).task = .active) :
    (reach items n susp lock closeable dies (ops ++ round n)).measure
      < (reach items n susp lock closeable dies ops).measure := by
  have hlen := reach_len items n susp lock closeable dies ops
  have := (reach_inv items n susp lock closeable dies ops).round_lt j (by rw [hlen]; exact hj) ha
  rw [hlen] at this
  rw [reach_append]
  exact this

/-- **A fair drain finishes every child — bound from the state reached.** After any operation
    prefix `ops`, `B` round-robin rounds with `B` at least the measure of the state reached leave no
    consumer running: every child has been run to its end (`ended`), its consumer has seen the end
    after the child was closed (`stopped`), or the consumer had been cancelled. -/
theorem C09_fair_drain_finishes_from_state (items n susp lock closeable dies ops) (B : Nat)
    (hB : (reach items n susp lock closeable dies ops).measure ≤ B) (j : Nat) (hj : j < n) :
    ((reach items n susp lock closeable dies (ops ++ roundRobin n B)).kid j).task ≠ .active := by
  rw [reach_append]
  exact (reach_inv items n susp lock closeable dies ops).drain n
    (reach_len items n susp lock closeable dies ops) B hB j hj

/-- **A fair drain finishes every child — bound from the configuration.** For every configuration
    (items, number of children, suspension script, lock or not, closeable or not, source dying on a
    cancellation or not — no precondition) and every operation prefix `ops` (`send`s, `aclose()`s,
    cancellations, `Tee.aclose()`s in any interleaving), after
    `drainBound items n susp = susp.sum + n * (2 * items.length + 2)` round-robin rounds (or any
    larger number) no consumer is left running. -/
theorem C09_fair_drain_finishes (items n susp lock closeable dies ops) (B : Nat)
    (hB : drainBound items n susp ≤ B) (j : Nat) (hj : j < n) :
    ((reach items n susp lock closeable dies (ops ++ roundRobin n B)).kid j).task ≠ .active :=
  C09_fair_drain_finishes_from_state items n susp lock closeable dies ops B
    (Nat.le_trans (reach_measure_le items n susp lock closeable dies ops) hB) j hj

/-- **After the drain the lock is free**: no consumer is running, and only a child with a running
    consumer can hold the lock (`C09_lock_not_leaked`). -/
theorem C09_drained_lock_free (items n susp lock closeable dies ops) (B : Nat)
    (hB : (reach items n susp lock closeable dies ops).measure ≤ B) :
    (reach items n susp lock closeable dies (ops ++ roundRobin n B)).holder = none := by
  cases hh : (reach items n susp lock closeable dies (ops ++ roundRobin n B)).holder with
  | none => rfl
  | some h =>
    have hl := C09_lock_not_leaked items n susp lock closeable dies (ops ++ roundRobin n B) h hh
    exact absurd hl.2.2
      (C09_fair_drain_finishes_from_state items n susp lock closeable dies ops B hB h hl.1)

/-- **Drained children saw everything.** Under the precondition (a lock, or a source that never
    suspends): let `ops` be any operation prefix that neither closes child `j` (`aclose()` of it or
    `Tee.aclose()`) nor cancels its consumer — the other children may be closed and cancelled at
    will.  When the fair drain ends (`B` at least the measure of the state reached, e.g.
    `drainBound items n susp`), child `j` has reported the end of the source by itself, it has
    yielded exactly what was ever fetched from the source, the source is exhausted or closed
    (`srcDead`), and — unless a cancellation thrown into another consumer's pending pull finished
    the source (`srcKilled`), which cannot happen if `ops` contains no cancellation at all — that is
    the whole source sequence, in order, and the source holds nothing more. -/
theorem C09_drained_children_saw_everything (items n susp lock closeable dies ops)
    (hpre : Pre lock susp) (B : Nat)
    (hB : (reach items n susp lock closeable dies ops).measure ≤ B) (j : Nat) (hj : j < n)
    (hcl : Op.close j ∉ ops) (hca : Op.cancel j ∉ ops) (hall : Op.closeAll ∉ ops) :
    ((reach items n susp lock closeable dies (ops ++ roundRobin n B)).kid j).task = .ended ∧
    ((reach items n susp lock closeable dies (ops ++ roundRobin n B)).kid j).out
      = (reach items n susp lock closeable dies (ops ++ roundRobin n B)).fetched ∧
    (reach items n susp lock closeable dies (ops ++ roundRobin n B)).srcDead = true ∧
    ((reach items n susp lock closeable dies (ops ++ roundRobin n B)).srcKilled = false →
      ((reach items n susp lock closeable dies (ops ++ roundRobin n B)).kid j).out = items ∧
      (reach items n susp lock closeable dies (ops ++ roundRobin n B)).src = []) ∧
    ((∀ i, Op.cancel i ∉ ops) →
      ((reach items n susp lock closeable dies (ops ++ roundRobin n B)).kid j).out = items) := by
  have hdr := roundRobin_sched n B
  have hnot : ∀ op, (∀ i, op ≠ .sched i) → op ∉ ops → op ∉ ops ++ roundRobin n B := by
    intro op hne h hm
    rcases List.mem_append.1 hm with e | e
    · exact h e
    · obtain ⟨i, rfl⟩ := hdr op e; exact hne i rfl
  have hj0 : j < (init items n susp lock closeable dies).kids.length := by simp [init, hj]
  have hrun : Running (reach items n susp lock closeable dies (ops ++ roundRobin n B)) j :=
    (init_running items n susp lock closeable dies j).runOps_ok
      (init_inv items n susp lock closeable dies) hj0 _
      (hnot _ (by simp) hcl) (hnot _ (by simp) hca) (hnot _ (by simp) hall)
  have hfin := C09_fair_drain_finishes_from_state items n susp lock closeable dies ops B hB j hj
  have he : ((reach items n susp lock closeable dies (ops ++ roundRobin n B)).kid j).task = .ended := by
    rcases hrun with ⟨ha, _⟩ | he
    · exact absurd ha hfin
    · exact he
  have hi := reach_inv items n susp lock closeable dies (ops ++ roundRobin n B)
  have hs := reach_safe items n susp lock closeable dies (ops ++ roundRobin n B) hpre
  have ht := hi.d.taskEnded hs j (by rw [reach_len]; exact hj) he
  have hall' := C09_exhausted_child_complete items n susp lock closeable dies (ops ++ roundRobin n B)
    hpre j hj he
  refine ⟨he, ht.1, ht.2.1, fun hk => ⟨hall'.2 hk, ht.2.2 hk⟩, fun hnc => hall'.2 ?_⟩
  exact killed_runOps (init items n susp lock closeable dies) (ops ++ roundRobin n B)
    (fun i => hnot _ (by simp) (hnc i))

/-- Fairness is needed: a scheduler that keeps resuming only the consumer that waits for the lock
    never gets anywhere — the state does not change — although the lock holder could move. -/
theorem C09_unfair_schedule_starves :
    let s := reach [1, 2] 2 [1] true true true [.sched 0, .sched 1]
    s.holder = some 0 ∧ (s.kid 1).pc = .acquiring ∧
      runOps s [.sched 1, .sched 1, .sched 1, .sched 1, .sched 1] = s ∧
      (step s (.sched 0)).1.measure < s.measure := by
  decide

/-! Non-vacuity: a concrete configuration — 3 children, 2 items, a lock, a source whose first pull
    suspends once — and a prefix after which child 0 holds the lock inside the source, child 1 waits
    for the lock and child 2 has not been started. -/

private def opsL : List Op := [.sched 0, .sched 1]

/-- the configuration bound: 1 suspension + 3 children · (2·2 + 2) -/
example : drainBound [1, 2] 3 [1] = 19 := by decide
/-- the measure of the fresh tee is the configuration bound; after the prefix it is smaller -/
example : (reach [1, 2] 3 [1] true true true []).measure = 19 ∧
    (reach [1, 2] 3 [1] true true true opsL).measure = 16 := by decide
/-- hypotheses of `C09_round_makes_progress`: consumer 1 is running (it waits for the lock that
    child 0 holds inside the source); the round makes the measure smaller -/
example : ((reach [1, 2] 3 [1] true true true opsL).kid 1).task = .active ∧
    ((reach [1, 2] 3 [1] true true true opsL).kid 1).pc = .acquiring ∧
    (reach [1, 2] 3 [1] true true true opsL).holder = some 0 ∧
    (reach [1, 2] 3 [1] true true true (opsL ++ round 3)).measure = 12 := by decide
/-- hypotheses of `C09_drained_children_saw_everything` for every child: the precondition holds and
    the prefix closes and cancels nobody -/
example : Pre true [1] := Or.inl rfl
example : Op.close 2 ∉ opsL ∧ Op.cancel 2 ∉ opsL ∧ Op.closeAll ∉ opsL ∧
    (∀ i, Op.cancel i ∉ opsL) := by simp [opsL]
/-- two rounds are not enough, three are (the measure after 0, 1, 2, 3 rounds: 16, 12, 6, 0) -/
example :
    let s := reach [1, 2] 3 [1] true true true (opsL ++ roundRobin 3 2)
    let s' := reach [1, 2] 3 [1] true true true (opsL ++ roundRobin 3 3)
    (s.kid 2).task = .active ∧ s.measure = 6 ∧
      (s'.kid 0).task = .ended ∧ (s'.kid 1).task = .ended ∧ (s'.kid 2).task = .ended ∧
      s'.measure = 0 := by
  decide
set_option maxRecDepth 4096 in
/-- the drain bound is met: after the prefix and 16 rounds (the measure of the state reached) every
    child has ended by itself, has yielded the whole source, and the source has been closed -/
example :
    let s := reach [1, 2] 3 [1] true true true (opsL ++ roundRobin 3 16)
    (s.kid 0).task = .ended ∧ (s.kid 1).task = .ended ∧ (s.kid 2).task = .ended ∧
      (s.kid 0).out = [1, 2] ∧ (s.kid 1).out = [1, 2] ∧ (s.kid 2).out = [1, 2] ∧
      s.srcDead = true ∧ s.srcCloses = 1 ∧ s.measure = 0 := by
  decide
/-- a child closed under its running consumer, a consumer cancelled while it waits for the lock and
    a consumer cancelled inside the source (which does not die): the drain still finishes everybody,
    and the untouched child 3 gets everything -/
private def opsM : List Op :=
  [.sched 0, .sched 1, .sched 2, .cancel 1, .cancel 0, .sched 2, .sched 2, .close 2, .sched 3]
example : (reach [1, 2] 4 [1, 1] true true false opsM).measure = 7 := by decide
example : Op.close 3 ∉ opsM ∧ Op.cancel 3 ∉ opsM ∧ Op.closeAll ∉ opsM := by simp [opsM]
set_option maxRecDepth 4096 in
example :
    let s := reach [1, 2] 4 [1, 1] true true false (opsM ++ roundRobin 4 7)
    (s.kid 0).task = .cancelled ∧ (s.kid 1).task = .cancelled ∧ (s.kid 2).task = .stopped ∧
      (s.kid 3).task = .ended ∧ (s.kid 3).out = [1, 2] ∧ s.srcKilled = false ∧ s.src = [] := by
  decide

end AsyncVerif.Tee
