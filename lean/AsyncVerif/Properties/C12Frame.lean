import AsyncVerif.Proofs.CachedPropertyMono
/-!
# C12 — "values are per instance": frame theorems

Property theorems only.  Model: `Machines/CachedProperty.lean`.  An operation that belongs to instance `i`
(an attribute access on `i`, a `del` on `i`, one step or a cancellation of a task whose handle came from `i`)
never changes what is stored for another instance `j ≠ i`, in every reachable state and under every
interleaving; a new task for an old handle changes nothing at all.
-/
namespace AsyncVerif.CachedProperty

/-- the instance an operation belongs to (none: the operation cannot write at all) -/
def Op.owner (s : State) : Op → Option Nat
  | .spawn i => some i
  | .del i => some i
  | .sched t => some (s.tinst t)
  | .cancel _ => none
  | .respawn _ => none

theorem access_slot_frame (s : State) (i j : Nat) (hj : j ≠ i) : (access s i).1.slot j = s.slot j := by
  unfold access
  split
  · rfl
  · simp [newPh, hj]

theorem access_tinst (s : State) (i : Nat) : (access s i).1.tinst = s.tinst := by
  unfold access; split <;> rfl

@[simp] theorem setPc_slot (s : State) (t : Nat) (x : Pc) : (setPc s t x).slot = s.slot := rfl
@[simp] theorem setPc_tinst (s : State) (t : Nat) (x : Pc) : (setPc s t x).tinst = s.tinst := rfl
@[simp] theorem setLock_slot (s : State) (p : Nat) (o : Option Nat) : (setLock s p o).slot = s.slot := rfl
@[simp] theorem setLock_tinst (s : State) (p : Nat) (o : Option Nat) : (setLock s p o).tinst = s.tinst := rfl
@[simp] theorem setRunSt_slot (s : State) (r : Nat) (x : RunSt) : (setRunSt s r x).slot = s.slot := rfl
@[simp] theorem setRunSt_tinst (s : State) (r : Nat) (x : RunSt) : (setRunSt s r x).tinst = s.tinst := rfl
@[simp] theorem setSlot_tinst (s : State) (i : Nat) (x : Option Stored) : (setSlot s i x).tinst = s.tinst := rfl
@[simp] theorem release_slot (cfg : Cfg) (s : State) (p : Nat) : (release cfg s p).slot = s.slot := by
  unfold release; split <;> rfl
@[simp] theorem release_tinst (cfg : Cfg) (s : State) (p : Nat) : (release cfg s p).tinst = s.tinst := by
  unfold release; split <;> rfl
@[simp] theorem awaitStored_slot (s : State) (t : Nat) (x : Stored) : (awaitStored s t x).1.slot = s.slot := by
  cases x <;> rfl
@[simp] theorem awaitStored_tinst (s : State) (t : Nat) (x : Stored) : (awaitStored s t x).1.tinst = s.tinst := by
  cases x <;> rfl

theorem setSlot_slot_frame (s : State) (i j : Nat) (x : Option Stored) (hj : j ≠ i) :
    (setSlot s i x).slot j = s.slot j := by simp [setSlot, hj]

/-- one micro-step of task `t` writes only the slot of the instance `t`'s handle came from -/
theorem micro_slot_frame (cfg : Cfg) (s : State) (t j : Nat) (h : Inv cfg s) (hj : j ≠ s.tinst t) :
    (micro cfg s t).1.slot j = s.slot j ∧ (micro cfg s t).1.tinst = s.tinst := by
  unfold micro
  split
  · exact ⟨rfl, rfl⟩
  · exact ⟨rfl, rfl⟩
  · exact ⟨rfl, rfl⟩
  · exact ⟨rfl, rfl⟩
  · rename_i p hpc
    have hq : s.phInst p = s.tinst t := (h.pc_entered t p hpc).2
    have h1 := access_slot_frame s (s.phInst p) j (by rw [hq]; exact hj)
    have h2 := access_tinst s (s.phInst p)
    unfold instanceValue
    generalize access s (s.phInst p) = r at h1 h2
    obtain ⟨s1, stored⟩ := r
    simp only at h1 h2 ⊢
    split
    · split
      · split <;> simp [h1, h2]
      · simp [h1, h2]
    · simp [h1, h2]
  · rename_i p hpc
    split <;> simp
  · rename_i p hpc
    have hq : s.phInst p = s.tinst t := (h.pc_holding t p hpc).2
    have h1 := access_slot_frame s (s.phInst p) j (by rw [hq]; exact hj)
    have h2 := access_tinst s (s.phInst p)
    unfold instanceValue
    generalize access s (s.phInst p) = r at h1 h2
    obtain ⟨s1, stored⟩ := r
    simp only at h1 h2 ⊢
    split
    · simp [h1, h2]
    · simp [h1, h2]
  · rename_i p r hpc
    have hq : s.phInst p = s.tinst t := (h.pc_getter t p r 0 hpc).2
    unfold complete
    split
    · simp [setSlot_slot_frame s (s.phInst p) j _ (by rw [hq]; exact hj)]
    · simp
  · simp

theorem schedN_slot_frame (cfg : Cfg) (n : Nat) : ∀ (s : State) (t j : Nat), Inv cfg s → j ≠ s.tinst t →
    (schedN cfg n s t).1.slot j = s.slot j ∧ (schedN cfg n s t).1.tinst = s.tinst := by
  induction n with
  | zero => intro s t j _ _; exact ⟨rfl, rfl⟩
  | succ n ih =>
    intro s t j h hj
    unfold schedN
    have hm := micro_inv cfg s t h
    obtain ⟨f1, f2⟩ := micro_slot_frame cfg s t j h hj
    generalize micro cfg s t = r at hm f1 f2
    obtain ⟨s1, o⟩ := r
    cases o with
    | some o => exact ⟨f1, f2⟩
    | none =>
      simp only at hm f1 f2 ⊢
      obtain ⟨g1, g2⟩ := ih s1 t j hm (by rw [f2]; exact hj)
      exact ⟨by rw [g1, f1], by rw [g2, f2]⟩

/-- **Values are per instance (one operation).**  In every state that satisfies the machine's invariant — in
    particular every reachable one — an operation leaves the slot of every instance other than its owner
    untouched: an access or `del` on `i` writes only `i`, a step of task `t` under any interleaving writes only
    the instance `t`'s handle came from, a cancellation and a second `await` of an old handle write nothing. -/
theorem step_slot_frame (cfg : Cfg) (s : State) (op : Op) (j : Nat) (h : Inv cfg s) (hj : Op.owner s op ≠ some j) :
    (step cfg s op).1.slot j = s.slot j := by
  cases op with
  | spawn i =>
    have hji : j ≠ i := fun e => hj (by simp [Op.owner, e])
    have := access_slot_frame s i j hji
    simp only [step]
    generalize access s i = r at this
    obtain ⟨s1, x⟩ := r
    simpa [addTask] using this
  | respawn t =>
    simp only [step]
    split <;> simp [addTask]
  | sched t =>
    have hjt : j ≠ s.tinst t := fun e => hj (by simp [Op.owner, e])
    exact (schedN_slot_frame cfg schedFuel s t j h hjt).1
  | cancel t =>
    simp only [step, cancel]
    split <;> simp
  | del i =>
    have hji : j ≠ i := fun e => hj (by simp [Op.owner, e])
    simp only [step]
    split
    · rfl
    · simp [delSlot, hji]

theorem exec_snoc (cfg : Cfg) (ops : List Op) (op : Op) : ∀ s0,
    exec cfg s0 (ops ++ [op]) = (step cfg (exec cfg s0 ops) op).1 := by
  induction ops with
  | nil => intro s0; rfl
  | cons o os ih => intro s0; exact ih _

/-- **C12: values are per instance**, for every history and every interleaving (`reach cfg ops` is the state after
    ANY operation sequence in ANY environment): the next operation changes nothing that is stored for an instance
    it does not belong to. -/
theorem C12_values_are_per_instance (cfg : Cfg) (ops : List Op) (op : Op) (j : Nat)
    (hj : Op.owner (reach cfg ops) op ≠ some j) :
    (step cfg (reach cfg ops) op).1.slot j = (reach cfg ops).slot j :=
  step_slot_frame cfg _ op j (reach_inv cfg ops) hj

/-- Operations of other instances are invisible to instance `j`: a whole sequence of operations none of which
    belongs to `j` leaves `j`'s slot as it was — a cached value stays cached (and is served: `C12_cached_value_served_*`),
    an uncached instance stays uncached. -/
theorem C12_foreign_history_invisible (cfg : Cfg) (j : Nat) (more : List Op) : ∀ (ops : List Op),
    (∀ k (hk : k < more.length), Op.owner (reach cfg (ops ++ more.take k)) (more[k]) ≠ some j) →
    (reach cfg (ops ++ more)).slot j = (reach cfg ops).slot j := by
  induction more with
  | nil => intro ops _; simp
  | cons op more ih =>
    intro ops hall
    have h0 := hall 0 (by simp)
    simp only [List.take_zero, List.append_nil, List.getElem_cons_zero] at h0
    have hstep := C12_values_are_per_instance cfg ops op j h0
    have hr : reach cfg (ops ++ [op]) = (step cfg (reach cfg ops) op).1 := exec_snoc cfg ops op State.init
    have := ih (ops ++ [op]) (by
      intro k hk
      have := hall (k + 1) (by simp; omega)
      simpa [List.take_succ_cons, List.append_assoc] using this)
    rw [List.append_assoc, List.singleton_append] at this
    rw [this, hr, hstep]

/-- non-vacuity: two instances, instance 1 is computed and cached by task 1 while task 0 (instance 0) is in the
    middle of its own computation; instance 1's operations never change slot 0 and vice versa -/
example :
    let cfg : Cfg := { lock := true, susp := fun _ => 1, ok := fun _ => true }
    let ops := [Op.spawn 0, .spawn 1, .sched 0, .sched 1, .sched 1]
    (reach cfg ops).slot 1 = some (.val 1) ∧ (reach cfg ops).slot 0 = some (.ph 0) ∧
    Op.owner (reach cfg ops) (.sched 0) = some 0 := by decide
