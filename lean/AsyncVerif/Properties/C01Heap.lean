import AsyncVerif.Proofs.Heap
import AsyncVerif.Proofs.HeapRefine
/-!
# C01 / C02 — the binary heap of `heapq` is inside the model

`heapq.merge` keeps its live inputs in a list managed by the standard library's `heapify` / `heapreplace` /
`heappop`; `nlargest` / `nsmallest` keep a bounded list managed by `heapify` / `heapreplace`.  The models
(`Std.mergeLoop` with `Std.popMin`; `Sel.selectV` with the ordered list of entries) abstract the heap.  Here the
algorithms of CPython's `Lib/heapq.py` are modelled as written (`Machines/Heap.lean`) and shown to

* establish / preserve the heap invariant and the multiset of entries, with `heap[0]` a minimum
  (`C01_heap_invariant`, `C01_heap_multiset`, `C01_heap_root_min`, `C01_heap_root_unique`), for every strict weak
  (resp. strict total) order, also when the order is well behaved only on the entries present;
* depend on the entries only through the comparisons (`C01_heap_layout_natural`), which is why the differential
  test of the array layout against the real `heapq` over integers is representative;
* refine the abstract heap of `merge` step by step and over any sequence of rounds
  (`C01_heap_heapify_min`, `C01_heap_pop_min`, `C01_heap_replace_min`, `C01_heap_merge_rounds`);
* refine the ordered-list heap of the bounded selection (`C02_heap_bounded_root`, `C02_heap_bounded_heapify`,
  `C02_heap_bounded_replace`, `C02_heap_bounded_select`).

So the abstraction "heap = minimum entry under the entry order" is a theorem about the modelled `heapq`, not an
assumption.
-/
namespace AsyncVerif

open AsyncVerif.Heap

/-! ## The algorithms, for any order -/

/-- For a strict weak order `lt` (Python's `<` on the entries): `heapify` turns any array into a heap, and
    `heappush`, `heappop`, `heapreplace` turn a heap into a heap. -/
theorem C01_heap_invariant {α : Type} {lt : α → α → Bool} (ho : StrictWeak lt) (a : Array α) :
    IsHeap lt (heapify lt a) ∧
    (IsHeap lt a → ∀ x, IsHeap lt (heappush lt a x)) ∧
    (IsHeap lt a → ∀ x r, heappop lt a = some (x, r) → IsHeap lt r) ∧
    (IsHeap lt a → ∀ x y r, heapreplace lt a x = some (y, r) → IsHeap lt r) :=
  ⟨heapify_isHeap ho a, fun hh x => heappush_isHeap ho a x hh, fun hh x r h => heappop_isHeap ho a x r hh h,
   fun hh x y r h => heapreplace_isHeap ho a x y r hh h⟩

/-- The same when `lt` is a strict weak order only on the entries satisfying `S`, all entries present (and the new
    one) satisfy `S`. -/
theorem C01_heap_invariant_on {α : Type} {lt : α → α → Bool} {S : α → Prop} (ho : StrictWeakOn lt S) (a : Array α)
    (hS : ∀ x ∈ a.toList, S x) :
    IsHeap lt (heapify lt a) ∧
    (IsHeap lt a → ∀ x, S x → IsHeap lt (heappush lt a x)) ∧
    (IsHeap lt a → ∀ x r, heappop lt a = some (x, r) → IsHeap lt r) ∧
    (IsHeap lt a → ∀ x y r, S x → heapreplace lt a x = some (y, r) → IsHeap lt r) :=
  ⟨heapify_isHeap_on ho a hS, fun hh x hx => heappush_isHeap_on ho a x hS hx hh,
   fun hh x r h => heappop_isHeap_on ho a x r hS hh h,
   fun hh x y r hx h => heapreplace_isHeap_on ho a x y r hS hx hh h⟩

/-- Whatever the comparison does (no hypothesis on `lt`): `heapify` permutes the entries, `heappush` adds the item,
    `heappop` returns `heap[0]` and removes it (`none` — `IndexError` — exactly on the empty heap), `heapreplace`
    returns `heap[0]`, removes it, adds the item and keeps the size. -/
theorem C01_heap_multiset {α : Type} (lt : α → α → Bool) (a : Array α) :
    (heapify lt a).toList.Perm a.toList ∧
    (∀ x, (heappush lt a x).toList.Perm (x :: a.toList)) ∧
    (∀ x r, heappop lt a = some (x, r) → a[0]? = some x ∧ a.toList.Perm (x :: r.toList) ∧ r.size + 1 = a.size) ∧
    (heappop lt a = none ↔ a.size = 0) ∧
    (∀ x y r, heapreplace lt a x = some (y, r) →
      a[0]? = some y ∧ (y :: r.toList).Perm (x :: a.toList) ∧ r.size = a.size) ∧
    (∀ x, heapreplace lt a x = none ↔ a.size = 0) := by
  refine ⟨(heapify_perm lt a).toList, ?_, ?_, heappop_none lt a, ?_, heapreplace_none lt a⟩
  · intro x
    refine (heappush_perm lt a x).toList.trans ?_
    rw [Array.toList_push]; exact List.perm_append_singleton x a.toList
  · intro x r h
    obtain ⟨h0, hx⟩ := heappop_fst lt a x r h
    exact ⟨by rw [Array.getElem?_eq_getElem h0, hx], heappop_perm lt a x r h, heappop_size lt a x r h⟩
  · intro x y r h
    obtain ⟨h0, hy, _⟩ := heapreplace_fst lt a x y r h
    exact ⟨by rw [Array.getElem?_eq_getElem h0, hy], heapreplace_perm lt a x y r h, heapreplace_size lt a x y r h⟩

/-- In a heap, `heap[0]` is a minimum: no entry is smaller (strict weak order; for ties `heap[0]` is *a* minimum). -/
theorem C01_heap_root_min {α : Type} {lt : α → α → Bool} (ho : StrictWeak lt) (a : Array α) (hh : IsHeap lt a)
    (h0 : 0 < a.size) : ∀ x ∈ a.toList, lt x a[0] = false :=
  hh.root_min_mem ho h0

/-- For a strict total order on the entries present, `heap[0]` is *the* minimum: the only entry that no entry is
    smaller than.  Hence `heappop` returns the minimum. -/
theorem C01_heap_root_unique {α : Type} {lt : α → α → Bool} {S : α → Prop} (ho : StrictTotalOn lt S) (a : Array α)
    (hS : ∀ x ∈ a.toList, S x) (hh : IsHeap lt a) (h0 : 0 < a.size) :
    (∀ x ∈ a.toList, lt x a[0] = false) ∧
    (∀ m ∈ a.toList, (∀ x ∈ a.toList, lt x m = false) → m = a[0]) ∧
    (∃ r, heappop lt a = some (a[0], r)) :=
  ⟨hh.root_min_on ho.toWeakOn hS h0, fun m hm hmin => hh.root_unique_on ho hS h0 m hm hmin,
   ⟨_, heappop_eq lt a h0⟩⟩

/-- The array layout depends on the entries only through the comparisons: mapping the entries by `f` (with `lt` on
    the images being `lt'` on the originals) commutes with every operation.  In particular a heap of entries ranked
    by integers is laid out exactly like the heap of the ranks. -/
theorem C01_heap_layout_natural {α β : Type} (lt : α → α → Bool) (f : β → α) (b : Array β) :
    heapify lt (b.map f) = (heapify (fun u v => lt (f u) (f v)) b).map f ∧
    (∀ x, heappush lt (b.map f) (f x) = (heappush (fun u v => lt (f u) (f v)) b x).map f) ∧
    heappop lt (b.map f) = (heappop (fun u v => lt (f u) (f v)) b).map (fun p => (f p.1, p.2.map f)) ∧
    (∀ x, heapreplace lt (b.map f) (f x)
      = (heapreplace (fun u v => lt (f u) (f v)) b x).map (fun p => (f p.1, p.2.map f))) :=
  ⟨heapify_map lt f b, heappush_map lt f b, heappop_map lt f b, heapreplace_map lt f b⟩

/-! ## `merge`: the binary heap refines `Std.popMin` -/

/-- After `heapify` of the collected entries (orderable keys, pairwise distinct positions) the array is a heap of
    the same entries and `heap[0]` is the entry the abstract model takes out first: the `Entry.before reverse`-minimum
    that `Std.popMin` returns. -/
theorem C01_heap_heapify_min (reverse : Bool) (hs : List Std.Entry) (ok : EntriesOK hs) :
    let a := heapify (Std.Entry.before reverse) hs.toArray
    IsHeap (Std.Entry.before reverse) a ∧ a.toList.Perm hs ∧
    (∀ m others, Std.popMin reverse hs = some (m, others) → a[0]? = some m ∧
      ∀ e ∈ hs, Std.Entry.before reverse e m = false) := by
  intro a
  have r := MergeRel.heapify reverse hs ok
  refine ⟨r.heap, r.perm, ?_⟩
  intro m others hp
  obtain ⟨h0, hm⟩ := r.root hp
  exact ⟨by rw [Array.getElem?_eq_getElem h0, hm],
    (popMin_spec_on reverse (before_weakOn reverse) hs ok.1 m others hp).2⟩

/-- Refinement of "take the minimum out": if the heap `a` holds the entries of the abstract list `l`
    (`MergeRel`: same multiset, heap invariant, orderable keys, distinct positions), then `heapPopMin` — `heap[0]` and
    the heap after `heappop` — returns the very entry `Std.popMin reverse l` returns and a heap holding the
    others; both are empty together. -/
theorem C01_heap_pop_min (reverse : Bool) (a : Array Std.Entry) (l : List Std.Entry) (r : MergeRel reverse a l) :
    (Std.popMin reverse l = none ↔ heapPopMin (Std.Entry.before reverse) a = none) ∧
    ∀ m others, Std.popMin reverse l = some (m, others) →
      ∃ rest, heapPopMin (Std.Entry.before reverse) a = some (m, rest) ∧ MergeRel reverse rest others := by
  constructor
  · rw [heapPopMin_eq, heappop_none, popMin_none]
    have := r.perm.length_eq
    constructor
    · intro h; rw [h] at this; simpa using this
    · intro h; rw [Array.length_toList, h] at this; exact List.eq_nil_of_length_eq_zero this.symm
  · intro m others hp
    rw [heapPopMin_eq]
    exact r.pop hp

/-- Refinement of a round in which the input delivers a next item: `heapreplace` with the same entry carrying the
    new head and (orderable) key returns the entry `Std.popMin` takes out, and leaves a heap holding the new entry
    and the others — "`popMin`, then insert", as `Std.mergeLoop` does. -/
theorem C01_heap_replace_min (reverse : Bool) (a : Array Std.Entry) (l : List Std.Entry) (r : MergeRel reverse a l)
    (m : Std.Entry) (others : List Std.Entry) (hp : Std.popMin reverse l = some (m, others))
    (head key : Val) (hkey : key.key?.isSome = true) :
    ∃ rest, heapreplace (Std.Entry.before reverse) a { m with head := head, key := key } = some (m, rest) ∧
      rest.size = a.size ∧ MergeRel reverse rest ({ m with head := head, key := key } :: others) := by
  obtain ⟨rest, h, r'⟩ := r.replace hp { m with head := head, key := key } rfl hkey
  exact ⟨rest, h, heapreplace_size _ _ _ _ _ h, r'⟩

/-- Whenever the binary heap holds the entries of the abstract list, `heap[0]` is the entry `Std.popMin` takes out,
    and no entry of the heap goes before it. -/
theorem C01_heap_root_is_popMin (reverse : Bool) (a : Array Std.Entry) (l : List Std.Entry) (r : MergeRel reverse a l)
    (m : Std.Entry) (others : List Std.Entry) (hp : Std.popMin reverse l = some (m, others)) :
    a[0]? = some m ∧ ∀ e ∈ a.toList, Std.Entry.before reverse e m = false := by
  obtain ⟨h0, hm⟩ := r.root hp
  refine ⟨by rw [Array.getElem?_eq_getElem h0, hm], fun e he => ?_⟩
  exact (popMin_spec_on reverse (before_weakOn reverse) l r.ok.1 m others hp).2 e (r.perm.mem_iff.mp he)

/-- `C01_heap_pop_min` / `C01_heap_replace_min` against the heap's own list of entries (`l = a.toList`): for a heap
    of entries with orderable keys and pairwise distinct positions, `heapPopMin` returns the same minimum entry as
    `Std.popMin reverse a.toList` and a heap holding a permutation of the same rest; `heapreplace` with the entry
    carrying a new head returns that minimum and a heap holding a permutation of "the new entry and the rest". -/
theorem C01_heap_pop_min_toList (reverse : Bool) (a : Array Std.Entry) (hh : IsHeap (Std.Entry.before reverse) a)
    (ok : EntriesOK a.toList) (m : Std.Entry) (others : List Std.Entry)
    (hp : Std.popMin reverse a.toList = some (m, others)) :
    (∃ rest, heapPopMin (Std.Entry.before reverse) a = some (m, rest) ∧ rest.toList.Perm others ∧
      IsHeap (Std.Entry.before reverse) rest) ∧
    (∀ head key, key.key?.isSome = true →
      ∃ rest, heapreplace (Std.Entry.before reverse) a { m with head := head, key := key } = some (m, rest) ∧
        rest.toList.Perm ({ m with head := head, key := key } :: others) ∧
        IsHeap (Std.Entry.before reverse) rest) := by
  have r : MergeRel reverse a a.toList := ⟨List.Perm.refl _, hh, ok⟩
  constructor
  · obtain ⟨rest, h, r'⟩ := (C01_heap_pop_min reverse a a.toList r).2 m others hp
    exact ⟨rest, h, r'.perm, r'.heap⟩
  · intro head key hkey
    obtain ⟨rest, h, _, r'⟩ := C01_heap_replace_min reverse a a.toList r m others hp head key hkey
    exact ⟨rest, h, r'.perm, r'.heap⟩

/-- Any sequence of rounds as `merge` performs them (`yield heap[0].head`, then `heapreplace` with the new head or
    `heappop`), started from `heapify`: the binary heap and the abstract heap of `Std.mergeLoop` yield the same
    entries in the same order, and stay related (same multiset, heap invariant) — after every prefix, since the
    statement holds for every `ops`. -/
theorem C01_heap_merge_rounds (reverse : Bool) (hs : List Std.Entry) (ok : EntriesOK hs) (ops : List MergeStep)
    (hops : ∀ op ∈ ops, op.ok) :
    (heapRun reverse (heapify (Std.Entry.before reverse) hs.toArray) ops).1 = (absRun reverse hs ops).1 ∧
    MergeRel reverse (heapRun reverse (heapify (Std.Entry.before reverse) hs.toArray) ops).2
      (absRun reverse hs ops).2 :=
  MergeRel.run ops _ hs (MergeRel.heapify reverse hs ok) hops

/-! ## `nlargest` / `nsmallest`: the bounded heap behind the ordered list -/

/-- The ordered-list presentation of `Std/Select.lean` is a valid view of the heap: if the binary heap `a` holds the
    entries of the ordered list `l` (`SelRel`), the last element of `l` — the worst entry — is `heap[0]`. -/
theorem C02_heap_bounded_root (c : Sel.Cfg) (a : Array Sel.VE) (l : List Sel.VE) (r : SelRel c a l) :
    l.getLast? = a[0]? ∧ a.size = l.length :=
  ⟨r.root, by simpa using r.perm.length_eq⟩

/-- `heapify` of the first entries (orderable keys; stamps `index * order_sign`) is a heap of exactly the entries of
    the ordered list that `Sel.heapifyV` ("insert one by one") builds, and `heapifyV` does not raise. -/
theorem C02_heap_bounded_heapify (c : Sel.Cfg) (first : List (Val × Val)) (hk : ∀ p ∈ first, p.1.orderable = true) :
    ∃ l, Sel.heapifyV c first = .ok l ∧ SelRel c (heapify (worseB c) (firstEntries c first).toArray) l ∧
      l.length = first.length := by
  obtain ⟨l, hl, r⟩ := SelRel.heapify c first hk
  refine ⟨l, hl, r, ?_⟩
  have := r.perm.length_eq
  simpa [firstEntries] using this.symm

/-- `heapreplace` on a heap of size `n` keeps size `n`, returns (removes) the worst entry — the last of the ordered
    list — and adds the new entry: it is "drop the last, insert in order" (`Sel.insV` on `dropLast`, which does not
    raise) on the ordered list. -/
theorem C02_heap_bounded_replace (c : Sel.Cfg) (a : Array Sel.VE) (l : List Sel.VE) (r : SelRel c a l) (w : Sel.VE)
    (hw : l.getLast? = some w) (e : Sel.VE) (he : e.key.orderable = true) (hfresh : ∀ x ∈ l.dropLast, x.idx ≠ e.idx) :
    ∃ l' a', Sel.insV c e l.dropLast = .ok l' ∧ heapreplace (worseB c) a e = some (w, a') ∧ a'.size = a.size ∧
      SelRel c a' l' :=
  r.replace hw e he hfresh

/-- The whole bounded selection on orderable keys: run with the binary heap (`heapSelect`: `heapify`, then
    `if worst_key < item_key: heapreplace(...)` per item), the heap ends holding exactly the entries of the ordered
    list of `Sel.selectV`, whose items — best first, i.e. the heap sorted — are the result; the heap never holds more
    than `n` entries. -/
theorem C02_heap_bounded_select (c : Sel.Cfg) (n : Nat) (keyed : List (Val × Val))
    (hk : ∀ p ∈ keyed, p.1.orderable = true) :
    ∃ a l, heapSelect c n keyed = .ok a ∧ SelRel c a l ∧ Sel.selectV c n keyed = .ok (l.map (·.item)) ∧
      a.size = min n keyed.length :=
  heapSelect_refines c n keyed hk

/-! ## Examples (non-vacuity) -/
section Examples

/-- Python's `<` on integers -/
private def ilt (a b : Int) : Bool := decide (a < b)
/-- pairs compared by their first component only: distinct entries tie -/
private def plt (a b : Int × Nat) : Bool := decide (a.1 < b.1)

private theorem ilt_total : StrictTotal ilt :=
  ⟨fun a => by simp [ilt], fun a b c => by simp only [ilt, decide_eq_true_eq]; omega,
   fun a b h => by simp only [ilt, decide_eq_true_eq]; omega⟩
private theorem plt_weak : StrictWeak plt :=
  ⟨fun a => by simp [plt], fun a b c => by simp only [plt, decide_eq_true_eq]; omega,
   fun a b c => by simp only [plt, decide_eq_false_iff_not]; omega⟩

/-- the array layout is the one of CPython (`heapq.heapify([5, 3, 5, 1, 4])` gives `[1, 3, 5, 5, 4]`, … ) -/
example : heapify ilt #[5, 3, 5, 1, 4] = #[1, 3, 5, 5, 4] := by
  simp [heapify, heapifyLoop, siftup, siftupLoop, siftdown, siftdownLoop, ilt]
example : heappush ilt #[1, 3, 5, 5, 4] 0 = #[0, 3, 1, 5, 4, 5] := by
  simp [heappush, siftdown, siftdownLoop, ilt]
example : heappop ilt #[1, 3, 5, 5, 4] = some (1, #[3, 4, 5, 5]) := by
  simp [heappop, siftup, siftupLoop, siftdown, siftdownLoop, ilt]
example : heapreplace ilt #[1, 3, 5, 5, 4] 6 = some (1, #[3, 4, 5, 5, 6]) := by
  simp [heapreplace, siftup, siftupLoop, siftdown, siftdownLoop, ilt]
example : heappop ilt #[] = none := rfl

example : IsHeap ilt (heapify ilt #[5, 3, 5, 1, 4]) := (C01_heap_invariant ilt_total.toWeak _).1
example : IsHeap ilt #[1, 3, 5, 5, 4] := by
  intro i hi h0
  have : i = 1 ∨ i = 2 ∨ i = 3 ∨ i = 4 := by simp at hi; omega
  rcases this with rfl | rfl | rfl | rfl <;> rfl
/-- ties: a strict weak order that is not total; `heap[0]` is *a* minimum -/
example : IsHeap plt (heapify plt #[(2, 0), (1, 1), (1, 2)]) := (C01_heap_invariant plt_weak _).1
example : ∀ x ∈ (heapify plt #[(2, 0), (1, 1), (1, 2)]).toList,
    plt x ((heapify plt #[(2, 0), (1, 1), (1, 2)])[0]'(by simp)) = false :=
  C01_heap_root_min plt_weak _ (C01_heap_invariant plt_weak _).1 (by simp)
example : ¬ StrictTotal plt := fun h => by
  have := h.total (1, 1) (1, 2) (by decide); simp [plt] at this
/-- an order that is well behaved only on the entries present: `<` on the non-negative integers read as naturals -/
example : StrictWeakOn (fun a b : Int => decide (a.toNat < b.toNat)) (fun a => 0 ≤ a) :=
  ⟨fun a _ => by simp, fun a b c _ _ _ => by simp only [decide_eq_true_eq]; omega,
   fun a b c _ _ _ => by simp only [decide_eq_false_iff_not]; omega⟩
example : (heappush ilt #[1, 3, 5] 0).toList.Perm [0, 1, 3, 5] := (C01_heap_multiset ilt #[1, 3, 5]).2.1 0
example : ∃ r, heappop ilt (heapify ilt #[5, 3, 5, 1, 4]) = some ((heapify ilt #[5, 3, 5, 1, 4])[0]'(by simp), r) :=
  (C01_heap_root_unique ilt_total.on _ (fun _ _ => trivial) (C01_heap_invariant ilt_total.toWeak _).1 (by simp)).2.2
/-- entries ranked by an integer are laid out like their ranks -/
example : heapify ilt (#["ccc", "a", "bb"].map (fun s : String => (s.length : Int)))
    = (heapify (fun u v : String => ilt u.length v.length) #["ccc", "a", "bb"]).map (fun s => (s.length : Int)) :=
  (C01_heap_layout_natural ilt (fun s : String => (s.length : Int)) #["ccc", "a", "bb"]).1

private def e0 : Std.Entry := ⟨.obj 1 5, .int 5, 0, 0⟩
private def e1 : Std.Entry := ⟨.obj 2 3, .int 3, 1, 1⟩
private def e2 : Std.Entry := ⟨.obj 3 5, .int 5, 2, 2⟩
private def e3 : Std.Entry := ⟨.obj 4 3, .int 3, 3, 3⟩

private theorem exOK : EntriesOK [e0, e1, e2, e3] :=
  ⟨fun e he => by
    simp only [List.mem_cons, List.not_mem_nil, or_false] at he
    rcases he with rfl | rfl | rfl | rfl <;> rfl, by decide⟩

/-- four inputs with heads 5, 3, 5, 3: the heap's root is input 1 (key 3, the lower position among the ties) -/
example : (heapify (Std.Entry.before false) #[e0, e1, e2, e3]).map (·.idx) = #[1, 3, 2, 0] := by
  simp [heapify, heapifyLoop, siftup, siftupLoop, siftdown, siftdownLoop, Std.Entry.before, e0, e1, e2, e3, Val.key?]
example : (Std.popMin false [e0, e1, e2, e3]).map (fun p => (p.1.idx, p.2.map (·.idx))) = some (1, [0, 3, 2]) := by
  decide
example : IsHeap (Std.Entry.before false) (heapify (Std.Entry.before false) #[e0, e1, e2, e3]) :=
  (C01_heap_heapify_min false [e0, e1, e2, e3] exOK).1
example : MergeRel true (heapify (Std.Entry.before true) #[e0, e1, e2, e3]) [e0, e1, e2, e3] :=
  MergeRel.heapify true _ exOK
/-- the refinement on this heap: pop, and replace with a new head of key 4 -/
example : ∀ m others, Std.popMin false [e0, e1, e2, e3] = some (m, others) →
    ∃ rest, heapPopMin (Std.Entry.before false) (heapify (Std.Entry.before false) #[e0, e1, e2, e3]) = some (m, rest) ∧
      MergeRel false rest others :=
  (C01_heap_pop_min false _ _ (MergeRel.heapify false _ exOK)).2
example : ∀ m others, Std.popMin false [e0, e1, e2, e3] = some (m, others) →
    ∃ rest, heapreplace (Std.Entry.before false) (heapify (Std.Entry.before false) #[e0, e1, e2, e3])
        { m with head := .obj 9 4, key := .int 4 } = some (m, rest) ∧ rest.size = 4 ∧
      MergeRel false rest ({ m with head := .obj 9 4, key := .int 4 } :: others) := fun m others hp => by
  have := C01_heap_replace_min false _ _ (MergeRel.heapify false _ exOK) m others hp (.obj 9 4) (.int 4) rfl
  simpa using this
/-- a sequence of rounds: input 1 delivers 4, input 3 is exhausted, input 1 is exhausted, input 0 delivers 7 -/
private def exOps : List MergeStep := [.pulled (.obj 9 4) (.int 4), .exhausted, .exhausted, .pulled (.obj 8 7) (.int 7)]
private theorem exOpsOK : ∀ op ∈ exOps, op.ok := by
  intro op hop
  simp only [exOps, List.mem_cons, List.not_mem_nil, or_false] at hop
  rcases hop with rfl | rfl | rfl | rfl <;> simp [MergeStep.ok, Val.key?]
example : (heapRun false (heapify (Std.Entry.before false) #[e0, e1, e2, e3]) exOps).1
    = (absRun false [e0, e1, e2, e3] exOps).1 :=
  (C01_heap_merge_rounds false _ exOK exOps exOpsOK).1
example : (absRun false [e0, e1, e2, e3] exOps).1.map (fun e => (e.idx, e.key.key?)) =
    [(1, some 3), (3, some 3), (1, some 4), (0, some 5)] := by decide

private def v0 : Sel.VE := ⟨.int 5, 0, .obj 1 5⟩
private def v1 : Sel.VE := ⟨.int 3, -1, .obj 2 3⟩
private def v2 : Sel.VE := ⟨.int 5, -2, .obj 3 5⟩
private def exKeyed : List (Val × Val) := [(.int 5, .obj 1 5), (.int 3, .obj 2 3), (.int 5, .obj 3 5), (.int 4, .obj 4 4)]

/-- asyncstdlib's `nlargest(…, 3)` on keys 5, 3, 5, 4: the heap of the first three has the entry of key 3 at the root -/
example : firstEntries ⟨true, false⟩ (exKeyed.take 3) = [v0, v1, v2] := by rfl
example : ((heapify (worseB ⟨true, false⟩) #[v0, v1, v2]).map (·.idx)) = #[-1, 0, -2] := by
  simp [heapify, heapifyLoop, siftup, siftupLoop, siftdown, siftdownLoop, worseB, Sel.worseV, Sel.kbV,
    Val.pyEq, Val.lt, Val.key?, v0, v1, v2]
example : Sel.heapifyV ⟨true, false⟩ (exKeyed.take 3) = .ok [v0, v2, v1] := by rfl
example : ∀ p ∈ exKeyed, p.1.orderable = true := by decide
example : ∃ l, Sel.heapifyV ⟨true, false⟩ (exKeyed.take 3) = .ok l ∧
    SelRel ⟨true, false⟩ (heapify (worseB ⟨true, false⟩) (firstEntries ⟨true, false⟩ (exKeyed.take 3)).toArray) l ∧
    l.length = 3 :=
  C02_heap_bounded_heapify ⟨true, false⟩ (exKeyed.take 3) (by decide)
/-- on that heap: the last of the ordered list is `heap[0]`; replacing it by the entry of key 4 (stamp -3) -/
example : ∃ l, Sel.heapifyV ⟨true, false⟩ (exKeyed.take 3) = .ok l ∧
    l.getLast? = (heapify (worseB ⟨true, false⟩) (firstEntries ⟨true, false⟩ (exKeyed.take 3)).toArray)[0]? := by
  obtain ⟨l, hl, r, _⟩ := C02_heap_bounded_heapify ⟨true, false⟩ (exKeyed.take 3) (by decide)
  exact ⟨l, hl, (C02_heap_bounded_root _ _ _ r).1⟩
example : ∃ l' a', Sel.insV ⟨true, false⟩ ⟨.int 4, -3, .obj 4 4⟩ [v0, v2] = .ok l' ∧
    heapreplace (worseB ⟨true, false⟩) (heapify (worseB ⟨true, false⟩) #[v0, v1, v2]) ⟨.int 4, -3, .obj 4 4⟩
      = some (v1, a') ∧ a'.size = 3 ∧ SelRel ⟨true, false⟩ a' l' := by
  obtain ⟨l, hl, r, _⟩ := C02_heap_bounded_heapify ⟨true, false⟩ (exKeyed.take 3) (by decide)
  have hl' : l = [v0, v2, v1] := by
    have : Sel.heapifyV ⟨true, false⟩ (exKeyed.take 3) = .ok [v0, v2, v1] := rfl
    rw [this] at hl; exact (Except.ok.inj hl).symm
  subst hl'
  obtain ⟨l', a', h1, h2, h3, h4⟩ := C02_heap_bounded_replace _ _ _ r v1 rfl ⟨.int 4, -3, .obj 4 4⟩ rfl (by decide)
  exact ⟨l', a', h1, h2, by rw [h3, heapify_size]; rfl, h4⟩
example : Sel.selectV ⟨true, false⟩ 3 exKeyed = .ok [.obj 1 5, .obj 3 5, .obj 4 4] := by rfl
example : ∃ a l, heapSelect ⟨true, false⟩ 3 exKeyed = .ok a ∧ SelRel ⟨true, false⟩ a l ∧
    Sel.selectV ⟨true, false⟩ 3 exKeyed = .ok (l.map (·.item)) ∧ a.size = 3 :=
  C02_heap_bounded_select ⟨true, false⟩ 3 exKeyed (by decide)

end Examples

end AsyncVerif
