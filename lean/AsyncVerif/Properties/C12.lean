import AsyncVerif.Proofs.CachedPropertySeq
/-!
# C12 — cached_property computes once, serves one value to all, recomputes after del

Property theorems only.  Model: `Machines/CachedProperty.lean` (`step` = one operation of a history
or schedule: attribute access, one `send` on a task, a cancellation, `del`; `micro` follows
`_FutureCachedPropertyValue._await_impl` / `_get_attribute` / `CachedProperty.__get__`).
`reach cfg ops` is the state after ANY operation sequence — every history and every interleaving —
for ANY environment `cfg` (lock type supplied or not, every getter run suspending any number of
times and returning or raising).  Theorems taking an arbitrary `s : State` hold in every state,
reachable or not.
-/
namespace AsyncVerif.CachedProperty

/-- Model adequacy.  From every reachable state every operation ends at a real suspension point or at
    the end of the task: the micro-step budget of `sched` is never exhausted, and between operations
    no task sits at one of the transient program counters (`entered`, `holding`). -/
theorem C12_never_stuck (cfg : Cfg) (ops : List Op) (op : Op) :
    (step cfg (reach cfg ops) op).2 ≠ .stuck ∧ ∀ t, ((reach cfg ops).pc t).transient = false :=
  ⟨step_not_stuck cfg _ op (reach_inv cfg ops), (reach_inv' cfg ops).settled⟩

/-- The getter runs only when no value is cached.  In EVERY state, whatever the operation (a task
    step under any interleaving, an access, a cancellation, a `del`): each getter run started by the
    operation is on an instance whose slot held no value before the operation. -/
theorem C12_getter_runs_only_when_uncached (cfg : Cfg) (s : State) (op : Op) (r : Nat)
    (h1 : s.nRuns ≤ r) (h2 : r < (step cfg s op).1.nRuns) (v : Nat) :
    s.slot ((step cfg s op).1.run r).inst ≠ some (.val v) := by
  cases op with
  | del i =>
    exfalso
    simp only [step] at h2
    split at h2 <;> simp [delSlot] at h2 <;> omega
  | spawn j => exact (step_mono cfg s _ (by intro k; simp)).new_run_uncached r h1 h2 v
  | respawn t => exact (step_mono cfg s _ (by intro k; simp)).new_run_uncached r h1 h2 v
  | sched t => exact (step_mono cfg s _ (by intro k; simp)).new_run_uncached r h1 h2 v
  | cancel t => exact (step_mono cfg s _ (by intro k; simp)).new_run_uncached r h1 h2 v

/-- Every await returns the cached value (1).  In every state in which instance i holds the value v,
    `await instance_i.<name>` (access, then the first step of the await) returns v at once, starts no
    getter run and leaves every slot as it was. -/
theorem C12_cached_value_served_fresh (cfg : Cfg) (s : State) (i v : Nat) (h : s.slot i = some (.val v)) :
    (step cfg s (.spawn i)).2 = .handle (.val v) ∧
    (step cfg (step cfg s (.spawn i)).1 (.sched s.nTasks)).2 = .ret v ∧
    (step cfg (step cfg s (.spawn i)).1 (.sched s.nTasks)).1.nRuns = s.nRuns ∧
    (step cfg (step cfg s (.spawn i)).1 (.sched s.nTasks)).1.slot = s.slot := by
  simp [step, access, h, addTask, sched, schedFuel, schedN, micro, setPc]

/-- Every await returns the cached value (2): "take the placeholder, await it later".  A task that
    obtained placeholder p earlier and starts awaiting it when p's instance holds the value v
    returns v at once, starts no getter run, changes no slot — whichever placeholder or getter run
    produced v. -/
theorem C12_cached_value_served_waiter (cfg : Cfg) (s : State) (t p v : Nat)
    (hpc : s.pc t = .start (.ph p)) (h : s.slot (s.phInst p) = some (.val v)) :
    (step cfg s (.sched t)).2 = .ret v ∧ (step cfg s (.sched t)).1.nRuns = s.nRuns ∧
    (step cfg s (.sched t)).1.slot = s.slot := by
  simp [step, sched, schedFuel, schedN, micro, hpc, setPc, instanceValue, access, h, awaitStored]

/-- All awaiters receive the one value, including those that arrived during the computation: a task
    that was blocked on placeholder p's lock and is resumed when the lock is free and the instance
    holds v returns v without running the getter, and leaves the lock free for the next waiter. -/
theorem C12_cached_value_served_after_lock (cfg : Cfg) (s : State) (t p v : Nat) (hl : cfg.lock = true)
    (hpc : s.pc t = .lockwait p) (hfree : s.lock p = none) (h : s.slot (s.phInst p) = some (.val v)) :
    (step cfg s (.sched t)).2 = .ret v ∧ (step cfg s (.sched t)).1.nRuns = s.nRuns ∧
    (step cfg s (.sched t)).1.slot = s.slot ∧ (step cfg s (.sched t)).1.lock p = none := by
  simp [step, sched, schedFuel, schedN, micro, hpc, hfree, setPc, setLock, instanceValue, access, h, awaitStored,
    release, hl]

/-- A failed or cancelled computation caches nothing, and values are per instance.  In every reachable
    state (any history, any interleaving, lock or not): whatever value instance i holds is the value
    of a getter run that was called with instance i and RETURNED (it neither raised nor was it
    cancelled, nor is it still running). -/
theorem C12_cached_value_is_returned_run (cfg : Cfg) (ops : List Op) (i v : Nat)
    (h : (reach cfg ops).slot i = some (.val v)) :
    v < (reach cfg ops).nRuns ∧ ((reach cfg ops).run v).st = .returned ∧ ((reach cfg ops).run v).inst = i ∧
    cfg.ok v = true :=
  (reach_inv cfg ops).slot_val i v h

/-- Throwing a cancellation into any task, at any suspension point, changes no slot of any instance. -/
theorem C12_cancel_caches_nothing (cfg : Cfg) (s : State) (t : Nat) :
    (step cfg s (.cancel t)).1.slot = s.slot := by
  simp only [step, cancel]
  split <;> try rfl
  simp only [setPc, setRunSt, release]; split <;> rfl

/-- A getter run that raises propagates its exception to the awaiter and changes no slot. -/
theorem C12_failure_caches_nothing (cfg : Cfg) (s : State) (t p r : Nat) (hpc : s.pc t = .getter p r 0)
    (hok : cfg.ok r = false) :
    (step cfg s (.sched t)).2 = .raised r ∧ (step cfg s (.sched t)).1.slot = s.slot ∧
    (step cfg s (.sched t)).1.pc t = .done (.failed r) := by
  cases hl : cfg.lock <;>
    simp [step, sched, schedFuel, schedN, micro, hpc, complete, hok, setPc, setRunSt, release, hl, setLock]

/-- `del` of a present entry (value or placeholder) empties the slot. -/
theorem C12_del_clears (cfg : Cfg) (s : State) (i : Nat) (h : s.slot i ≠ none) :
    (step cfg s (.del i)).2 = .deleted ∧ (step cfg s (.del i)).1.slot i = none := by
  simp only [step]
  split
  · contradiction
  · simp [delSlot]

/-- Deletion makes the next access recompute: in every state in which instance i's slot is empty
    (which is what `del` leaves), `await instance_i.<name>` starts a brand-new getter run on instance
    i — it is not served from anywhere else, and a fresh placeholder's lock is free. -/
theorem C12_uncached_access_recomputes (cfg : Cfg) (s : State) (i : Nat) (h : s.slot i = none) :
    (step cfg (step cfg s (.spawn i)).1 (.sched s.nTasks)).1.nRuns = s.nRuns + 1 ∧
    ((step cfg (step cfg s (.spawn i)).1 (.sched s.nTasks)).1.run s.nRuns).inst = i ∧
    ((step cfg (step cfg s (.spawn i)).1 (.sched s.nTasks)).2 = .suspended s.nRuns ∨
     (step cfg (step cfg s (.spawn i)).1 (.sched s.nTasks)).2 = .ret s.nRuns ∨
     (step cfg (step cfg s (.spawn i)).1 (.sched s.nTasks)).2 = .raised s.nRuns) := by
  cases hl : cfg.lock <;> cases hs : cfg.susp s.nRuns <;> cases hok : cfg.ok s.nRuns <;>
    simp [step, access, h, addTask, newPh, sched, schedFuel, schedN, micro, setPc, setLock, instanceValue, hl, hs,
      complete, hok, setRunSt, setSlot, release]

/-- With or without a lock, under every interleaving, deletion and cancellation: an await that
    returns v returns the value of a getter run that was called with the awaiter's own instance and
    returned. (Without a lock this is all that is promised for concurrent awaiters.) -/
theorem C12_awaiter_gets_a_returned_value (cfg : Cfg) (ops : List Op) (t v : Nat)
    (h : (reach cfg ops).pc t = .done (.ok v)) :
    v < (reach cfg ops).nRuns ∧ ((reach cfg ops).run v).st = .returned ∧
    ((reach cfg ops).run v).inst = (reach cfg ops).tinst t ∧ cfg.ok v = true :=
  (reach_inv cfg ops).task_val t v (Or.inl h)

/-- With a lock: two tasks are never inside the getter for the same placeholder at the same time. -/
theorem C12_lock_mutual_exclusion (cfg : Cfg) (hl : cfg.lock = true) (ops : List Op) (t t' p r r' k k' : Nat)
    (h1 : (reach cfg ops).pc t = .getter p r k) (h2 : (reach cfg ops).pc t' = .getter p r' k') :
    t = t' ∧ r = r' := by
  have hi := reach_inv cfg ops
  have e1 := hi.owner_getter hl p t r k h1
  have e2 := hi.owner_getter hl p t' r' k' h2
  rw [e1] at e2
  have ht : t = t' := Option.some.inj e2
  subst ht
  rw [h1] at h2
  cases h2
  exact ⟨rfl, rfl⟩

/-- A placeholder's lock is held only by a task that is currently suspended inside a live getter run
    for that placeholder — never by a finished, failed or cancelled task.  Hence a waiter blocked on
    the lock always has a running computation to wait for (no deadlock, no leaked lock). -/
theorem C12_lock_held_only_while_computing (cfg : Cfg) (ops : List Op) (p t : Nat)
    (h : (reach cfg ops).lock p = some t) :
    ∃ r k, (reach cfg ops).pc t = .getter p r k ∧ ((reach cfg ops).run r).st = .running ∧
      ((reach cfg ops).run r).task = t := by
  have hi := reach_inv' cfg ops
  rcases hi.lock_owner p t h with hh | ⟨r, k, hg⟩
  · have := hi.settled t; rw [hh] at this; simp [Pc.transient] at this
  · refine ⟨r, k, hg, ?_⟩
    have := (hi.getter_run t p r k hg).2
    rw [this]; exact ⟨rfl, rfl⟩

/-- A cancelled computation releases the lock: cancelling the task that is inside the getter frees
    the placeholder's lock in the same step, records the run as cancelled and propagates. -/
theorem C12_cancel_releases_lock (cfg : Cfg) (s : State) (hl : cfg.lock = true) (t p r k : Nat)
    (hpc : s.pc t = .getter p r k) :
    (step cfg s (.cancel t)).2 = .cancelled ∧ (step cfg s (.cancel t)).1.lock p = none ∧
    (step cfg s (.cancel t)).1.pc t = .done .cancelled ∧ ((step cfg s (.cancel t)).1.run r).st = .cancelled := by
  simp [step, cancel, hpc, release, hl, setPc, setRunSt, setLock]

/-- With a lock, for EVERY history (including `del` and cancellations): among the getter runs started
    for one placeholder at most one is ever running-or-returned — runs never overlap, and once one
    has returned no further run is started for that placeholder.  Every cached value is the value
    of exactly one such run. -/
theorem C12_lock_once_per_placeholder (cfg : Cfg) (hl : cfg.lock = true) (ops : List Op) (r r' : Nat)
    (hr : r < (reach cfg ops).nRuns) (hr' : r' < (reach cfg ops).nRuns)
    (hp : ((reach cfg ops).run r).ph = ((reach cfg ops).run r').ph)
    (h1 : ((reach cfg ops).run r).st = .running ∨ ((reach cfg ops).run r).st = .returned)
    (h2 : ((reach cfg ops).run r').st = .running ∨ ((reach cfg ops).run r').st = .returned) : r = r' := by
  refine (reach_inv cfg ops).live_unique hl r r' hr hr' hp ?_ ?_
  · rcases h1 with h | h <;> rw [h] <;> trivial
  · rcases h2 with h | h <;> rw [h] <;> trivial

/-- With a lock, on an instance whose attribute is never deleted in the history: at most one getter
    run on that instance is ever running-or-returned — the getter succeeds at most once, and no run
    overlaps another.  PARTIAL: the hypothesis excludes `del` on this instance; with a `del` during
    a computation two placeholders (each with its own lock) compute concurrently, see
    `C12_lock_once_per_instance_counterexample`. -/
theorem C12_lock_once_per_instance_partial (cfg : Cfg) (hl : cfg.lock = true) (ops : List Op) (i : Nat)
    (hnodel : ∀ op ∈ ops, op ≠ .del i) (r r' : Nat)
    (hr : r < (reach cfg ops).nRuns) (hr' : r' < (reach cfg ops).nRuns)
    (hi1 : ((reach cfg ops).run r).inst = i) (hi2 : ((reach cfg ops).run r').inst = i)
    (h1 : ((reach cfg ops).run r).st = .running ∨ ((reach cfg ops).run r).st = .returned)
    (h2 : ((reach cfg ops).run r').st = .running ∨ ((reach cfg ops).run r').st = .returned) : r = r' := by
  have hi := reach_inv cfg ops
  have hd : (reach cfg ops).dels i = 0 := exec_dels cfg i ops _ hnodel
  obtain ⟨hp1, he1⟩ := hi.run_ph r hr
  obtain ⟨hp2, he2⟩ := hi.run_ph r' hr'
  have hp : ((reach cfg ops).run r).ph = ((reach cfg ops).run r').ph :=
    hi.df_inj _ _ hp1 hp2 (by rw [← he1, ← he2, hi1, hi2]) (by rw [← he1, hi1]; exact hd)
  exact C12_lock_once_per_placeholder cfg hl ops r r' hr hr' hp h1 h2

/-- With a lock, on an instance whose attribute is never deleted: all awaiters that return — whenever
    they arrived — return the same value, and it is the value the instance holds.
    PARTIAL: same hypothesis as `C12_lock_once_per_instance_partial`. -/
theorem C12_lock_all_awaiters_one_value_partial (cfg : Cfg) (hl : cfg.lock = true) (ops : List Op) (i : Nat)
    (hnodel : ∀ op ∈ ops, op ≠ .del i) (t t' v v' : Nat)
    (ht : (reach cfg ops).tinst t = i) (ht' : (reach cfg ops).tinst t' = i)
    (h1 : (reach cfg ops).pc t = .done (.ok v)) (h2 : (reach cfg ops).pc t' = .done (.ok v')) :
    v = v' ∧ ∀ w, (reach cfg ops).slot i = some (.val w) → w = v := by
  have hi := reach_inv cfg ops
  obtain ⟨a1, a2, a3, _⟩ := hi.task_val t v (Or.inl h1)
  obtain ⟨b1, b2, b3, _⟩ := hi.task_val t' v' (Or.inl h2)
  refine ⟨C12_lock_once_per_instance_partial cfg hl ops i hnodel v v' a1 b1 (by rw [a3, ht]) (by rw [b3, ht'])
    (Or.inr a2) (Or.inr b2), ?_⟩
  intro w hw
  obtain ⟨c1, c2, c3, _⟩ := hi.slot_val i w hw
  exact C12_lock_once_per_instance_partial cfg hl ops i hnodel w v c1 a1 c3 (by rw [a3, ht]) (Or.inr c2) (Or.inr a2)

/-- Sequential histories: for EVERY environment (lock or not, any suspension counts, any pattern of
    failing getter runs) and EVERY history over {`await instance_i.attr`, take the attribute now and
    await it later, await a taken object, `del instance_i.attr`} on any number of instances, each
    await driven to completion before the next operation, the observable outputs (value returned,
    which getter run's exception, `AttributeError` of a `del` with nothing to delete) are exactly
    those of the specification `specStep` — `functools.cached_property` with an awaitable getter:
    compute iff no value is cached, keep the value until `del`, cache nothing on failure, per
    instance; a taken placeholder is late-bound to its instance, a taken value is that value. -/
theorem C12_sequential_refines (cfg : Cfg) (ops : List SOp) :
    seqOuts cfg State.init ops = specOuts cfg Spec.init ops :=
  seq_refines cfg ops _ _ (init_sim cfg)

/-- What the hypothesis of the two `_partial` theorems excludes (lock supplied): task 0 is inside the
    getter for placeholder 0, the attribute is deleted, task 1 accesses it — a new placeholder with
    its own lock — and runs the getter concurrently; both runs return, the two awaiters receive
    different values, and the value computed by the run that began before the `del` is cached
    after it. -/
theorem C12_lock_once_per_instance_counterexample :
    let cfg : Cfg := ⟨true, fun _ => 1, fun _ => true⟩
    let mid := reach cfg [.spawn 0, .sched 0, .del 0, .spawn 0, .sched 1]
    let fin := reach cfg [.spawn 0, .sched 0, .del 0, .spawn 0, .sched 1, .sched 0, .sched 1]
    ((mid.run 0).st = .running ∧ (mid.run 1).st = .running ∧ (mid.run 0).inst = 0 ∧ (mid.run 1).inst = 0) ∧
    (fin.pc 0 = .done (.ok 0) ∧ fin.pc 1 = .done (.ok 1) ∧ fin.slot 0 = some (.val 1)) ∧
    (reach cfg [.spawn 0, .sched 0, .del 0, .sched 0]).slot 0 = some (.val 0) := by
  decide

/-! Non-vacuity: concrete histories and schedules on which the hypotheses hold and the machine does
    something non-trivial. -/

/-- three awaiters under a lock, getter suspending twice, one arriving during the computation:
    one getter run, everybody receives its value -/
example : outs ⟨true, fun _ => 2, fun _ => true⟩ State.init
    [.spawn 0, .spawn 0, .sched 0, .sched 1, .spawn 0, .sched 2, .sched 0, .sched 1, .sched 0, .sched 1, .sched 2]
  = [.handle (.ph 0), .handle (.ph 0), .suspended 0, .blocked, .handle (.ph 0), .blocked, .suspended 0, .blocked,
     .ret 0, .ret 0, .ret 0] := by decide

/-- the same without a lock: both getters run, each awaiter gets a returned value, a later access is served -/
example : outs ⟨false, fun _ => 1, fun _ => true⟩ State.init
    [.spawn 0, .spawn 0, .sched 0, .sched 1, .sched 0, .sched 1, .spawn 0, .sched 2]
  = [.handle (.ph 0), .handle (.ph 0), .suspended 0, .suspended 1, .ret 0, .ret 1, .handle (.val 1), .ret 1] := by decide

/-- failing getter, cancelled computation (the waiter takes over), del, second instance -/
example : outs ⟨true, fun _ => 1, fun r => r != 0⟩ State.init
    [.spawn 0, .sched 0, .sched 0, .spawn 0, .spawn 0, .sched 1, .sched 2, .cancel 1, .sched 2, .sched 2,
     .del 0, .del 0, .spawn 1, .sched 3, .sched 3]
  = [.handle (.ph 0), .suspended 0, .raised 0, .handle (.ph 0), .handle (.ph 0), .suspended 1, .blocked, .cancelled,
     .suspended 2, .ret 2, .deleted, .attrError, .handle (.ph 1), .suspended 3, .ret 3] := by decide

/-- a sequential history with a failing getter, a taken placeholder awaited after a `del`, a second
    instance and a `del` with nothing to delete -/
example : seqOuts ⟨true, fun r => r % 3, fun r => r != 0⟩ State.init
    [.await 0, .take 0, .del 0, .awaitTaken 1, .await 0, .await 1, .del 1, .del 1, .await 1]
  = [.raised 0, .taken, .deleted, .ret 1, .ret 1, .ret 2, .deleted, .attrError, .ret 3] := by decide

/-- the hypotheses of the no-`del` theorems are satisfiable on a history with real contention -/
example : (∀ op ∈ ([.spawn 0, .spawn 0, .sched 0, .sched 1, .sched 0, .sched 0, .sched 1] : List Op), op ≠ .del 0) ∧
    (reach ⟨true, fun _ => 2, fun _ => true⟩ [.spawn 0, .spawn 0, .sched 0, .sched 1, .sched 0, .sched 0, .sched 1]).pc 1
      = .done (.ok 0) := by decide

end AsyncVerif.CachedProperty
