import AsyncVerif.Proofs.ExitStackEnter
/-!
# C14 / C18 — `ExitStack.enter_context` when the manager's enter SUSPENDS

Property theorems only.  Model: `Machines/ExitStackEnter.lean`.  One task runs

```python
async with ExitStack() as st:
    for m in managers: await st.enter_context(m)      # callback flavour: st.callback(m)
    <body>
```

and is advanced by `send` / `throw e`; it can be suspended inside a manager's `__aenter__`, inside
the body, and inside a manager's exit while the stack unwinds — and a cancellation (`throw e`) can
arrive at any of these points.  `Impl.run` follows `asyncstdlib.contextlib.ExitStack`
(`enter_context` awaits the enter first and appends the exit afterwards; `__aexit__` loop),
`Nested.run` is the same task written with literally nested `async with` / `with` / `try-finally`
statements.  `enteredIds` / `exitIds` project the event log onto "enter of manager i completed
(callback i registered)" / "exit of manager i called".
-/
namespace AsyncVerif.ExitStackEnter
open AsyncVerif.ExitStack (ExcId ExitResp Outcome)

/-- **ExitStack with suspending enters / exits = nested `async with`.**  For every list of managers
    (any flavours, any number of suspensions inside each enter and exit, any result of each), every
    body and every sequence of `send` / `throw e` operations — so with cancellations delivered inside
    an enter, inside the body or inside an exit — the ExitStack task and the literally nested
    statements produce the same event log (`enter i`, `entered i v`, `exit i` with the identity of the
    exception handed to it, in the same order), hand the same answers to the driver after every
    operation (where the task is suspended, or how the statement ended: normally / which exception
    propagates), and have the same final outcome. -/
theorem C14_enter_suspended_equals_nested (cfg : Cfg) (ops : List Op) :
    (Impl.run cfg ops).log = (Nested.run cfg ops).log ∧
    (Impl.run cfg ops).outs = (Nested.run cfg ops).outs ∧
    (Impl.run cfg ops).pc.result = (Nested.run cfg ops).pc.result := by
  have h := run_sim cfg ops
  exact ⟨h.2.1, h.2.2, result_sim h.1⟩

/-- **Cancelled (or failing by a thrown-in exception) inside the enter of manager `i`.**  Take any
    run `pre` after which the task is suspended inside `__aenter__` of manager `i`
    (`entering = some i`), throw `e` in there, and continue with any operations `post` until the task
    has finished.  Then `i` is a manager of the list, no exit had run before the throw, and over the
    whole run the exits that were called are exactly those of managers `i-1, …, 0` in this order —
    hence each exactly once and the exit of manager `i` (whose enter never completed) not at all;
    the managers recorded as entered are exactly `0 … i-1`. -/
theorem C18_cancel_inside_enter_exits_exactly_the_entered (cfg : Cfg) (pre post : List Op)
    (e : ExcId) (i : Nat)
    (hsusp : (Impl.run cfg pre).pc.entering = some i)
    (hdone : (Impl.run cfg (pre ++ .throw e :: post)).finished = true) :
    i < cfg.mgrs.length ∧
    exitIds (Impl.run cfg pre).log = [] ∧
    exitIds (Impl.run cfg (pre ++ .throw e :: post)).log = (List.range i).reverse ∧
    enteredIds (Impl.run cfg (pre ++ .throw e :: post)).log = List.range i ∧
    i ∉ exitIds (Impl.run cfg (pre ++ .throw e :: post)).log ∧
    (exitIds (Impl.run cfg (pre ++ .throw e :: post)).log).Nodup := by
  have hinv := run_inv cfg pre
  rw [run_append, List.foldl_cons] at hdone ⊢
  generalize Impl.run cfg pre = s at hsusp hdone hinv ⊢
  obtain ⟨pc, log, outs⟩ := s
  cases pc with
  | enter stack m left todo =>
    simp only [Impl.Pc.entering, Option.some.injEq] at hsusp
    subst hsusp
    obtain ⟨h0, h1, h2⟩ := hinv
    have hthrow : UnwSt stack.length (Impl.step cfg ⟨.enter stack m left todo, log, outs⟩ (.throw e)).pc
        (Impl.step cfg ⟨.enter stack m left todo, log, outs⟩ (.throw e)).log := by
      rw [(step_pc_log cfg _ _).1, (step_pc_log cfg _ _).2]
      cases left <;> exact fail_unwSt stack e log h1 h2
    have hfin := foldl_unwSt cfg stack.length post _ hthrow
    generalize post.foldl (Impl.step cfg) _ = fin at hdone hfin
    obtain ⟨fpc, flog, fouts⟩ := fin
    cases fpc with
    | done o =>
      obtain ⟨he, hx⟩ := hfin
      simp only [UnwP] at hx
      refine ⟨?_, h2, hx, he, ?_, ?_⟩
      · have := congrArg List.length h0
        simp at this; omega
      · simp only [hx]; simp
      · simp only [hx]; exact range_reverse_nodup _
    | enter _ _ _ _ => simp [Impl.St.finished, Impl.Pc.result] at hdone
    | body _ _ => simp [Impl.St.finished, Impl.Pc.result] at hdone
    | exit _ _ _ _ _ => simp [Impl.St.finished, Impl.Pc.result] at hdone
  | body _ _ => simp [Impl.Pc.entering] at hsusp
  | exit _ _ _ _ _ => simp [Impl.Pc.entering] at hsusp
  | done _ => simp [Impl.Pc.entering] at hsusp

/-- **The cancellation thrown into a suspended enter reaches the innermost entered manager.**  If the
    task is suspended inside the enter of the manager that follows `top` (the last one entered) and
    `e` is thrown in, the very next event is the exit of `top`, and it is handed `e` itself (a
    callback is handed nothing). -/
theorem C18_cancel_inside_enter_reaches_innermost_exit (cfg : Cfg) (pre : List Op) (e : ExcId)
    (top m : Mgr) (stack todo : List Mgr) (left : Nat)
    (hsusp : (Impl.run cfg pre).pc = .enter (top :: stack) m left todo) :
    ∃ tail, (Impl.run cfg (pre ++ [.throw e])).log
      = (Impl.run cfg pre).log ++ .exit stack.length (top.handed (some e)) :: tail := by
  rw [run_append, List.foldl_cons, List.foldl_nil, (step_pc_log cfg _ _).2, hsusp]
  have : ∃ tail, (Impl.fail (top :: stack) e).2 = .exit stack.length (top.handed (some e)) :: tail := by
    simp only [Impl.fail, Impl.unwind, Impl.loopInit, Outcome.exc]
    rcases top.xSusp with _ | k
    · exact ⟨_, rfl⟩
    · exact ⟨_, rfl⟩
  obtain ⟨tail, ht⟩ := this
  refine ⟨tail, ?_⟩
  cases left <;> simp only [Impl.next, ht]

/-- **Every entered manager is exited exactly once.**  On every complete run (any managers, any
    operations, cancellations anywhere) the sequence of exits called is exactly the reverse of the
    sequence of managers whose enter completed (callbacks: that were registered); no manager is
    recorded as entered twice; so the exit of manager `i` is called exactly once if its enter
    completed and never otherwise. -/
theorem C18_every_entered_exited_once (cfg : Cfg) (ops : List Op)
    (hdone : (Impl.run cfg ops).finished = true) :
    exitIds (Impl.run cfg ops).log = (enteredIds (Impl.run cfg ops).log).reverse ∧
    (enteredIds (Impl.run cfg ops).log).Nodup ∧
    ∀ i, (exitIds (Impl.run cfg ops).log).count i
      = if i ∈ enteredIds (Impl.run cfg ops).log then 1 else 0 := by
  have hinv := run_inv cfg ops
  generalize Impl.run cfg ops = s at hdone hinv
  obtain ⟨pc, log, outs⟩ := s
  cases pc with
  | done o =>
    obtain ⟨k, he, hx⟩ := hinv
    simp only [UnwP] at hx he ⊢
    refine ⟨by rw [hx, he], by rw [he]; exact List.nodup_range, fun i => ?_⟩
    rw [hx, he, List.count_reverse, List.count_range]
    simp [List.mem_range]
  | enter _ _ _ _ => simp [Impl.St.finished, Impl.Pc.result] at hdone
  | body _ _ => simp [Impl.St.finished, Impl.Pc.result] at hdone
  | exit _ _ _ _ _ => simp [Impl.St.finished, Impl.Pc.result] at hdone

/-- **At every moment of every run** (complete or not): no exit has been called twice, and an exit
    has been called only for a manager whose enter had completed. -/
theorem C18_exit_at_most_once_and_only_if_entered (cfg : Cfg) (ops : List Op) :
    (exitIds (Impl.run cfg ops).log).Nodup ∧
    ∀ i ∈ exitIds (Impl.run cfg ops).log, i ∈ enteredIds (Impl.run cfg ops).log := by
  have hinv := run_inv cfg ops
  generalize Impl.run cfg ops = s at hinv
  obtain ⟨pc, log, outs⟩ := s
  have key : ∀ k (ex tl : List Nat), enteredIds log = List.range k →
      ex ++ tl = (List.range k).reverse → ex.Nodup ∧ ∀ i ∈ ex, i ∈ enteredIds log := by
    intro k ex tl he hx
    have hn := range_reverse_nodup k
    rw [← hx, List.nodup_append] at hn
    refine ⟨hn.1, fun i hi => ?_⟩
    have : i ∈ (List.range k).reverse := by rw [← hx]; exact List.mem_append_left _ hi
    rw [he]; simpa using this
  cases pc with
  | enter _ _ _ _ => obtain ⟨_, _, h2⟩ := hinv; simp only [h2]; simp
  | body _ _ => obtain ⟨_, _, h2⟩ := hinv; simp only [h2]; simp
  | exit rest _ _ _ _ => obtain ⟨k, he, hx⟩ := hinv; exact key k _ _ he hx
  | done _ =>
    obtain ⟨k, he, hx⟩ := hinv
    exact key k _ [] he (by simpa [UnwP] using hx)

/-- **Every run can be completed**: after any operations, finitely many further `send`s finish the
    task (so the hypothesis "the run is complete" of the theorems above can always be met). -/
theorem C18_enter_run_can_complete (cfg : Cfg) (ops : List Op) :
    ∃ n, (Impl.run cfg (ops ++ List.replicate n Op.send)).finished = true := by
  refine ⟨mu cfg (Impl.run cfg ops).pc, ?_⟩
  rw [run_append]
  exact sends_finish cfg _ _ (Nat.le_refl _)

/-! ## Examples (non-vacuity) -/

/-- an async manager suspending once in enter and once in exit -/
private def mA : Mgr := ⟨.async, 1, .ok 0, 1, .falsy⟩
/-- a sync manager that suppresses -/
private def mS : Mgr := ⟨.sync, 0, .ok 7, 0, .truthy⟩
/-- an async manager whose enter suspends twice and whose exit would raise 9 -/
private def mR : Mgr := ⟨.async, 2, .ok 0, 0, .raise 9⟩
/-- a callback that suspends once and answers "true" (which is dropped) -/
private def mC : Mgr := ⟨.callback, 0, .ok 0, 1, .truthy⟩

private def cfg1 : Cfg := ⟨[mA, mS, mR], 1, .normal⟩
private def cfg2 : Cfg := ⟨[mA, mC, mR], 1, .raises 50⟩

/-- `C14_enter_suspended_equals_nested` on a run that is cancelled inside the enter of manager 2:
    both sides produce this log and these answers -/
example : (Impl.run cfg1 [.send, .send, .throw 5, .send, .send]).log
    = [.enter 0, .entered 0 0, .enter 1, .entered 1 7, .enter 2, .exit 1 (some 5), .exit 0 none] := by
  decide
example : (Nested.run cfg1 [.send, .send, .throw 5, .send, .send]).log
    = [.enter 0, .entered 0 0, .enter 1, .entered 1 7, .enter 2, .exit 1 (some 5), .exit 0 none] := by
  decide
example : (Impl.run cfg1 [.send, .send, .throw 5, .send, .send]).outs
    = [.susp (.enter 0), .susp (.enter 2), .susp (.enter 2), .susp (.exit 0), .finished .normal, .dead] := by
  decide

/-- hypotheses of `C18_cancel_inside_enter_exits_exactly_the_entered` (`pre = [send, send]`, `i = 2`,
    `e = 5`, `post = [send]`): suspended inside the enter of manager 2, and the run completes -/
example : (Impl.run cfg1 [.send, .send]).pc.entering = some 2 := by decide
example : (Impl.run cfg1 ([.send, .send] ++ .throw 5 :: [.send])).finished = true := by decide
example : exitIds (Impl.run cfg1 ([.send, .send] ++ .throw 5 :: [.send])).log = [1, 0] := by decide

/-- hypothesis of `C18_cancel_inside_enter_reaches_innermost_exit`, with a callback on top -/
example : (Impl.run cfg2 [.send]).pc = .enter [mC, mA] mR 1 [] := by decide
example : (Impl.run cfg2 [.send, .throw 5]).log
    = [.enter 0, .entered 0 0, .pushed 1, .enter 2, .exit 1 none] := by decide

/-- hypothesis of `C18_every_entered_exited_once`: a complete run in which the body raises, a callback
    is cancelled while suspended (exception 6 replaces 50) and the outer exit suspends -/
example : (Impl.run cfg2 [.send, .send, .send, .send, .throw 6, .send]).finished = true := by decide
example : (Impl.run cfg2 [.send, .send, .send, .send, .throw 6, .send]).log
    = [.enter 0, .entered 0 0, .pushed 1, .enter 2, .entered 2 0,
       .exit 2 (some 50), .exit 1 none, .exit 0 (some 6)] := by decide
example : (Impl.run cfg2 [.send, .send, .send, .send, .throw 6, .send]).outs.getLast?
    = some (.finished (.raises 6)) := by decide

end AsyncVerif.ExitStackEnter
