import AsyncVerif.Proofs.Tee
/-!
# C09 — tee children all see the full source sequence under every interleaving

Property theorems only.  Model: `Machines/Tee.lean` (`tee_peer`, `Tee`, `NoLock` of
asyncstdlib/itertools.py as a schedule-driven machine).  Every theorem below is about

    reach items n susp lock closeable dies ops        (= `runOps (init …) ops`, Machines/Tee.lean)

the state after an ARBITRARY operation sequence `ops` over {one `send` on consumer `i`, `aclose()`
of child `i`, cancellation of consumer `i` at its current suspension point, `Tee.aclose()`}, started
from a fresh tee with `n` children over a source producing `items`, whose k-th pull suspends
`susp[k]` times, with or without a lock, for a source that can or cannot be closed and that
does or does not die when a pending pull is cancelled.  All are proved by induction over `ops`
(invariant `Inv` of `Proofs/Tee.lean`).  `Pre lock susp` (Proofs/Tee.lean) is the property's precondition:
`lock = true ∨ ∀ k ∈ susp, k = 0` — a lock is supplied, or the source never suspends.

`Tee.aclose()` (`Op.closeAll`, `closeAll` of the machine) closes the children in order and — unless a
busy child aborts it — then unregisters every buffer that is still registered (children closed before
their first step never ran their `finally`) and closes the source on their behalf
(`C09_tee_aclose_unregisters_all`).  A child closed INDIVIDUALLY before its first step still keeps its
buffer registered (`C09_closed_before_first_step_counterexample`); this is why the two `_partial`
theorems keep the hypothesis `NoEarlyClose`.
-/
namespace AsyncVerif.Tee

/-- **Key invariant, every schedule.** For every child whose buffer is registered, what it has
    yielded followed by what its buffer holds is exactly what has been fetched from the source. -/
theorem C09_yielded_plus_buffer (items n susp lock closeable dies ops) (j : Nat) (hj : j < n)
    (b : List Val) (hb : ((reach items n susp lock closeable dies ops).kid j).buf = some b) :
    ((reach items n susp lock closeable dies ops).kid j).out ++ b
      = (reach items n susp lock closeable dies ops).fetched :=
  (reach_inv items n susp lock closeable dies ops).d.reg j
    (by rw [reach_len]; exact hj) b hb

/-- **Each source item is fetched once, in order.** What has been fetched followed by what the
    source still holds is the source sequence: no item is requested twice, skipped or reordered,
    whatever the schedule, with or without a lock. -/
theorem C09_fetched_once (items n susp lock closeable dies ops) :
    (reach items n susp lock closeable dies ops).fetched
      ++ (reach items n susp lock closeable dies ops).src = items := by
  exact (total_runOps (init items n susp lock closeable dies) ops).trans (by simp [St.total, init])

/-- **No child ever sees anything but the source's items in source order**: what a child has
    yielded is a prefix of the source sequence — under every interleaving, with every pattern of
    closing and cancelling, even without a lock. -/
theorem C09_child_prefix (items n susp lock closeable dies ops) (j : Nat) (hj : j < n) :
    ((reach items n susp lock closeable dies ops).kid j).out <+: items := by
  have hi := reach_inv items n susp lock closeable dies ops
  have hj' : j < (reach items n susp lock closeable dies ops).kids.length := by
    rw [reach_len]; exact hj
  have ht := C09_fetched_once items n susp lock closeable dies ops
  have hp : ∃ t, ((reach items n susp lock closeable dies ops).kid j).out ++ t
      = (reach items n susp lock closeable dies ops).fetched := by
    cases hb : ((reach items n susp lock closeable dies ops).kid j).buf with
    | none => exact (hi.d.unreg j hj' hb).1
    | some b => exact ⟨b, hi.d.reg j hj' b hb⟩
  obtain ⟨t, ht'⟩ := hp
  exact ⟨t ++ (reach items n susp lock closeable dies ops).src, by
    rw [← List.append_assoc, ht', ht]⟩

/-- **Completeness.** With a lock, or with a source that never suspends: a child whose consumer
    ran it to exhaustion (`Task.ended`: the child itself reported the end) has yielded everything
    that was ever fetched from the source, and — unless a cancelled consumer's exception finished
    the source — that is the whole source sequence. -/
theorem C09_exhausted_child_complete (items n susp lock closeable dies ops) (hpre : Pre lock susp)
    (j : Nat) (hj : j < n)
    (he : ((reach items n susp lock closeable dies ops).kid j).task = .ended) :
    ((reach items n susp lock closeable dies ops).kid j).out
        = (reach items n susp lock closeable dies ops).fetched ∧
    ((reach items n susp lock closeable dies ops).srcKilled = false →
      ((reach items n susp lock closeable dies ops).kid j).out = items) := by
  have hi := reach_inv items n susp lock closeable dies ops
  have hs := reach_safe items n susp lock closeable dies ops hpre
  have := hi.d.taskEnded hs j (by rw [reach_len]; exact hj) he
  refine ⟨this.1, fun hk => ?_⟩
  have ht := C09_fetched_once items n susp lock closeable dies ops
  rw [this.2.2 hk, List.append_nil] at ht
  rw [this.1, ht]

/-- **Same deliveries as `itertools.tee`.** In every reachable state, if a `send` on consumer `i`
    delivers an item, it is the source item at the position of the number of items child `i` had
    yielded before: the k-th item handed to a child is the k-th item of the source. -/
theorem C09_delivery (items n susp lock closeable dies ops) (i : Nat) (v : Val)
    (hv : (step (reach items n susp lock closeable dies ops) (.sched i)).2 = .item v) :
    items[((reach items n susp lock closeable dies ops).kid i).out.length]? = some v := by
  have hlen := reach_len items n susp lock closeable dies ops
  have hi : i < (reach items n susp lock closeable dies ops).kids.length := by
    cases Nat.lt_or_ge i (reach items n susp lock closeable dies ops).kids.length with
    | inl h => exact h
    | inr h => simp [step, Nat.not_lt.2 h] at hv
  have hv' : (sched (reach items n susp lock closeable dies ops) i).2 = .item v := by
    simpa [step, hi] using hv
  have he := (sched_eff _ i hi).item v hv'
  have hp := C09_child_prefix items n susp lock closeable dies (ops ++ [.sched i]) i (by rw [← hlen]; exact hi)
  have hr : reach items n susp lock closeable dies (ops ++ [.sched i])
      = (step (reach items n susp lock closeable dies ops) (.sched i)).1 := by
    simp only [reach, runOps_append]; rfl
  rw [hr] at hp
  have hs : (step (reach items n susp lock closeable dies ops) (.sched i)).1
      = (sched (reach items n susp lock closeable dies ops) i).1 := by simp [step, hi]
  rw [hs, he] at hp
  obtain ⟨t, ht⟩ := hp
  have := getElem?_append_mid ((reach items n susp lock closeable dies ops).kid i).out v t
  rw [ht] at this
  exact this

/-- **Retention.** A registered buffer holds exactly the fetched items its child has not yielded
    yet; hence once every registered child has yielded the first `k` fetched items, none of
    those `k` items is held in any buffer any more. -/
theorem C09_retention (items n susp lock closeable dies ops) (j : Nat) (hj : j < n) (b : List Val)
    (hb : ((reach items n susp lock closeable dies ops).kid j).buf = some b) :
    b = (reach items n susp lock closeable dies ops).fetched.drop
          ((reach items n susp lock closeable dies ops).kid j).out.length ∧
    ∀ k, (∀ j', j' < n → ((reach items n susp lock closeable dies ops).kid j').buf ≠ none →
            k ≤ ((reach items n susp lock closeable dies ops).kid j').out.length) →
      b <:+ (reach items n susp lock closeable dies ops).fetched.drop k := by
  have h := C09_yielded_plus_buffer items n susp lock closeable dies ops j hj b hb
  have hd : b = (reach items n susp lock closeable dies ops).fetched.drop
      ((reach items n susp lock closeable dies ops).kid j).out.length := by
    rw [← h]; simp
  refine ⟨hd, fun k hk => ?_⟩
  have hkj := hk j hj (by rw [hb]; simp)
  rw [hd]
  have : (reach items n susp lock closeable dies ops).fetched.drop
        ((reach items n susp lock closeable dies ops).kid j).out.length
      = ((reach items n susp lock closeable dies ops).fetched.drop k).drop
        (((reach items n susp lock closeable dies ops).kid j).out.length - k) := by
    rw [List.drop_drop]; congr 1; omega
  rw [this]
  exact List.drop_suffix _ _

/-- **Children closed early stop buffering — partial.** Provided no child is closed before its
    first step and left registered (`NoEarlyClose`: no `child.aclose()` of a child that was never
    advanced, and no `Tee.aclose()` that is aborted by a busy child while some child was never
    advanced — a `Tee.aclose()` that goes over all children is allowed, it unregisters everything
    itself), every child that has finished, been closed or whose consumer was cancelled inside it
    has had its buffer removed: the registered buffers are exactly those of the live children, so
    `C09_retention` speaks about the slowest *live* child.
    (False without the hypothesis: `C09_closed_before_first_step_counterexample`.) -/
theorem C09_closed_stop_buffering_partial (items n susp lock closeable dies ops)
    (hne : NoEarlyClose (init items n susp lock closeable dies) ops) (j : Nat) (hj : j < n) :
    (((reach items n susp lock closeable dies ops).kid j).pc = .done →
      ((reach items n susp lock closeable dies ops).kid j).buf = none) ∧
    (((reach items n susp lock closeable dies ops).kid j).pc ≠ .done →
      ((reach items n susp lock closeable dies ops).kid j).buf ≠ none) := by
  have hj' : j < (reach items n susp lock closeable dies ops).kids.length := by
    rw [reach_len]; exact hj
  exact ⟨(init_tidy items n susp lock closeable dies).runOps_tidy ops hne j hj',
    (reach_inv items n susp lock closeable dies ops).buf_ne_none j hj'⟩

/-- **Retention w.r.t. the slowest live child — partial.** Provided no child is closed before its
    first step and left registered (`NoEarlyClose`, see `C09_closed_stop_buffering_partial`): once
    every live child (not finished, not closed, its consumer not cancelled inside
    it) has yielded the first `k` fetched items, none of those `k` items is held in any buffer.
    (False without the hypothesis: `C09_closed_before_first_step_counterexample`.) -/
theorem C09_retention_live_partial (items n susp lock closeable dies ops)
    (hne : NoEarlyClose (init items n susp lock closeable dies) ops) (k : Nat)
    (hk : ∀ j, j < n → ((reach items n susp lock closeable dies ops).kid j).pc ≠ .done →
      k ≤ ((reach items n susp lock closeable dies ops).kid j).out.length)
    (j : Nat) (hj : j < n) (b : List Val)
    (hb : ((reach items n susp lock closeable dies ops).kid j).buf = some b) :
    b <:+ (reach items n susp lock closeable dies ops).fetched.drop k := by
  refine (C09_retention items n susp lock closeable dies ops j hj b hb).2 k ?_
  intro j' hj' hreg
  refine hk j' hj' ?_
  intro hd
  exact hreg ((C09_closed_stop_buffering_partial items n susp lock closeable dies ops hne j' hj').1 hd)

/-- The code as it is: a child closed individually (`child.aclose()`) before its first step never
    runs its `finally` block, so its buffer stays registered and is fed for ever — after the other
    child has consumed the whole source, the closed child's buffer still holds all three items and
    the source has not been closed.  (Only a later `Tee.aclose()` cleans this up:
    `C09_tee_aclose_unregisters_all`.) -/
theorem C09_closed_before_first_step_counterexample :
    let s := reach [1, 2, 3] 2 [] true true true
      [.close 0, .sched 1, .sched 1, .sched 1, .sched 1, .sched 0]
    (s.kid 0).pc = .done ∧ (s.kid 0).buf = some [1, 2, 3] ∧ (s.kid 1).task = .ended ∧
      (s.kid 1).out = [1, 2, 3] ∧ s.srcCloses = 0 := by
  decide

/-- **`Tee.aclose()` unregisters everything.** In every reachable state, a `Tee.aclose()` that is
    not aborted by a busy child (a child whose `__anext__` is pending makes `child.aclose()` raise
    RuntimeError) leaves every child closed and no buffer registered — also the buffers of children
    that were closed, by it or earlier, before their first step — and, if the source can be closed
    and the tee has at least one child, the source has been closed.  (With `n = 0` there is no
    buffer and nothing closes the source: `if self._buffers:` is false.) -/
theorem C09_tee_aclose_unregisters_all (items n susp lock closeable dies ops)
    (hb : (step (reach items n susp lock closeable dies ops) .closeAll).2 ≠ .busy) :
    (∀ j, j < n →
      ((step (reach items n susp lock closeable dies ops) .closeAll).1.kid j).buf = none ∧
      ((step (reach items n susp lock closeable dies ops) .closeAll).1.kid j).pc = .done) ∧
    (closeable = true → 0 < n →
      0 < (step (reach items n susp lock closeable dies ops) .closeAll).1.srcCloses) := by
  have hlen := reach_len items n susp lock closeable dies ops
  have hcl := (reach_closedLast items n susp lock closeable dies ops).step_ok .closeAll
  have hc := reach_closeable items n susp lock closeable dies ops
  simp only [step] at hb hcl ⊢
  have hnb : (closeFrom (reach items n susp lock closeable dies ops)
      (List.range (reach items n susp lock closeable dies ops).kids.length)).2 ≠ .busy :=
    fun e => hb ((closeAll_out_busy _).2 e)
  have hdone := closeFrom_pc_done _ _ (range_lt (reach items n susp lock closeable dies ops)) hnb
  have hall : ∀ j, j < n →
      ((closeAll (reach items n susp lock closeable dies ops)).1.kid j).buf = none ∧
      ((closeAll (reach items n susp lock closeable dies ops)).1.kid j).pc = .done := by
    intro j hj
    rw [closeAll_not_busy _ hnb]
    have hj' : j < (closeFrom (reach items n susp lock closeable dies ops)
        (List.range (reach items n susp lock closeable dies ops).kids.length)).1.kids.length := by
      rw [closeFrom_length, hlen]; exact hj
    rw [clearBuffers_kid _ j hj']
    exact ⟨rfl, hdone j (by simpa [hlen] using hj)⟩
  refine ⟨hall, fun hcl' hn => ?_⟩
  refine hcl ?_ (by rw [closeAll_length, hlen]; exact hn) ?_
  · have := cfg_closeAll (reach items n susp lock closeable dies ops)
    simp only [St.cfg, Prod.mk.injEq] at this
    rw [this.2.2, hc]; exact hcl'
  · intro j hj
    rw [closeAll_length, hlen] at hj
    exact (hall j hj).1

/-- **Mutual exclusion.** With a lock, at most one child is inside `iterator.__anext__()` at any
    time, and it is the lock holder; under the precondition no pull of the source was ever started
    while another was pending. -/
theorem C09_mutex (items n susp lock closeable dies ops) :
    (lock = true → ∀ j1 j2, j1 < n → j2 < n →
      isFetching ((reach items n susp lock closeable dies ops).kid j1).pc = true →
      isFetching ((reach items n susp lock closeable dies ops).kid j2).pc = true → j1 = j2) ∧
    (Pre lock susp → (reach items n susp lock closeable dies ops).overlap = false) := by
  have hi := reach_inv items n susp lock closeable dies ops
  have hlen := reach_len items n susp lock closeable dies ops
  have hw : (reach items n susp lock closeable dies ops).withLock = lock := by
    have := cfg_runOps (init items n susp lock closeable dies) ops
    simp only [St.cfg, Prod.mk.injEq] at this
    exact this.1
  constructor
  · intro hl j1 j2 h1 h2 f1 f2
    have a := hi.lockFetch (by rw [hw]; exact hl) j1 (by rw [hlen]; exact h1) f1
    have b := hi.lockFetch (by rw [hw]; exact hl) j2 (by rw [hlen]; exact h2) f2
    rw [a] at b; cases b; rfl
  · intro hpre
    exact hi.d.noOverlap (reach_safe items n susp lock closeable dies ops hpre)

/-- **The lock is never leaked.** Whoever holds the lock is a child that is inside the source and
    whose consumer is still running: a closed child, a cancelled consumer or a finished child
    never holds it, so the remaining children are never blocked by them. -/
theorem C09_lock_not_leaked (items n susp lock closeable dies ops) (h : Nat)
    (hh : (reach items n susp lock closeable dies ops).holder = some h) :
    h < n ∧ isFetching ((reach items n susp lock closeable dies ops).kid h).pc = true ∧
      ((reach items n susp lock closeable dies ops).kid h).task = .active := by
  have hi := reach_inv items n susp lock closeable dies ops
  have := hi.holder_lt h hh
  exact ⟨by rw [← reach_len items n susp lock closeable dies ops]; exact this.1, this.2.2,
    hi.inside h this.1 (Or.inl this.2.2)⟩

/-- **Closing or cancelling a child does not disturb the others** (any state, reachable or not):
    every other child keeps its position, its buffer, everything it has yielded and its consumer's
    state; nothing is fetched and nothing is taken from the source. -/
theorem C09_close_cancel_frame (s : St) (i j : Nat) (hi : i < s.kids.length) (hne : j ≠ i) :
    ((step s (.close i)).1.kid j = s.kid j ∧ (step s (.close i)).1.fetched = s.fetched ∧
      (step s (.close i)).1.src = s.src) ∧
    ((step s (.cancel i)).1.kid j = s.kid j ∧ (step s (.cancel i)).1.fetched = s.fetched ∧
      (step s (.cancel i)).1.src = s.src) := by
  simp only [step, hi, if_true]
  exact ⟨closeKid_frame s i j hi hne, cancel_frame s i j hi hne⟩

/-- **A consumer only moves its own child** (any state): a `send` on consumer `i` leaves the
    position, the consumer state and the yielded items of every other child unchanged, and every
    other child stays registered iff it was (it can only get items appended to its buffer). -/
theorem C09_sched_frame (s : St) (i j : Nat) (hj : j < s.kids.length) (hne : j ≠ i) :
    ((step s (.sched i)).1.kid j).pc = (s.kid j).pc ∧
    ((step s (.sched i)).1.kid j).task = (s.kid j).task ∧
    ((step s (.sched i)).1.kid j).out = (s.kid j).out ∧
    (((step s (.sched i)).1.kid j).buf = none ↔ (s.kid j).buf = none) := by
  simp only [step]
  split
  · rename_i hi; exact (sched_eff s i hi).others j hj hne
  · exact ⟨rfl, rfl, rfl, Iff.rfl⟩

/-- **`buffer.popleft()` never fails**: no operation in any reachable state makes a child raise
    IndexError — a running child's buffer is always registered when an item is appended. -/
theorem C09_no_index_error (items n susp lock closeable dies ops) (op : Op) :
    (step (reach items n susp lock closeable dies ops) op).2 ≠ .error :=
  (reach_inv items n susp lock closeable dies ops).step_noerr op

/-- **The source is closed only by the last child** (or by `Tee.aclose()` after it has closed
    every child): once the tee has called `iterator.aclose()`, no buffer is registered any more, so
    no remaining child can be cut off by it. -/
theorem C09_source_closed_last (items n susp lock closeable dies ops)
    (hc : 0 < (reach items n susp lock closeable dies ops).srcCloses) (j : Nat) (hj : j < n) :
    ((reach items n susp lock closeable dies ops).kid j).buf = none :=
  (reach_inv items n susp lock closeable dies ops).d.closedAll hc j (by rw [reach_len]; exact hj)

/-- The precondition is needed: without a lock and with a suspending source, two consumers are
    inside the source at once and the child that is told "end" first finishes although an item is
    still in its buffer. -/
theorem C09_precondition_is_needed :
    let s := reach [1] 2 [1, 1, 1] false true false [.sched 0, .sched 1, .sched 0, .sched 1]
    s.overlap = true ∧ (s.kid 1).task = .ended ∧ (s.kid 1).out = [] ∧ s.fetched = [1] := by
  decide

/-! Non-vacuity: concrete runs that satisfy the hypotheses of the theorems above. -/

/-- lock, suspending source, adversarial interleaving: both children run to exhaustion -/
private def opsA : List Op :=
  [.sched 0, .sched 1, .sched 1, .sched 0, .sched 1, .sched 0, .sched 0, .sched 1, .sched 1,
   .sched 1, .sched 0, .sched 0, .sched 1, .sched 1, .sched 0, .sched 0, .sched 1, .sched 1,
   .sched 0, .sched 1, .sched 0, .sched 1]

example : Pre true [1, 0, 2, 1, 1] := Or.inl rfl
example : Pre false [0, 0] := Or.inr (by decide)
example : ((reach [1, 2, 3] 2 [1, 0, 2, 1, 1] true true true opsA).kid 0).task = .ended ∧
    ((reach [1, 2, 3] 2 [1, 0, 2, 1, 1] true true true opsA).kid 1).task = .ended ∧
    ((reach [1, 2, 3] 2 [1, 0, 2, 1, 1] true true true opsA).kid 1).out = [1, 2, 3] ∧
    (reach [1, 2, 3] 2 [1, 0, 2, 1, 1] true true true opsA).srcCloses = 1 := by decide
/-- a registered, non-empty buffer (hypothesis of `C09_yielded_plus_buffer` / `C09_retention`) -/
example : ((reach [1, 2, 3] 3 [] false true true [.sched 0, .sched 0, .sched 1]).kid 2).buf = some [1, 2] := by
  decide
/-- a delivery (hypothesis of `C09_delivery`) -/
example : (step (reach [1, 2, 3] 3 [] false true true [.sched 0, .sched 0, .sched 1]) (.sched 1)).2 = .item 2 := by
  decide
/-- a child closed after two items and a consumer cancelled inside the source, no early close:
    the third child still gets everything (hypotheses of `C09_closed_stop_buffering_partial`,
    `C09_exhausted_child_complete`, `C09_lock_not_leaked`) -/
private def opsB : List Op :=
  [.sched 0, .sched 0, .sched 1, .sched 2, .sched 0, .sched 0, .close 0, .sched 1, .sched 1,
   .cancel 1, .sched 2, .sched 2, .sched 2, .sched 2, .sched 0]
example : NoEarlyClose (init [1, 2, 3] 3 [1, 1, 1, 1] true true false) opsB := by decide
example : ((reach [1, 2, 3] 3 [1, 1, 1, 1] true true false opsB).kid 2).task = .ended ∧
    ((reach [1, 2, 3] 3 [1, 1, 1, 1] true true false opsB).kid 2).out = [1, 2, 3] ∧
    ((reach [1, 2, 3] 3 [1, 1, 1, 1] true true false opsB).kid 0).task = .stopped ∧
    ((reach [1, 2, 3] 3 [1, 1, 1, 1] true true false opsB).kid 1).task = .cancelled ∧
    (reach [1, 2, 3] 3 [1, 1, 1, 1] true true false opsB).srcKilled = false := by decide
/-- the lock is held at some point (hypothesis of `C09_lock_not_leaked`, `C09_mutex`) -/
example : (reach [1, 2, 3] 2 [1] true true true [.sched 0, .sched 1]).holder = some 0 := by decide
/-- the source gets closed (hypothesis of `C09_source_closed_last`) -/
example : 0 < (reach [1] 2 [] false true true [.sched 0, .sched 1, .sched 0, .sched 1]).srcCloses := by
  decide
/-- `Tee.aclose()` after a child was closed before its first step (and with another child that was
    never advanced): not busy, so the hypothesis of `C09_tee_aclose_unregisters_all` holds; the buffer
    that `child.aclose()` left registered is gone and the source is closed.  Such a `Tee.aclose()` is
    no "early close" (`NoEarlyClose` holds for a sequence that contains it) -/
example :
    let s := reach [1, 2, 3] 3 [] true true true [.close 0, .sched 1, .sched 1]
    (s.kid 0).buf = some [1, 2] ∧ s.srcCloses = 0 ∧ (step s .closeAll).2 = .closed ∧
      ((step s .closeAll).1.kid 0).buf = none ∧ ((step s .closeAll).1.kid 2).buf = none ∧
      (step s .closeAll).1.srcCloses = 1 := by
  decide
example : NoEarlyClose (init [1, 2, 3] 3 [] true true true) [.sched 1, .sched 1, .closeAll, .sched 0] := by
  decide
/-- a `Tee.aclose()` that is aborted by a busy child leaves the buffer of the never-started child it
    closed before registered (the excluded case of `NoEarlyClose`) -/
example :
    let s := reach [1, 2, 3] 2 [1] true true true [.sched 1]
    (step s .closeAll).2 = .busy ∧ ((step s .closeAll).1.kid 0).pc = .done ∧
      ((step s .closeAll).1.kid 0).buf = some [] ∧
      ¬ NoEarlyClose (init [1, 2, 3] 2 [1] true true true) [.sched 1, .closeAll] := by
  decide

end AsyncVerif.Tee
