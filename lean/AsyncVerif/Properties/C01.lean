import AsyncVerif.Proofs.Values
import AsyncVerif.Proofs.Values2
import AsyncVerif.Proofs.Values3
import AsyncVerif.Properties.C05
/-!
# C01 — iterator tools produce exactly what their stdlib namesakes produce

For every tool two theorems.  `C01_<tool>_value`: in every fault-free world (the source delivers
`items` and ends, user callables are pure functions, the consumer takes everything) the CPython
algorithm `Std.<tool>` hands the consumer exactly the list-level specification `ListSpec.<tool>`
(plain `List` functions, `Std/ListSpec.lean`) and ends normally — in particular never `outOfFuel` —
or with the library exception the stdlib documents.  `C01_<tool>`: the same for the model
`Impl.<tool>` of asyncstdlib, through the twin theorem `C05_<tool>` (same visible log, same ending
in *every* world) where there is one, directly otherwise.

`Produces m w r ys` : run in `w`, `m` ends with `r` and `yields` of its visible log is that of `w`
followed by `ys`.  Values are compared with `=` on `Val`, i.e. including object identity.
-/
namespace AsyncVerif.V1

/-- `filter(fn, items)` (CPython algorithm) yields `items.filter` by the truthiness of `fn(x)`, or of
    `x` itself for `fn = None`, and ends normally. -/
theorem C01_filter_value (fn : Option Nat) (q : List Val → Val) (s : Nat) (items : List Val) (fuel : Nat)
    (w : World) (hc : Exhausting w) (hs : FeedsL w s items) (hq : ∀ f, fn = some f → PureFn w f q)
    (hf : items.length < fuel) :
    Produces (Std.filterLoop fn false s fuel) w (.ok ()) (ListSpec.filter fn q items) := by
  have h := filterLoop_spec fn false s q items fuel w (env_of hc) hq hs.has hf
  simpa [ListSpec.filter] using produces_of h

/-- asyncstdlib's `filter` yields `items.filter` by the truthiness of `fn(x)` / of `x`, and ends normally. -/
theorem C01_filter (fn : Option Nat) (q : List Val → Val) (s : Nat) (items : List Val) (fuel : Nat)
    (w : World) (hc : Exhausting w) (hs : FeedsL w s items) (hq : ∀ f, fn = some f → PureFn w f q)
    (hf : items.length < fuel) :
    Produces (Impl.filter fn s fuel) w (.ok ()) (ListSpec.filter fn q items) :=
  (C05_filter fn s fuel).produces (C01_filter_value fn q s items fuel w hc hs hq hf)

/-- `itertools.filterfalse(fn, items)` yields the items whose test is false, in order. -/
theorem C01_filterfalse_value (fn : Option Nat) (q : List Val → Val) (s : Nat) (items : List Val) (fuel : Nat)
    (w : World) (hc : Exhausting w) (hs : FeedsL w s items) (hq : ∀ f, fn = some f → PureFn w f q)
    (hf : items.length < fuel) :
    Produces (Std.filterLoop fn true s fuel) w (.ok ()) (ListSpec.filterfalse fn q items) := by
  have h := filterLoop_spec fn true s q items fuel w (env_of hc) hq hs.has hf
  have e : (fun x => ListSpec.pred fn q x != true) = (fun x => !ListSpec.pred fn q x) := by
    funext x; cases ListSpec.pred fn q x <;> rfl
  rw [e] at h
  exact produces_of h

/-- asyncstdlib's `filterfalse` yields the items whose test is false, in order. -/
theorem C01_filterfalse (fn : Option Nat) (q : List Val → Val) (s : Nat) (items : List Val) (fuel : Nat)
    (w : World) (hc : Exhausting w) (hs : FeedsL w s items) (hq : ∀ f, fn = some f → PureFn w f q)
    (hf : items.length < fuel) :
    Produces (Impl.filterfalse fn s fuel) w (.ok ()) (ListSpec.filterfalse fn q items) :=
  (C05_filterfalse fn s fuel).produces (C01_filterfalse_value fn q s items fuel w hc hs hq hf)

/-- `enumerate(items, start)` yields `(start, x0), (start+1, x1), …` as tuples, one per item. -/
theorem C01_enumerate_value (s : Nat) (start : Int) (items : List Val) (fuel : Nat) (w : World)
    (hc : Exhausting w) (hs : FeedsL w s items) (hf : items.length < fuel) :
    Produces (Std.enumerateLoop s start fuel) w (.ok ()) (ListSpec.enumerate start items) := by
  have h := enumerateLoop_spec s items start fuel w (env_of hc) hs.has hf
  rw [enumFrom_spec] at h
  exact produces_of h

/-- asyncstdlib's `enumerate` yields `(start, x0), (start+1, x1), …`. -/
theorem C01_enumerate (s : Nat) (start : Int) (items : List Val) (fuel : Nat) (w : World)
    (hc : Exhausting w) (hs : FeedsL w s items) (hf : items.length < fuel) :
    Produces (Impl.enumerate s start fuel) w (.ok ()) (ListSpec.enumerate start items) :=
  (C05_enumerate s start fuel).produces (C01_enumerate_value s start items fuel w hc hs hf)

/-- `itertools.takewhile(f, items)` yields `items.takeWhile` of the truthiness of `f(x)`. -/
theorem C01_takewhile_value (f : Nat) (q : List Val → Val) (s : Nat) (items : List Val) (fuel : Nat)
    (w : World) (hc : Exhausting w) (hs : FeedsL w s items) (hq : PureFn w f q) (hf : items.length < fuel) :
    Produces (Std.takewhileLoop f s fuel) w (.ok ()) (ListSpec.takewhile q items) :=
  produces_of (takewhileLoop_spec f s q items fuel w (env_of hc) hq hs.has hf)

/-- asyncstdlib's `takewhile` yields `items.takeWhile` of the truthiness of `f(x)`. -/
theorem C01_takewhile (f : Nat) (q : List Val → Val) (s : Nat) (items : List Val) (fuel : Nat)
    (w : World) (hc : Exhausting w) (hs : FeedsL w s items) (hq : PureFn w f q) (hf : items.length < fuel) :
    Produces (Impl.takewhile f s fuel) w (.ok ()) (ListSpec.takewhile q items) :=
  (C05_takewhile f s fuel).produces (C01_takewhile_value f q s items fuel w hc hs hq hf)

/-- `itertools.starmap(f, items)`, every item being the tuple of a row of `rows`, yields `rows.map f`. -/
theorem C01_starmap_value (f : Nat) (q : List Val → Val) (s : Nat) (rows : List (List Val)) (fuel : Nat)
    (w : World) (hc : Exhausting w) (hs : FeedsL w s (rows.map Val.tup)) (hq : PureFn w f q)
    (hf : rows.length < fuel) :
    Produces (Std.starmapLoop f s fuel) w (.ok ()) (ListSpec.starmap q rows) :=
  produces_of (starmapLoop_spec f s q rows fuel w (env_of hc) hq hs.has hf)

/-- asyncstdlib's `starmap` yields `rows.map f`. -/
theorem C01_starmap (f : Nat) (q : List Val → Val) (s : Nat) (rows : List (List Val)) (fuel : Nat)
    (w : World) (hc : Exhausting w) (hs : FeedsL w s (rows.map Val.tup)) (hq : PureFn w f q)
    (hf : rows.length < fuel) :
    Produces (Impl.starmap f s fuel) w (.ok ()) (ListSpec.starmap q rows) :=
  (C05_starmap f s fuel).produces (C01_starmap_value f q s rows fuel w hc hs hq hf)

/-- `itertools.accumulate(items, f, initial=…)` with a user function `f`: yields the running fold
    (`initial` first if given, else the first item first); an empty input without `initial` is
    `TypeError` with nothing yielded (asyncstdlib's documented deviation, written into the twin). -/
theorem C01_accumulate_value (f : Nat) (q : List Val → Val) (initial : Option Val) (s : Nat)
    (items : List Val) (fuel : Nat) (w : World) (hc : Exhausting w) (hs : FeedsL w s items)
    (hq : PureFn w f q) (hf : items.length < fuel) :
    Produces (Std.accumulate (some f) initial s fuel) w
      (ListSpec.accResult (ListSpec.accumulate (fun t x => q [t, x]) initial items))
      ((ListSpec.accumulate (fun t x => q [t, x]) initial items).getD []) := by
  have h := accumulate_spec (F := w.fns) (some f) initial s (fun t x => q [t, x]) (fun _ => True) items fuel w
    (fun t x _ _ => ⟨trivial, fun w he => call_pure [t, x] he hq⟩) (fun _ _ => trivial) (fun _ _ => trivial)
    (env_of hc) hs.has hf
  exact produces_of h

/-- asyncstdlib's `accumulate` with a user function: the running fold, `TypeError` on empty input
    without `initial`. -/
theorem C01_accumulate (f : Nat) (q : List Val → Val) (initial : Option Val) (s : Nat)
    (items : List Val) (fuel : Nat) (w : World) (hc : Exhausting w) (hs : FeedsL w s items)
    (hq : PureFn w f q) (hf : items.length < fuel) :
    Produces (Impl.accumulate (some f) initial s fuel) w
      (ListSpec.accResult (ListSpec.accumulate (fun t x => q [t, x]) initial items))
      ((ListSpec.accumulate (fun t x => q [t, x]) initial items).getD []) :=
  (C05_accumulate (some f) initial s fuel).produces (C01_accumulate_value f q initial s items fuel w hc hs hq hf)

/-- `itertools.accumulate(items, initial=…)` without a function, on numbers: running sums. -/
theorem C01_accumulate_add_value (initial : Option Val) (s : Nat)
    (items : List Val) (fuel : Nat) (w : World) (hc : Exhausting w) (hs : FeedsL w s items)
    (hnum : ∀ x ∈ items, x.isNum = true) (hini : ∀ v, initial = some v → v.isNum = true)
    (hf : items.length < fuel) :
    Produces (Std.accumulate none initial s fuel) w
      (ListSpec.accResult (ListSpec.accumulate ListSpec.plus initial items))
      ((ListSpec.accumulate ListSpec.plus initial items).getD []) := by
  have h := accumulate_spec (F := w.fns) none initial s ListSpec.plus (fun v => v.isNum = true) items fuel w
    (fun t x ht hx => by
      have hx := hnum x hx
      cases t <;> cases x <;> simp [Val.isNum] at ht hx <;>
        exact ⟨by simp [ListSpec.plus, Val.add, Val.isNum],
          fun w he => ⟨w, by simp [Std.accStep, liftExc, ListSpec.plus, Val.add], he, rfl, rfl⟩⟩)
    hini hnum (env_of hc) hs.has hf
  exact produces_of h

/-- asyncstdlib's `accumulate` without a function, on numbers: running sums. -/
theorem C01_accumulate_add (initial : Option Val) (s : Nat)
    (items : List Val) (fuel : Nat) (w : World) (hc : Exhausting w) (hs : FeedsL w s items)
    (hnum : ∀ x ∈ items, x.isNum = true) (hini : ∀ v, initial = some v → v.isNum = true)
    (hf : items.length < fuel) :
    Produces (Impl.accumulate none initial s fuel) w
      (ListSpec.accResult (ListSpec.accumulate ListSpec.plus initial items))
      ((ListSpec.accumulate ListSpec.plus initial items).getD []) :=
  (C05_accumulate none initial s fuel).produces (C01_accumulate_add_value initial s items fuel w hc hs hnum hini hf)

/-- `itertools.pairwise(items)` yields `(x0,x1), (x1,x2), …` = `zip items items.tail` as tuples. -/
theorem C01_pairwise_value (s : Nat) (items : List Val) (fuel : Nat) (w : World)
    (hc : Exhausting w) (hs : FeedsL w s items) (hf : items.length < fuel) :
    Produces (Std.pairwise s fuel) w (.ok ()) (ListSpec.pairwise items) :=
  produces_of (pairwise_spec s items fuel w (env_of hc) hs.has hf)

/-- asyncstdlib's `pairwise` yields `zip items items.tail` as tuples. -/
theorem C01_pairwise (s : Nat) (items : List Val) (fuel : Nat) (w : World)
    (hc : Exhausting w) (hs : FeedsL w s items) (hf : items.length < fuel) :
    Produces (Impl.pairwise s fuel) w (.ok ()) (ListSpec.pairwise items) :=
  (C05_pairwise s fuel).produces (C01_pairwise_value s items fuel w hc hs hf)

/-- `itertools.batched(items, n)` (`n ≥ 1`) yields the chunks of `n` as tuples, the last one possibly
    shorter, and ends normally. -/
theorem C01_batched_value (n : Nat) (hn : 1 ≤ n) (s : Nat) (items : List Val) (fuel : Nat) (w : World)
    (hc : Exhausting w) (hs : FeedsL w s items) (hf : items.length < fuel) :
    Produces (Std.batched n false s fuel) w (.ok ()) (ListSpec.batched n items) := by
  have h := batchedLoop_spec (F := w.fns) n hn false s items.length items fuel w (env_of hc) hs.has
    (Nat.le_refl _) hf
  have hn' : ¬ n < 1 := by omega
  simpa [Std.batched, hn', ListSpec.batched, ListSpec.chunks] using produces_of h

/-- asyncstdlib's `batched` yields the chunks of `n` as tuples. -/
theorem C01_batched (n : Nat) (hn : 1 ≤ n) (s : Nat) (items : List Val) (fuel : Nat) (w : World)
    (hc : Exhausting w) (hs : FeedsL w s items) (hf : items.length < fuel) :
    Produces (Impl.batched n false s fuel) w (.ok ()) (ListSpec.batched n items) :=
  (C05_batched n false s fuel).produces (C01_batched_value n hn s items fuel w hc hs hf)

/-- `batched(items, 0)` is `ValueError` before anything is touched, in the stdlib algorithm and in
    asyncstdlib alike. -/
theorem C01_batched_zero (strict : Bool) (s fuel : Nat) (w : World) :
    Produces (Std.batched 0 strict s fuel) w (.error .valueError) []
    ∧ Produces (Impl.batched 0 strict s fuel) w (.error .valueError) [] := by
  refine ⟨⟨rfl, ?_⟩, ⟨rfl, ?_⟩⟩ <;> simp [Std.batched, Impl.batched, raise]

/-- the chunks of the specification of `batched` put together again are the input -/
theorem C01_batched_spec_flatten (n : Nat) (hn : 1 ≤ n) (items : List Val) :
    (ListSpec.chunks n items).flatten = items :=
  chunksN_flatten n hn items.length items (Nat.le_refl _)

/-- `batched(items, n, strict=True)` yields the full chunks; it ends normally if every chunk is full
    (the length is a multiple of `n`) and with `ValueError` after the last full chunk otherwise. -/
theorem C01_batched_strict_value (n : Nat) (hn : 1 ≤ n) (s : Nat) (items : List Val) (fuel : Nat) (w : World)
    (hc : Exhausting w) (hs : FeedsL w s items) (hf : items.length < fuel) :
    Produces (Std.batched n true s fuel) w
      (if (ListSpec.chunks n items).all (fun c => c.length == n) then .ok () else .error .valueError)
      (ListSpec.batchedStrict n items) := by
  have h := batchedLoop_spec (F := w.fns) n hn true s items.length items fuel w (env_of hc) hs.has
    (Nat.le_refl _) hf
  have hn' : ¬ n < 1 := by omega
  have hp := produces_of h
  rw [show ListSpec.chunksN n items.length items = ListSpec.chunks n items from rfl] at hp
  unfold Std.batched ListSpec.batchedStrict
  rw [if_neg hn']
  by_cases hall : ((ListSpec.chunks n items).all (fun c => c.length == n)) = true
  · simpa [hall] using hp
  · simpa [hall] using hp

/-- asyncstdlib's `batched(strict=True)`: the full chunks, then `ValueError` iff there is a short tail. -/
theorem C01_batched_strict (n : Nat) (hn : 1 ≤ n) (s : Nat) (items : List Val) (fuel : Nat) (w : World)
    (hc : Exhausting w) (hs : FeedsL w s items) (hf : items.length < fuel) :
    Produces (Impl.batched n true s fuel) w
      (if (ListSpec.chunks n items).all (fun c => c.length == n) then .ok () else .error .valueError)
      (ListSpec.batchedStrict n items) :=
  (C05_batched n true s fuel).produces (C01_batched_strict_value n hn s items fuel w hc hs hf)

/-- `zip(*sources)` for any number of distinct sources `srcs`, source `s` delivering `I s` (lengths may
    differ): yields the rows of the transposition up to the shortest input, as tuples. -/
theorem C01_zip_value (srcs : List Nat) (I : Nat → List Val) (fuel : Nat) (w : World)
    (hc : Exhausting w) (hnd : srcs.Nodup) (hs : ∀ s ∈ srcs, FeedsL w s (I s))
    (hf : ListSpec.minLen (srcs.map I) < fuel) :
    Produces (Std.zip srcs fuel) w (.ok ()) (ListSpec.zip (srcs.map I)) := by
  cases hsrc : srcs with
  | nil => exact ⟨rfl, by simp [Std.zip, pure_apply, ListSpec.zip, ListSpec.zipRows, ListSpec.minLen, ListSpec.rowsN]⟩
  | cons s0 rest =>
    rw [← hsrc]
    have hne : srcs ≠ [] := by simp [hsrc]
    have h := zipLoop_min (F := w.fns) srcs hnd hne (fun row => yieldV (.tup row)) Val.tup
      (fun row w he => yieldV_ok (.tup row) he) I fuel w (env_of hc) (fun s h => (hs s h).has) hf
    have hp := produces_of h
    simpa [Std.zip, hne, ListSpec.zip] using hp

/-- asyncstdlib's `zip`: the rows up to the shortest input, as tuples. -/
theorem C01_zip (srcs : List Nat) (I : Nat → List Val) (fuel : Nat) (w : World)
    (hc : Exhausting w) (hnd : srcs.Nodup) (hs : ∀ s ∈ srcs, FeedsL w s (I s))
    (hf : ListSpec.minLen (srcs.map I) < fuel) :
    Produces (Impl.zip srcs fuel) w (.ok ()) (ListSpec.zip (srcs.map I)) :=
  (C05_zip srcs fuel).produces (C01_zip_value srcs I fuel w hc hnd hs hf)

/-- the specification of `zip` for two inputs is core `List.zip` -/
theorem C01_zip_spec_two (a b : List Val) :
    ListSpec.zip [a, b] = (a.zip b).map (fun p => Val.tup [p.1, p.2]) := by
  simp [ListSpec.zip, zipRows_pair, List.map_map, Function.comp_def]

/-- `map(f, *sources)`: `f` applied to the rows up to the shortest input. -/
theorem C01_map_value (f : Nat) (q : List Val → Val) (srcs : List Nat) (I : Nat → List Val) (fuel : Nat)
    (w : World) (hc : Exhausting w) (hnd : srcs.Nodup) (hs : ∀ s ∈ srcs, FeedsL w s (I s))
    (hq : PureFn w f q) (hf : ListSpec.minLen (srcs.map I) < fuel) :
    Produces (Std.map f srcs fuel) w (.ok ()) (ListSpec.map q (srcs.map I)) := by
  cases hsrc : srcs with
  | nil => exact ⟨rfl, by simp [Std.map, pure_apply, ListSpec.map, ListSpec.zipRows, ListSpec.minLen, ListSpec.rowsN]⟩
  | cons s0 rest =>
    rw [← hsrc]
    have hne : srcs ≠ [] := by simp [hsrc]
    have h := zipLoop_min (F := w.fns) srcs hnd hne (fun row => do yieldV (← call f row)) q
      (fun row w he => by
        obtain ⟨w1, hcl, he1, hs1, hy1⟩ := call_pure row he hq
        obtain ⟨w2, hyv, he2, hs2, hy2⟩ := yieldV_ok (q row) he1
        exact ⟨w2, by simp [bind_apply, hcl, hyv], he2, by rw [hs2, hs1], by rw [hy2, hy1]⟩)
      I fuel w (env_of hc) (fun s h => (hs s h).has) hf
    have hp := produces_of h
    simpa [Std.map, hne, ListSpec.map] using hp

/-- asyncstdlib's `map`: `f` applied to the rows up to the shortest input. -/
theorem C01_map (f : Nat) (q : List Val → Val) (srcs : List Nat) (I : Nat → List Val) (fuel : Nat)
    (w : World) (hc : Exhausting w) (hnd : srcs.Nodup) (hs : ∀ s ∈ srcs, FeedsL w s (I s))
    (hq : PureFn w f q) (hf : ListSpec.minLen (srcs.map I) < fuel) :
    Produces (Impl.map f srcs fuel) w (.ok ()) (ListSpec.map q (srcs.map I)) :=
  (C05_map f srcs fuel).produces (C01_map_value f q srcs I fuel w hc hnd hs hq hf)

/-- `zip(*sources, strict=True)`: the rows up to the shortest input; ends normally iff all inputs have
    the same length, with `ValueError` (after the last complete row) otherwise. -/
theorem C01_zip_strict_value (srcs : List Nat) (I : Nat → List Val) (fuel : Nat) (w : World)
    (hc : Exhausting w) (hnd : srcs.Nodup) (hs : ∀ s ∈ srcs, FeedsL w s (I s))
    (hf : ListSpec.minLen (srcs.map I) < fuel) :
    Produces (Std.zipStrict srcs fuel) w
      (if ListSpec.sameLen (srcs.map I) then .ok () else .error .valueError)
      (ListSpec.zip (srcs.map I)) := by
  cases hsrc : srcs with
  | nil =>
    exact ⟨rfl, by simp [Std.zipStrict, pure_apply, ListSpec.zip, ListSpec.zipRows, ListSpec.minLen, ListSpec.rowsN]⟩
  | cons s0 rest =>
    rw [← hsrc]
    have hne : srcs ≠ [] := by simp [hsrc]
    obtain ⟨h1, l, hl, h2⟩ := minLen_spec (ls := srcs.map I) (by simpa using hne)
    obtain ⟨s, hsm, rfl⟩ := List.mem_map.mp hl
    have h := zipStrictLoop_spec (F := w.fns) srcs hnd _ I fuel w (env_of hc) (fun s h => (hs s h).has)
      (fun t ht => h1 _ (List.mem_map.mpr ⟨t, ht, rfl⟩)) ⟨s, hsm, h2⟩ hf
    have hp := produces_of h
    have hall : ListSpec.sameLen (srcs.map I)
        = srcs.all (fun s => (I s).length == ListSpec.minLen (srcs.map I)) := by
      simp [ListSpec.sameLen, List.all_map, Function.comp_def]
    rw [hall]
    simpa [Std.zipStrict, hne, ListSpec.zip, ListSpec.zipRows] using hp

/-- asyncstdlib's `zip(strict=True)`: rows up to the shortest input, `ValueError` iff lengths differ. -/
theorem C01_zip_strict (srcs : List Nat) (I : Nat → List Val) (fuel : Nat) (w : World)
    (hc : Exhausting w) (hnd : srcs.Nodup) (hs : ∀ s ∈ srcs, FeedsL w s (I s))
    (hf : ListSpec.minLen (srcs.map I) < fuel) :
    Produces (Impl.zipStrict srcs fuel) w
      (if ListSpec.sameLen (srcs.map I) then .ok () else .error .valueError)
      (ListSpec.zip (srcs.map I)) :=
  (C05_zip_strict srcs fuel).produces (C01_zip_strict_value srcs I fuel w hc hnd hs hf)

/-- `itertools.chain(*sources)` for distinct sources: the concatenation of the inputs. -/
theorem C01_chain_value (srcs : List Nat) (I : Nat → List Val) (fuel : Nat) (w : World)
    (hc : Exhausting w) (hnd : srcs.Nodup) (hs : ∀ s ∈ srcs, FeedsL w s (I s))
    (hf : ∀ s ∈ srcs, (I s).length < fuel) :
    Produces (Std.chain srcs fuel) w (.ok ()) (ListSpec.chain (srcs.map I)) :=
  produces_of (chain_spec I fuel srcs w (env_of hc) hnd (fun s h => (hs s h).has) hf)

/-- asyncstdlib's `chain` (every input in its own scope, proved on the model directly — there is no
    twin theorem for `chain`): the concatenation of the inputs. -/
theorem C01_chain (srcs : List Nat) (I : Nat → List Val) (fuel : Nat) (w : World)
    (hc : Exhausting w) (hnd : srcs.Nodup) (hs : ∀ s ∈ srcs, FeedsL w s (I s))
    (hf : ∀ s ∈ srcs, (I s).length < fuel) :
    Produces (Impl.chain srcs fuel) w (.ok ()) (ListSpec.chain (srcs.map I)) :=
  produces_of (implChain_spec I fuel srcs w (env_of hc) hnd (fun s h => (hs s h).has) hf)

/-- `itertools.dropwhile(f, items)` (CPython's one loop with the `start` flag) yields
    `items.dropWhile` of the truthiness of `f(x)`. -/
theorem C01_dropwhile_value (f : Nat) (q : List Val → Val) (s : Nat) (items : List Val) (fuel : Nat)
    (w : World) (hc : Exhausting w) (hs : FeedsL w s items) (hq : PureFn w f q) (hf : items.length < fuel) :
    Produces (Std.dropwhileLoop f s false fuel) w (.ok ()) (ListSpec.dropwhile q items) :=
  produces_of (dropwhileLoop_spec f s q hq items fuel w (env_of hc) hs.has hf)

/-- asyncstdlib's `dropwhile` (two loops over one iterator; twin `C05_dropwhile`) yields
    `items.dropWhile` of the truthiness of `f(x)`. -/
theorem C01_dropwhile (f : Nat) (q : List Val → Val) (s : Nat) (items : List Val) (fuel : Nat)
    (w : World) (hc : Exhausting w) (hs : FeedsL w s items) (hq : PureFn w f q) (hf : items.length < fuel) :
    Produces (Impl.dropwhile f s fuel) w (.ok ()) (ListSpec.dropwhile q items) :=
  (C05_dropwhile f s fuel).produces (C01_dropwhile_value f q s items fuel w hc hs hq hf)

/-- `itertools.islice(items, start, stop, step)` (CPython's `cnt/next` state machine), `step ≥ 1`,
    `stop` possibly `None`, including `stop ≤ start`: yields the Python slice `items[start:stop:step]`. -/
theorem C01_islice_value (s start : Nat) (stop : Option Nat) (step : Nat) (hstep : 1 ≤ step)
    (items : List Val) (fuel : Nat) (w : World) (hc : Exhausting w) (hs : FeedsL w s items)
    (hf : items.length < fuel) :
    Produces (Std.islice s start stop step fuel) w (.ok ()) (ListSpec.islice start stop step items) :=
  produces_of (islice_spec s start stop step hstep items fuel w (env_of hc) hs.has hf)

/-- asyncstdlib's `islice` (skip `start` items, then an indexed loop with a limit; proved on the model
    directly): yields the Python slice `items[start:stop:step]`. -/
theorem C01_islice (s start : Nat) (stop : Option Nat) (step : Nat)
    (items : List Val) (fuel : Nat) (w : World) (hc : Exhausting w) (hs : FeedsL w s items)
    (hf : items.length < fuel) :
    Produces (Impl.islice s start stop step fuel) w (.ok ()) (ListSpec.islice start stop step items) :=
  produces_of (implIslice_spec s start stop step items fuel w (env_of hc) hs.has hf)

/-- `itertools.zip_longest(*sources, fillvalue=fillv)` for distinct sources: the rows of the
    transposition up to the longest input, ended inputs padded with the fill value, as tuples. -/
theorem C01_zip_longest_value (fillv : Val) (srcs : List Nat) (I : Nat → List Val) (fuel : Nat) (w : World)
    (hc : Exhausting w) (hnd : srcs.Nodup) (hs : ∀ s ∈ srcs, FeedsL w s (I s))
    (hf : ListSpec.maxLen (srcs.map I) < fuel) :
    Produces (Std.zipLongest fillv srcs fuel) w (.ok ()) (ListSpec.zipLongest fillv (srcs.map I)) :=
  produces_of (zipLongest_spec fillv srcs hnd I fuel w (env_of hc) (fun s h => (hs s h).has) hf)

/-- asyncstdlib's `zip_longest`: rows up to the longest input, padded with the fill value. -/
theorem C01_zip_longest (fillv : Val) (srcs : List Nat) (I : Nat → List Val) (fuel : Nat) (w : World)
    (hc : Exhausting w) (hnd : srcs.Nodup) (hs : ∀ s ∈ srcs, FeedsL w s (I s))
    (hf : ListSpec.maxLen (srcs.map I) < fuel) :
    Produces (Impl.zipLongest fillv srcs fuel) w (.ok ()) (ListSpec.zipLongest fillv (srcs.map I)) :=
  (C05_zip_longest fillv srcs fuel).produces (C01_zip_longest_value fillv srcs I fuel w hc hnd hs hf)

/-- `itertools.cycle(items)` with a consumer that takes `k + 1` items and then closes the generator
    (`cons = .run k .close`: resumed `k` times, closed at the next yield): it has received the first
    `k + 1` elements of `items` repeated for ever, and the run ends with the consumer's `GeneratorExit`
    (never `outOfFuel`); for no items the generator just ends.  (With an exhausting consumer `cycle`
    diverges, as documented.) -/
theorem C01_cycle_value (s : Nat) (items : List Val) (k fuel : Nat) (w : World)
    (hs : FeedsL w s items) (hc : w.cons = .run k .close) (hf : items.length + 2 * k + 2 ≤ fuel) :
    Produces (Std.cycle s fuel) w (if items.isEmpty then .ok () else .error .genExit)
      (ListSpec.cyclePrefix items (k + 1)) :=
  cycle_spec s items k fuel w hs.has hc hf

/-- the specification of `cycle` read by index: element `i` of the first `m` is `items[i mod len]` -/
theorem C01_cycle_spec_index (items : List Val) (hne : items ≠ []) (m i : Nat) (hi : i < m) :
    (ListSpec.cyclePrefix items m)[i]? = items[i % items.length]? := by
  have := cycleTake_getElem? items hne m [] i hi
  simpa [ListSpec.cyclePrefix] using this

/-- asyncstdlib's `cycle` (first pass inside a scope, then replay; proved on the model directly): a
    consumer closing after `k + 1` items has received the first `k + 1` elements of the repeated list. -/
theorem C01_cycle (s : Nat) (items : List Val) (k fuel : Nat) (w : World)
    (hs : FeedsL w s items) (hc : w.cons = .run k .close) (hf : items.length + 2 * k + 2 ≤ fuel) :
    Produces (Impl.cycle s fuel) w (if items.isEmpty then .ok () else .error .genExit)
      (ListSpec.cyclePrefix items (k + 1)) :=
  implCycle_spec s items k fuel w hs.has hc hf

/-- `heapq.merge(*sources, key=fn, reverse=reverse)` for distinct sources whose items all have an
    orderable key (objects / numbers): yields the greedy k-way merge of the inputs — at every step
    the smallest head (largest for `reverse`), equal keys to the lower input position. -/
theorem C01_merge_value (fn : Option Nat) (q : List Val → Val) (reverse : Bool) (srcs : List Nat)
    (I : Nat → List Val) (fuel : Nat) (w : World)
    (hc : Exhausting w) (hnd : srcs.Nodup) (hs : ∀ s ∈ srcs, FeedsL w s (I s))
    (hq : ∀ f, fn = some f → PureFn w f q)
    (hk : ∀ s ∈ srcs, ∀ x ∈ I s, (ListSpec.keyFn fn q x).key?.isSome = true)
    (hf : ((srcs.map I).map List.length).sum < fuel) :
    Produces (Std.merge fn reverse srcs fuel) w (.ok ())
      (ListSpec.merge (ListSpec.keyFn fn q) reverse (srcs.map I)) :=
  produces_of (merge_spec fn q reverse srcs hnd hq I fuel w (env_of hc) (fun s h => (hs s h).has) hk hf)

/-- asyncstdlib's `merge` is a twin of the stdlib algorithm (it only adds the closing of the inputs). -/
theorem C01_merge_twin (fn : Option Nat) (reverse : Bool) (srcs : List Nat) (fuel : Nat) :
    Twin (Impl.merge fn reverse srcs fuel) (Std.merge fn reverse srcs fuel) :=
  tryFinally_twin _ _ (closeAll_quiet srcs)

/-- asyncstdlib's `merge` yields the greedy stable k-way merge of the inputs. -/
theorem C01_merge (fn : Option Nat) (q : List Val → Val) (reverse : Bool) (srcs : List Nat)
    (I : Nat → List Val) (fuel : Nat) (w : World)
    (hc : Exhausting w) (hnd : srcs.Nodup) (hs : ∀ s ∈ srcs, FeedsL w s (I s))
    (hq : ∀ f, fn = some f → PureFn w f q)
    (hk : ∀ s ∈ srcs, ∀ x ∈ I s, (ListSpec.keyFn fn q x).key?.isSome = true)
    (hf : ((srcs.map I).map List.length).sum < fuel) :
    Produces (Impl.merge fn reverse srcs fuel) w (.ok ())
      (ListSpec.merge (ListSpec.keyFn fn q) reverse (srcs.map I)) :=
  (C01_merge_twin fn reverse srcs fuel).produces (C01_merge_value fn q reverse srcs I fuel w hc hnd hs hq hk hf)

/-- On inputs that are each sorted by key, the greedy merge (`reverse = False`) is a *stable merge*: a
    permutation of the concatenation of the inputs, sorted by key, and for every key value the items
    with that key appear exactly in the order they have in the concatenation (by input, then by
    position) — the very same objects, since `Val` equality includes identity. -/
theorem C01_merge_sorted_stable (kf : Val → Val) (ls : List (List Val))
    (hk : ∀ l ∈ ls, ∀ x ∈ l, (kf x).key?.isSome = true)
    (hsorted : ∀ l ∈ ls, l.Pairwise (fun a b => Std.keyLe (kf a) (kf b) = true)) :
    (ListSpec.merge kf false ls).Perm ls.flatten
    ∧ (ListSpec.merge kf false ls).Pairwise (fun a b => Std.keyLe (kf a) (kf b) = true)
    ∧ ∀ k : Int, (ListSpec.merge kf false ls).filter (fun x => (kf x).key? == some k)
        = ls.flatten.filter (fun x => (kf x).key? == some k) := by
  have hle : ∀ a b, (kf a).key?.isSome = true → (kf b).key?.isSome = true →
      (Std.keyLe (kf a) (kf b) = true ↔ rk false (kf a) ≤ rk false (kf b)) := by
    intro a b ha hb
    cases hka : (kf a).key? with
    | none => rw [hka] at ha; simp at ha
    | some x =>
      cases hkb : (kf b).key? with
      | none => rw [hkb] at hb; simp at hb
      | some y => simp [Std.keyLe, rk, hka, hkb]
  have heq : ∀ (k : Int) a, (kf a).key?.isSome = true →
      ((kf a).key? == some k) = (rk false (kf a) == k) := by
    intro k a ha
    cases hka : (kf a).key? with
    | none => rw [hka] at ha; simp at ha
    | some x => simp [rk, hka]
  have hs' : ∀ l ∈ ls, l.Pairwise (fun a b => rk false (kf a) ≤ rk false (kf b)) := by
    intro l hl
    exact (hsorted l hl).imp_of_mem (fun ha hb h => (hle _ _ (hk l hl _ ha) (hk l hl _ hb)).mp h)
  have hperm := mergeN_perm kf _ ls hk (Nat.le_refl _)
  have hkey_flat : ∀ x ∈ ls.flatten, (kf x).key?.isSome = true := by
    intro x hx
    obtain ⟨l, hl, hxl⟩ := List.mem_flatten.mp hx
    exact hk l hl x hxl
  have hkey_out : ∀ x ∈ ListSpec.merge kf false ls, (kf x).key?.isSome = true :=
    fun x hx => hkey_flat x (hperm.mem_iff.mp hx)
  refine ⟨hperm, ?_, ?_⟩
  · exact (mergeN_sorted kf _ ls hk hs' (Nat.le_refl _)).imp_of_mem
      (fun ha hb h => (hle _ _ (hkey_out _ ha) (hkey_out _ hb)).mpr h)
  · intro k
    have := mergeN_stable kf k _ ls hk hs' (Nat.le_refl _)
    rw [List.filter_congr (fun x hx => heq k x (hkey_out x hx)),
      List.filter_congr (fun x hx => heq k x (hkey_flat x hx))]
    exact this

/-- On inputs that are each sorted in *descending* key order, the greedy merge with `reverse = True`
    is a *stable merge*: a permutation of the concatenation of the inputs, sorted descending by key,
    and for every key value the items with that key appear exactly in the order they have in the
    concatenation (by input, then by position: ties go to the earlier input, as for
    `reverse = False`) — the very same objects, since `Val` equality includes identity. -/
theorem C01_merge_sorted_stable_reverse (kf : Val → Val) (ls : List (List Val))
    (hk : ∀ l ∈ ls, ∀ x ∈ l, (kf x).key?.isSome = true)
    (hsorted : ∀ l ∈ ls, l.Pairwise (fun a b => Std.keyLe (kf b) (kf a) = true)) :
    (ListSpec.merge kf true ls).Perm ls.flatten
    ∧ (ListSpec.merge kf true ls).Pairwise (fun a b => Std.keyLe (kf b) (kf a) = true)
    ∧ ∀ k : Int, (ListSpec.merge kf true ls).filter (fun x => (kf x).key? == some k)
        = ls.flatten.filter (fun x => (kf x).key? == some k) := by
  have hle : ∀ a b, (kf a).key?.isSome = true → (kf b).key?.isSome = true →
      (Std.keyLe (kf b) (kf a) = true ↔ rk true (kf a) ≤ rk true (kf b)) := by
    intro a b ha hb
    cases hka : (kf a).key? with
    | none => rw [hka] at ha; simp at ha
    | some x =>
      cases hkb : (kf b).key? with
      | none => rw [hkb] at hb; simp at hb
      | some y => simp [Std.keyLe, rk, hka, hkb]
  have heq : ∀ (k : Int) a, (kf a).key?.isSome = true →
      ((kf a).key? == some k) = (rk true (kf a) == -k) := by
    intro k a ha
    cases hka : (kf a).key? with
    | none => rw [hka] at ha; simp at ha
    | some x =>
      have h : (x == k) = (-x == -k) := by
        rw [Bool.eq_iff_iff]; simp only [beq_iff_eq]; omega
      simpa [rk, hka] using h
  have hs' : ∀ l ∈ ls, l.Pairwise (fun a b => rk true (kf a) ≤ rk true (kf b)) := by
    intro l hl
    exact (hsorted l hl).imp_of_mem (fun ha hb h => (hle _ _ (hk l hl _ ha) (hk l hl _ hb)).mp h)
  have hperm := mergeN_permR kf true _ ls hk (Nat.le_refl _)
  have hkey_flat : ∀ x ∈ ls.flatten, (kf x).key?.isSome = true := by
    intro x hx
    obtain ⟨l, hl, hxl⟩ := List.mem_flatten.mp hx
    exact hk l hl x hxl
  have hkey_out : ∀ x ∈ ListSpec.merge kf true ls, (kf x).key?.isSome = true :=
    fun x hx => hkey_flat x (hperm.mem_iff.mp hx)
  refine ⟨hperm, ?_, ?_⟩
  · exact (mergeN_sortedR kf true _ ls hk hs' (Nat.le_refl _)).imp_of_mem
      (fun ha hb h => (hle _ _ (hkey_out _ ha) (hkey_out _ hb)).mpr h)
  · intro k
    have := mergeN_stableR kf true (-k) _ ls hk hs' (Nat.le_refl _)
    rw [List.filter_congr (fun x hx => heq k x (hkey_out x hx)),
      List.filter_congr (fun x hx => heq k x (hkey_flat x hx))]
    exact this

/-- `itertools.compress(data, selectors)` (CPython's `compress_next`: pull `data`, then `selectors`,
    stop at the first of the two that has ended) for two distinct sources delivering `data` and `sels`
    (lengths may differ): yields the items of `data` whose positionally paired selector is truthy, up
    to the shorter input, and ends normally; fuel beyond the shorter length is enough. -/
theorem C01_compress_value (d sel : Nat) (hne : d ≠ sel) (data sels : List Val) (fuel : Nat) (w : World)
    (hc : Exhausting w) (hd : FeedsL w d data) (hs : FeedsL w sel sels)
    (hf : min data.length sels.length < fuel) :
    Produces (Std.compressLoop d sel fuel) w (.ok ()) (ListSpec.compress data sels) :=
  produces_of (compressLoop_spec d sel hne data sels fuel w (env_of hc) hd.has hs.has hf)

/-- asyncstdlib's `compress` (two scopes around a `zip` of both iterators; twin `C05_compress`) yields
    the items of `data` whose positionally paired selector is truthy, up to the shorter input. -/
theorem C01_compress (d sel : Nat) (hne : d ≠ sel) (data sels : List Val) (fuel : Nat) (w : World)
    (hc : Exhausting w) (hd : FeedsL w d data) (hs : FeedsL w sel sels)
    (hf : min data.length sels.length < fuel) :
    Produces (Impl.compress d sel fuel) w (.ok ()) (ListSpec.compress data sels) :=
  (C05_compress d sel fuel).produces (C01_compress_value d sel hne data sels fuel w hc hd hs hf)

/-- the specification of `compress` is the comprehension of the documentation,
    `(x for x, k in zip(data, selectors) if k)` -/
theorem C01_compress_spec_zip (data sels : List Val) :
    ListSpec.compress data sels = ((data.zip sels).filter (fun p => p.2.truthy)).map (fun p => p.1) := by
  unfold ListSpec.compress
  induction data.zip sels with
  | nil => rfl
  | cons p ps ih => cases hp : p.2.truthy <;> simp [hp, ih]

/-- `iter(callable, sentinel)` (CPython's `calliter_iternext`), the callable's successive results —
    from its current invocation number on, called without arguments — being the elements of `rs`
    (`ScriptedFn`), some element of which is `==` to the sentinel: yields exactly the results before
    the first one equal to the sentinel (the very same values) and ends normally; fuel beyond the number
    of yielded results is enough.  (`C01_iter_sentinel_spec_index`: these are `rs.take i` for `i` the
    index of the first result equal to the sentinel.) -/
theorem C01_iter_sentinel_value (f : Nat) (sentinel : Val) (rs : List Val) (fuel : Nat) (w : World)
    (hc : Exhausting w) (hr : ScriptedFn w f rs) (hex : ∃ v ∈ rs, v.pyEq sentinel = true)
    (hf : (ListSpec.iterSentinel sentinel rs).length < fuel) :
    Produces (Std.iterSentinel f sentinel fuel) w (.ok ()) (ListSpec.iterSentinel sentinel rs) :=
  produces_of (iterSentinel_spec f sentinel rs fuel w (env_of hc) hr hex hf)

/-- asyncstdlib's `iter(callable, sentinel)` yields the callable's results before the first one equal to
    the sentinel and ends normally. -/
theorem C01_iter_sentinel (f : Nat) (sentinel : Val) (rs : List Val) (fuel : Nat) (w : World)
    (hc : Exhausting w) (hr : ScriptedFn w f rs) (hex : ∃ v ∈ rs, v.pyEq sentinel = true)
    (hf : (ListSpec.iterSentinel sentinel rs).length < fuel) :
    Produces (Impl.iterSentinel f sentinel fuel) w (.ok ()) (ListSpec.iterSentinel sentinel rs) :=
  (C05_iter_sentinel f sentinel fuel).produces (C01_iter_sentinel_value f sentinel rs fuel w hc hr hex hf)

/-- the specification of `iter(callable, sentinel)` read by index: if result `i` is the first one `==`
    to the sentinel, what is yielded is `rs.take i`, i.e. `i` values — so `fuel > i` is enough above -/
theorem C01_iter_sentinel_spec_index (sentinel : Val) (rs : List Val) (i : Nat) (hi : i < rs.length)
    (hat : rs[i].pyEq sentinel = true) (hbefore : ∀ j (hj : j < i), rs[j].pyEq sentinel = false) :
    ListSpec.iterSentinel sentinel rs = rs.take i
    ∧ (ListSpec.iterSentinel sentinel rs).length = i := by
  have h := iterSentinel_take sentinel rs i hi hat hbefore
  refine ⟨h, ?_⟩
  rw [h, List.length_take]; omega

/-! ## The hypotheses are satisfiable, and the theorems say what they should, on concrete worlds

Items with ties: `a1` and `a2` are different objects with the same key. -/

section Examples

private def a1 : Val := .obj 1 5
private def a2 : Val := .obj 2 5
private def b0 : Val := .obj 3 0
private def c7 : Val := .obj 4 7

/-- source 0 delivers `a1, b0, a2, c7`, source 1 delivers `b0, a2`, source 2 nothing; callable 0
    returns its first argument, callable 1 the tuple of its arguments -/
private def exWorld : World where
  srcs := fun s =>
    if s = 0 then { kind := .agen, script := [.item a1, .item b0, .item a2, .item c7] }
    else if s = 1 then { kind := .list, script := [.item b0, .item a2] }
    else { kind := .aobj, script := [] }
  fns := fun f _ args => if f = 0 then .ok (args.headD .none) else .ok (.tup args)
  calls := fun _ => 0
  cons := .run 0 .exhaust
  vis := []
  rel := []

private def exItems (s : Nat) : List Val :=
  if s = 0 then [a1, b0, a2, c7] else if s = 1 then [b0, a2] else []

example : Exhausting exWorld := rfl
example : FeedsL exWorld 0 [a1, b0, a2, c7] := ⟨rfl, rfl⟩
example : ∀ s ∈ [0, 1, 2], FeedsL exWorld s (exItems s) := by
  intro s hs
  simp only [List.mem_cons, List.not_mem_nil, or_false] at hs
  rcases hs with rfl | rfl | rfl <;> exact ⟨rfl, rfl⟩
example : PureFn exWorld 0 (fun args => args.headD .none) := fun _ _ => rfl
example : PureFn exWorld 1 Val.tup := fun _ _ => rfl
example : [0, 1, 2].Nodup := by decide
example : ([a1, b0, a2, c7] : List Val).length < 10 := by decide

/-- `filter` with the identity as predicate keeps the truthy items (key ≠ 0), the very same objects -/
example : yields (Impl.filter (some 0) 0 10 exWorld).2.vis = [a1, a2, c7] := by rfl
example : ListSpec.filter (some 0) (fun args => args.headD .none) [a1, b0, a2, c7] = [a1, a2, c7] := by rfl
example : Produces (Impl.filter (some 0) 0 10) exWorld (.ok ()) [a1, a2, c7] :=
  C01_filter (some 0) (fun args => args.headD .none) 0 [a1, b0, a2, c7] 10 exWorld rfl ⟨rfl, rfl⟩
    (fun f hf => by cases hf; exact fun _ _ => rfl) (by decide)

example : ListSpec.enumerate 3 [a1, b0] = [.tup [.int 3, a1], .tup [.int 4, b0]] := by rfl
example : ListSpec.pairwise [a1, b0, a2] = [.tup [a1, b0], .tup [b0, a2]] := by rfl
example : ListSpec.batched 3 [a1, b0, a2, c7] = [.tup [a1, b0, a2], .tup [c7]] := by rfl
example : ListSpec.batchedStrict 3 [a1, b0, a2, c7] = [.tup [a1, b0, a2]] := by rfl
example : ListSpec.zip [[a1, b0, a2, c7], [b0, a2]] = [.tup [a1, b0], .tup [b0, a2]] := by rfl
example : ListSpec.sameLen [[a1, b0, a2, c7], [b0, a2]] = false := by rfl
example : ListSpec.zipLongest .fill [[a1, b0, a2], [b0], []]
    = [.tup [a1, b0, .fill], .tup [b0, .fill, .fill], .tup [a2, .fill, .fill]] := by rfl
example : ListSpec.islice 1 (some 6) 2 [a1, b0, a2, c7, a1, b0, a2] = [b0, c7, b0] := by rfl
example : ListSpec.islice 2 none 3 [a1, b0, a2, c7, a1, b0, a2] = [a2, b0] := by rfl
example : ListSpec.islice 3 (some 2) 1 [a1, b0, a2, c7] = [] := by rfl
example : ListSpec.cyclePrefix [a1, b0, a2] 7 = [a1, b0, a2, a1, b0, a2, a1] := by rfl
example : ListSpec.accumulate ListSpec.plus none [.int 1, .int 2, .int 3] = some [.int 1, .int 3, .int 6] := by rfl

/-- ties in `merge` go to the lower input: `a1` (input 0) before `a2` (input 1), either direction -/
example : ListSpec.merge id false [[b0, a1, c7], [a2], [b0]] = [b0, b0, a1, a2, c7] := by rfl
example : ListSpec.merge id true [[c7, a1, b0], [a2], [b0]] = [c7, a1, a2, b0, b0] := by rfl

example : yields (Impl.zip [0, 1, 2] 10 exWorld).2.vis = [] := by rfl
example : yields (Impl.zip [0, 1] 10 exWorld).2.vis = [.tup [a1, b0], .tup [b0, a2]] := by rfl
example : Produces (Impl.zip [0, 1] 10) exWorld (.ok ()) [.tup [a1, b0], .tup [b0, a2]] :=
  C01_zip [0, 1] exItems 10 exWorld rfl (by decide)
    (by intro s hs
        simp only [List.mem_cons, List.not_mem_nil, or_false] at hs
        rcases hs with rfl | rfl <;> exact ⟨rfl, rfl⟩)
    (by decide)
example : (Impl.zipStrict [0, 1] 10 exWorld).1 = .error .valueError := by rfl

/-- a closing consumer for `cycle`: takes 5 items of source 1 (`b0, a2`), then closes -/
example : yields (Impl.cycle 1 20 { exWorld with cons := .run 4 .close }).2.vis = [b0, a2, b0, a2, b0] := by rfl
example : Produces (Impl.cycle 1 20) { exWorld with cons := .run 4 .close } (.error .genExit) [b0, a2, b0, a2, b0] :=
  C01_cycle 1 [b0, a2] 4 20 _ ⟨rfl, rfl⟩ rfl (by decide)

/-- `merge(reverse=True)` on descending inputs: the hypotheses of `C01_merge_sorted_stable_reverse` hold
    for `[[c7, a1, b0], [a2], [b0]]`, and the tie `a1` (input 0) / `a2` (input 1) keeps its order -/
example : ∀ l ∈ [[c7, a1, b0], [a2], [b0]], ∀ x ∈ l, (id x : Val).key?.isSome = true := by decide
example : ∀ l ∈ [[c7, a1, b0], [a2], [b0]], l.Pairwise (fun a b => Std.keyLe (id b) (id a) = true) := by decide
example : (ListSpec.merge id true [[c7, a1, b0], [a2], [b0]]).filter (fun x => (id x : Val).key? == some 5)
    = [a1, a2] :=
  ((C01_merge_sorted_stable_reverse id [[c7, a1, b0], [a2], [b0]] (by decide) (by decide)).2.2 5).trans (by rfl)

/-- `compress`: source 0 (`a1, b0, a2, c7`) as data, source 1 (`b0, a2`) as selectors: `a1` is dropped
    (its selector `b0` is falsy), `b0` is kept (its selector `a2` is truthy), then the selectors end -/
example : ListSpec.compress [a1, b0, a2, c7] [b0, a2] = [b0] := by rfl
example : ListSpec.compress [a1, b0, a2] [a2, b0, c7, a1] = [a1, a2] := by rfl
example : yields (Impl.compress 0 1 10 exWorld).2.vis = [b0] := by rfl
example : Produces (Impl.compress 0 1 3) exWorld (.ok ()) [b0] :=
  C01_compress 0 1 (by decide) [a1, b0, a2, c7] [b0, a2] 3 exWorld rfl ⟨rfl, rfl⟩ ⟨rfl, rfl⟩ (by decide)

/-- callable 0 has already been invoked twice; its invocation `n` returns element `n` of
    `c7, c7, a1, c7, b0, a2` (and `None` afterwards) -/
private def exWorld2 : World :=
  { exWorld with
    fns := fun _ n _ => .ok ([c7, c7, a1, c7, b0, a2].getD n .none)
    calls := fun f => if f = 0 then 2 else 0 }

example : ScriptedFn exWorld2 0 [a1, c7, b0, a2] := by
  intro n hn
  match n, hn with
  | 0, _ => rfl
  | 1, _ => rfl
  | 2, _ => rfl
  | 3, _ => rfl
  | n + 4, h => exact absurd h (by simp)

/-- `iter(callable, 0)`: `b0` (key 0) is the first result `== 0`, at index 2: `a1, c7` are yielded -/
example : ListSpec.iterSentinel (.int 0) [a1, c7, b0, a2] = [a1, c7] := by rfl
example : yields (Impl.iterSentinel 0 (.int 0) 10 exWorld2).2.vis = [a1, c7] := by rfl
example : Produces (Impl.iterSentinel 0 (.int 0) 3) exWorld2 (.ok ()) [a1, c7] :=
  C01_iter_sentinel 0 (.int 0) [a1, c7, b0, a2] 3 exWorld2 rfl
    (by intro n hn
        match n, hn with
        | 0, _ => rfl
        | 1, _ => rfl
        | 2, _ => rfl
        | 3, _ => rfl
        | n + 4, h => exact absurd h (by simp))
    ⟨b0, by simp, by rfl⟩ (by decide)

end Examples

end AsyncVerif.V1
