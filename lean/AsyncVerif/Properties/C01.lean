import AsyncVerif.Proofs.Core
namespace AsyncVerif
theorem C01_placeholder_true : True := trivial
end AsyncVerif
