import AsyncVerif.Proofs.Core
import AsyncVerif.Impl.Aggregations
import AsyncVerif.Proofs.SelectValue
/-!
# C20 — bounded retention  (partial by nature)

Object lifetime is a property of CPython frames and reference counts, which the model does not
have.  What the model does have are the *explicit containers* a tool carries from one step to the
next — they are the arguments of the model's loops: `batch` of `batched`, the row under
construction of `zip`/`map`, the heap of `merge` (one entry per live source), the previous item of
`pairwise`, the running value of `accumulate`/`reduce`/`min`/`max`; all other streaming loops carry
no item at all (`filterLoop`, `takewhileLoop`, `enumerateLoop` carry at most a counter).  The
theorems below bound those containers for **every world** and every stream length.  That the real
frames hold nothing else is measured on every run with weak references (harness/props/c20.py).
-/
namespace AsyncVerif

/-- `batched`: the batch under construction never exceeds the window `n` (and is exactly `n` when
    reported full), for every source script and fault position -/
theorem C20_batched_window (s : Nat) : ∀ (n : Nat) (acc : List Val) (w : World) (batch : List Val) (full : Bool) (w' : World),
    Std.collect s n acc w = (.ok (batch, full), w') →
    batch.length ≤ acc.length + n ∧ (full = true → batch.length = acc.length + n) := by
  intro n
  induction n with
  | zero =>
    intro acc w batch full w' h
    simp only [Std.collect, pure_apply, Prod.mk.injEq, Except.ok.injEq] at h
    obtain ⟨⟨rfl, rfl⟩, _⟩ := h
    simp
  | succ n ih =>
    intro acc w batch full w' h
    simp only [Std.collect, bind_apply] at h
    rcases hp : pull s w with ⟨r, w1⟩
    rw [hp] at h
    cases r with
    | error e => simp at h
    | ok o =>
      cases o with
      | none =>
        simp only [pure_apply, Prod.mk.injEq, Except.ok.injEq] at h
        obtain ⟨⟨rfl, rfl⟩, _⟩ := h
        exact ⟨by omega, by simp⟩
      | some x =>
        have := ih (acc ++ [x]) w1 batch full w' h
        simp only [List.length_append, List.length_cons, List.length_nil] at this
        exact ⟨by omega, fun hf => by have := this.2 hf; omega⟩

/-- `zip` / `map` / `zip(strict)`: a completed row has exactly one item per source -/
theorem C20_zip_row (srcs : List Nat) : ∀ (acc : List Val) (w : World) (row : List Val) (w' : World),
    Std.zipRow srcs acc w = (.ok (some row), w') → row.length = acc.length + srcs.length := by
  induction srcs with
  | nil =>
    intro acc w row w' h
    simp only [Std.zipRow, pure_apply, Prod.mk.injEq, Except.ok.injEq, Option.some.injEq] at h
    obtain ⟨rfl, _⟩ := h
    simp
  | cons s rest ih =>
    intro acc w row w' h
    simp only [Std.zipRow, bind_apply] at h
    rcases hp : pull s w with ⟨r, w1⟩
    rw [hp] at h
    cases r with
    | error e => simp at h
    | ok o =>
      cases o with
      | none => simp [pure_apply] at h
      | some x =>
        have := ih (acc ++ [x]) w1 row w' h
        simp only [List.length_append, List.length_cons, List.length_nil] at this ⊢
        omega

/-- `merge`: collecting the first items creates at most one heap entry per source -/
theorem C20_merge_one_head_per_source (fn : Option Nat) (srcs : List Nat) :
    ∀ (idx : Nat) (acc : List Std.Entry) (w : World) (hs : List Std.Entry) (w' : World),
    Std.heads fn srcs idx acc w = (.ok hs, w') → hs.length ≤ acc.length + srcs.length := by
  induction srcs with
  | nil =>
    intro idx acc w hs w' h
    simp only [Std.heads, pure_apply, Prod.mk.injEq, Except.ok.injEq] at h
    obtain ⟨rfl, _⟩ := h
    simp
  | cons s rest ih =>
    intro idx acc w hs w' h
    simp only [Std.heads, bind_apply] at h
    rcases hp : pull s w with ⟨r, w1⟩
    rw [hp] at h
    cases r with
    | error e => simp at h
    | ok o =>
      cases o with
      | none =>
        have := ih (idx + 1) acc w1 hs w' h
        simp only [List.length_cons]; omega
      | some x =>
        simp only [bind_apply] at h
        rcases hk : Std.keyOf fn x w1 with ⟨rk, w2⟩
        rw [hk] at h
        cases rk with
        | error e => simp at h
        | ok k =>
          have := ih (idx + 1) _ w2 hs w' h
          simp only [List.length_append, List.length_cons, List.length_nil] at this ⊢
          omega

/-- `merge`: taking the minimum entry out of the heap removes exactly one entry, so the heap of the
    merging loop (`others`, or `others` plus the refilled entry) never grows -/
theorem C20_merge_heap_never_grows (reverse : Bool) : ∀ (heap : List Std.Entry) (e : Std.Entry) (others : List Std.Entry),
    Std.popMin reverse heap = some (e, others) → others.length + 1 = heap.length := by
  intro heap
  induction heap with
  | nil => intro e others h; simp [Std.popMin] at h
  | cons x rest ih =>
    intro e others h
    simp only [Std.popMin] at h
    cases hr : Std.popMin reverse rest with
    | none =>
      rw [hr] at h
      simp only [Option.some.injEq, Prod.mk.injEq] at h
      obtain ⟨_, rfl⟩ := h
      cases rest with
      | nil => rfl
      | cons y ys => simp [Std.popMin] at hr; cases hq : Std.popMin reverse ys <;> simp [hq] at hr <;> split at hr <;> simp at hr
    | some p =>
      obtain ⟨m, os⟩ := p
      rw [hr] at h
      have hlen := ih m os hr
      simp only at h
      split at h
      · simp only [Option.some.injEq, Prod.mk.injEq] at h
        obtain ⟨_, rfl⟩ := h
        simp only [List.length_cons]; omega
      · simp only [Option.some.injEq, Prod.mk.injEq] at h
        obtain ⟨_, rfl⟩ := h
        simp only [List.length_cons]; omega

/-- `nlargest` / `nsmallest`: the heap holds at most `n` entries after the first phase — in **every world** (any source
    script, any fault, any key behaviour), for every direction and stamp convention -/
theorem C20_nbest_heap_at_most_n (c : Sel.Cfg) (n : Nat) (fn : Option Nat) (s : Nat) (w w' : World)
    (first : List (Val × Val)) (h0 : List Sel.VE)
    (hfirst : Std.nbFirst fn s n [] w = (.ok first, w')) (hheap : Sel.heapifyV c first = .ok h0) :
    h0.length ≤ n := by
  have h1 := nbFirst_length fn s n [] w first w' hfirst
  have h2 := Sel.heapifyV_length c first 0 [] h0 hheap
  simp at h1 h2
  omega

/-- … and **no round of the scan changes its size**, however long the stream: every state the scan loop passes through
    (each is the start state of the remaining scan) holds exactly as many entries as the heap it started from; an
    accepted item replaces the worst entry, a rejected one is dropped at once. -/
theorem C20_nbest_window_constant (c : Sel.Cfg) (fn : Option Nat) (s fuel : Nat) (st st' : List Sel.VE × Int) (w w' : World)
    (h : Std.nbScan c fn s st fuel w = (.ok st', w')) : st'.1.length = st.1.length :=
  nbScan_heap_size c fn s fuel st st' w w' h

/-- one round: the heap keeps its size whether or not the item is accepted -/
theorem C20_nbest_round (c : Sel.Cfg) (st st' : List Sel.VE × Int) (k x : Val) (h : Sel.acceptV c st k x = .ok st') :
    st'.1.length = st.1.length := Sel.acceptV_length c st st' k x h

/-! Non-vacuity -/
example : (Sel.acceptV ⟨true, false⟩ ([⟨.int 5, 0, .obj 1 5⟩, ⟨.int 3, -1, .obj 2 3⟩], -2) (.int 4) (.obj 3 4)).map
    (fun st => st.1.map (·.item)) = .ok [.obj 1 5, .obj 3 4] := by rfl
example : (Std.popMin false [⟨.int 3, .int 3, 0, 0⟩, ⟨.int 1, .int 1, 1, 1⟩]).map (fun p => (p.1.idx, p.2.length)) = some (1, 1) := by
  decide

end AsyncVerif
