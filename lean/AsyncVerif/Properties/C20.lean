import AsyncVerif.Impl.Aggregations
namespace AsyncVerif
theorem C20_placeholder_true : True := trivial
end AsyncVerif
