import AsyncVerif.Proofs.ContextManager
/-!
# C13 — contextmanager equals asynccontextmanager for every generator and body outcome

Property theorems only.  Model: `Machines/ContextManager.lean` (`Impl` = asyncstdlib's
`_AsyncGeneratorContextManager`, `Std` = CPython 3.12's, `Decl` = the declarative reading,
`Gen` = every terminating async generator as a behaviour tree, `settle/aclose` = the runtime).
All theorems are over **all** generators `g : Gen` / continuations `k : Resume → Gen` (arbitrary
functions of the thrown exception object) and **all** block outcomes.
-/
namespace AsyncVerif.ContextManager

/-! ## entering -/

/-- The block is entered with exactly the value the generator yields first, after exactly one
    `__anext__`. -/
theorem C13_enters_with_yielded_value (v : Val) (k : Resume → Gen) (b : Block) :
    (Impl.run (.yield v k) b).entered = some v ∧ (Impl.run (.yield v k) b).ops.head? = some .anext := by
  simp [Impl.run, withStmt, Impl.aenter, settle]

/-- A generator that returns without yielding: the statement raises the "did not yield"
    `RuntimeError`, the block never runs, the generator is not touched again. -/
theorem C13_did_not_yield (b : Block) :
    Impl.run .ret b = { entered := none, final := .raises (.lib .didNotYield), ops := [.anext] } :=
  (run_not_entered .ret b _ aenter_ret).1

/-- A generator that raises before yielding: that very object surfaces (a
    `StopIteration`/`StopAsyncIteration` as the runtime's `RuntimeError` carrying it as
    `__cause__`, never as "did not yield"); the block never runs. -/
theorem C13_raise_before_yield (e : Exc) (b : Block) :
    Impl.run (.raise e) b = { entered := none, final := .raises (Decl.surface e), ops := [.anext] } := by
  exact (run_not_entered _ b _ (aenter_raise e)).1

/-! ## exactly one wake-up -/

/-- After entering, `__aexit__` touches the generator exactly once: resumed after a normal
    block, closed after `GeneratorExit`, otherwise thrown into with the block's own exception
    object. -/
theorem C13_once (v : Val) (k : Resume → Gen) (b : Block) :
    (Impl.run (.yield v k) b).ops =
      [.anext, match b.exc with
               | none => .anext
               | some ev => if ev.kind = .generatorExit then .aclose else .athrow ev] := by
  cases hb : b.exc with
  | none => simp [Impl.run, withStmt, Impl.aenter, settle, hb, Impl.aexit]
  | some ev =>
    by_cases hg : ev.kind = .generatorExit <;>
      simp [Impl.run, withStmt, Impl.aenter, settle, hb, Impl.aexit, hg]

/-! ## the outcome, read declaratively -/

/-- asyncstdlib's `__aexit__` — with its dispatch over exception classes (`except
    StopAsyncIteration`, `except RuntimeError`, `except exc_type`) — decides exactly as the
    class-free reading `Decl.aexit`: generator stops → suppress; yields again →
    `RuntimeError`; lets the block's exception out (as itself, or promoted by the runtime if it
    is a `Stop(Async)Iteration`) → `False`, so the same object propagates; raises anything else
    → that surfaces; `GeneratorExit` → close, never suppress. -/
theorem C13_outcome_table (k : Resume → Gen) (b : Block) :
    (Impl.aexit k b.exc).1 = Decl.aexit k b.exc := by
  cases hb : b.exc with
  | none =>
    simp only [Impl.aexit, Decl.aexit, anext]
    cases hk : k .next with
    | ret => simp [settle, Exc.kind, LibExc.kind, Kind.isSub]
    | «yield» v2 k2 => simp [settle]
    | raise e =>
      by_cases hs : e.isStop = true
      · simp [settle, hs, Decl.surface, Exc.kind, Kind.isSub]
      · have h2 : e.kind.isSub .stopAsyncIteration = false := by
          simp [Exc.isStop] at hs; exact hs.2
        simp [settle, hs, Decl.surface, h2]
  | some ev =>
    have hnl := Block.exc_ne_lib hb
    have hnp := Block.exc_ne_promoted hb
    by_cases hg : ev.kind = .generatorExit
    · simp only [Impl.aexit, Decl.aexit, hg, if_true]
      cases hc : aclose k with
      | none => rfl
      | some exc =>
        have ⟨h1, h2⟩ := aclose_raised hc
        have hne : exc ≠ ev := by
          apply ne_of_kind; intro hk; rw [hk, hg] at h1; simp [Kind.isSub] at h1
        have hst : ev.isStop = false := by simp [Exc.isStop, hg, Kind.isSub]
        have h3 : exc.kind.isSub ev.kind = false := by rw [hg]; exact h1
        simp [Impl.handlers, h2, hne, hst, h3]
    · simp only [Impl.aexit, Decl.aexit, hg, if_false, athrow]
      cases hk : k (.throw ev) with
      | ret => simp [settle, Impl.handlers, Exc.kind, LibExc.kind, Kind.isSub]
      | «yield» v2 k2 => simp [settle]
      | raise e =>
        by_cases hs : e.isStop = true
        · -- promoted by the runtime
          have hpe : Exc.promoted e ≠ ev := fun h => hnp e h.symm
          by_cases hee : e = ev
          · subst hee
            simp [settle, hs, Impl.handlers, Exc.kind, Kind.isSub, hpe, Exc.cause]
          · have hee' : ¬ (ev = e) := fun h => hee h.symm
            by_cases hes : ev.isStop = true <;>
              simp [settle, hs, Impl.handlers, Exc.kind, Kind.isSub, hpe, Exc.cause, hee,
                hes, Decl.looksPromoted, Decl.surface]
        · have h2 : e.kind.isSub .stopAsyncIteration = false := by
            simp [Exc.isStop] at hs; exact hs.2
          have hs' : e.isStop = false := by simpa using hs
          by_cases hee : e = ev
          · subst hee
            by_cases hr : e.kind.isSub .runtimeError = true <;>
              simp [settle, hs', Impl.handlers, h2, hr, Kind.isSub_refl]
          · by_cases hr : e.kind.isSub .runtimeError = true
            · by_cases hes : ev.isStop = true <;> by_cases hc : e.cause = some ev <;>
                simp [settle, hs', Impl.handlers, h2, hr, hee, hes, hc, Decl.looksPromoted,
                  Decl.surface]
            · by_cases h6 : e.kind.isSub ev.kind = true <;>
                simp [settle, hs', Impl.handlers, h2, hr, hee, h6, Decl.looksPromoted,
                  Decl.surface]

/-- An exception of the block that the generator does not handle (it leaves the generator at
    the `yield`) propagates out of the statement as that same object — whatever its class: a
    `StopIteration`, `StopAsyncIteration` or `RuntimeError` raised in the block is not mistaken
    for the generator's own end, for a promotion of something else, or for a generator error. -/
theorem C13_block_exception_propagates (v : Val) (k : Resume → Gen) (b : Block) (ev : Exc)
    (hb : b.exc = some ev) (hk : k (.throw ev) = .raise ev) (hg : ev.kind ≠ .generatorExit) :
    (Impl.run (.yield v k) b).final = .raises ev := by
  have h := C13_outcome_table k b
  simp only [hb, Decl.aexit, hg, if_false, hk, if_true] at h
  simp only [Impl.run, withStmt, Impl.aenter, settle, hb]
  rw [show Impl.aexit k (some ev) = ((Impl.aexit k (some ev)).1, (Impl.aexit k (some ev)).2) from rfl, h]

/-- A generator that handles the thrown exception and stops suppresses it — also when the
    block's exception is itself a `StopAsyncIteration`/`StopIteration`. -/
theorem C13_generator_stop_suppresses (v : Val) (k : Resume → Gen) (b : Block) (ev : Exc)
    (hb : b.exc = some ev) (hk : k (.throw ev) = .ret) (hg : ev.kind ≠ .generatorExit) :
    (Impl.run (.yield v k) b).final = .suppressed := by
  have h := C13_outcome_table k b
  simp only [hb, Decl.aexit, hg, if_false, hk] at h
  simp only [Impl.run, withStmt, Impl.aenter, settle, hb]
  rw [show Impl.aexit k (some ev) = ((Impl.aexit k (some ev)).1, (Impl.aexit k (some ev)).2) from rfl, h]

/-- An exception the generator raises instead of the block's (a different object, and not an
    explicit `RuntimeError from <the block's Stop(Async)Iteration>`, which nobody can tell from
    the runtime's promotion) surfaces as what left the generator: the object itself, or the
    runtime's `RuntimeError` around a `Stop(Async)Iteration`; never suppressed, never replaced
    by the block's exception. -/
theorem C13_generator_exception_surfaces (v : Val) (k : Resume → Gen) (b : Block) (ev e : Exc)
    (hb : b.exc = some ev) (hk : k (.throw ev) = .raise e) (hg : ev.kind ≠ .generatorExit)
    (hne : e ≠ ev) (hlp : Decl.looksPromoted e ev = false) :
    (Impl.run (.yield v k) b).final = .raises (Decl.surface e) := by
  have h := C13_outcome_table k b
  simp only [hb, Decl.aexit, hg, if_false, hk, hne, hlp, Bool.false_eq_true] at h
  simp only [Impl.run, withStmt, Impl.aenter, settle, hb]
  rw [show Impl.aexit k (some ev) = ((Impl.aexit k (some ev)).1, (Impl.aexit k (some ev)).2) from rfl, h]

/-! ## equality with contextlib.asynccontextmanager -/

/-- For every generator and every block outcome other than `GeneratorExit`, the statement
    built on asyncstdlib's `contextmanager` binds the same value and ends the same way as the one
    built on `contextlib.asynccontextmanager`: normally, suppressed, or with the same exception
    object (the block's, the generator's, the runtime's promotion, or the same kind of
    "did not yield / did not stop" `RuntimeError`).
    Hypothesis `hcl`: if the single wake-up makes the generator yield a *second* time, that
    second `yield` is a plain one (closing the generator there just ends it) — CPython closes
    the generator before reporting "did not stop", asyncstdlib does not, see
    `C13_equals_asynccontextmanager_counterexample`.  Every program of the property's grammar
    satisfies `hcl` (`C13_grammar_second_yield_clean`). -/
theorem C13_equals_asynccontextmanager_partial (g : Gen) (b : Block)
    (hge : b.isGenExit = false) (hcl : secondYieldClean g b = true) :
    (Impl.run g b).entered = (Std.run g b).entered ∧ (Impl.run g b).final = (Std.run g b).final := by
  cases g with
  | ret => have h := run_not_entered .ret b _ aenter_ret; rw [h.1, h.2]; exact ⟨rfl, rfl⟩
  | raise e => have h := run_not_entered _ b _ (aenter_raise e); rw [h.1, h.2]; exact ⟨rfl, rfl⟩
  | «yield» v k =>
    cases hb : b.exc with
    | none =>
      simp only [secondYieldClean, secondYield, hb] at hcl
      simp only [Impl.run, Std.run, withStmt, Impl.aenter, Std.aenter, settle_yield, hb, Impl.aexit,
        Std.aexit, anext]
      cases hk : k .next with
      | ret => simp [settle_ret]
      | raise e => by_cases hs : e.isStop = true <;> simp [settle_raise, hs]
      | «yield» v2 k2 =>
        rw [hk] at hcl
        simp only at hcl
        cases hc : aclose k2 with
        | none => simp [settle_yield, Std.raiseThenClose, hc]
        | some e => rw [hc] at hcl; simp at hcl
    | some ev =>
      have hg : ev.kind ≠ .generatorExit := by
        simp [Block.isGenExit, hb] at hge; exact hge
      simp only [secondYieldClean, secondYield, hb] at hcl
      simp only [Impl.run, Std.run, withStmt, Impl.aenter, Std.aenter, settle_yield, hb, Impl.aexit,
        Std.aexit, athrow, hg, if_false]
      cases hs : settle (k (.throw ev)) with
      | raised exc =>
        have : Impl.handlers exc ev = Std.handlers exc ev := by
          apply handlers_eq
          intro hsai
          rw [(settle_sai hs hsai).1]
          exact fun h => Block.exc_ne_lib hb _ h.symm
        simp [this]
      | yielded v2 k2 =>
        have hk : k (.throw ev) = .yield v2 k2 := by
          cases hkk : k (.throw ev) with
          | ret => rw [hkk] at hs; simp [settle] at hs
          | raise e => rw [hkk] at hs; simp only [settle] at hs; split at hs <;> simp at hs
          | «yield» a c => rw [hkk] at hs; simp [settle] at hs; rw [hs.1, hs.2]
        rw [hk] at hcl
        simp only at hcl
        cases hc : aclose k2 with
        | none => simp [Std.raiseThenClose, hc]
        | some e => rw [hc] at hcl; simp at hcl

/-- Without `hcl` the equality fails: a generator whose second `yield` sits in
    `try: … finally: raise e7`, after a normal block.  asyncstdlib reports "did not stop" and
    leaves the generator suspended; CPython closes it first and `e7` surfaces instead. -/
theorem C13_equals_asynccontextmanager_counterexample :
    let g := (Program.mk (.yields 1) .none (.yieldAgain 2 (.finallyRaise (.user 7 .exception)))).gen
    secondYieldClean g .normal = false ∧
    (Impl.run g .normal).final = .raises (.lib .didNotStop) ∧
    (Std.run g .normal).final = .raises (.user 7 .exception) := by
  decide

/-- The only thing CPython does to the generator beyond asyncstdlib (for non-`GeneratorExit`
    outcomes) is that trailing `aclose()` in the "did not stop" cases. -/
theorem C13_operations_vs_asynccontextmanager (g : Gen) (b : Block) (hge : b.isGenExit = false) :
    (Std.run g b).ops = (Impl.run g b).ops ∨ (Std.run g b).ops = (Impl.run g b).ops ++ [.aclose] := by
  cases g with
  | ret => have h := run_not_entered .ret b _ aenter_ret; rw [h.1, h.2]; exact Or.inl rfl
  | raise e => have h := run_not_entered _ b _ (aenter_raise e); rw [h.1, h.2]; exact Or.inl rfl
  | «yield» v k =>
    cases hb : b.exc with
    | none =>
      simp only [Impl.run, Std.run, withStmt, Impl.aenter, Std.aenter, settle, hb, Impl.aexit,
        Std.aexit]
      cases anext k <;> simp
    | some ev =>
      have hg : ev.kind ≠ .generatorExit := by
        simp [Block.isGenExit, hb] at hge; exact hge
      simp only [Impl.run, Std.run, withStmt, Impl.aenter, Std.aenter, settle, hb, Impl.aexit,
        Std.aexit, hg, if_false]
      cases athrow k ev <;> simp

/-- Every program of the harness grammar whose second `yield` (if any) is a plain one — in
    particular every program of the property's quantifier — satisfies the hypothesis of
    `C13_equals_asynccontextmanager_partial`, for every block outcome. -/
theorem C13_grammar_second_yield_clean (p : Program) (b : Block)
    (hbare : ∀ v gd, p.after = .yieldAgain v gd → gd = .bare) :
    secondYieldClean p.gen b = true := by
  have hafter : (match p.after.gen with
      | .yield _ k2 => (aclose k2).isNone
      | _ => true) = true := by
    cases ha : p.after with
    | stop => simp [After.gen]
    | raises e => simp [After.gen]
    | yieldAgain v gd =>
      have := hbare v gd ha; subst this
      simp [After.gen, bareYield, aclose, settle, Exc.isStop, Exc.kind, LibExc.kind, Kind.isSub]
  have hbareY : ∀ (v : Val) (rest : Gen), (aclose (fun r => match r with | .next => rest | .throw e => Gen.raise e)).isNone = true := by
    intro v rest
    simp [aclose, settle, Exc.isStop, Exc.kind, LibExc.kind, Kind.isSub]
  have key : ∀ g', (g' = p.after.gen ∨ (∃ e, g' = .raise e) ∨ g' = .ret ∨
      (∃ v, g' = bareYield v p.after.gen)) →
      (match g' with
        | .yield _ k2 => (aclose k2).isNone
        | _ => true) = true := by
    intro g' h
    rcases h with rfl | ⟨e, rfl⟩ | rfl | ⟨v, rfl⟩
    · exact hafter
    · rfl
    · rfl
    · simp only [bareYield]; exact hbareY v _
  unfold secondYieldClean secondYield Program.gen
  cases hs : p.start with
  | raises e => rfl
  | noYield => rfl
  | yields v =>
    simp only
    cases hb : b.exc with
    | none =>
      simp only
      have := key p.after.gen (Or.inl rfl)
      revert this
      cases p.after.gen <;> simp
    | some ev =>
      simp only
      have hcase : ∀ g', (g' = p.after.gen ∨ (∃ e, g' = .raise e) ∨ g' = .ret ∨
          (∃ v, g' = bareYield v p.after.gen)) →
          (match (match g' with | .yield _ k2 => some k2 | _ => none) with
            | some k2 => (aclose k2).isNone
            | none => true) = true := by
        intro g' h
        have := key g' h
        revert this
        cases g' <;> simp
      apply hcase
      cases hh : p.handler with
      | none => exact Or.inr (Or.inl ⟨ev, rfl⟩)
      | finally_ => exact Or.inr (Or.inl ⟨ev, rfl⟩)
      | handle c a =>
        simp only
        by_cases hc : c.catches ev = true
        · simp only [hc, if_true]
          cases a with
          | swallow => exact Or.inl rfl
          | reraise => exact Or.inr (Or.inl ⟨_, rfl⟩)
          | raiseNew e => exact Or.inr (Or.inl ⟨_, rfl⟩)
          | raiseFrom i kd => exact Or.inr (Or.inl ⟨_, rfl⟩)
          | raiseSameType i => exact Or.inr (Or.inl ⟨_, rfl⟩)
          | return_ => exact Or.inr (Or.inr (Or.inl rfl))
          | yieldAgain v2 => exact Or.inr (Or.inr (Or.inr ⟨v2, rfl⟩))
        · simp only [hc, if_false, Bool.false_eq_true]
          exact Or.inr (Or.inl ⟨ev, rfl⟩)

/-- The property over its own quantifier, without semantic hypotheses: for every program of the
    harness grammar whose second `yield` (if any) is a plain one — this contains every program
    composed from {raise before yield, no yield, yield} x {no handler, finally, swallow,
    re-raise, raise new, raise new from None, raise same type, return, yield again, raise
    StopAsyncIteration} x {stop, yield again, raise afterwards} — and every block outcome other
    than `GeneratorExit`, asyncstdlib's `contextmanager` and `contextlib.asynccontextmanager`
    bind the same value and end the statement the same way (same exception object, or
    suppressed, or the same "did not yield / did not stop" `RuntimeError`). -/
theorem C13_equals_asynccontextmanager (p : Program) (b : Block)
    (hbare : ∀ v gd, p.after = .yieldAgain v gd → gd = .bare) (hge : b.isGenExit = false) :
    (Impl.run p.gen b).entered = (Std.run p.gen b).entered ∧
    (Impl.run p.gen b).final = (Std.run p.gen b).final :=
  C13_equals_asynccontextmanager_partial p.gen b hge (C13_grammar_second_yield_clean p b hbare)

/-! ## GeneratorExit: the deliberate difference -/

/-- When `GeneratorExit` leaves the block, asyncstdlib closes the generator (one `aclose()`,
    the block's object is not thrown in) and never suppresses: if the close goes through
    (the generator ends, however it reacts to `GeneratorExit` otherwise), the block's own
    `GeneratorExit` object propagates; if the generator misbehaves during the close — raises
    something, or yields again (`RuntimeError` from the runtime) — that exception surfaces. -/
theorem C13_genexit (v : Val) (k : Resume → Gen) (b : Block) (ev : Exc)
    (hb : b.exc = some ev) (hg : ev.kind = .generatorExit) :
    (Impl.run (.yield v k) b).ops = [.anext, .aclose] ∧
    (Impl.run (.yield v k) b).final ≠ .suppressed ∧
    (Impl.run (.yield v k) b).final ≠ .normal ∧
    (aclose k = none → (Impl.run (.yield v k) b).final = .raises ev) ∧
    (∀ e, aclose k = some e → (Impl.run (.yield v k) b).final = .raises e) := by
  have h := C13_outcome_table k b
  simp only [hb, Decl.aexit, hg, if_true] at h
  have hop := C13_once v k b
  simp only [hb, hg, if_true] at hop
  refine ⟨hop, ?_⟩
  simp only [Impl.run, withStmt, Impl.aenter, settle, hb]
  rw [show Impl.aexit k (some ev) = ((Impl.aexit k (some ev)).1, (Impl.aexit k (some ev)).2) from rfl, h]
  cases hc : aclose k <;> simp

/-- A generator that does not catch `GeneratorExit` (it lets every `GeneratorExit` object
    through at its first `yield`) gives the same outcome under both libraries for a
    `GeneratorExit` block as well: the block's object propagates. -/
theorem C13_genexit_uncaught_agrees (v : Val) (k : Resume → Gen) (b : Block) (ev : Exc)
    (hb : b.exc = some ev) (hg : ev.kind = .generatorExit)
    (hk : ∀ x : Exc, x.kind = .generatorExit → k (.throw x) = .raise x) :
    (Impl.run (.yield v k) b).final = .raises ev ∧ (Std.run (.yield v k) b).final = .raises ev := by
  constructor
  · apply (C13_genexit v k b ev hb hg).2.2.2.1
    simp [aclose, hk (.lib .closeGE) rfl, settle, Exc.isStop, Exc.kind, LibExc.kind, Kind.isSub]
  · have hst : ev.isStop = false := by simp [Exc.isStop, hg, Kind.isSub]
    simp [Std.run, withStmt, Std.aenter, settle, hb, Std.aexit, athrow, hk ev hg, hst,
      Std.handlers, hg, Kind.isSub]

/-- The deliberate difference, exhibited: a generator that swallows `GeneratorExit` and stops.
    `asynccontextmanager` throws the block's `GeneratorExit` in and suppresses it; asyncstdlib
    closes the generator and the same `GeneratorExit` object propagates. -/
theorem C13_genexit_deliberate_difference :
    let g := (Program.mk (.yields 1) (.handle .all .swallow) .stop).gen
    (Impl.run g (.raises 5 .generatorExit)).final = .raises (.user 5 .generatorExit) ∧
    (Impl.run g (.raises 5 .generatorExit)).ops = [.anext, .aclose] ∧
    (Std.run g (.raises 5 .generatorExit)).final = .suppressed ∧
    (Std.run g (.raises 5 .generatorExit)).ops = [.anext, .athrow (.user 5 .generatorExit)] := by
  decide

/-! ## Non-vacuity: concrete programs on which the hypotheses hold and every branch is taken -/

private def pReraise : Program := ⟨.yields 1, .handle .all .reraise, .stop⟩
private def pSwallowYield : Program := ⟨.yields 1, .handle .exception .swallow, .yieldAgain 2 .bare⟩
private def pRaiseSAI : Program := ⟨.yields 1, .handle .all (.raiseNew (.user 9 .stopAsyncIteration)), .stop⟩
private def pFromThrown : Program := ⟨.yields 1, .handle .all (.raiseFrom 9 .runtimeError), .stop⟩

-- a StopIteration raised in the block and re-raised by the generator is promoted by the runtime
-- and still attributed to the block: the same object propagates, under both libraries
example : (Impl.run pReraise.gen (.raises 5 .stopIteration)).final = .raises (.user 5 .stopIteration) ∧
    (Std.run pReraise.gen (.raises 5 .stopIteration)).final = .raises (.user 5 .stopIteration) ∧
    secondYieldClean pReraise.gen (.raises 5 .stopIteration) = true ∧
    Block.isGenExit (.raises 5 .stopIteration) = false := by decide
-- hypotheses of C13_block_exception_propagates
example : (fun r => match r with | Resume.next => Gen.ret | .throw e => Gen.raise e)
    (.throw (.user 5 .runtimeError)) = .raise (.user 5 .runtimeError) := rfl
-- swallowed, then a second (plain) yield: "did not stop after throw", and CPython's extra aclose
example : (Impl.run pSwallowYield.gen (.raises 5 .exception)) =
    { entered := some 1, final := .raises (.lib .didNotStopAfterThrow),
      ops := [.anext, .athrow (.user 5 .exception)] } ∧
    (Std.run pSwallowYield.gen (.raises 5 .exception)).ops =
      [.anext, .athrow (.user 5 .exception), .aclose] ∧
    secondYieldClean pSwallowYield.gen (.raises 5 .exception) = true := by decide
-- the handler does not catch KeyboardInterrupt: it propagates as the same object
example : (Impl.run pSwallowYield.gen (.raises 5 .keyboardInterrupt)).final =
    .raises (.user 5 .keyboardInterrupt) := by decide
-- a *new* StopAsyncIteration raised by the generator while the block raised StopAsyncIteration:
-- not attributed to the block
example : (Impl.run pRaiseSAI.gen (.raises 5 .stopAsyncIteration)).final =
    .raises (.promoted (.user 9 .stopAsyncIteration)) := by decide
-- the one indistinguishable case, excluded by `hlp` in C13_generator_exception_surfaces
example : Decl.looksPromoted (.userFrom 9 .runtimeError (.user 5 .stopIteration)) (.user 5 .stopIteration) = true ∧
    (Impl.run pFromThrown.gen (.raises 5 .stopIteration)).final = .raises (.user 5 .stopIteration) ∧
    (Std.run pFromThrown.gen (.raises 5 .stopIteration)).final = .raises (.user 5 .stopIteration) := by decide
-- GeneratorExit with a generator that yields again while being closed
example : (Impl.run (Program.mk (.yields 1) (.handle .genExit (.yieldAgain 3)) .stop).gen
    (.raises 5 .generatorExit)).final = .raises (.lib .ignoredGE) := by decide
-- hypothesis of C13_grammar_second_yield_clean
example : ∀ v gd, pSwallowYield.after = .yieldAgain v gd → gd = .bare := by
  intro v gd h; simp [pSwallowYield] at h; exact h.2.symm

end AsyncVerif.ContextManager
