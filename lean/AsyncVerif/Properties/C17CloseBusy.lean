import AsyncVerif.Proofs.CloseBusy
/-!
# C17 / C07 / C08 — closing a library iterator WHILE ANOTHER TASK IS INSIDE IT

Machine: `Machines/CloseBusy.lean`.  Task A is suspended inside the user's `S.__anext__()` reached through a library
handle `H` (`k` more user suspensions to come); task B runs `await H.aclose()`; every schedule of the two.
Every suspension that reaches the event loop is logged with its origin (`Origin.user tok` / `Origin.lib`).

* `C17_close_busy_step_suspends_only_in_user_code` — EVERY state (reachable or not), either task: one `send` either
  finishes the task without a new event, or leaves it suspended on exactly one new event, of origin `user`.
* `C17_close_busy_only_user_suspensions` — every handle kind, source kind, `k`, `closeSusp`, schedule: no event of
  origin `lib`; every token is one the user's source really produces.
* `C17_close_busy_B_terminates` — B is through after at most `closeBound kind closeSusp + 1` of ITS OWN `send`s, a
  bound that mentions neither `k` nor the schedule; every `send` on B but the last is one user suspension inside a
  `S.aclose()` (no `send` is spent waiting for A).
* `C07_borrowed_close_busy_leaves_source`, `C07_scoped_close_busy_leaves_source` — the source is never closed, no
  `S.aclose()` is even entered, B never suspends, A gets its item after exactly its `k` suspensions.
* `C08_gen_close_busy_leaves_running` (and the general `C08_close_busy_refused_leaves_running`) — B's `aclose()`
  on the busy generator raises RuntimeError in ONE `send` without a suspension; source and generator stay as they
  are; A's pull completes normally.

## What the real code does (hand-driven, CPython 3.12; 32 130 small-scope cases agree with the model for
`map`/`zip`, `chain`, `groupby`, `borrow`, `scoped_iter`, `tee` child, `Tee.aclose`)

* No kind ever suspends B on a library object: C17 holds.
* `borrow(S).aclose()` while A is inside is NOT a silent no-op: it raises
  `RuntimeError("aclose(): asynchronous generator is already running")` (the wrapper generator is running).  The
  source is untouched either way.  (`scoped_iter`'s handle: `aclose` is `pass`, always returns.)
* `chain.aclose()` and `groupby.aclose()` have no busy check in front of the user's source: with a CLASS-BASED
  source they run the user's `S.aclose()` while A is inside `S.__anext__()` (A then gets whatever the user's source
  does when closed under a reader: StopAsyncIteration in the harness's `AObjSource`).  `chain.aclose()` then
  STILL raises RuntimeError (its own generator is running) — after having closed the source — and A, leaving
  `ScopedIter`, calls `S.aclose()` a second time.  All of these suspensions are the user's.
* `islice` (not a `gen` in the sense of the machine when idle): it nests a second library generator
  (`enumerate(async_iter)`).  Closing an IDLE `islice` drops that inner generator; without asyncgen hooks (no event
  loop) CPython finalises it synchronously, its `ScopedIter.__aexit__` enters `S.aclose()` too: a source whose
  `aclose()` suspends is left half-closed ("async generator ignored GeneratorExit"), and for a native generator
  source `islice(...).aclose()` itself then raises `RuntimeError: aclose(): asynchronous generator is already
  running` although nobody else is using it (`islice(src, 5)`, one `anext`, `aclose()`, `closeSusp ≥ 1`); a source
  whose `aclose()` does not suspend is closed twice.  No library suspension is involved, so C17 is not affected.
-/
namespace AsyncVerif.CloseBusy

/-- **C17, one step, every state** — take ANY state of the two-task machine (reachable or not) and schedule either
    task `t`.  Then exactly one of two things happens: the task's coroutine is finished afterwards and the step
    added no event (it returned / raised, or it had finished before), or the step added exactly one event, made
    by `t`, whose origin is an awaitable of the USER's source (`Origin.user tok`), and `t` is suspended there.
    There is no step that leaves a task suspended on something of the library's own. -/
theorem C17_close_busy_step_suspends_only_in_user_code (s : St) (t : Task) :
    ((step s (.sched t)).events = s.events ∧ (step s (.sched t)).finished t = true) ∨
    (∃ tok, (step s (.sched t)).events = s.events ++ [⟨t, .user tok⟩] ∧
      (step s (.sched t)).finished t = false) := by
  cases t with
  | A =>
    cases hin : s.aInside with
    | false => rw [step_A_done s hin]; exact Or.inl ⟨rfl, by simp [St.finished, hin]⟩
    | true =>
      rcases (stepA_spec s hin).ends with ⟨r, h1, h2, _⟩ | ⟨tok, h2, _, h3⟩
      · exact Or.inl ⟨h2, by simp [St.finished, St.aInside, h1]⟩
      · refine Or.inr ⟨tok, h2, ?_⟩
        rcases h3 with ⟨_, _, _, h4, _⟩ | ⟨_, _, _, h4, _⟩ <;> simp [St.finished, St.aInside, h4]
  | B =>
    by_cases hb : s.b = .done
    · rw [step_B_done s hb]; exact Or.inl ⟨rfl, by simp [St.finished, hb]⟩
    · rcases (stepB_spec s hb).ends with ⟨h1, h2, _⟩ | ⟨t, j, c, h1, _, _, h4, _⟩
      · exact Or.inl ⟨h2, by simp [St.finished, h1]⟩
      · exact Or.inr ⟨.close t, h4, by simp [St.finished, h1]⟩

/-- **C17, close while busy: only the user's suspensions reach the loop** — every kind of handle (`gen`, `chain`,
    `groupby`, `borrow`, `scoped_iter`, a `tee` child, the whole `tee`), native or class-based source, every number
    `k` of suspensions A still has in front of it, every number `cs` of suspensions of the user's `aclose`, every
    schedule of A and B: no event of origin `lib` ever occurs; each event is a token the user's source really
    produces — suspension `1 … k` of the `S.__anext__()` A is in (made by A), or suspension `0 … cs-1` of a
    `S.aclose()`. -/
theorem C17_close_busy_only_user_suspensions (kind : Kind) (srcKind : SrcKind) (k cs : Nat) (ops : List Op) :
    ∀ e ∈ (exec kind srcKind k cs ops).events, e.origin ≠ .lib ∧ TokOk k cs e := by
  intro e he
  have hw := run_wf ops _ (init_wf kind srcKind k cs)
  have hc := run_cfg ops (init kind srcKind k cs)
  have := hw.ev e he
  rw [hc.2.2.1, hc.2.2.2] at this
  refine ⟨?_, this⟩
  intro hl
  simp [TokOk, hl] at this

/-- **C17, close while busy: B terminates, without busy-waiting** — every kind, source, `k`, `cs`, schedule:
    (1) once B has been scheduled more than `closeBound kind cs` times it is through — `closeBound` counts the user
    suspensions of the `S.aclose()` calls the handle may legitimately await (`cs` for a generator tool / `groupby` /
    `Tee.aclose`, `2·cs` for `chain`, which may close `S` through `close_all` and through `ScopedIter`, `0` for
    `borrow`, `scoped_iter`, a `tee` child) and mentions neither `k` nor the schedule: whatever A does;
    (2) B never uses more than `closeBound kind cs + 1` `send`s;
    (3) B's `send`s are exactly its user suspensions plus the one `send` that finished it: no `send` is spent
    polling or waiting for A;
    (4) as long as B is not through, every time it was scheduled was such a user suspension;
    (5) each of B's suspensions is a token of the user's `S.aclose()`. -/
theorem C17_close_busy_B_terminates (kind : Kind) (srcKind : SrcKind) (k cs : Nat) (ops : List Op) :
    (closeBound kind cs < count .B ops → (exec kind srcKind k cs ops).b = .done) ∧
    (exec kind srcKind k cs ops).bSteps ≤ closeBound kind cs + 1 ∧
    (exec kind srcKind k cs ops).bSteps = ((exec kind srcKind k cs ops).eventsOf .B).length +
      (if (exec kind srcKind k cs ops).b = .done then 1 else 0) ∧
    ((exec kind srcKind k cs ops).b ≠ .done →
      ((exec kind srcKind k cs ops).eventsOf .B).length = count .B ops) ∧
    (∀ e ∈ (exec kind srcKind k cs ops).eventsOf .B, ∃ t, e.origin = .user (.close t) ∧ t < cs) := by
  have hrem := run_bRemaining ops (init kind srcKind k cs)
  have hpot := run_potential ops (init kind srcKind k cs)
  have hcnt := (run_counts ops _ (init_counts kind srcKind k cs)).1
  have hst := run_bSteps ops (init kind srcKind k cs)
  have h0 : bRemaining (init kind srcKind k cs) = closeBound kind cs + 1 := rfl
  have hs0 : (init kind srcKind k cs).bSteps = 0 := rfl
  rw [h0] at hrem hpot
  rw [hs0] at hpot hst
  unfold BCount at hcnt
  refine ⟨?_, ?_, hcnt, ?_, ?_⟩
  · intro h
    apply (bRemaining_zero _).1
    unfold exec
    omega
  · unfold exec; omega
  · intro hb
    have h1 := hst.2 hb
    unfold exec at hb ⊢
    rw [h1] at hcnt
    simp only [hb, if_false] at hcnt
    omega
  · intro e he
    have hmem : e ∈ (exec kind srcKind k cs ops).events ∧ e.task = .B := by
      simpa [St.eventsOf] using he
    have hok := (C17_close_busy_only_user_suspensions kind srcKind k cs ops e hmem.1).2
    unfold TokOk at hok
    split at hok
    · rw [hmem.2] at hok; exact absurd hok.1 (by decide)
    · rename_i t ho; exact ⟨t, ho, hok⟩
    · exact absurd hok id

/-- **C07, borrowed iterator closed while busy: the source stays open, the reader gets its item** — `H = borrow(S)`,
    native or class-based `S`, every `k`, `cs`, every schedule: the source is never closed, no `S.aclose()` call ever
    enters the user's code, B is never suspended (it needs at most one `send`: RuntimeError if the wrapper
    generator was running, None otherwise), and A's pull is undisturbed: after `n ≤ k` of its `send`s it has made
    exactly the source's suspensions `1 … n` and is still inside with `k - n` to come; from its `k+1`-st `send` on it
    has its ITEM (never StopAsyncIteration) after exactly the source's `k` suspensions. -/
theorem C07_borrowed_close_busy_leaves_source (srcKind : SrcKind) (k cs : Nat) (ops : List Op) :
    let s := exec .borrowed srcKind k cs ops
    s.dead = false ∧ s.closes = 0 ∧ s.closeCalls = 0 ∧ s.eventsOf .B = [] ∧ s.bSteps ≤ 1 ∧
    (s.bOut = [] ∨ s.bOut = [.busy] ∨ s.bOut = [.ret]) ∧
    (k < count .A ops → s.a = .done .item ∧ s.aOut = aTrace k ++ [.item]) ∧
    (count .A ops ≤ k → s.a = .inSrc (k - count .A ops) ∧ s.aOut = aTrace (count .A ops)) :=
  untouched_summary .borrowed rfl srcKind k cs ops

/-- **C07, the handle of `scoped_iter` closed while busy** — the same for `H` = the iterator handed out by
    `async with scoped_iter(S)`, whose `aclose` is `pass`: source never closed, B never suspended, A gets its item. -/
theorem C07_scoped_close_busy_leaves_source (srcKind : SrcKind) (k cs : Nat) (ops : List Op) :
    let s := exec .scoped srcKind k cs ops
    s.dead = false ∧ s.closes = 0 ∧ s.closeCalls = 0 ∧ s.eventsOf .B = [] ∧ s.bSteps ≤ 1 ∧
    (s.bOut = [] ∨ s.bOut = [.busy] ∨ s.bOut = [.ret]) ∧
    (k < count .A ops → s.a = .done .item ∧ s.aOut = aTrace k ++ [.item]) ∧
    (count .A ops ≤ k → s.a = .inSrc (k - count .A ops) ∧ s.aOut = aTrace (count .A ops)) :=
  untouched_summary .scoped rfl srcKind k cs ops

/-- **C08, a refusing handle closed while busy: RuntimeError for the closer, nothing else happens** — any handle
    with `refusesWhenBusy kind srcKind` (every generator-based handle: `gen`, `borrow`, a `tee` child, the whole
    `tee`; `chain` / `groupby` over a NATIVE generator source).  Schedule: first only A runs (`pre`, at most `k`
    times, so A is still inside), then B calls `H.aclose()`, then anything (`post`).  B is through with
    RuntimeError after that ONE `send`, without any suspension; the source is not closed, no `S.aclose()` entered the
    user's code, the handle's generator is neither closed nor finished; A's pull goes on exactly as if nothing had
    happened and completes with its item after the source's `k` suspensions. -/
theorem C08_close_busy_refused_leaves_running (kind : Kind) (srcKind : SrcKind)
    (hr : refusesWhenBusy kind srcKind = true) (k cs : Nat) (pre post : List Op)
    (hB : count .B pre = 0) (hA : count .A pre ≤ k) :
    let s := exec kind srcKind k cs (pre ++ .sched .B :: post)
    s.b = .done ∧ s.bOut = [.busy] ∧ s.bSteps = 1 ∧ s.eventsOf .B = [] ∧
    s.dead = false ∧ s.closeCalls = 0 ∧ s.handleDone = false ∧
    (k < count .A (pre ++ post) → s.a = .done .item ∧ s.aOut = aTrace k ++ [.item]) ∧
    (count .A (pre ++ post) ≤ k →
      s.a = .inSrc (k - count .A (pre ++ post)) ∧ s.aOut = aTrace (count .A (pre ++ post))) := by
  intro s
  have hf : Refused s := refused_run kind srcKind k cs pre post hr hB hA
  have hst := run_aSteps (pre ++ .sched .B :: post) (init kind srcKind k cs)
  have hc := run_cfg (pre ++ .sched .B :: post) (init kind srcKind k cs)
  have hk' : s.k = k := hc.2.2.1
  have hcount : count .A (pre ++ .sched .B :: post) = count .A (pre ++ post) := by
    simp [count_append, count]
  have h0 : (init kind srcKind k cs).aSteps = 0 := rfl
  rw [hcount, h0, Nat.zero_add] at hst
  have hres := alive_result s (count .A (pre ++ post)) hf.quiet.live hst.1 hst.2
  rw [hk'] at hres
  exact ⟨hf.b, hf.bOut, hf.bSteps, hf.quiet.bEvents, hf.quiet.dead, hf.quiet.closeCalls, hf.handleDone,
    hres.1, hres.2⟩

/-- **C08, an async-generator tool closed while busy: it keeps running** — `H` = `zip` / `map` / `filter` / … over
    `S` (native or class-based), A inside, B calls `H.aclose()`: `aclose()` on the running generator raises
    RuntimeError at once (one `send`, no suspension), generator and source stay open, and A's pull completes normally
    — A gets its item after exactly the source's `k` suspensions — after B's RuntimeError, whatever the schedule. -/
theorem C08_gen_close_busy_leaves_running (srcKind : SrcKind) (k cs : Nat) (pre post : List Op)
    (hB : count .B pre = 0) (hA : count .A pre ≤ k) :
    let s := exec .gen srcKind k cs (pre ++ .sched .B :: post)
    s.b = .done ∧ s.bOut = [.busy] ∧ s.bSteps = 1 ∧ s.eventsOf .B = [] ∧
    s.dead = false ∧ s.closeCalls = 0 ∧ s.handleDone = false ∧
    (k < count .A (pre ++ post) → s.a = .done .item ∧ s.aOut = aTrace k ++ [.item]) ∧
    (count .A (pre ++ post) ≤ k →
      s.a = .inSrc (k - count .A (pre ++ post)) ∧ s.aOut = aTrace (count .A (pre ++ post))) :=
  C08_close_busy_refused_leaves_running .gen srcKind rfl k cs pre post hB hA

/-! ## Examples: the hypotheses are satisfiable, the statements say something -/

section Examples
open Op AsyncVerif.CloseBusy.Task

/-- `chain` over a class-based source, A has 2 suspensions to go, the user's `aclose` suspends twice; B closes
    while A is inside: B is suspended twice in the USER's `aclose`, then RuntimeError; A, whose source was closed
    under it, leaves `ScopedIter` through the user's `aclose` again.  Six events, all of origin `user`. -/
example : (exec .chainObj .cls 2 2 [sched B, sched A, sched B, sched B, sched A, sched A, sched A, sched A]).events =
    [⟨B, .user (.close 0)⟩, ⟨A, .user (.src 1)⟩, ⟨B, .user (.close 1)⟩, ⟨A, .user (.src 2)⟩,
     ⟨A, .user (.close 0)⟩, ⟨A, .user (.close 1)⟩] := by decide

example : (exec .chainObj .cls 2 2 [sched B, sched A, sched B, sched B, sched A, sched A, sched A, sched A]).bOut =
    [.susp (.user (.close 0)), .susp (.user (.close 1)), .busy] := by decide

/-- C17 step theorem on that run's 3rd step: B ends suspended on one new user token -/
example : (step (exec .chainObj .cls 2 2 [sched B, sched A]) (sched B)).events =
    (exec .chainObj .cls 2 2 [sched B, sched A]).events ++ [⟨B, .user (.close 1)⟩] ∧
    (step (exec .chainObj .cls 2 2 [sched B, sched A]) (sched B)).finished B = false := by decide

/-- `C17_close_busy_B_terminates` is tight for `chain`: A finishes first, B closes the source twice:
    `closeBound = 4` suspensions, the 5th `send` finishes B -/
example : closeBound .chainObj 2 = 4 ∧
    (exec .chainObj .cls 0 2 [sched A, sched B, sched B, sched B, sched B]).b ≠ .done ∧
    (exec .chainObj .cls 0 2 [sched A, sched B, sched B, sched B, sched B, sched B]).b = .done ∧
    (exec .chainObj .cls 0 2 [sched A, sched B, sched B, sched B, sched B, sched B]).bSteps = 5 ∧
    (exec .chainObj .cls 0 2 [sched A, sched B, sched B, sched B, sched B, sched B]).bOut =
      [.susp (.user (.close 0)), .susp (.user (.close 1)), .susp (.user (.close 0)), .susp (.user (.close 1)),
       .ret] := by decide

/-- the deliberately WRONG `aclose()` that waits for the handle to become idle violates both C17 statements:
    it reaches the loop with an event of origin `lib`, and the number of B's `send`s follows A's progress
    (`k = 3`: three polls, then the close) -/
example : (runPolling (init .gen .native 3 1) [sched B, sched A, sched B, sched A, sched B, sched A, sched A,
      sched B, sched B]).events =
    [⟨B, .lib⟩, ⟨A, .user (.src 1)⟩, ⟨B, .lib⟩, ⟨A, .user (.src 2)⟩, ⟨B, .lib⟩, ⟨A, .user (.src 3)⟩,
     ⟨B, .user (.close 0)⟩] ∧
    (runPolling (init .gen .native 3 1) [sched B, sched A, sched B, sched A, sched B, sched A, sched A,
      sched B, sched B]).bSteps = 5 ∧ closeBound .gen 1 + 1 = 2 := by decide

/-- the same schedule on the machine as written: RuntimeError at once, B used one `send` -/
example : (exec .gen .native 3 1 [sched B, sched A, sched B, sched A, sched B, sched A, sched A,
      sched B, sched B]).bOut = [.busy] ∧
    (exec .gen .native 3 1 [sched B, sched A, sched B, sched A, sched B, sched A, sched A,
      sched B, sched B]).bSteps = 1 ∧
    (exec .gen .native 3 1 [sched B, sched A, sched B, sched A, sched B, sched A, sched A,
      sched B, sched B]).aOut = aTrace 3 ++ [.item] := by decide

/-- C07: `borrow(S)`, class-based source with a suspending `aclose`; B closes while A is inside: RuntimeError for B,
    the source is never closed, A gets its item -/
example : (exec .borrowed .cls 2 3 [sched A, sched B, sched A, sched B, sched A]).dead = false ∧
    (exec .borrowed .cls 2 3 [sched A, sched B, sched A, sched B, sched A]).bOut = [.busy] ∧
    (exec .borrowed .cls 2 3 [sched A, sched B, sched A, sched B, sched A]).a = .done .item ∧
    count A [sched A, sched B, sched A, sched B, sched A] = 3 := by decide

/-- C07 is about `borrow`, not about every handle: `groupby` over the same source DOES close it under the reader,
    who then gets StopAsyncIteration -/
example : (exec .groupbyObj .cls 2 1 [sched B, sched B, sched A, sched A, sched A]).dead = true ∧
    (exec .groupbyObj .cls 2 1 [sched B, sched B, sched A, sched A, sched A]).bOut =
      [.susp (.user (.close 0)), .ret] ∧
    (exec .groupbyObj .cls 2 1 [sched B, sched B, sched A, sched A, sched A]).a = .done .stop := by decide

/-- C08: hypotheses of `C08_gen_close_busy_leaves_running` on `pre = [A]`, `k = 2`, `post = [A, B, A, A]` -/
example : count B [sched A] = 0 ∧ count A [sched A] ≤ 2 ∧
    (exec .gen .cls 2 2 ([sched A] ++ sched B :: [sched A, sched B, sched A, sched A])).bOut = [.busy] ∧
    (exec .gen .cls 2 2 ([sched A] ++ sched B :: [sched A, sched B, sched A, sched A])).aOut =
      [.susp (.user (.src 1)), .susp (.user (.src 2)), .item] ∧
    (exec .gen .cls 2 2 ([sched A] ++ sched B :: [sched A, sched B, sched A, sched A])).dead = false := by decide

/-- C08 needs "A is still inside": once A has its item the generator is idle and `aclose()` closes it, through the
    user's `aclose` -/
example : (exec .gen .cls 0 2 [sched A, sched B, sched B, sched B]).bOut =
      [.susp (.user (.close 0)), .susp (.user (.close 1)), .ret] ∧
    (exec .gen .cls 0 2 [sched A, sched B, sched B, sched B]).dead = true ∧
    (exec .gen .cls 0 2 [sched A, sched B, sched B, sched B]).handleDone = true := by decide

/-- `refusesWhenBusy` is exactly "generator in front of the source, or native source" -/
example : refusesWhenBusy .chainObj .native = true ∧ refusesWhenBusy .chainObj .cls = false ∧
    refusesWhenBusy .groupbyObj .cls = false ∧ refusesWhenBusy .scoped .native = false ∧
    refusesWhenBusy .teeAll .cls = true := by decide

end Examples

end AsyncVerif.CloseBusy
