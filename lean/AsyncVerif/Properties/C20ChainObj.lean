import AsyncVerif.Proofs.ChainObj
import AsyncVerif.Properties.C04Cleanup
/-!
# C20 / C04 / C17 / C18 — `asyncstdlib.itertools.chain` as an object

Property theorems only.  Model: `Machines/ChainObj.lean` (`init` = `chain.__init__` /
`chain.from_iterable`, `next` = one send of the task awaiting `chain.__anext__()`, `aclose` =
`try: await close_all(self._owned_iterators) finally: await self._iterator.aclose()`, `cancel` = a
CancelledError thrown into the task suspended inside a pull).  All theorems are about
`reach mode args ops`, the state after an ARBITRARY list of operations on a chain over an
ARBITRARY list of argument descriptors (any kinds, item lists, suspension counts, close
behaviours); they are proved by induction over the operation list with the invariant
`Inv` (`Proofs/ChainObj.lean`), not by enumeration.

Vocabulary (`Proofs/ChainObj.lean`): `scopeAt st i` = where the generator is relative to
`async with ScopedIter(args[i])` (`untouched | open | left`); `closedByAt st i` = who invoked
`aclose` on argument `i`'s iterator so far, in order (`owner` = `close_all(_owned_iterators)`,
`scope` = `ScopedIter.__aexit__`); `innerClose args pc` / `innerBeh args pc` = the close event /
the `Cleanup.CloseBeh` of the scope the generator is suspended in (nothing / `noAclose` unless it
is suspended at the `yield`); `ownedBehs args owned` = the `aclose` behaviours of the owned
iterators in tuple order; `outOf dflt exc` = `raised e` for `some e`, else `dflt`.
-/
namespace AsyncVerif.ChainObj

/-- C20: `_owned_iterators` is computed once.  For every mode, argument list and operation
    sequence: (1) the owned list after the operations is the one `__init__` computed; (2) no
    single operation changes it, in any state; (3) for `from_iterable` it is empty, initially and
    forever; (4) it never has more entries than there are positional arguments; (5) it depends
    only on the KINDS of the arguments — not on their item lists (the stream length), their
    suspensions, their close behaviour, nor on the operations performed: nothing accumulates with
    the length of the stream. -/
theorem C20_chain_owned_fixed (mode : Mode) (args : List Arg) (ops : List Op) :
    (reach mode args ops).owned = (init mode args).owned
    ∧ (∀ (st : State) (op : Op), (step args st op).1.owned = st.owned)
    ∧ (init .fromIterable args).owned = [] ∧ (reach .fromIterable args ops).owned = []
    ∧ (reach mode args ops).owned.length ≤ args.length
    ∧ (∀ (args' : List Arg) (ops' : List Op), args'.map (·.kind) = args.map (·.kind) →
        (reach mode args' ops').owned = (reach mode args ops).owned) := by
  refine ⟨reach_owned mode args ops, step_owned args, rfl, reach_owned _ args ops, ?_, ?_⟩
  · rw [reach_owned]; exact ownedOf_length_le mode args
  · intro args' ops' h
    rw [reach_owned, reach_owned]
    exact ownedOf_kinds mode args' args h

/-- C20: the chain holds at most one inner iterator at a time.  In every reachable state: (1) the
    scope of argument `i` is open exactly when the generator's pc is inside it (suspended at its
    `yield` or inside its pull) — so before the first `next`, after exhaustion, failure,
    cancellation or `aclose` NO scope is open; (2) two open scopes are the same scope; (3) at most
    one argument has an open scope; (4) in particular at most one inner iterator that the chain
    created itself (`aiter(iterable)` of a re-iterable async iterable, the `_aiter_sync` wrapper
    of a synchronous one) is open — every earlier one was closed/left before the next was made. -/
theorem C20_chain_holds_one_inner (mode : Mode) (args : List Arg) (ops : List Op) :
    (∀ i, scopeAt (reach mode args ops) i = some .open ↔ (reach mode args ops).pc.current = some i)
    ∧ (∀ i j, scopeAt (reach mode args ops) i = some .open →
        scopeAt (reach mode args ops) j = some .open → i = j)
    ∧ (reach mode args ops).status.countP (fun s => s.scope == .open) ≤ 1
    ∧ (args.zip (reach mode args ops).status).countP
        (fun p => p.1.createdByChain && p.2.scope == .open) ≤ 1 := by
  have hinv := reach_inv mode args ops
  have huniq : ∀ i j, scopeAt (reach mode args ops) i = some .open →
      scopeAt (reach mode args ops) j = some .open → i = j := by
    intro i j hi hj
    have h1 := (hinv.2 i).mp hi
    have h2 := (hinv.2 j).mp hj
    rw [h1] at h2; cases h2; rfl
  refine ⟨hinv.2, huniq, ?_, ?_⟩
  · apply countP_le_one_of_unique _ _ (((reach mode args ops).pc.current).getD 0)
    intro i s hs hopen
    have hi : scopeAt (reach mode args ops) i = some .open := by
      simp only [scopeAt, hs, Option.map_some]
      simpa using hopen
    rw [(hinv.2 i).mp hi]; rfl
  · apply countP_le_one_of_unique _ _ (((reach mode args ops).pc.current).getD 0)
    intro i p hp hopen
    have hs := (List.getElem?_zip_eq_some.mp hp).2
    simp only [Bool.and_eq_true] at hopen
    have hi : scopeAt (reach mode args ops) i = some .open := by
      simp only [scopeAt, hs, Option.map_some]
      simpa using hopen.2
    rw [(hinv.2 i).mp hi]; rfl

/-- C04: `chain.aclose()` while the generator is not running (not started, suspended at the
    `yield`, or finished), in every reachable state, whatever the `aclose` of each iterator does:
    (1) the user-visible events of the call are exactly: one `close i` for every owned argument, in
    tuple order (`close_all`), and then the close of the scope the generator is suspended in
    (`self._iterator.aclose()` in the `finally` clause) — nothing else, no pull, no item; an
    exception raised by one `aclose` does not prevent any of the later ones;
    (2) the owned positions are strictly increasing (each owned iterator exactly once) and each is
    an existing argument of kind `asyncIteratorWithClose`; none of them is dropped
    (`ownedBehs` has the same length);
    (3) per argument: it gained exactly one `owner` close iff it is owned, followed by exactly one
    `scope` close iff the generator was suspended in its scope and the iterator has an `aclose`;
    (4) the answer is what `Machines/Cleanup.lean`'s `close_all` raises for the list
    `owned ++ [current inner iterator]` — i.e. the MOST RECENT failure in the order of the Python
    code propagates (`getLast?` of the raised exceptions), `closed` if none;
    (5) afterwards the generator is finished and no scope is open; the owned list is unchanged. -/
theorem C04_chain_aclose_closes_all_owned (mode : Mode) (args : List Arg) (ops : List Op) (op : Op)
    (hop : op = .aclose ∨ op = .acloseWhileRunning)
    (hidle : (reach mode args ops).pc.running = false) :
    (step args (reach mode args ops) op).1.log
        = (reach mode args ops).log ++ (reach mode args ops).owned.map Ev.close
            ++ innerClose args (reach mode args ops).pc
    ∧ (reach mode args ops).owned.Pairwise (· < ·)
    ∧ (∀ i ∈ (reach mode args ops).owned,
        ∃ a, args[i]? = some a ∧ a.kind = .asyncIteratorWithClose)
    ∧ (ownedBehs args (reach mode args ops).owned).length = (reach mode args ops).owned.length
    ∧ (∀ j, closedByAt (step args (reach mode args ops) op).1 j
        = (closedByAt (reach mode args ops) j).map (fun l =>
            l ++ (if j ∈ (reach mode args ops).owned then [Closer.owner] else [])
              ++ (if (reach mode args ops).pc = .suspendedAtYield j
                    ∧ innerBeh args (reach mode args ops).pc ≠ .noAclose
                  then [Closer.scope] else [])))
    ∧ (step args (reach mode args ops) op).2
        = outOf .closed (Cleanup.closeAllRobust
            (ownedBehs args (reach mode args ops).owned ++ [innerBeh args (reach mode args ops).pc])).2
    ∧ (step args (reach mode args ops) op).2
        = outOf .closed ((ownedBehs args (reach mode args ops).owned
            ++ [innerBeh args (reach mode args ops).pc]).filterMap Cleanup.CloseBeh.exc).getLast?
    ∧ (step args (reach mode args ops) op).1.pc = .done
    ∧ NoOpen (step args (reach mode args ops) op).1
    ∧ (step args (reach mode args ops) op).1.owned = (reach mode args ops).owned := by
  have hstep : step args (reach mode args ops) op = aclose args (reach mode args ops) := by
    rcases hop with rfl | rfl <;> rfl
  have hown := reach_owned mode args ops
  have hpw : (reach mode args ops).owned.Pairwise (· < ·) := by
    rw [hown]; exact ownedOf_pairwise mode args
  have hlt : ∀ i ∈ (reach mode args ops).owned, i < args.length := by
    rw [hown]; exact ownedOf_lt mode args
  have hnd : (reach mode args ops).owned.Nodup :=
    List.Pairwise.imp (fun h => Nat.ne_of_lt h) hpw
  obtain ⟨h1, h2, h3, h4, h5⟩ :=
    aclose_idle args (reach mode args ops) (reach_inv mode args ops) hlt hnd hidle
  rw [hstep]
  refine ⟨h1, hpw, ?_, ownedBehs_length args _ hlt, h4, h5, ?_, h2, h3, aclose_owned args _⟩
  · intro i hi
    rw [hown] at hi
    obtain ⟨-, a, ha, ho⟩ := (mem_ownedOf mode args i).mp hi
    exact ⟨a, ha, by simpa [Arg.ownable] using ho⟩
  · rw [h5, (Cleanup.C18_cleanup_last_failure_propagates _).2.1]

/-- C17: a second task calls `chain.aclose()` while the first one is suspended inside a pull
    (`pc = runningInPull idx k`), in every reachable state: (1) the call answers RuntimeError
    (`busy`) — CPython's "asynchronous generator is already running", raised by
    `self._iterator.aclose()` in the `finally` clause — and that answer is not a suspension: the
    library adds no suspension point of its own; the plain `aclose` op is the same call; (2) the
    running pull is intact: pc (argument and number of suspensions taken), the remaining items, the
    scope of every argument (the one of `idx` is still open) and the owned list are unchanged;
    (3) the only events are the `close i` of the owned arguments, in tuple order — `close_all` ran
    BEFORE the RuntimeError —, no pull/item/end event; (4) the first task's pull goes on with its
    remaining suspensions: if it has some left, its next send suspends in the same pull. -/
theorem C17_chain_close_while_running_never_suspends (mode : Mode) (args : List Arg) (ops : List Op)
    (idx k : Nat) (hpc : (reach mode args ops).pc = .runningInPull idx k) :
    (step args (reach mode args ops) .acloseWhileRunning).2 = .busy
    ∧ (step args (reach mode args ops) .acloseWhileRunning).2.isSusp = false
    ∧ step args (reach mode args ops) .aclose = step args (reach mode args ops) .acloseWhileRunning
    ∧ (step args (reach mode args ops) .acloseWhileRunning).1.pc = .runningInPull idx k
    ∧ (step args (reach mode args ops) .acloseWhileRunning).1.cur = (reach mode args ops).cur
    ∧ (∀ j, scopeAt (step args (reach mode args ops) .acloseWhileRunning).1 j
        = scopeAt (reach mode args ops) j)
    ∧ scopeAt (step args (reach mode args ops) .acloseWhileRunning).1 idx = some .open
    ∧ (step args (reach mode args ops) .acloseWhileRunning).1.owned = (reach mode args ops).owned
    ∧ (step args (reach mode args ops) .acloseWhileRunning).1.log
        = (reach mode args ops).log ++ (reach mode args ops).owned.map Ev.close
    ∧ (∀ a, args[idx]? = some a → k < a.pullSusp →
        (step args (step args (reach mode args ops) .acloseWhileRunning).1 .next).2 = .susp idx
        ∧ (step args (step args (reach mode args ops) .acloseWhileRunning).1 .next).1.pc
            = .runningInPull idx (k + 1)) := by
  have hrun : (reach mode args ops).pc.running = true := by rw [hpc]; rfl
  have hlt : ∀ i ∈ (reach mode args ops).owned, i < args.length := by
    rw [reach_owned]; exact ownedOf_lt mode args
  have hstep : step args (reach mode args ops) .acloseWhileRunning
      = ((closeOwned args (reach mode args ops).owned (reach mode args ops)).1, .busy) :=
    aclose_running args _ hrun
  have hopen : scopeAt (reach mode args ops) idx = some .open :=
    ((reach_inv mode args ops).2 idx).mpr (by rw [hpc]; rfl)
  rw [hstep]
  refine ⟨rfl, rfl, hstep, ?_, closeOwned_cur args _ _, closeOwned_scopeAt args _ _, ?_,
    closeOwned_owned args _ _, closeOwned_log args _ _ hlt, ?_⟩
  · show (closeOwned args _ _).1.pc = _
    rw [closeOwned_pc]; exact hpc
  · show scopeAt (closeOwned args _ _).1 idx = _
    rw [closeOwned_scopeAt]; exact hopen
  · intro a ha hk
    have hpc' : (closeOwned args (reach mode args ops).owned (reach mode args ops)).1.pc
        = .runningInPull idx k := by rw [closeOwned_pc]; exact hpc
    show (next args _).2 = _ ∧ (next args _).1.pc = _
    unfold next
    rw [hpc']
    dsimp only
    rw [ha]
    dsimp only
    unfold continuePull
    rw [if_pos hk]
    exact ⟨rfl, rfl⟩

/-- C18: a cancellation thrown into the task while it is suspended inside the pull of argument
    `idx`, in every reachable state: (1) that argument exists and its scope is the open one;
    (2) the only event is the close of that scope (`ScopedIter.__aexit__`: `close idx` if the
    iterator has a user-visible `aclose`), afterwards the scope is left and NO scope is open — the
    inner iterator is released —, the generator is finished (a later `next` answers
    StopAsyncIteration without touching anything); (3) the cancellation comes back out unless that
    `aclose` raises, in which case its exception replaces it; never a suspension; (4) the owned
    list is unchanged and no other argument was closed: the owned iterators are left to
    `chain.aclose()`; (5) and a following `chain.aclose()` does close every owned iterator, in
    order, and nothing else. -/
theorem C18_chain_cancel_releases (mode : Mode) (args : List Arg) (ops : List Op)
    (idx k : Nat) (hpc : (reach mode args ops).pc = .runningInPull idx k) :
    ∃ a, args[idx]? = some a
      ∧ scopeAt (reach mode args ops) idx = some .open
      ∧ (step args (reach mode args ops) .cancel).1.log
          = (reach mode args ops).log ++ scopeCloseEv a idx
      ∧ scopeAt (step args (reach mode args ops) .cancel).1 idx = some .left
      ∧ NoOpen (step args (reach mode args ops) .cancel).1
      ∧ (step args (reach mode args ops) .cancel).1.pc = .done
      ∧ step args (step args (reach mode args ops) .cancel).1 .next
          = ((step args (reach mode args ops) .cancel).1, .end_)
      ∧ (step args (reach mode args ops) .cancel).2 = outOf .cancelled a.scopeBeh.exc
      ∧ (step args (reach mode args ops) .cancel).2.isSusp = false
      ∧ (step args (reach mode args ops) .cancel).1.owned = (reach mode args ops).owned
      ∧ (∀ j, j ≠ idx → closedByAt (step args (reach mode args ops) .cancel).1 j
          = closedByAt (reach mode args ops) j)
      ∧ closedByAt (step args (reach mode args ops) .cancel).1 idx
          = (if a.scopeBeh ≠ .noAclose then (closedByAt (reach mode args ops) idx).map (· ++ [.scope])
             else closedByAt (reach mode args ops) idx)
      ∧ (step args (step args (reach mode args ops) .cancel).1 .aclose).1.log
          = (step args (reach mode args ops) .cancel).1.log
              ++ (reach mode args ops).owned.map Ev.close := by
  have hinv := reach_inv mode args ops
  have hcur : (reach mode args ops).pc.current = some idx := by rw [hpc]; rfl
  have hlt : idx < args.length := inv_current_lt _ _ hinv idx hcur
  have hopen : scopeAt (reach mode args ops) idx = some .open := (hinv.2 idx).mpr hcur
  have hon := inv_onlyOpen _ _ hinv idx hcur
  have hstep : step args (reach mode args ops) .cancel
      = ({ (leaveScope args[idx] idx (reach mode args ops)).1 with pc := .done },
          outOf .cancelled args[idx].scopeBeh.exc) :=
    cancel_running args _ idx k args[idx] hpc (List.getElem?_eq_getElem hlt)
  have hinv' : Inv args.length (step args (reach mode args ops) .cancel).1 := step_inv args _ _ hinv
  have hown' : (step args (reach mode args ops) .cancel).1.owned = (reach mode args ops).owned :=
    step_owned args _ _
  have hpc' : (step args (reach mode args ops) .cancel).1.pc = .done := by rw [hstep]
  have hownlt : ∀ i ∈ (step args (reach mode args ops) .cancel).1.owned, i < args.length := by
    rw [hown', reach_owned]; exact ownedOf_lt mode args
  have hnd : (step args (reach mode args ops) .cancel).1.owned.Nodup := by
    rw [hown', reach_owned]
    exact List.Pairwise.imp (fun h => Nat.ne_of_lt h) (ownedOf_pairwise mode args)
  have hacl := (aclose_idle args _ hinv' hownlt hnd (by rw [hpc']; rfl)).1
  rw [hpc', hown'] at hacl
  refine ⟨args[idx], List.getElem?_eq_getElem hlt, hopen, ?_, ?_, ?_, hpc', ?_, ?_, ?_, hown', ?_, ?_, ?_⟩
  · rw [hstep]; exact leaveScope_log _ idx _
  · rw [hstep]
    show scopeAt (leaveScope args[idx] idx (reach mode args ops)).1 idx = _
    rw [leaveScope_scopeAt, if_pos rfl, hopen]; rfl
  · rw [hstep]; exact leaveScope_noOpen _ idx _ hon
  · show next args _ = _
    unfold next
    rw [hpc']
  · rw [hstep]
  · rw [hstep]
    show (outOf .cancelled args[idx].scopeBeh.exc).isSusp = false
    cases args[idx].scopeBeh.exc <;> rfl
  · intro j hj
    rw [hstep]
    show closedByAt (leaveScope args[idx] idx (reach mode args ops)).1 j = _
    rw [leaveScope_closedByAt, if_neg (fun h => hj h.1.symm)]
  · rw [hstep]
    show closedByAt (leaveScope args[idx] idx (reach mode args ops)).1 idx = _
    rw [leaveScope_closedByAt]
    by_cases hb : args[idx].scopeBeh = .noAclose <;> simp [hb]
  · show (aclose args _).1.log = _
    simpa [innerClose] using hacl

/-! ## Examples: the statements are not vacuous -/

section Examples

/-- an owned iterator whose pulls suspend twice and whose `aclose` raises 7 -/
private def exA1 : Arg :=
  { kind := .asyncIteratorWithClose, items := [2, 3], susp := 2, close := .raises 7 }

/-- a re-iterable async iterable (its iterator is made by the chain) whose pulls suspend once -/
private def exR : Arg := { kind := .reiterableAsync, items := [4], susp := 1, close := .ok }

/-- an owned iterator with one item; `exA1`; `exR`; a synchronous iterable; an async iterator
    without `aclose` -/
private def exArgs : List Arg :=
  [ { kind := .asyncIteratorWithClose, items := [1], susp := 0, close := .ok }, exA1, exR,
    { kind := .syncIterable, items := [5], susp := 0, close := .ok },
    { kind := .asyncIteratorNoClose, items := [], susp := 0, close := .ok } ]

/-- the same kinds with entirely different streams -/
private def exArgs' : List Arg :=
  exArgs.map (fun a => { a with items := a.items ++ [10, 11, 12, 13, 14, 15], susp := 3 })

/-- a synchronous iterable, `exR`, an async iterator whose `aclose` raises 3 -/
private def exArgs2 : List Arg :=
  [ { kind := .syncIterable, items := [5], susp := 0, close := .ok }, exR,
    { kind := .asyncIteratorWithClose, items := [9], susp := 0, close := .raises 3 } ]

/-- owned = the two async iterators with `aclose`, whatever happens and however long the streams -/
example : (reach .positional exArgs [.next, .next, .acloseWhileRunning, .next, .cancel, .aclose]).owned = [0, 1] :=
  (C20_chain_owned_fixed .positional exArgs _).1.trans (by decide)

example : (reach .positional exArgs' [.next, .next, .next, .next, .next]).owned
    = (reach .positional exArgs [.aclose]).owned :=
  (C20_chain_owned_fixed .positional exArgs [.aclose]).2.2.2.2.2 exArgs' _ (by decide)

example : (reach .fromIterable exArgs [.next, .next, .next]).owned = [] :=
  (C20_chain_owned_fixed .fromIterable exArgs _).2.2.2.1

/-- after `1`, and two sends into the pull of argument 1: suspended there, exactly that scope open -/
example : (reach .positional exArgs [.next, .next, .next]).pc = .runningInPull 1 2 := by decide

example : scopeAt (reach .positional exArgs [.next, .next, .next]) 1 = some .open :=
  ((C20_chain_holds_one_inner .positional exArgs [.next, .next, .next]).1 1).mpr (by decide)

/-- the chain is suspended at `yield 4` inside the iterator it made for the re-iterable argument 1;
    the wrapper it made for the synchronous argument 0 was closed before -/
private def exOpsYield : List Op := [.next, .next, .next]

example : (reach .fromIterable exArgs2 exOpsYield).pc = .suspendedAtYield 1
    ∧ (reach .fromIterable exArgs2 exOpsYield).log
        = [.pull 0, .item 5, .pull 0, .end_ 0, .pull 1, .item 4]
    ∧ closedByAt (reach .fromIterable exArgs2 exOpsYield) 0 = some [.scope] := by decide

/-- exactly one chain-made inner iterator is open there (that of argument 1) -/
example : (exArgs2.zip (reach .fromIterable exArgs2 exOpsYield).status).countP
      (fun p => p.1.createdByChain && p.2.scope == .open) ≤ 1
    ∧ (exArgs2.zip (reach .fromIterable exArgs2 exOpsYield).status).countP
      (fun p => p.1.createdByChain && p.2.scope == .open) = 1 :=
  ⟨(C20_chain_holds_one_inner .fromIterable exArgs2 exOpsYield).2.2.2, by decide⟩

/-- `from_iterable`: nothing is owned, `aclose` closes exactly the inner iterator 1 -/
example : (step exArgs2 (reach .fromIterable exArgs2 exOpsYield) .aclose).1.log
    = (reach .fromIterable exArgs2 exOpsYield).log ++ [.close 1] :=
  (C04_chain_aclose_closes_all_owned .fromIterable exArgs2 exOpsYield .aclose (.inl rfl)
    (by decide)).1.trans (by decide)

/-- positional, suspended at `yield 2` inside owned argument 1 (whose `aclose` raises 7): both
    owned iterators are closed although the second raises, then the scope of 1 is closed; the most
    recent failure (7, from the scope's close) propagates -/
private def exOpsYield1 : List Op := [.next, .next, .next, .next]

example : (reach .positional exArgs exOpsYield1).pc = .suspendedAtYield 1 := by decide

example : (step exArgs (reach .positional exArgs exOpsYield1) .aclose).1.log
      = (reach .positional exArgs exOpsYield1).log ++ [.close 0, .close 1, .close 1]
    ∧ (step exArgs (reach .positional exArgs exOpsYield1) .aclose).2 = .raised 7
    ∧ closedByAt (step exArgs (reach .positional exArgs exOpsYield1) .aclose).1 1
        = some [.owner, .scope] := by
  have h := C04_chain_aclose_closes_all_owned .positional exArgs exOpsYield1 .aclose (.inl rfl)
    (by decide)
  exact ⟨h.1.trans (by decide), h.2.2.2.2.2.1.trans (by decide), (h.2.2.2.2.1 1).trans (by decide)⟩

/-- positional over `exArgs2`, not started: the owned iterator 2 is closed, its failure 3 propagates -/
example : (step exArgs2 (reach .positional exArgs2 []) .aclose).2 = .raised 3 :=
  (C04_chain_aclose_closes_all_owned .positional exArgs2 [] .aclose (.inl rfl)
    (by decide)).2.2.2.2.2.1.trans (by decide)

/-- a second task closes while the first is inside the pull of argument 1: busy, both owned
    closed, the pull goes on -/
example : (step exArgs (reach .positional exArgs [.next, .next]) .acloseWhileRunning).2 = .busy
    ∧ (step exArgs (reach .positional exArgs [.next, .next]) .acloseWhileRunning).1.log
        = (reach .positional exArgs [.next, .next]).log ++ [.close 0, .close 1]
    ∧ (step exArgs (step exArgs (reach .positional exArgs [.next, .next]) .acloseWhileRunning).1
        .next).2 = .susp 1 := by
  have h := C17_chain_close_while_running_never_suspends .positional exArgs [.next, .next] 1 1
    (by decide)
  exact ⟨h.1, h.2.2.2.2.2.2.2.2.1.trans (by decide),
    (h.2.2.2.2.2.2.2.2.2 exA1 (by decide) (by decide)).1⟩

/-- a cancellation inside the pull of argument 1 (close raises 7): the scope's close replaces the
    cancellation, the owned iterators are closed by the following `aclose` -/
example : (step exArgs (reach .positional exArgs [.next, .next]) .cancel).2 = .raised 7
    ∧ (step exArgs (reach .positional exArgs [.next, .next]) .cancel).1.log
        = (reach .positional exArgs [.next, .next]).log ++ [.close 1]
    ∧ (step exArgs (step exArgs (reach .positional exArgs [.next, .next]) .cancel).1 .aclose).1.log
        = (step exArgs (reach .positional exArgs [.next, .next]) .cancel).1.log ++ [.close 0, .close 1] := by
  obtain ⟨a, ha, -, hlog, -, -, -, -, hout, -, -, -, -, hacl⟩ :=
    C18_chain_cancel_releases .positional exArgs [.next, .next] 1 1 (by decide)
  have h2 : exArgs[1]? = some exA1 := by decide
  rw [h2] at ha
  cases ha
  exact ⟨hout, hlog, hacl.trans (by decide)⟩

/-- a cancellation inside the pull of the chain-made iterator 1: it is closed and comes back out -/
example : (step exArgs2 (reach .fromIterable exArgs2 [.next, .next]) .cancel).2 = .cancelled
    ∧ (step exArgs2 (reach .fromIterable exArgs2 [.next, .next]) .cancel).1.log
        = (reach .fromIterable exArgs2 [.next, .next]).log ++ [.close 1] := by
  obtain ⟨a, ha, -, hlog, -, -, -, -, hout, -⟩ :=
    C18_chain_cancel_releases .fromIterable exArgs2 [.next, .next] 1 1 (by decide)
  have h2 : exArgs2[1]? = some exR := by decide
  rw [h2] at ha
  cases ha
  exact ⟨hout, hlog⟩

end Examples

end AsyncVerif.ChainObj
