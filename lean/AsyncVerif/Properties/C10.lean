import AsyncVerif.Proofs.LruConc
import AsyncVerif.Proofs.LruOrder
/-!
# C10 — lru_cache equals functools.lru_cache over every sequential call history

Property theorems only.  Model: `Machines/Lru.lean` (`Impl.*` = asyncstdlib `_lrucache.py`,
`Spec.*` = CPython `functools.lru_cache` / `_functoolsmodule.c`, `asKey` = `CallKey.from_call`,
`ftKey` = `lru_cache_make_key`).
-/
namespace AsyncVerif.Lru

/-- Argument patterns are distinguished identically: for every `typed` setting and every two call
    patterns (positional / keyword arguments in call order; ints, floats, bools, strs, None,
    objects, flat tuples), asyncstdlib's keys are equal (`==`, hence same `dict` slot) exactly when
    CPython's keys are equal. -/
theorem C10_key_equiv (typed : Bool) (p q : Pattern) :
    ((asKey typed p).norm = (asKey typed q).norm) ↔ ((ftKey typed p).norm = (ftKey typed q).norm) :=
  key_equiv typed p q

/-- For every decorator form (`@lru_cache`, `@lru_cache(maxsize, typed)` with `maxsize` None, negative,
    zero or positive) and every sequential history of calls (succeeding or failing, direct or
    through a bound method), `cache_clear`, `cache_discard`, `cache_info`, `cache_parameters`, the
    asyncstdlib cache produces exactly the outputs of `functools.lru_cache`: the same returned
    values, the same calls invoking the wrapped function, the same errors, the same hits, misses,
    maxsize and currsize. -/
theorem C10_refines (d : Dec) (ops : List Op) :
    run (Impl.step (Impl.lruCache d)) St.init ops = run (Spec.step (Spec.lruCache d)) St.init ops := by
  rw [← lruCache_eq d]
  exact run_eq _ (lruCache_ok d) ops St.init (Wf.init _)

/-- The same from any state of a cache (any contents, any counters; an uncached wrapper has no
    contents): this is what "behaves as C10 from its current contents" means in C11. -/
theorem C10_refines_from (c : Cfg) (hok : c.ok) (s : St) (hwf : Wf c s) (ops : List Op) :
    run (Impl.step c) s ops = run (Spec.step c) s ops :=
  run_eq c hok ops s hwf

/-- After every history the number of entries is at most `maxsize` (0 when disabled). -/
theorem C10_currsize_le_maxsize (d : Dec) (ops : List Op) (n : Nat)
    (hn : (Impl.lruCache d).maxsize = some n) :
    (final (Impl.step (Impl.lruCache d)) St.init ops).store.length ≤ n := by
  have h := final_inv _ (lruCache_ok d) ops St.init (Inv.init _)
  generalize Impl.lruCache d = c at *
  obtain ⟨var, typed⟩ := c
  cases var with
  | uncached => have := (h.wf rfl).2; rw [this]; simp
  | memo => simp [Cfg.maxsize] at hn
  | bounded m =>
    simp only [Cfg.maxsize, Option.some.injEq] at hn
    subst hn
    exact h.bound m rfl

/-- After every history no two entries have equal keys. -/
theorem C10_keys_distinct (d : Dec) (ops : List Op) :
    Distinct (Impl.lruCache d).typed (final (Impl.step (Impl.lruCache d)) St.init ops).store :=
  (final_inv _ (lruCache_ok d) ops St.init (Inv.init _)).distinct

/-- Errors are never cached: a call that raises leaves the entries and the hit counter as they
    were and counts one miss. -/
theorem C10_errors_not_cached (c : Cfg) (s : St) (p : Pattern) (r : Res) (e : Nat)
    (h : (Impl.call c s p r).2 = .raised e) :
    (Impl.call c s p r).1.store = s.store ∧ (Impl.call c s p r).1.hits = s.hits ∧
    (Impl.call c s p r).1.misses = s.misses + 1 ∧ r = .fail e := by
  unfold Impl.call at h ⊢
  have hs := begin_none_store c s p
  have hc := (begin_counts c s p).2
  rcases hb : Impl.begin c s p with ⟨s1, o⟩
  rw [hb] at h hs hc
  cases o with
  | some v => simp at h
  | none =>
    cases r with
    | ok v => simp at h
    | fail e' =>
      simp only [Out.raised.injEq] at h
      subst h
      have hst : s1.store = s.store := by
        rcases hs rfl with h1 | h1
        · exact h1.1
        · exact h1.2
      exact ⟨hst, (hc rfl).1, (hc rfl).2, rfl⟩

/-- `cache_discard` removes exactly the entry of the given call pattern: counters are untouched,
    the remaining entries keep their values and their order, the pattern is no longer cached and
    every other pattern is cached exactly if it was before. -/
theorem C10_discard_exact (c : Cfg) (s : St) (h : Inv c s) (hc : c.var ≠ .uncached) (p : Pattern) :
    (Impl.discard c s p).hits = s.hits ∧ (Impl.discard c s p).misses = s.misses ∧
    (Impl.discard c s p).store = s.store.filter (fun e => !Impl.eqv c.typed e.1 p) ∧
    find (Impl.eqv c.typed) p (Impl.discard c s p).store = none ∧
    ∀ q, Impl.eqv c.typed q p = false →
      find (Impl.eqv c.typed) q (Impl.discard c s p).store = find (Impl.eqv c.typed) q s.store := by
  have hst : (Impl.discard c s p).store = s.store.filter (fun e => !Impl.eqv c.typed e.1 p) := by
    obtain ⟨var, typed⟩ := c
    unfold Impl.discard
    cases var with
    | uncached => exact absurd rfl hc
    | memo => exact erase_eq_filter h.distinct
    | bounded n => exact erase_eq_filter h.distinct
  refine ⟨by unfold Impl.discard; cases c.var <;> rfl, by unfold Impl.discard; cases c.var <;> rfl, hst, ?_, ?_⟩
  · rw [hst]; exact find_filter_self _ _ _
  · intro q hq; rw [hst]; exact find_filter_other _ _ _ hq _

/-- Least-recently-used eviction, step by step: the entries are kept in order of last use (oldest
    first); a hit moves its entry to the most-recent end and evicts nothing; a miss appends the new
    entry at the most-recent end and evicts exactly the least recently used entry, and only when
    the cache already holds `maxsize` entries. -/
theorem C10_lru_step (n : Nat) (typed : Bool) (s : St) (p : Pattern) (v : Nat) :
    (∀ e, find (Impl.eqv typed) p s.store = some e →
        Impl.call ⟨.bounded n, typed⟩ s p (.ok v)
          = ({ s with store := erase (Impl.eqv typed) p s.store ++ [e], hits := s.hits + 1 }, .ret e.2 false)) ∧
    (find (Impl.eqv typed) p s.store = none →
        (Impl.call ⟨.bounded n, typed⟩ s p (.ok v)).2 = .ret v true ∧
        (Impl.call ⟨.bounded n, typed⟩ s p (.ok v)).1.store
          = (if s.store.length < n then s.store else s.store.drop 1) ++ [(p, v)]) := by
  refine ⟨?_, ?_⟩
  · intro e h
    simp [Impl.call, Impl.begin, h]
  · intro h
    simp only [Impl.call, Impl.begin, Impl.resume, h, Option.isSome_none, Bool.false_eq_true, if_false]
    by_cases hl : s.store.length < n
    · have : ¬ (s.store.length ≥ n) := by omega
      simp [hl, this]
    · have : s.store.length ≥ n := by omega
      simp [hl, this]

/-- What "least recently used" means, globally: after any sequence of successful calls on a cache
    with `maxsize = n ≥ 1`, the cache holds exactly the `n` most recently used distinct call patterns
    (as key classes), least recently used first — `recency` lists every pattern ever used in order
    of its last use, `lastN n` takes the last `n`. -/
theorem C10_lru_contents (n : Nat) (hn : 1 ≤ n) (typed : Bool) (calls : List (Pattern × Nat)) :
    keys typed (final (Impl.step ⟨.bounded n, typed⟩) St.init (calls.map fun c => Op.call c.1 (.ok c.2))).store
      = lastN n (recency (calls.map fun c => keyOf typed c.1)) :=
  calls_lru n hn typed calls St.init [] List.nodup_nil (by simp [keys, St.init, lastN])

/-- `maxsize <= 0` disables caching: every call invokes the wrapped function, nothing is stored,
    each call is a miss. -/
theorem C10_disabled (n : Int) (hn : n ≤ 0) (typed : Bool) (s : St) (p : Pattern) (r : Res) :
    (Impl.lruCache (.paren (.int n) typed)).var = .uncached ∧
    (Impl.call ⟨.uncached, typed⟩ s p r).2 = (match r with | .ok v => .ret v true | .fail e => .raised e) ∧
    (Impl.call ⟨.uncached, typed⟩ s p r).1 = { s with misses := s.misses + 1 } := by
  refine ⟨?_, ?_, ?_⟩
  · simp only [Impl.lruCache]
    by_cases h : n < 0
    · simp [h]
    · have : n = 0 := by omega
      simp [this]
  · cases r <;> simp [Impl.call, Impl.begin, Impl.resume]
  · cases r <;> simp [Impl.call, Impl.begin, Impl.resume]

/-- `maxsize=None` is unbounded: no call ever evicts an entry. -/
theorem C10_unbounded_keeps (typed : Bool) (s : St) (q : Pattern) (e : Pattern × Nat)
    (h : find (Impl.eqv typed) q s.store = some e) (p : Pattern) (r : Res) :
    (Impl.lruCache (.paren .none typed)).var = .memo ∧
    find (Impl.eqv typed) q (Impl.call ⟨.memo, typed⟩ s p r).1.store = some e := by
  refine ⟨rfl, ?_⟩
  simp only [Impl.call, Impl.begin, Impl.resume]
  cases hf : find (Impl.eqv typed) p s.store with
  | some e' => simpa using h
  | none =>
    cases r with
    | fail x => simpa using h
    | ok v =>
      simp only [hf, Option.isSome_none, Bool.false_eq_true, if_false]
      exact find_append_of_some _ h

/-- A cache used as a method keys on the instance (calls through different instances never share
    an entry) while sharing the one store and the one set of statistics (a bound call is a call of
    the same cache with the instance prepended). -/
theorem C10_method_keys_on_instance (c : Cfg) (s : St) (i j : Nat) (p q : Pattern) (r : Res) :
    (Impl.eqv c.typed (bind i p) (bind j q) = true → i = j) ∧
    Impl.step c s (.mcall i p r) = Impl.step c s (.call (bind i p) r) ∧
    Impl.step c s (.mdiscard i p) = Impl.step c s (.discard (bind i p)) := by
  refine ⟨?_, rfl, rfl⟩
  intro h
  simp only [Impl.eqv, decide_eq_true_eq] at h
  obtain ⟨r1, h1⟩ := bind_key c.typed i p
  obtain ⟨r2, h2⟩ := bind_key c.typed j q
  rw [h1, h2] at h
  simp only [NKey.seq.injEq, List.cons.injEq, NElem.sc.injEq, NV.obj.injEq] at h
  exact h.1

/-! Non-vacuity: a concrete history on a cache of size 2 with `1 == 1.0` sharing an entry while the
    bare `1` of the fast path does not, keyword order, a failing call, eviction of the least
    recently used entry after a hit, discard and clear. -/
private def i1 : Arg := .prim (.int 1)
private def f1 : Arg := .prim (.float 2)
private def b1 : Arg := .prim (.bool true)
private def pa (l : List Arg) : Pattern := ⟨l, []⟩
private def d2 : Dec := .paren (.int 2) false

example : Impl.eqv false (pa [i1]) (pa [f1]) = false ∧ Impl.eqv false (pa [f1]) (pa [b1]) = true ∧
    Impl.eqv false (pa [i1, i1]) (pa [f1, b1]) = true ∧ Impl.eqv true (pa [i1, i1]) (pa [f1, b1]) = false ∧
    Impl.eqv false ⟨[], [(0, i1), (1, i1)]⟩ ⟨[], [(1, i1), (0, i1)]⟩ = false ∧
    Impl.eqv false ⟨[], [(0, i1), (1, i1)]⟩ ⟨[], [(0, f1), (1, b1)]⟩ = true := by decide

example : run (Impl.step (Impl.lruCache d2)) St.init
    [.call (pa [i1, i1]) (.ok 10), .call (pa [f1]) (.fail 7), .call (pa [f1]) (.ok 11), .call (pa [b1, f1]) (.ok 12),
     .call (pa [i1]) (.ok 13), .call (pa [f1]) (.ok 14), .info, .discard (pa [i1]), .call (pa [b1, b1]) (.ok 15),
     .call (pa [i1]) (.ok 16), .info, .clear, .info, .params]
  = [.ret 10 true, .raised 7, .ret 11 true, .ret 10 false, .ret 13 true, .ret 14 true, .info 1 5 (some 2) 2,
     .done, .ret 15 true, .ret 16 true, .info 1 7 (some 2) 2, .done, .info 0 0 (some 2) 0, .params (some 2) false] := by
  decide

example : lastN 2 (recency ([pa [i1], pa [f1], pa [i1], pa [i1, i1], pa [f1, b1], pa [f1]].map (keyOf false)))
    = [keyOf false (pa [i1, i1]), keyOf false (pa [f1])] := by decide

example : (Impl.lruCache (.paren (.int (-3)) true)) = ⟨.uncached, true⟩ ∧ (Impl.lruCache d2).ok ∧
    (Impl.lruCache d2).maxsize = some 2 := by decide

end AsyncVerif.Lru
