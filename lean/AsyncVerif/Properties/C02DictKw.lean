import AsyncVerif.Proofs.DictKw
import AsyncVerif.Properties.C02
import AsyncVerif.Properties.C04
import AsyncVerif.Properties.C18
/-!
# C02 — `dict(iterable=(), /, **kwargs)`: the keywords are merged into the pairs' dictionary

`asyncstdlib.builtins.dict` builds `base_dict = {key: value async for key, value in item_iter}` inside
`ScopedIter`, leaves the scope, and then `if kwargs: base_dict.update(kwargs)`.  The model is
`Impl.dictKw kw s fuel` (`kw` = the keywords in call order, keys and values in the value domain), its CPython
twin `Std.dictKw` (`dict_update_common`: the pairs first, then the keywords).

The list-level meaning is `ListSpec.dictUpdate` (`d[k] = v` on an insertion-ordered association list: an existing
key keeps its position and its key object and takes the new value, a new key is appended), folded over the
keywords by `ListSpec.dictUpdateAll`; `ListSpec.dictLookup` is `d.get(k)`.  Key equality is `Std.hashEq` (same hash
and `==`), which `Proofs/DictKw.lean` shows to be symmetric, transitive and reflexive on the hashable values.

* value: `C02_dict_kwargs_value` (fault-free world: order of the keys AND values), `C02_dict_kwargs_over_dict`
  (every world, relative to `dict(iterable)`), `C02_dict_kwargs_as_pairs`, `C02_dict_kwargs_keys`,
  `C02_dict_kwargs_positions_kept`, `C02_dict_kwargs_lookup`;
* twin / no keywords / resources: `C02_dict_kwargs_twin`, `C02_dict_kwargs_empty`,
  `C02_dict_kwargs_source_released`, `C02_dict_kwargs_source_released_total`, `C02_dict_kwargs_fuel_adequate`;
* algebra of `dictUpdate`: `C02_dictUpdate_idempotent`, `C02_dictUpdate_later_wins`, `C02_dictUpdate_lookup`,
  `C02_dictUpdate_lookup_same`, `C02_dictUpdate_lookup_other`, `C02_dictUpdate_keys`,
  `C02_dictUpdate_is_dictInsert`, `C02_dict_pairs_dictionary`, `C02_dict_keys_distinct`;
* the metatheory instances for the new model: `C02_dict_kwargs_kind_free`, `C02_dict_kwargs_faithful`,
  `C02_dict_kwargs_cancel_safe`.

Python keywords are `str` objects; the value domain has no strings, a keyword is any hashable value (the driver
takes them in the S1 value encoding).  What matters to `dict` — which keys are equal, in which order they come —
is carried by `Std.hashEq` and the order of the list.
-/
namespace AsyncVerif

open ListSpec

/-! ## algebra of `dictUpdate` / `dictLookup` -/

/-- assigning the same value to the same (hashable) key twice is the same as assigning it once -/
theorem C02_dictUpdate_idempotent (d : List (Val × Val)) (k v : Val) (hk : Std.hashable k = true) :
    dictUpdate (dictUpdate d k v) k v = dictUpdate d k v :=
  dictUpdate_dictUpdate d k v k v (hashEq_refl hk)

example : dictUpdate (dictUpdate [(.int 1, .int 10), (.int 2, .int 20)] (.int 1) (.int 7)) (.int 1) (.int 7)
    = [(.int 1, .int 7), (.int 2, .int 20)] := by rfl

/-- the later of two assignments to equal keys wins: the entry takes the later value; it keeps the position and the
    key object it got from the first assignment (or had before) -/
theorem C02_dictUpdate_later_wins (d : List (Val × Val)) (k v k' v' : Val) (h : Std.hashEq k k' = true) :
    dictUpdate (dictUpdate d k v) k' v' = dictUpdate d k v' :=
  dictUpdate_dictUpdate d k v k' v' h

/-- `True == 1`: the second assignment replaces the value of the first, the key object stays `1` -/
example : Std.hashEq (.int 1) (.bool true) = true := by rfl
example : dictUpdate (dictUpdate [(.int 2, .int 20)] (.int 1) (.int 7)) (.bool true) (.int 8)
    = [(.int 2, .int 20), (.int 1, .int 8)] := by rfl

/-- lookup after an assignment: every key equal to the assigned one finds the new value, every other key finds what
    it found before -/
theorem C02_dictUpdate_lookup (d : List (Val × Val)) (k v k' : Val) :
    dictLookup (dictUpdate d k v) k' = if Std.hashEq k k' then some v else dictLookup d k' :=
  dictLookup_dictUpdate d k v k'

/-- `lookup k (update d k v) = some v` (for a key that can be a key at all) -/
theorem C02_dictUpdate_lookup_same (d : List (Val × Val)) (k v : Val) (hk : Std.hashable k = true) :
    dictLookup (dictUpdate d k v) k = some v := by
  rw [dictLookup_dictUpdate, hashEq_refl hk]; rfl

/-- an assignment leaves every other key as it was -/
theorem C02_dictUpdate_lookup_other (d : List (Val × Val)) (k v k' : Val) (h : Std.hashEq k k' = false) :
    dictLookup (dictUpdate d k v) k' = dictLookup d k' := by
  rw [dictLookup_dictUpdate, h]; rfl

example : Std.hashable (.tup [.int 1, .obj 5 2]) = true := by rfl
example : dictLookup (dictUpdate [(.int 1, .int 10), (.int 2, .int 20)] (.int 2) (.int 7)) (.int 2) = some (.int 7) := by rfl
example : Std.hashEq (.int 2) (.int 1) = false := by rfl
example : dictLookup (dictUpdate [(.int 1, .int 10), (.int 2, .int 20)] (.int 2) (.int 7)) (.int 1) = some (.int 10) := by rfl

/-- the keys after an assignment: unchanged (same order, same key objects) if an equal key is present, else the new
    key is appended — `set.add` on the list of keys -/
theorem C02_dictUpdate_keys (d : List (Val × Val)) (k v : Val) :
    (dictUpdate d k v).map Prod.fst = Std.setInsert (d.map Prod.fst) k :=
  dictUpdate_keys d k v

example : (dictUpdate [(.int 1, .int 10), (.int 2, .int 20)] (.bool true) (.int 7)).map Prod.fst = [.int 1, .int 2] := by rfl
example : (dictUpdate [(.int 1, .int 10), (.int 2, .int 20)] (.int 3) (.int 7)).map Prod.fst = [.int 1, .int 2, .int 3] := by rfl

/-- on a dictionary (pairwise different keys) the model's `d[k] = v` (`Std.dictInsert`, used by the comprehension
    and by `update`) is `dictUpdate`; and the result is a dictionary again -/
theorem C02_dictUpdate_is_dictInsert (d : List (Val × Val)) (k v : Val) (hd : DictKeysDistinct d) :
    Std.dictInsert d k v = dictUpdate d k v ∧ DictKeysDistinct (dictUpdate d k v) :=
  ⟨dictInsert_eq_dictUpdate d k v hd, dictUpdate_distinct d k v hd⟩

example : DictKeysDistinct [(.int 1, .int 10), (.obj 4 1, .int 20)] :=
  List.Pairwise.cons (by intro a ha; simp only [List.mem_singleton] at ha; subst ha; rfl)
    (List.Pairwise.cons (by simp) List.Pairwise.nil)

/-- the dictionary of a list of pairs (`dictOf`, the value of `dict(pairs)` by `C02_dict_value`) is `dictUpdate` folded
    over the pairs from the empty dictionary -/
theorem C02_dict_pairs_dictionary (pairs : List (Val × Val)) : dictOf [] pairs = dictUpdateAll [] pairs :=
  dictOf_eq_dictUpdateAll pairs [] distinct_nil

/-- the keys of the dictionary of a list of pairs, and of that dictionary updated with keywords, are pairwise different -/
theorem C02_dict_keys_distinct (pairs kw : List (Val × Val)) :
    DictKeysDistinct (dictOf [] pairs) ∧ DictKeysDistinct (dictUpdateAll (dictOf [] pairs) kw) :=
  ⟨dictOf_distinct pairs [] distinct_nil, dictUpdateAll_distinct kw _ (dictOf_distinct pairs [] distinct_nil)⟩

example : dictOf [] [(.obj 1 0, .int 10), (.obj 2 1, .int 11), (.obj 3 0, .int 12)]
    = dictUpdateAll [] [(.obj 1 0, .int 10), (.obj 2 1, .int 11), (.obj 3 0, .int 12)] := by rfl

/-! ## `dict(pairs, **kw)`: the value -/

/-- the keys of `d.update(kw)`: first the keys of `d`, in their order and with their key objects; then the keywords
    that are not keys of `d`, each once, in the order of their first occurrence -/
theorem C02_dict_kwargs_keys (d kw : List (Val × Val)) :
    (dictUpdateAll d kw).map Prod.fst = distinct (d.map Prod.fst) (kw.map Prod.fst) :=
  dictUpdateAll_keys kw d

/-- keywords override pairs but every pair keeps its position (and key object): the keys of the pairs' dictionary are
    a prefix of the keys of the result -/
theorem C02_dict_kwargs_positions_kept (d kw : List (Val × Val)) :
    d.map Prod.fst <+: (dictUpdateAll d kw).map Prod.fst := by
  rw [dictUpdateAll_keys]; exact distinct_prefix _ _

/-- the values of `d.update(kw)`: under every key, the value of the *last* keyword equal to it, or else what `d` had -/
theorem C02_dict_kwargs_lookup (d kw : List (Val × Val)) (k : Val) :
    dictLookup (dictUpdateAll d kw) k = (dictLookup kw.reverse k).orElse (fun _ => dictLookup d k) :=
  dictLookup_dictUpdateAll kw d k

/-- `{1: 10, 2: 20}.update(k2=7, k3=8, k2=9)` (written with ints for the keywords) -/
example : dictUpdateAll [(.int 1, .int 10), (.int 2, .int 20)] [(.int 2, .int 7), (.int 3, .int 8), (.int 2, .int 9)]
    = [(.int 1, .int 10), (.int 2, .int 9), (.int 3, .int 8)] := by rfl
example : dictLookup [(.int 2, .int 9), (.int 3, .int 8), (.int 2, .int 7)] (.int 2) = some (.int 9) := by rfl

/-- asyncstdlib `dict(pairs, **kw)` in a fault-free world (source `s` delivers the `(key, value)` tuples `pairs`, keys
    hashable; the keywords `kw`, in call order, hashable): the result is the pairs' dictionary `dictOf [] pairs`
    (first key object and position, last value: `C02_dict_value`) updated with every keyword in order by
    `dictUpdate` — so both the order of the keys and the values are determined: a keyword equal to a key of the pairs
    replaces the value and keeps the pair's position and key object, a new keyword is appended, a repeated keyword
    counts with its last value.  The whole source is consumed, nothing else is visible. -/
theorem C02_dict_kwargs_value (kw : List (Val × Val)) (s fuel : Nat) (pairs : List (Val × Val)) (w : World)
    (hf : Feeds w s (pairs.map fun p => Val.tup [p.1, p.2])) (hh : ∀ p ∈ pairs, Std.hashable p.1 = true)
    (hk : ∀ p ∈ kw, Std.hashable p.1 = true) (hlt : pairs.length < fuel) :
    (Impl.dictKw kw s fuel w).1 = .ok (Std.dictVal (dictUpdateAll (dictOf [] pairs) kw)) ∧
    ((Impl.dictKw kw s fuel w).2.srcs s).script = [] ∧
    (Impl.dictKw kw s fuel w).2.vis = w.vis ++ pullLog s (pairs.map fun p => Val.tup [p.1, p.2]) ++ endLog s := by
  obtain ⟨-, h2, h3⟩ := C02_dict_value s fuel pairs w hf hh hlt
  rw [dictKw_world]
  refine ⟨?_, h2, h3⟩
  have hl := (scopedIter_lift s (Std.dictLoop s [] fuel) w).1
  rw [(dictLoop_value s pairs [] fuel w hf hh hlt).1] at hl
  rw [dictKw_run]
  generalize scopedIter s (Std.dictLoop s [] fuel) w = x at hl ⊢
  rcases x with ⟨r, w1⟩
  simp only at hl
  subst hl
  simp only [dictUpdateKwR_value kw _ hk (dictOf_distinct pairs [] distinct_nil)]
  rfl

/-- `dict([(o1₀, 10), (o2₁, 11), (o3₀, 12)], **{o4₁: 7, 5: 8, o4₁: 9})` with objects `oN` of key `ₖ`: the hypotheses
    of `C02_dict_kwargs_value`, and the result — `o1` keeps the first position with the last pair value 12, `o2`
    (equal to the keyword `o4`) keeps position and key object and gets the last keyword value 9, `5` is appended -/
example : Feeds (exampleWorld [.tup [.obj 1 0, .int 10], .tup [.obj 2 1, .int 11], .tup [.obj 3 0, .int 12]]) 0
    ([(Val.obj 1 0, Val.int 10), (.obj 2 1, .int 11), (.obj 3 0, .int 12)].map fun p => Val.tup [p.1, p.2]) := ⟨rfl, rfl⟩
example : ∀ p ∈ [(Val.obj 4 1, Val.int 7), (.int 5, .int 8), (.obj 4 1, .int 9)], Std.hashable p.1 = true := by
  simp [Std.hashable]
example : (Impl.dictKw [(.obj 4 1, .int 7), (.int 5, .int 8), (.obj 4 1, .int 9)] 0 9
      (exampleWorld [.tup [.obj 1 0, .int 10], .tup [.obj 2 1, .int 11], .tup [.obj 3 0, .int 12]])).1
    = .ok (.lst [.tup [.obj 1 0, .int 12], .tup [.obj 2 1, .int 9], .tup [.int 5, .int 8]]) := by rfl
example : Std.dictVal (dictUpdateAll (dictOf [] [(.obj 1 0, .int 10), (.obj 2 1, .int 11), (.obj 3 0, .int 12)])
      [(.obj 4 1, .int 7), (.int 5, .int 8), (.obj 4 1, .int 9)])
    = .lst [.tup [.obj 1 0, .int 12], .tup [.obj 2 1, .int 9], .tup [.int 5, .int 8]] := by rfl

/-- `dict(pairs, **kw)` is `dict` of the pairs followed by the keywords as further pairs -/
theorem C02_dict_kwargs_as_pairs (pairs kw : List (Val × Val)) :
    dictUpdateAll (dictOf [] pairs) kw = dictOf [] (pairs ++ kw) := by
  rw [C02_dict_pairs_dictionary, C02_dict_pairs_dictionary, dictUpdateAll_append]

example : dictUpdateAll (dictOf [] [(.int 1, .int 10), (.int 2, .int 20)]) [(.int 1, .int 7)]
    = dictOf [] [(.int 1, .int 10), (.int 2, .int 20), (.int 1, .int 7)] := by rfl

/-- `dict(iterable, **kw)` in **every** world (faulty sources, malformed items, unhashable keys of the pairs, any
    fuel), for hashable keywords: it ends in exactly the world `dict(iterable)` ends in, and either both raise
    the same exception, or `dict(iterable)` returns a dictionary `d` (pairwise different keys) and
    `dict(iterable, **kw)` returns `d` updated with the keywords in order -/
theorem C02_dict_kwargs_over_dict (kw : List (Val × Val)) (s fuel : Nat) (w : World)
    (hk : ∀ p ∈ kw, Std.hashable p.1 = true) :
    (Impl.dictKw kw s fuel w).2 = (Impl.dict s fuel w).2 ∧
    ((∃ e, (Impl.dict s fuel w).1 = .error e ∧ (Impl.dictKw kw s fuel w).1 = .error e) ∨
     (∃ d, DictKeysDistinct d ∧ (Impl.dict s fuel w).1 = .ok (Std.dictVal d) ∧
        (Impl.dictKw kw s fuel w).1 = .ok (Std.dictVal (dictUpdateAll d kw)))) :=
  ⟨dictKw_world kw s fuel w, dictKw_over_dict kw s fuel w hk⟩

/-- a source that fails after its first pair: both raise the injected fault `3` -/
example : (Impl.dictKw [(.int 5, .int 8)] 0 9
    { exampleWorld [] with srcs := fun _ => { kind := .aobj, script := [.item (.tup [.int 1, .int 2]), .err 3] } }).1
    = .error (.user 3) := by rfl

/-! ## twin, no keywords, resources -/

/-- asyncstdlib `dict(iterable, **kw)` and CPython `dict(iterable, **kw)` are twins in every world: same result or
    same exception, same visible events (faults, malformed items, unhashable keys included) -/
theorem C02_dict_kwargs_twin (kw : List (Val × Val)) (s fuel : Nat) :
    Twin (Impl.dictKw kw s fuel) (Std.dictKw kw s fuel) := dictKw_twin kw s fuel

example : (Std.dictKw [(.int 5, .int 8)] 0 9 (exampleWorld [.tup [.int 1, .int 2], .int 3])).1 = .error .typeError := by rfl
example : (Impl.dictKw [(.int 5, .int 8)] 0 9 (exampleWorld [.tup [.int 1, .int 2], .int 3])).1 = .error .typeError := by rfl

/-- without keywords `dict(iterable, **{})` is the existing model of `dict(iterable)` — the same program, for
    asyncstdlib and for the CPython twin -/
theorem C02_dict_kwargs_empty (s fuel : Nat) :
    Impl.dictKw [] s fuel = Impl.dict s fuel ∧ Std.dictKw [] s fuel = Std.dict s fuel :=
  ⟨dictKw_nil s fuel, std_dictKw_nil s fuel⟩

/-- (C04 flavour) whenever the run is not cut short by the model's fuel, the source of `dict(iterable, **kw)` is
    released when the call ends — with a value or any exception — and it is released exactly as by `dict(iterable)`:
    the final worlds (every source's status and close count, the log of resource events, the visible log) are equal -/
theorem C02_dict_kwargs_source_released (kw : List (Val × Val)) (s fuel : Nat) (w : World)
    (h : (Impl.dictKw kw s fuel w).1 ≠ .error .outOfFuel) :
    Released ((Impl.dictKw kw s fuel w).2.srcs s) ∧ (Impl.dictKw kw s fuel w).2 = (Impl.dict s fuel w).2 := by
  refine ⟨?_, dictKw_world kw s fuel w⟩
  rw [dictKw_world]
  exact C04_dict s fuel w (dict_ne_oof_of_dictKw kw s fuel w h)

/-- an async-generator source is closed exactly once when a keyword follows a source that failed midway -/
example : ((Impl.dictKw [(.int 5, .int 8)] 0 9
    { exampleWorld [] with srcs := fun _ => { kind := .agen, script := [.item (.tup [.int 1, .int 2]), .err 3] } }).2.srcs 0).status
    = .failed := by rfl
example : ((Impl.dictKw [(.int 5, .int 8)] 0 9 (exampleWorld [.tup [.int 1, .int 2], .int 3])).2.srcs 0).closes = 1 := by rfl

/-- fuel adequacy: with `fuel ≥ |script s| + 1` the model of `dict(iterable, **kw)` never reports `outOfFuel` -/
theorem C02_dict_kwargs_fuel_adequate (kw : List (Val × Val)) (s : Nat) (w : World) :
    ∀ fuel, fuel ≥ fuelBound1 s w → (Impl.dictKw kw s fuel w).1 ≠ .error .outOfFuel :=
  dictKw_fuel_adequate kw s w

/-- released in every world, for every `fuel ≥ |script s| + 1` -/
theorem C02_dict_kwargs_source_released_total (kw : List (Val × Val)) (s : Nat) (w : World) :
    ∀ fuel, fuel ≥ fuelBound1 s w → Released ((Impl.dictKw kw s fuel w).2.srcs s) :=
  fun fuel h => (C02_dict_kwargs_source_released kw s fuel w (dictKw_fuel_adequate kw s w fuel h)).1

example : fuelBound1 0 (exampleWorld [.tup [.int 1, .int 2], .int 3]) = 3 := by rfl

/-! ## the metatheory instances for the new model -/

/-- (C03 flavour) the flavour of the source (list / iterator / async generator / class-based) does not change result
    or visible events of `dict(iterable, **kw)` -/
theorem C02_dict_kwargs_kind_free (kw : List (Val × Val)) (s fuel : Nat) : KindFree (Impl.dictKw kw s fuel) :=
  kf_dictKw kw s fuel

/-- (C06 flavour) an injected fault surfaces from `dict(iterable, **kw)` unchanged and at once -/
theorem C02_dict_kwargs_faithful (kw : List (Val × Val)) (s fuel : Nat) : Faithful (Impl.dictKw kw s fuel) :=
  faithful_dictKw kw s fuel

/-- (C18 flavour) a fault or cancellation injected into `dict(iterable, **kw)` propagates as itself, raised by the last
    visible event, and the source is released -/
theorem C02_dict_kwargs_cancel_safe (kw : List (Val × Val)) (s fuel : Nat) : CancelSafe (Impl.dictKw kw s fuel) s :=
  cancelSafe_of (faithful_dictKw kw s fuel) (fun w h => (C02_dict_kwargs_source_released kw s fuel w h).1)

end AsyncVerif
