import AsyncVerif.Proofs.Borrow
/-!
# C08 — scoped_iter keeps an iterator alive for the block and closes it exactly at exit

Property theorems only.  Model: `Machines/Borrow.lean` — `Op.enter t` = `scoped_iter(t).__aenter__()`
(`_ScopedAsyncIteratorContext` with a fresh `_ScopedAsyncIterator`, or `nullcontext` when the
iterator has no `aclose`), `Op.exit c m` = its `__aexit__` for fall-through / exception /
cancellation, and everything the block may do with the handle is an `Op` (a library tool is
`TOp.tool`: some pulls, possibly one that is cancelled, then `aclose()` on the handle).
-/
namespace AsyncVerif.Borrow

/-- How the block is left — fall-through, exception, cancellation — makes no difference to what
    `__aexit__` does. -/
theorem C08_exit_mode_irrelevant (s : State) (c : Nat) (m m' : ExitMode) :
    step s (.exit c m) = step s (.exit c m') := rfl

/-- The heart of C08.  Open a scope directly on the underlying iterator (which has `aclose`) in any
    state in which no other scope sits directly on it; let the block do anything at all — pulls on
    any handle, cancelled pulls, `asend`, closing handles, borrowing, nested scopes over handles
    entered and left in any order, tools — except closing the underlying iterator itself, scoping
    it directly once more, or leaving this very scope.  Then, whatever the block did:
    * inside the block no `aclose()` reached the underlying iterator and it did not become closed;
    * leaving the scope (in any mode) makes exactly one `aclose()` reach it, after which it is dead;
    * the scoped handle is inert afterwards. -/
theorem C08_closed_exactly_once_at_exit (s0 : State) (body : List Op) (m : ExitMode)
    (hc : s0.u.hasClose = true)
    (hno : ∀ (c : Nat) (cx : Ctx), s0.ctxs[c]? = some cx → cx.target ≠ none)
    (hb : ∀ op ∈ body, op.inBlock s0.ctxs.length = true) :
    (exec s0 (.enter none :: body)).u.closeReqs = s0.u.closeReqs
    ∧ ((exec s0 (.enter none :: body)).u.status = .closed → s0.u.status = .closed)
    ∧ (exec s0 (.enter none :: body ++ [.exit s0.ctxs.length m])).u.closeReqs = s0.u.closeReqs + 1
    ∧ (exec s0 (.enter none :: body ++ [.exit s0.ctxs.length m])).u.status.dead = true
    ∧ ∃ hd, (exec s0 (.enter none :: body ++ [.exit s0.ctxs.length m])).hs[s0.hs.length]? = some hd
        ∧ Inert hd := by
  -- the state right after `__aenter__`
  have e0 : (step s0 (.enter none)).1
      = { s0 with hs := s0.hs ++ [newHandle s0 none .scoped],
                  ctxs := s0.ctxs ++ [{ target := none, own := some s0.hs.length }] } := by
    simp [step, validT, hc]
  have hs0 : OnlyScope s0.ctxs.length (step s0 (.enter none)).1 := by
    intro c cx hcx ht
    rw [e0] at hcx
    by_cases hl : c < s0.ctxs.length
    · simp only [] at hcx
      rw [List.getElem?_append_left hl] at hcx
      exact absurd ht (hno c cx hcx)
    · have := lt_of_getElem? hcx
      simp at this
      omega
  obtain ⟨hz, _⟩ := exec_onlyScope s0.ctxs.length body _ hb hs0
  have hk := exec_keep body _ hz
  have hcr : (exec s0 (.enter none :: body)).u.closeReqs = s0.u.closeReqs := by
    rw [exec_cons, exec_closeReqs, hz, e0]; rfl
  have hu0 : (step s0 (.enter none)).1.u = s0.u := by rw [e0]
  -- the context and the handle are still there after the body
  obtain ⟨l, hl⟩ := exec_ctxs body (step s0 (.enter none)).1
  have hctx : (exec s0 (.enter none :: body)).ctxs[s0.ctxs.length]?
      = some { target := none, own := some s0.hs.length } := by
    rw [exec_cons, hl, e0]
    simp
  have hh0 : (step s0 (.enter none)).1.hs[s0.hs.length]? = some (newHandle s0 none .scoped) := by
    rw [e0]; simp
  obtain ⟨hd1, ehd1, _⟩ := (exec_mono body (step s0 (.enter none)).1).2 _ _ hh0
  have hcl : (exec s0 (.enter none :: body)).u.hasClose = true := by
    rw [(exec_caps _ s0).2.1]; exact hc
  -- the exit
  have ex : (step (exec s0 (.enter none :: body)) (.exit s0.ctxs.length m)).1
      = { exec s0 (.enter none :: body) with
            hs := (exec s0 (.enter none :: body)).hs.modify s0.hs.length closeWrapper,
            u := closeU (exec s0 (.enter none :: body)).u } := by
    simp [step, hctx, closeT]
  have eall : exec s0 (.enter none :: body ++ [.exit s0.ctxs.length m])
      = (step (exec s0 (.enter none :: body)) (.exit s0.ctxs.length m)).1 := by
    show exec s0 ((.enter none :: body) ++ [.exit s0.ctxs.length m]) = _
    rw [exec_append]; rfl
  refine ⟨hcr, ?_, ?_, ?_, ?_⟩
  · intro h
    rw [exec_cons] at h
    have := hk.notClosed h
    rw [hu0] at this; exact this
  · rw [eall, ex]
    simp only []
    rw [closeU_closeReqs, hcl, hcr]; rfl
  · rw [eall, ex]
    exact closeU_dead _ hcl
  · rw [eall, ex]
    refine ⟨closeWrapper hd1, ?_, closeWrapper_inert hd1⟩
    simp only []
    rw [exec_cons]
    exact getElem?_modify_self _ _ hd1 closeWrapper ehd1

/-- After the block of a scope has been left, its handle yields nothing further — whatever happens
    later, pulling it (also through `asend`) answers StopAsyncIteration and changes nothing. -/
theorem C08_handle_inert_after_exit (s : State) (c : Nat) (m : ExitMode) (cx : Ctx) (hid : Nat)
    (hc : s.ctxs[c]? = some cx) (ho : cx.own = some hid) (hv : hid < s.hs.length) (ops : List Op) :
    let s' := exec (step s (.exit c m)).1 ops
    step s' (.next (some hid)) = (s', .res .stop)
    ∧ step s' (.nextCancel (some hid)) = (s', .res .stop)
    ∧ (step s' (.send hid) = (s', .res .stop) ∨ step s' (.send hid) = (s', .noattr)) := by
  intro s'
  have : ∃ hd, s.hs[hid]? = some hd := ⟨s.hs[hid], by simp [hv]⟩
  obtain ⟨hd, ehd⟩ := this
  have e : (step s (.exit c m)).1 = closeT { s with hs := s.hs.modify hid closeWrapper } cx.target := by
    simp [step, hc, ho]
  have h1 : ({ s with hs := s.hs.modify hid closeWrapper } : State).hs[hid]? = some (closeWrapper hd) :=
    getElem?_modify_self s.hs hid hd closeWrapper ehd
  obtain ⟨hd2, e2, l2⟩ := (closeT_mono { s with hs := s.hs.modify hid closeWrapper } cx.target).2 _ _ h1
  rw [← e] at e2
  obtain ⟨hd', e', hi, _⟩ := inert_exec ops _ hid _ e2 ((closeWrapper_inert hd).le l2)
  exact inert_next s' hid hd' e' hi

/-- Nested scopes: leaving a scope that was opened over a *scoped handle* ends only its own
    handle — the underlying iterator, the outer handle and everything else are untouched. -/
theorem C08_inner_exit_ends_only_own_handle (s : State) (c : Nat) (m : ExitMode) (cx : Ctx)
    (hid p : Nat) (hp : Handle) (hc : s.ctxs[c]? = some cx) (ho : cx.own = some hid)
    (ht : cx.target = some p) (hpp : s.hs[p]? = some hp) (hk : hp.kind = .scoped) :
    step s (.exit c m) = ({ s with hs := s.hs.modify hid closeWrapper }, .ok) := by
  have e : step s (.exit c m)
      = (closeT { s with hs := s.hs.modify hid closeWrapper } (some p), .ok) := by
    simp [step, hc, ho, ht]
  rw [e]
  by_cases hq : hid = p
  · subst hq
    have h1 : ({ s with hs := s.hs.modify hid closeWrapper } : State).hs[hid]? = some (closeWrapper hp) :=
      getElem?_modify_self s.hs hid hp closeWrapper hpp
    rw [closeT_scoped _ hid _ h1 (by simpa [closeWrapper] using hk)]
  · have h1 : ({ s with hs := s.hs.modify hid closeWrapper } : State).hs[p]? = some hp := by
      show (s.hs.modify hid closeWrapper)[p]? = some hp
      rw [getElem?_modify_ne _ _ _ _ hq]; exact hpp
    rw [closeT_scoped _ p _ h1 hk]

/-- Nothing a tool does by closing its input affects a scoped handle: `aclose()` on it, directly or
    through `aiter`, is a no-op; hence a tool that closes the handle when done leaves exactly the
    state of the same tool not closing it. -/
theorem C08_scoped_survives_close (s : State) (h : Nat) (hd : Handle) (hh : s.hs[h]? = some hd)
    (hk : hd.kind = .scoped) (k : Nat) (cancel : Bool) :
    step s (.close (some h)) = (s, .ok) ∧ step s (.closeIter h) = (s, .ok)
    ∧ exec s (TOp.expand (.tool (some h) k cancel true))
        = exec s (TOp.expand (.tool (some h) k cancel false)) := by
  have hclose : ∀ (s2 : State) (hd2 : Handle), s2.hs[h]? = some hd2 → hd2.kind = .scoped →
      step s2 (.close (some h)) = (s2, .ok) := by
    intro s2 hd2 h2 k2
    have hv : validT s2 (some h) = true := by simp [validT, lt_of_getElem? h2]
    simp [step, hv, closeT_scoped s2 h hd2 h2 k2]
  have hv : validT s (some h) = true := by simp [validT, lt_of_getElem? hh]
  refine ⟨hclose s hd hh hk, by simp [step, hv, closeT_scoped s h hd hh hk], ?_⟩
  have e : TOp.expand (.tool (some h) k cancel true)
      = TOp.expand (.tool (some h) k cancel false) ++ [.close (some h)] := by
    simp [TOp.expand]
  rw [e, exec_append]
  obtain ⟨hd', e', l⟩ := (exec_mono (TOp.expand (.tool (some h) k cancel false)) s).2 h hd hh
  show (step (exec s (TOp.expand (.tool (some h) k cancel false))) (.close (some h))).1 = _
  rw [hclose _ hd' e' (l.kind.trans hk)]

/-- A scoped handle survives whatever the block does, as long as the underlying iterator keeps
    yielding: over any operations that do not leave a scope and whose pulls all delivered items
    (no StopAsyncIteration, exception or cancellation came through), the handle is unchanged —
    still open.  With `C07_items_exactly_once_in_order` this is the shared-iterator behaviour:
    successive tools see consecutive items of one and the same iterator. -/
theorem C08_scoped_open_while_items (s : State) (h : Nat) (hd : Handle) (hh : s.hs[h]? = some hd)
    (hk : hd.kind = .scoped) (ops : List Op) (hne : ∀ op ∈ ops, op.isExit = false)
    (hout : ∀ o ∈ outs s ops, o.keepsOpen = true) :
    (exec s ops).hs[h]? = some hd :=
  exec_scoped_open ops s h hd hh hk hne hout

/-- Number of `aclose()` calls reaching the underlying iterator, for every run: exactly the number
    of operations that are the owner's `U.aclose()` or the exit of a scope opened directly on it.
    In particular exits of inner scopes (over handles) never count. -/
theorem C08_close_calls_counted (s : State) (ops : List Op) :
    (exec s ops).u.closeReqs = s.u.closeReqs + closeOps s ops :=
  exec_closeReqs ops s

/-! Non-vacuity: a class-based iterator; an outer scope, two tools on the scoped handle (the first
    closes it when done, the second is cancelled), a nested scope over the scoped handle that is
    used and left by exception, the outer handle used again, exit by cancellation, then both
    handles are dead. -/
private def u1 : U :=
  { gen := false, hasClose := true, hasSend := false,
    rest := [.item 1, .item 2, .item 3, .item 4, .item 5, .item 6], status := .fresh, log := [],
    closeReqs := 0 }

private def body1 : List Op :=
  flatten [.tool (some 0) 2 false true, .prim (.enter (some 0)), .prim (.next (some 1)),
           .prim (.exit 1 (.exc 7)), .prim (.next (some 1)), .tool (some 0) 1 true true,
           .prim (.next (some 0))]

example : (init u1).u.hasClose = true := rfl
example : ∀ op ∈ body1, op.inBlock (init u1).ctxs.length = true := by decide
example : outs (init u1) (.enter none :: body1 ++ [.exit 0 .cancel, .next (some 0), .next none])
    = [.entered 0 (some 0), .res (.item 1), .res (.item 2), .ok, .entered 1 (some 1), .res (.item 3), .ok,
       .res .stop, .res (.item 4), .res .cancelled, .ok, .res .stop, .ok, .res .stop, .res .stop] := by
  decide
example : (exec (init u1) (.enter none :: body1)).u.closeReqs = 0
    ∧ (exec (init u1) (.enter none :: body1 ++ [.exit 0 .cancel])).u.closeReqs = 1
    ∧ (exec (init u1) (.enter none :: body1 ++ [.exit 0 .cancel])).u.status = .closed := by decide

end AsyncVerif.Borrow
