import AsyncVerif.Proofs.AggValues
import AsyncVerif.Proofs.SetDict
import AsyncVerif.Proofs.SelectValue
/-!
# C02 — aggregations return the standard-library result

Value theorems for the aggregation models on **fault-free worlds**: the source `s` is usable and its
remaining script consists of the items `items` only (`Feeds w s items`), user callables are pure total
functions (`PureFn`, `KeyFn`), and the fuel exceeds the number of loop iterations.  Every theorem is
stated for an arbitrary such world `w` (arbitrary log so far, arbitrary other sources, arbitrary
source kind), for every item list, every `n`, every `start`/`initial`/`default`.

For every tool there is the theorem about the CPython algorithm (`C02_<tool>_std_value`, model
`Std.*`) and the same statement about the model of asyncstdlib (`C02_<tool>_value`, model `Impl.*`);
the second follows from the first because the asyncstdlib models are the CPython loops inside
`scopedIter`, which changes neither result, visible log nor any remaining script
(`scopedIter_value`; in *every* world result and log agree, `scopedIter_twin`).

The list-level meanings are in `Std/ListSpec.lean`; their characterisations (first minimal item,
permutation / ordered / stable, fails-exactly-when-an-addition-fails) are proved here as pure list
facts (`C02_spec_*`).

Beyond the orderable/fault-free case: `C02_sum_error_position`, `C02_min_max_scan` + `C02_spec_scan`,
`C02_sorted_unorderable` say where and how `TypeError` arises from an addition / comparison that is
not defined.  `C02_no_argument_mutation` holds in **every** world (faulty or not).

What the value domain cannot express: there is no mutable container among the values (`Val` is an
immutable tree), so "no argument object is mutated" is stated as far as the model can carry it:
the aggregation only takes responses off the front of its own source and leaves every other source
and every callable as it was (`C02_no_argument_mutation`, all worlds); a default / start value is
handed back as the very same value and enters the computation only as an operand of `Val.add`
(`C02_min_max_empty`, `C02_sum_start_only_through_add`).  Float summation is outside the
exact-integer value model.
-/
namespace AsyncVerif

open ListSpec

/-! ## all / any -/

/-- CPython `all`: on a fault-free source delivering `items` the result is `List.all` on truthiness;
    it short-circuits: exactly `allConsumed items` items (position of the first falsy item + 1, see
    `C02_spec_all_consumed`) are taken off the source, the rest is still scripted afterwards, and the
    visible log is exactly the pulls of the consumed items, plus the end-of-source detection iff
    every item was truthy. -/
theorem C02_all_std_value (s fuel : Nat) (items : List Val) (w : World)
    (hf : Feeds w s items) (hlt : items.length < fuel) :
    (Std.allLoop s fuel w).1 = .ok (.bool (items.all Val.truthy)) ∧
    ((Std.allLoop s fuel w).2.srcs s).script = (items.drop (allConsumed items)).map Resp.item ∧
    (Std.allLoop s fuel w).2.vis = w.vis ++ pullLog s (items.take (allConsumed items))
      ++ (if items.all Val.truthy then endLog s else []) :=
  allLoop_value s items fuel w hf hlt

/-- asyncstdlib `all`: same result, same short-circuit (remaining script), same visible log as CPython `all`. -/
theorem C02_all_value (s fuel : Nat) (items : List Val) (w : World)
    (hf : Feeds w s items) (hlt : items.length < fuel) :
    (Impl.all s fuel w).1 = .ok (.bool (items.all Val.truthy)) ∧
    ((Impl.all s fuel w).2.srcs s).script = (items.drop (allConsumed items)).map Resp.item ∧
    (Impl.all s fuel w).2.vis = w.vis ++ pullLog s (items.take (allConsumed items))
      ++ (if items.all Val.truthy then endLog s else []) := by
  obtain ⟨h1, h2, h3, -⟩ := scopedIter_lift s (Std.allLoop s fuel) w
  unfold Impl.all
  rw [h1, h2, h3]
  exact allLoop_value s items fuel w hf hlt

/-- what `allConsumed` means: with a first falsy item at position `pre.length`, `pre.length + 1`
    items are consumed; without any falsy item, all of them (and the end of the source is seen). -/
theorem C02_spec_all_consumed :
    (∀ (pre : List Val) (x : Val) (post : List Val), (∀ y ∈ pre, y.truthy = true) → x.truthy = false →
      allConsumed (pre ++ x :: post) = pre.length + 1) ∧
    (∀ items : List Val, (∀ y ∈ items, y.truthy = true) → allConsumed items = items.length + 1) :=
  ⟨allConsumed_first_falsy, allConsumed_all_truthy⟩

/-- CPython `any`: `List.any` on truthiness, consuming exactly up to and including the first truthy
    item; the end-of-source detection is logged iff no item was truthy. -/
theorem C02_any_std_value (s fuel : Nat) (items : List Val) (w : World)
    (hf : Feeds w s items) (hlt : items.length < fuel) :
    (Std.anyLoop s fuel w).1 = .ok (.bool (items.any Val.truthy)) ∧
    ((Std.anyLoop s fuel w).2.srcs s).script = (items.drop (anyConsumed items)).map Resp.item ∧
    (Std.anyLoop s fuel w).2.vis = w.vis ++ pullLog s (items.take (anyConsumed items))
      ++ (if items.any Val.truthy then [] else endLog s) :=
  anyLoop_value s items fuel w hf hlt

/-- asyncstdlib `any`: same result, same short-circuit, same visible log as CPython `any`. -/
theorem C02_any_value (s fuel : Nat) (items : List Val) (w : World)
    (hf : Feeds w s items) (hlt : items.length < fuel) :
    (Impl.any s fuel w).1 = .ok (.bool (items.any Val.truthy)) ∧
    ((Impl.any s fuel w).2.srcs s).script = (items.drop (anyConsumed items)).map Resp.item ∧
    (Impl.any s fuel w).2.vis = w.vis ++ pullLog s (items.take (anyConsumed items))
      ++ (if items.any Val.truthy then [] else endLog s) := by
  obtain ⟨h1, h2, h3, -⟩ := scopedIter_lift s (Std.anyLoop s fuel) w
  unfold Impl.any
  rw [h1, h2, h3]
  exact anyLoop_value s items fuel w hf hlt

/-- what `anyConsumed` means: first truthy item at position `pre.length` → `pre.length + 1` items
    consumed; no truthy item → all of them. -/
theorem C02_spec_any_consumed :
    (∀ (pre : List Val) (x : Val) (post : List Val), (∀ y ∈ pre, y.truthy = false) → x.truthy = true →
      anyConsumed (pre ++ x :: post) = pre.length + 1) ∧
    (∀ items : List Val, (∀ y ∈ items, y.truthy = false) → anyConsumed items = items.length + 1) :=
  ⟨anyConsumed_first_truthy, anyConsumed_all_falsy⟩

/-! ## list / tuple -/

/-- CPython `list(iterable)` (the collecting loop): the items themselves, in order, as the very
    same values; the source is used up; the log is one pull per item and the final end detection. -/
theorem C02_collect_std_value (s fuel : Nat) (items : List Val) (w : World)
    (hf : Feeds w s items) (hlt : items.length < fuel) :
    (Std.collectAll s [] fuel w).1 = .ok items ∧
    ((Std.collectAll s [] fuel w).2.srcs s).script = [] ∧
    (Std.collectAll s [] fuel w).2.vis = w.vis ++ pullLog s items ++ endLog s := by
  simpa using collectAll_value s items [] fuel w hf hlt

/-- asyncstdlib `list`: returns `[items…]`, consumes the whole source. -/
theorem C02_list_value (s fuel : Nat) (items : List Val) (w : World)
    (hf : Feeds w s items) (hlt : items.length < fuel) :
    (Impl.list s fuel w).1 = .ok (.lst items) ∧
    ((Impl.list s fuel w).2.srcs s).script = [] ∧
    (Impl.list s fuel w).2.vis = w.vis ++ pullLog s items ++ endLog s := by
  obtain ⟨h1, h2, h3, -⟩ := scopedIter_lift s (Std.collectAll s [] fuel >>= fun l => pure (Val.lst l)) w
  unfold Impl.list
  rw [h1, h2, h3]
  have h := C02_collect_std_value s fuel items w hf hlt
  rcases hc : Std.collectAll s [] fuel w with ⟨r, w1⟩
  rw [hc] at h
  obtain ⟨hr, hs, hv⟩ := h
  simp only at hr hs hv
  subst hr
  simp [bind_apply, hc, pure_apply, hs, hv]

/-- asyncstdlib `tuple`: returns `(items…)`, consumes the whole source. -/
theorem C02_tuple_value (s fuel : Nat) (items : List Val) (w : World)
    (hf : Feeds w s items) (hlt : items.length < fuel) :
    (Impl.tuple s fuel w).1 = .ok (.tup items) ∧
    ((Impl.tuple s fuel w).2.srcs s).script = [] ∧
    (Impl.tuple s fuel w).2.vis = w.vis ++ pullLog s items ++ endLog s := by
  obtain ⟨h1, h2, h3, -⟩ := scopedIter_lift s (Std.collectAll s [] fuel >>= fun l => pure (Val.tup l)) w
  unfold Impl.tuple
  rw [h1, h2, h3]
  have h := C02_collect_std_value s fuel items w hf hlt
  rcases hc : Std.collectAll s [] fuel w with ⟨r, w1⟩
  rw [hc] at h
  obtain ⟨hr, hs, hv⟩ := h
  simp only at hr hs hv
  subst hr
  simp [bind_apply, hc, pure_apply, hs, hv]

/-! ## sum -/

/-- CPython `sum`: the outcome (value **or** exception) is the left fold of `Val.add` from the start
    value, `foldAdd`; when the fold succeeds the whole source was consumed. -/
theorem C02_sum_std_value (s fuel : Nat) (start : Val) (items : List Val) (w : World)
    (hf : Feeds w s items) (hlt : items.length < fuel) :
    (Std.sumLoop s start fuel w).1 = foldAdd start items ∧
    (∀ v, foldAdd start items = .ok v →
      ((Std.sumLoop s start fuel w).2.srcs s).script = [] ∧
      (Std.sumLoop s start fuel w).2.vis = w.vis ++ pullLog s items ++ endLog s) :=
  sumLoop_value s items start fuel w hf hlt

/-- asyncstdlib `sum(iterable, start=0)`: the outcome is `foldAdd (start or 0) items` — value and
    `TypeError` alike. -/
theorem C02_sum_value (s fuel : Nat) (start : Option Val) (items : List Val) (w : World)
    (hf : Feeds w s items) (hlt : items.length < fuel) :
    (Impl.sum start s fuel w).1 = foldAdd (start.getD (.int 0)) items ∧
    (∀ v, foldAdd (start.getD (.int 0)) items = .ok v →
      ((Impl.sum start s fuel w).2.srcs s).script = [] ∧
      (Impl.sum start s fuel w).2.vis = w.vis ++ pullLog s items ++ endLog s) := by
  obtain ⟨h1, h2, h3, -⟩ := scopedIter_lift s (Std.sumLoop s (start.getD (.int 0)) fuel) w
  unfold Impl.sum
  rw [h1, h2, h3]
  exact sumLoop_value s items _ fuel w hf hlt

/-- `sum` when an addition fails: if the fold of the prefix `pre` gives `t` and `t + x` fails with
    `e`, then asyncstdlib's and CPython's `sum` raise `e` having pulled exactly `pre` and `x` — the
    rest `post` is still scripted, the log is the pulls of `pre ++ [x]` and nothing else. -/
theorem C02_sum_error_position (s fuel : Nat) (start : Option Val) (pre : List Val) (x : Val)
    (post : List Val) (t : Val) (e : Exc) (w : World)
    (hf : Feeds w s (pre ++ x :: post)) (hfold : foldAdd (start.getD (.int 0)) pre = .ok t)
    (hadd : t.add x = .error e) (hlt : pre.length < fuel) :
    (Impl.sum start s fuel w).1 = .error e ∧
    ((Impl.sum start s fuel w).2.srcs s).script = post.map Resp.item ∧
    (Impl.sum start s fuel w).2.vis = w.vis ++ pullLog s (pre ++ [x]) ∧
    (Std.sumLoop s (start.getD (.int 0)) fuel w).1 = .error e := by
  obtain ⟨h1, h2, h3, -⟩ := scopedIter_lift s (Std.sumLoop s (start.getD (.int 0)) fuel) w
  unfold Impl.sum
  rw [h1, h2, h3]
  have h := sumLoop_error s x post e pre _ t fuel w hf hfold hadd hlt
  exact ⟨h.1, h.2.1, h.2.2, h.1⟩

/-- the list-level sum is the monadic left fold of `Val.add` (core `List.foldlM` in `Except`). -/
theorem C02_spec_sum_is_foldlM (start : Val) (items : List Val) :
    foldAdd start items = items.foldlM Val.add start := foldAdd_eq_foldlM items start

/-- `sum` raises exactly when some addition of the fold fails: at the first position whose addition
    (accumulated total `+` item) fails, and with that addition's error, which is always `TypeError`. -/
theorem C02_spec_sum_error_iff (e : Exc) (start : Val) (items : List Val) :
    (foldAdd start items = .error e ↔
      ∃ pre x post t, items = pre ++ x :: post ∧ foldAdd start pre = .ok t ∧ t.add x = .error e) ∧
    (foldAdd start items = .error e → e = .typeError) :=
  ⟨foldAdd_error_iff e items start, foldAdd_error_typeError e items start⟩

/-- on integer items with an integer start the sum is the integer sum. -/
theorem C02_spec_sum_ints (a : Int) (ns : List Int) :
    foldAdd (.int a) (ns.map Val.int) = .ok (.int (ns.foldl (· + ·) a)) := foldAdd_ints ns a

/-- the start value of `sum` is used only as the left operand of the first addition: on an empty
    input it is returned as the very same value, otherwise two start values that add alike to the
    first item give the same outcome.  (The value domain has no mutable objects — `Val` is an
    immutable tree — so "the start list is not mutated" cannot even be stated; this is the part
    that can.) -/
theorem C02_sum_start_only_through_add (start start' x : Val) (xs : List Val) :
    foldAdd start [] = .ok start ∧
    (start.add x = start'.add x → foldAdd start (x :: xs) = foldAdd start' (x :: xs)) := by
  refine ⟨rfl, ?_⟩
  intro h
  simp only [foldAdd, h]

/-! ## reduce -/

/-- CPython `functools.reduce` with a pure binary function `q`: the left fold of `q` from the
    initial value, or from the first item when there is no initial; empty input without initial is
    `TypeError`; the whole source is consumed; the visible log is `reduceLog`: every item is pulled
    and then `q` is applied once to (accumulator so far, item), left to right. -/
theorem C02_reduce_std_value (f s fuel : Nat) (q : List Val → Val) (initial : Option Val)
    (items : List Val) (w : World) (hf : Feeds w s items) (hq : PureFn w f q) (hlt : items.length < fuel) :
    (Std.reduce f initial s fuel w).1 =
      (match ListSpec.reduce q initial items with | some v => .ok v | none => .error .typeError) ∧
    ((Std.reduce f initial s fuel w).2.srcs s).script = [] ∧
    (Std.reduce f initial s fuel w).2.vis = w.vis ++
      (match initial, items with
        | some v, items => reduceLog s f q v items
        | none, [] => endLog s
        | none, x :: xs => [Ev.pull s, Ev.item s x] ++ reduceLog s f q x xs) :=
  reduce_value f s q initial items fuel w hf hq hlt

/-- asyncstdlib `reduce`: same value / same `TypeError` / same log as CPython's. -/
theorem C02_reduce_value (f s fuel : Nat) (q : List Val → Val) (initial : Option Val)
    (items : List Val) (w : World) (hf : Feeds w s items) (hq : PureFn w f q) (hlt : items.length < fuel) :
    (Impl.reduce f initial s fuel w).1 =
      (match ListSpec.reduce q initial items with | some v => .ok v | none => .error .typeError) ∧
    ((Impl.reduce f initial s fuel w).2.srcs s).script = [] ∧
    (Impl.reduce f initial s fuel w).2.vis = w.vis ++
      (match initial, items with
        | some v, items => reduceLog s f q v items
        | none, [] => endLog s
        | none, x :: xs => [Ev.pull s, Ev.item s x] ++ reduceLog s f q x xs) := by
  obtain ⟨h1, h2, h3, -⟩ := scopedIter_lift s (Std.reduce f initial s fuel) w
  unfold Impl.reduce
  rw [h1, h2, h3]
  exact reduce_value f s q initial items fuel w hf hq hlt

/-- the cases of `ListSpec.reduce` spelled out with core `List.foldl`. -/
theorem C02_spec_reduce (q : List Val → Val) (init x : Val) (xs items : List Val) :
    ListSpec.reduce q (some init) items = some (items.foldl (fun a y => q [a, y]) init) ∧
    ListSpec.reduce q none (x :: xs) = some (xs.foldl (fun a y => q [a, y]) x) ∧
    ListSpec.reduce q none [] = none := ⟨rfl, rfl, rfl⟩

/-! ## min / max -/

/-- CPython `min`/`max` (`isMax` selects) with an optional pure key function and keys that are all
    orderable: on a non-empty input the result is `firstMin` / `firstMax` under the key — the
    explicit scan that replaces the candidate only on a **strict** improvement; on an empty input the
    default, or `ValueError`.  Everything is consumed; the key is applied exactly once to each item,
    when it arrives (`keyedPullLog`). -/
theorem C02_min_max_std_value (fn : Option Nat) (isMax : Bool) (default : Option Val) (s fuel : Nat)
    (kf : Val → Val) (items : List Val) (w : World)
    (hf : Feeds w s items) (hk : KeyFn w fn kf) (hall : ∀ x ∈ items, (kf x).orderable = true)
    (hlt : items.length < fuel) :
    (Std.minmax fn isMax default s fuel w).1 =
      (match firstBest isMax (fun x => (kf x).ikey) items, default with
        | some r, _ => .ok r
        | none, some d => .ok d
        | none, none => .error .valueError) ∧
    ((Std.minmax fn isMax default s fuel w).2.srcs s).script = [] ∧
    (Std.minmax fn isMax default s fuel w).2.vis = w.vis ++ keyedPullLog s fn kf items ++ endLog s :=
  minmax_value fn isMax default s kf items fuel w hf hk hall (Nat.le_of_lt hlt)

/-- asyncstdlib `min`/`max`: same value, same default handling, same `ValueError`, same log as CPython's. -/
theorem C02_min_max_value (fn : Option Nat) (isMax : Bool) (default : Option Val) (s fuel : Nat)
    (kf : Val → Val) (items : List Val) (w : World)
    (hf : Feeds w s items) (hk : KeyFn w fn kf) (hall : ∀ x ∈ items, (kf x).orderable = true)
    (hlt : items.length < fuel) :
    (Impl.minmax fn isMax default s fuel w).1 =
      (match firstBest isMax (fun x => (kf x).ikey) items, default with
        | some r, _ => .ok r
        | none, some d => .ok d
        | none, none => .error .valueError) ∧
    ((Impl.minmax fn isMax default s fuel w).2.srcs s).script = [] ∧
    (Impl.minmax fn isMax default s fuel w).2.vis = w.vis ++ keyedPullLog s fn kf items ++ endLog s := by
  obtain ⟨h1, h2, h3, -⟩ := scopedIter_lift s (Std.minmax fn isMax default s fuel) w
  unfold Impl.minmax
  rw [h1, h2, h3]
  exact C02_min_max_std_value fn isMax default s fuel kf items w hf hk hall hlt

/-- asyncstdlib `min` on a non-empty input returns **the first item whose key is minimal**: the
    returned value is an item of the input at a definite position, every earlier item has a strictly
    larger key and no later item has a smaller key (whatever the default). -/
theorem C02_min_first_minimal (fn : Option Nat) (default : Option Val) (s fuel : Nat)
    (kf : Val → Val) (items : List Val) (w : World) (hne : items ≠ [])
    (hf : Feeds w s items) (hk : KeyFn w fn kf) (hall : ∀ x ∈ items, (kf x).orderable = true)
    (hlt : items.length < fuel) :
    ∃ r pre post, (Impl.minmax fn false default s fuel w).1 = .ok r ∧ items = pre ++ r :: post ∧
      (∀ y ∈ pre, (kf r).ikey < (kf y).ikey) ∧ (∀ y ∈ post, (kf r).ikey ≤ (kf y).ikey) := by
  have h := (C02_min_max_value fn false default s fuel kf items w hf hk hall hlt).1
  cases items with
  | nil => exact absurd rfl hne
  | cons x xs =>
    obtain ⟨pre, post, h1, h2, h3⟩ :=
      firstMin_spec (fun x => (kf x).ikey) (x :: xs) (firstMinFrom (fun x => (kf x).ikey) x xs) rfl
    exact ⟨_, pre, post, by simpa [firstBest, firstMin] using h, h1, h2, h3⟩

/-- asyncstdlib `max` on a non-empty input returns **the first item whose key is maximal**: every
    earlier item has a strictly smaller key and no later item has a larger key. -/
theorem C02_max_first_maximal (fn : Option Nat) (default : Option Val) (s fuel : Nat)
    (kf : Val → Val) (items : List Val) (w : World) (hne : items ≠ [])
    (hf : Feeds w s items) (hk : KeyFn w fn kf) (hall : ∀ x ∈ items, (kf x).orderable = true)
    (hlt : items.length < fuel) :
    ∃ r pre post, (Impl.minmax fn true default s fuel w).1 = .ok r ∧ items = pre ++ r :: post ∧
      (∀ y ∈ pre, (kf y).ikey < (kf r).ikey) ∧ (∀ y ∈ post, (kf y).ikey ≤ (kf r).ikey) := by
  have h := (C02_min_max_value fn true default s fuel kf items w hf hk hall hlt).1
  cases items with
  | nil => exact absurd rfl hne
  | cons x xs =>
    obtain ⟨pre, post, h1, h2, h3⟩ :=
      firstMax_spec (fun x => (kf x).ikey) (x :: xs) (firstMaxFrom (fun x => (kf x).ikey) x xs) rfl
    exact ⟨_, pre, post, by simpa [firstBest, firstMax] using h, h1, h2, h3⟩

/-- pure list fact: `firstMin` / `firstMax` are the first minimal / first maximal item (position,
    strictness before, non-strictness after). -/
theorem C02_spec_first_min_max (ik : Val → Int) (items : List Val) (r : Val) :
    (firstMin ik items = some r →
      ∃ pre post, items = pre ++ r :: post ∧ (∀ y ∈ pre, ik r < ik y) ∧ (∀ y ∈ post, ik r ≤ ik y)) ∧
    (firstMax ik items = some r →
      ∃ pre post, items = pre ++ r :: post ∧ (∀ y ∈ pre, ik y < ik r) ∧ (∀ y ∈ post, ik y ≤ ik r)) :=
  ⟨firstMin_spec ik items r, firstMax_spec ik items r⟩

/-- `min`/`max` of an empty input, for **any** key callable (pure or not, faulty or not): with a
    default the result is the default as the very same value (no copy, no key applied); the visible
    log gains exactly the pull and the end-of-source detection — no `call` event — and no call
    counter moves; without default the result is `ValueError`. -/
theorem C02_min_max_empty (fn : Option Nat) (isMax : Bool) (default : Option Val) (s fuel : Nat) (w : World)
    (hf : Feeds w s []) :
    (Impl.minmax fn isMax default s fuel w).1 = (match default with | some d => .ok d | none => .error .valueError) ∧
    (Impl.minmax fn isMax default s fuel w).2.vis = w.vis ++ endLog s ∧
    (Impl.minmax fn isMax default s fuel w).2.calls = w.calls ∧
    ((Impl.minmax fn isMax default s fuel w).2.srcs s).script = [] := by
  obtain ⟨h1, h2, h3, h4⟩ := scopedIter_lift s (Std.minmax fn isMax default s fuel) w
  unfold Impl.minmax
  rw [h1, h2, h3, h4]
  exact minmax_empty fn isMax default s fuel w hf

/-- asyncstdlib `min`/`max` on a non-empty input with **arbitrary** keys (orderable or not): the
    outcome — value or exception — is the list-level scan `scanBest` with Python's `<`
    (`key(x) < key(best)` for `min`, `key(best) < key(x)` for `max`), started at the first item. -/
theorem C02_min_max_scan (fn : Option Nat) (isMax : Bool) (default : Option Val) (s fuel : Nat)
    (kf : Val → Val) (x : Val) (rest : List Val) (w : World)
    (hf : Feeds w s (x :: rest)) (hk : KeyFn w fn kf) (hlt : rest.length < fuel) :
    (Std.minmax fn isMax default s fuel w).1 = scanBest isMax kf x rest ∧
    (Impl.minmax fn isMax default s fuel w).1 = scanBest isMax kf x rest := by
  obtain ⟨h1, -, -, -⟩ := scopedIter_lift s (Std.minmax fn isMax default s fuel) w
  unfold Impl.minmax
  rw [h1]
  exact ⟨(minmax_scan fn isMax default s kf x rest fuel w hf hk hlt).1,
         (minmax_scan fn isMax default s kf x rest fuel w hf hk hlt).1⟩

/-- what the scan does with keys that cannot be compared: it can fail only with `TypeError`; it does
    fail with `TypeError` as soon as the first comparison involves an unorderable key; a single item
    is returned without any comparison, whatever its key; with orderable keys it never fails and is
    `firstMax` / `firstMin`. -/
theorem C02_spec_scan (isMax : Bool) (kf : Val → Val) (best x : Val) (xs : List Val) :
    (∀ e, scanBest isMax kf best xs = .error e → e = .typeError) ∧
    ((kf best).orderable = false ∨ (kf x).orderable = false →
      scanBest isMax kf best (x :: xs) = .error .typeError) ∧
    scanBest isMax kf best [] = .ok best ∧
    ((kf best).orderable = true → (∀ y ∈ xs, (kf y).orderable = true) →
      scanBest isMax kf best xs =
        .ok (if isMax then firstMaxFrom (fun y => (kf y).ikey) best xs
             else firstMinFrom (fun y => (kf y).ikey) best xs)) :=
  ⟨fun e => scanBest_error isMax kf e xs best, scanBest_unorderable isMax kf best x xs, rfl,
   scanBest_orderable isMax kf xs best⟩

/-! ## sorted -/

/-- CPython `sorted(iterable, key=, reverse=)` with a pure key function and orderable keys: the list
    `ListSpec.sorted reverse key items` — core `List.mergeSort` by integer key, for `reverse` with
    the flipped comparison (not a reversed ascending sort).  The whole input is consumed before, the
    key applied once per item as it arrives. -/
theorem C02_sorted_std_value (fn : Option Nat) (reverse : Bool) (s fuel : Nat) (kf : Val → Val)
    (items : List Val) (w : World)
    (hf : Feeds w s items) (hk : KeyFn w fn kf) (hall : ∀ x ∈ items, (kf x).orderable = true)
    (hlt : items.length < fuel) :
    (Std.sorted fn reverse s fuel w).1 = .ok (.lst (ListSpec.sorted reverse (fun x => (kf x).ikey) items)) ∧
    ((Std.sorted fn reverse s fuel w).2.srcs s).script = [] ∧
    (Std.sorted fn reverse s fuel w).2.vis = w.vis ++ keyedPullLog s fn kf items ++ endLog s :=
  sorted_value fn reverse s kf items fuel w hf hk hall hlt

/-- asyncstdlib `sorted`: the same list, the same log. -/
theorem C02_sorted_value (fn : Option Nat) (reverse : Bool) (s fuel : Nat) (kf : Val → Val)
    (items : List Val) (w : World)
    (hf : Feeds w s items) (hk : KeyFn w fn kf) (hall : ∀ x ∈ items, (kf x).orderable = true)
    (hlt : items.length < fuel) :
    (Impl.sorted fn reverse s fuel w).1 = .ok (.lst (ListSpec.sorted reverse (fun x => (kf x).ikey) items)) ∧
    ((Impl.sorted fn reverse s fuel w).2.srcs s).script = [] ∧
    (Impl.sorted fn reverse s fuel w).2.vis = w.vis ++ keyedPullLog s fn kf items ++ endLog s :=
  impl_sorted_value fn reverse s kf items fuel w hf hk hall hlt

/-- `sorted` with keys that cannot be compared: two or more items, one of whose keys is unorderable,
    give `TypeError` (after the whole input was consumed); at most one item is returned as it is,
    whatever its key.  Same for CPython's and asyncstdlib's. -/
theorem C02_sorted_unorderable (fn : Option Nat) (reverse : Bool) (s fuel : Nat) (kf : Val → Val)
    (items : List Val) (w : World)
    (hf : Feeds w s items) (hk : KeyFn w fn kf) (hlt : items.length < fuel) :
    (2 ≤ items.length → (∃ x ∈ items, (kf x).orderable = false) →
      (Std.sorted fn reverse s fuel w).1 = .error .typeError ∧
      (Impl.sorted fn reverse s fuel w).1 = .error .typeError) ∧
    (items.length ≤ 1 →
      (Std.sorted fn reverse s fuel w).1 = .ok (.lst items) ∧
      (Impl.sorted fn reverse s fuel w).1 = .ok (.lst items)) := by
  have h1 := (sorted_gen fn reverse s kf items fuel w hf hk hlt).1
  have h2 := (impl_sorted_gen fn reverse s kf items fuel w hf hk hlt).1
  constructor
  · intro hlen hbad
    rw [sortKeyed_typeError reverse kf items hlen hbad] at h1 h2
    exact ⟨h1, h2⟩
  · intro hlen
    rw [sortKeyed_short reverse _ (by simpa using hlen)] at h1 h2
    simp only [List.map_map, Function.comp_def, List.map_id'] at h1 h2
    exact ⟨h1, h2⟩

/-- what `ListSpec.sorted` is, for both directions: a permutation of the input; ordered by key
    (ascending, descending with `reverse`); and **stable** — for every key value the items with that
    key appear in exactly their input order (also with `reverse`), and more generally every sublist
    of the input that is already in order survives as a sublist. -/
theorem C02_spec_sorted (reverse : Bool) (ik : Val → Int) (items : List Val) :
    (ListSpec.sorted reverse ik items).Perm items ∧
    (ListSpec.sorted reverse ik items).Pairwise (fun a b => if reverse then ik b ≤ ik a else ik a ≤ ik b) ∧
    (∀ k : Int, (ListSpec.sorted reverse ik items).filter (fun x => ik x == k) = items.filter (fun x => ik x == k)) ∧
    (∀ c : List Val, c.Pairwise (fun a b => sortLe reverse ik a b = true) → c.Sublist items →
      c.Sublist (ListSpec.sorted reverse ik items)) :=
  ⟨sorted_perm reverse ik items, sorted_pairwise reverse ik items, sorted_stable reverse ik items,
   fun c hc hs => sorted_sublist reverse ik items c hc hs⟩

/-! ## nlargest / nsmallest — the bounded heap itself is inside the model

`Impl.nBest` is asyncstdlib's `_largest` as written: the first `n` items are collected with their stamps
(`index * order_sign`), ordered, then every further item is let in only if its key is strictly better than the worst
key in the heap (`worst_key < item_key`), replacing the worst entry and receiving the next stamp; `nsmallest` wraps the
keys in `ReverseLT`.  `Std.nBest` is CPython's `heapq.nlargest` / `heapq.nsmallest` (general path; `nsmallest` uses a
max-heap and stamps that count upwards).  The `heapq` binary heap is presented as the ordered list of its entries
(trusted base); tuple comparison is Python's (`==` first, then `<`, which may raise `TypeError`). -/

/-- `nlargest(0, …)` / `nsmallest(0, …)`: the empty list, and the world is left exactly as it was by
    the CPython algorithm — nothing is pulled, no callable runs; asyncstdlib's version likewise
    leaves the visible log, every script and every call counter unchanged. -/
theorem C02_nbest_zero (largest : Bool) (fn : Option Nat) (s fuel : Nat) (w : World) :
    Std.nBest largest 0 fn s fuel w = (.ok (.lst []), w) ∧
    (Impl.nBest largest 0 fn s fuel w).1 = .ok (.lst []) ∧
    (Impl.nBest largest 0 fn s fuel w).2.vis = w.vis ∧
    (∀ s', ((Impl.nBest largest 0 fn s fuel w).2.srcs s').script = (w.srcs s').script) ∧
    (Impl.nBest largest 0 fn s fuel w).2.calls = w.calls := by
  have h0 : Std.nBest largest 0 fn s fuel w = (.ok (.lst []), w) := nBestAlgo_zero _ fn s fuel w
  obtain ⟨h1, h2, h3, h4⟩ := scopedIter_value s (Std.nBest largest 0 fn s fuel) w
  rw [Impl.nBest_eq]
  refine ⟨h0, ?_, ?_, ?_, ?_⟩
  · rw [h1, h0]
  · rw [h2, h0]
  · intro s'; rw [h3 s', h0]
  · rw [h4, h0]

/-- **the bounded heap selects `sorted(…)[:n]`** — pure form, every direction (`c.largest`), every stamp convention
    (`c.pos`), every `n`, every list of `(key, item)` pairs with orderable keys: the algorithm returns the first `n`
    items of the stable sort by key (descending for `nlargest`), so equal keys come out in arrival order and the
    earliest of them are the ones kept; it raises nothing. -/
theorem C02_bounded_heap_selects_sorted_prefix (c : Sel.Cfg) (n : Nat) (keyed : List (Val × Val))
    (h : ∀ p ∈ keyed, p.1.orderable = true) :
    Sel.selectV c n keyed = .ok ((Sel.spec c.largest n (keyed.map Sel.ikp)).map (·.2)) :=
  Sel.selectV_orderable c n keyed h

/-- **the stamp convention is irrelevant — every input, orderable or not**: asyncstdlib's `_largest` (stamps counting
    downwards, `ReverseLT` keys for `nsmallest`) and CPython's `heapq.nsmallest` (stamps counting upwards on a max-heap)
    are the same function of the `(key, item)` pairs: same result, or the same `TypeError` from the same comparison. -/
theorem C02_nbest_same_function_as_heapq (largest : Bool) (n : Nat) (keyed : List (Val × Val)) :
    Sel.selectV ⟨largest, false⟩ n keyed = Sel.selectV ⟨largest, !largest⟩ n keyed := by
  rw [Sel.selectV_eq_selectKV, Sel.selectV_eq_selectKV]

/-- CPython `heapq.nlargest(n, …)` (`largest = true`) / `nsmallest(n, …)` for `n > 0`, pure key,
    orderable keys: `(sorted …).take n` — the first `n` of the stable sort (descending for
    `nlargest`), for every `n` including `n > len(items)` (then: the whole sorted list); the whole input is consumed,
    the key applied once per item as it arrives, and an input shorter than `n` is polled once more after it ended. -/
theorem C02_nbest_std_value (largest : Bool) (n : Nat) (fn : Option Nat) (s fuel : Nat) (kf : Val → Val)
    (items : List Val) (w : World) (hn : n ≠ 0)
    (hf : Feeds w s items) (hk : KeyFn w fn kf) (hall : ∀ x ∈ items, (kf x).orderable = true)
    (hlt : items.length < fuel) :
    (Std.nBest largest n fn s fuel w).1 = .ok (.lst (ListSpec.nBest largest n (fun x => (kf x).ikey) items)) ∧
    ((Std.nBest largest n fn s fuel w).2.srcs s).script = [] ∧
    (Std.nBest largest n fn s fuel w).2.vis = w.vis ++ keyedPullLog s fn kf items ++ endLog s ++
      (if 0 < items.length ∧ items.length < n then repollLog w s else []) := by
  obtain ⟨h1, h2⟩ := nBestAlgo_value ⟨largest, !largest⟩ n fn s kf items fuel w hf hk hall hlt
  exact ⟨h1, (h2 hn).1, (h2 hn).2⟩

/-- asyncstdlib `nlargest` / `nsmallest` for **every** `n` (0, small, larger than the input):
    `(sorted …).take n`; for `n > 0` the whole input is consumed, the key applied once per item. -/
theorem C02_nbest_value (largest : Bool) (n : Nat) (fn : Option Nat) (s fuel : Nat) (kf : Val → Val)
    (items : List Val) (w : World)
    (hf : Feeds w s items) (hk : KeyFn w fn kf) (hall : ∀ x ∈ items, (kf x).orderable = true)
    (hlt : items.length < fuel) :
    (Impl.nBest largest n fn s fuel w).1 = .ok (.lst (ListSpec.nBest largest n (fun x => (kf x).ikey) items)) ∧
    (n ≠ 0 → ((Impl.nBest largest n fn s fuel w).2.srcs s).script = [] ∧
      (Impl.nBest largest n fn s fuel w).2.vis = w.vis ++ keyedPullLog s fn kf items ++ endLog s ++
        (if 0 < items.length ∧ items.length < n then repollLog w s else [])) := by
  by_cases hn : n = 0
  · subst hn
    rw [(C02_nbest_zero largest fn s fuel w).2.1]
    simp [ListSpec.nBest]
  · obtain ⟨h1, h2, h3, -⟩ := scopedIter_lift s (Std.nBest largest n fn s fuel) w
    rw [Impl.nBest_eq, h1, h2, h3]
    have h := C02_nbest_std_value largest n fn s fuel kf items w hn hf hk hall hlt
    exact ⟨h.1, fun _ => h.2⟩

/-- **any keys** (orderable or not, e.g. `None`): in a fault-free world asyncstdlib's run ends exactly as the pure
    selection on the `(key, item)` pairs ends — the same list, or the same `TypeError` — and that pure selection is the
    one CPython's algorithm computes (`C02_nbest_same_function_as_heapq`).  In particular equal-but-unorderable keys
    (`[None, None]`) are decided by their stamps without ever being compared with `<`. -/
theorem C02_nbest_any_keys (largest : Bool) (n : Nat) (fn : Option Nat) (s fuel : Nat) (kf : Val → Val)
    (items : List Val) (w : World) (hf : Feeds w s items) (hk : KeyFn w fn kf) (hlt : items.length < fuel) :
    (Impl.nBest largest n fn s fuel w).1 =
      (match Sel.selectV ⟨largest, false⟩ n (keyedOf kf items) with | .ok r => .ok (.lst r) | .error e => .error e) ∧
    (Std.nBest largest n fn s fuel w).1 =
      (match Sel.selectV ⟨largest, false⟩ n (keyedOf kf items) with | .ok r => .ok (.lst r) | .error e => .error e) := by
  have hs := (nBestAlgo_run ⟨largest, !largest⟩ n fn s kf items fuel w hf hk hlt).1
  rw [← C02_nbest_same_function_as_heapq] at hs
  refine ⟨?_, hs⟩
  obtain ⟨h1, -⟩ := scopedIter_lift s (Std.nBest largest n fn s fuel) w
  rw [Impl.nBest_eq, h1]
  exact hs

/-! non-vacuity: ties are kept in arrival order and the earliest win; equal-but-unorderable keys are decided by their
    stamps; an unorderable pair raises `TypeError`; both stamp conventions agree -/
example : Sel.selectV ⟨true, false⟩ 2 [(.int 3, .obj 1 3), (.int 5, .obj 2 5), (.int 5, .obj 3 5), (.int 1, .obj 4 1), (.int 5, .obj 5 5)]
    = .ok [.obj 2 5, .obj 3 5] := by rfl
example : Sel.selectV ⟨false, true⟩ 2 [(.int 3, .obj 1 3), (.int 1, .obj 2 1), (.int 1, .obj 3 1), (.int 1, .obj 4 1)]
    = .ok [.obj 2 1, .obj 3 1] := by rfl
example : Sel.selectV ⟨false, false⟩ 2 [(.none, .none), (.none, .none)] = .ok [.none, .none] := by rfl
example : Sel.selectV ⟨true, false⟩ 1 [(.none, .none), (.none, .none)] = .error .typeError := by rfl
example : Sel.selectV ⟨true, false⟩ 2 [(.int 1, .int 1), (.none, .none)] = .error .typeError := by rfl

/-- `n ≥ len(items)`: `nlargest`/`nsmallest` return the whole sorted list. -/
theorem C02_spec_nbest_all (largest : Bool) (n : Nat) (ik : Val → Int) (items : List Val)
    (h : items.length ≤ n) : ListSpec.nBest largest n ik items = ListSpec.sorted largest ik items := by
  unfold ListSpec.nBest
  apply List.take_of_length_le
  simpa [ListSpec.sorted] using h

/-! ## Same outcome and same visible log as the CPython algorithm — every world -/

/-- **every world** (any input, any fault position, any callable behaviour, any fuel): each
    aggregation of asyncstdlib ends the same way (same value or same exception) and leaves the same
    visible log of pulls, end detections and callable invocations as the CPython algorithm of its
    standard-library namesake.  (`all`/`any`: `C05_all`, `C05_any`.) -/
theorem C02_twin_every_world (s fuel : Nat) :
    Twin (Impl.list s fuel) (do pure (.lst (← Std.collectAll s [] fuel))) ∧
    Twin (Impl.tuple s fuel) (do pure (.tup (← Std.collectAll s [] fuel))) ∧
    (∀ start, Twin (Impl.sum start s fuel) (Std.sumLoop s (start.getD (.int 0)) fuel)) ∧
    (∀ f ini, Twin (Impl.reduce f ini s fuel) (Std.reduce f ini s fuel)) ∧
    (∀ fn isMax d, Twin (Impl.minmax fn isMax d s fuel) (Std.minmax fn isMax d s fuel)) ∧
    (∀ fn rev, Twin (Impl.sorted fn rev s fuel) (Std.sorted fn rev s fuel)) ∧
    (∀ largest n fn, Twin (Impl.nBest largest n fn s fuel) (Std.nBest largest n fn s fuel)) :=
  ⟨scopedIter_twin s _, scopedIter_twin s _, fun _ => scopedIter_twin s _, fun _ _ => scopedIter_twin s _,
   fun _ _ _ => scopedIter_twin s _, fun fn rev => impl_sorted_twin fn rev s fuel,
   fun largest n fn => by rw [Impl.nBest_eq]; exact scopedIter_twin s _⟩

/-! ## The arguments are only consumed — every world -/

/-- **every world** (faulty sources, failing callables, any fuel): the only thing an aggregation of
    asyncstdlib does to its arguments is take responses off the front of its iterable `s` (and close
    it): every other source is left exactly as it was, the behaviour of every callable is unchanged,
    and what `s` still has to deliver is a suffix of what it had to deliver before — nothing is
    rewritten, reordered or put back.  (There are no mutable values in the model, see the header.) -/
theorem C02_no_argument_mutation (s fuel : Nat) :
    OnlyConsumes s (Impl.all s fuel) ∧ OnlyConsumes s (Impl.any s fuel) ∧
    OnlyConsumes s (Impl.list s fuel) ∧ OnlyConsumes s (Impl.tuple s fuel) ∧
    (∀ start, OnlyConsumes s (Impl.sum start s fuel)) ∧
    (∀ f ini, OnlyConsumes s (Impl.reduce f ini s fuel)) ∧
    (∀ fn isMax d, OnlyConsumes s (Impl.minmax fn isMax d s fuel)) ∧
    (∀ fn rev, OnlyConsumes s (Impl.sorted fn rev s fuel)) ∧
    (∀ largest n fn, OnlyConsumes s (Impl.nBest largest n fn s fuel)) := by
  refine ⟨?_, ?_, ?_, ?_, ?_, ?_, ?_, ?_, ?_⟩
  · exact oc_scopedIter (Std.oc_allLoop s fuel)
  · exact oc_scopedIter (Std.oc_anyLoop s fuel)
  · exact oc_scopedIter (oc_bind (Std.oc_collectAll s fuel []) (fun _ => oc_pure s _))
  · exact oc_scopedIter (oc_bind (Std.oc_collectAll s fuel []) (fun _ => oc_pure s _))
  · intro start; exact oc_scopedIter (Std.oc_sumLoop s fuel _)
  · intro f ini; exact oc_scopedIter (Std.oc_reduce f ini s fuel)
  · intro fn isMax d; exact oc_scopedIter (Std.oc_minmax fn isMax d s fuel)
  · intro fn rev
    exact oc_bind (oc_scopedIter (Std.oc_collectKeyed fn s fuel []))
      (fun _ => oc_bind (oc_liftExc s _) (fun _ => oc_pure s _))
  · intro largest n fn; rw [Impl.nBest_eq]; exact oc_scopedIter (Std.oc_nBest largest n fn s fuel)

/-! ## The hypotheses are satisfiable: a concrete fault-free world -/

/-- a source with two truthy items, a falsy one and a further item -/
example : Feeds (exampleWorld [.int 3, .obj 1 2, .int 0, .int 5]) 0 [.int 3, .obj 1 2, .int 0, .int 5] :=
  ⟨rfl, rfl⟩
example : [Val.int 3, .obj 1 2, .int 0, .int 5].length < 5 := by decide
/-- callable 0 is an identity key function, `key=None` is the identity as well -/
example : KeyFn (exampleWorld [.int 3, .obj 1 2, .int 0, .int 5]) (some 0) (fun x => x) := fun _ _ => rfl
example : KeyFn (exampleWorld []) none (fun x => x) := fun _ => rfl
/-- callable 1 is the pure binary function "right operand" -/
example : PureFn (exampleWorld []) 1 (fun args => args.getLastD .none) := fun _ _ => rfl
/-- all keys of the example items are orderable -/
example : ∀ x ∈ [Val.int 3, .obj 1 2, .int 0, .int 5], ((fun x => x) x).orderable = true := by decide
/-- the model run on the example world: `all` stops after the third item, one item is left -/
example : (Impl.all 0 5 (exampleWorld [.int 3, .obj 1 2, .int 0, .int 5])).1 = .ok (.bool false) := by rfl
example : allConsumed [.int 3, .obj 1 2, .int 0, .int 5] = 3 := by decide
/-- ties: `min` keeps the first of two items with equal keys, `max` likewise -/
example : firstMin Val.ikey [.obj 1 7, .obj 2 4, .obj 3 4] = some (.obj 2 4) := by rfl
example : firstMax Val.ikey [.obj 1 7, .obj 2 4, .obj 3 7] = some (.obj 1 7) := by rfl
example : (Impl.minmax (some 0) false none 0 5 (exampleWorld [.obj 1 7, .obj 2 4, .obj 3 4])).1 = .ok (.obj 2 4) := by rfl
/-- the hypotheses of `C02_sum_error_position` on a concrete run: `1 + True` is `2`, `2 + None` fails,
    the last item is never pulled -/
example : Feeds (exampleWorld [.int 1, .bool true, .none, .int 4]) 0 ([.int 1, .bool true] ++ .none :: [.int 4]) :=
  ⟨rfl, rfl⟩
example : foldAdd ((none : Option Val).getD (.int 0)) [.int 1, .bool true] = .ok (.int 2) := by rfl
example : (Val.int 2).add .none = .error .typeError := by rfl
example : (Impl.sum none 0 5 (exampleWorld [.int 1, .bool true, .none, .int 4])).1 = .error .typeError := by rfl
/-- `reduce` with the "right operand" function returns the last item -/
example : (Impl.reduce 1 none 0 5 (exampleWorld [.int 1, .int 2, .int 4])).1 = .ok (.int 4) := by rfl
/-- an unorderable key among two or more items (hypothesis of `C02_sorted_unorderable`) -/
example : 2 ≤ [Val.int 1, .none].length ∧ ∃ x ∈ [Val.int 1, .none], ((fun x => x) x).orderable = false :=
  ⟨by decide, .none, by simp, rfl⟩

/-! ## set / dict -/

/-- asyncstdlib `set` and CPython `set(iterable)` are twins in every world (faults, unhashable elements included) -/
theorem C02_set_twin (s fuel : Nat) : Twin (Impl.set s fuel) (Std.set s fuel) := scopedIter_twin s _

/-- asyncstdlib `dict` (no keyword arguments) and CPython `dict(iterable)` are twins in every world -/
theorem C02_dict_twin (s fuel : Nat) : Twin (Impl.dict s fuel) (Std.dict s fuel) := scopedIter_twin s _

/-- asyncstdlib `set`: on hashable items the result is the set of the items — modelled by its distinct elements
    in first-occurrence order, an element equal (`==` and same hash) to an earlier one being dropped — and the
    whole source is consumed. -/
theorem C02_set_value (s fuel : Nat) (items : List Val) (w : World)
    (hf : Feeds w s items) (hh : ∀ x ∈ items, Std.hashable x = true) (hlt : items.length < fuel) :
    (Impl.set s fuel w).1 = .ok (.lst (distinct [] items)) ∧
    ((Impl.set s fuel w).2.srcs s).script = [] ∧
    (Impl.set s fuel w).2.vis = w.vis ++ pullLog s items ++ endLog s := by
  obtain ⟨h1, h2, h3, -⟩ := scopedIter_lift s (Std.set s fuel) w
  unfold Impl.set
  rw [h1, h2, h3]
  have h := setLoop_value s items [] fuel w hf hh hlt
  unfold Std.set
  rcases hc : Std.setLoop s [] fuel w with ⟨r, w1⟩
  rw [hc] at h
  obtain ⟨hr, hs, hv⟩ := h
  simp only at hr hs hv
  subst hr
  simp [bind_apply, hc, pure_apply, hs, hv, Std.setVal]

/-- asyncstdlib `dict` over `(key, value)` pairs with hashable keys: every key appears once, at the position and
    with the key object of its first occurrence and the value of its last; the whole source is consumed. -/
theorem C02_dict_value (s fuel : Nat) (pairs : List (Val × Val)) (w : World)
    (hf : Feeds w s (pairs.map fun p => Val.tup [p.1, p.2])) (hh : ∀ p ∈ pairs, Std.hashable p.1 = true)
    (hlt : pairs.length < fuel) :
    (Impl.dict s fuel w).1 = .ok (Std.dictVal (dictOf [] pairs)) ∧
    ((Impl.dict s fuel w).2.srcs s).script = [] ∧
    (Impl.dict s fuel w).2.vis = w.vis ++ pullLog s (pairs.map fun p => Val.tup [p.1, p.2]) ++ endLog s := by
  obtain ⟨h1, h2, h3, -⟩ := scopedIter_lift s (Std.dict s fuel) w
  unfold Impl.dict
  rw [h1, h2, h3]
  have h := dictLoop_value s pairs [] fuel w hf hh hlt
  unfold Std.dict
  rcases hc : Std.dictLoop s [] fuel w with ⟨r, w1⟩
  rw [hc] at h
  obtain ⟨hr, hs, hv⟩ := h
  simp only at hr hs hv
  subst hr
  simp [bind_apply, hc, pure_apply, hs, hv]

/-- equal-but-distinguishable elements: the first object stays -/
example : distinct [] [.obj 1 0, .obj 2 1, .obj 3 0, .int 1, .bool true] = [.obj 1 0, .obj 2 1, .int 1] := by rfl
/-- a repeated key keeps its first key object and position and takes the last value -/
example : dictOf [] [(.obj 1 0, .int 10), (.obj 2 1, .int 11), (.obj 3 0, .int 12)]
    = [(.obj 1 0, .int 12), (.obj 2 1, .int 11)] := by rfl

end AsyncVerif
