import AsyncVerif.Proofs.Core
import AsyncVerif.Impl.Aggregations
namespace AsyncVerif
theorem C02_placeholder_true : True := trivial
end AsyncVerif
