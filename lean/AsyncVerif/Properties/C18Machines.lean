import AsyncVerif.Proofs.C18Machines
import AsyncVerif.Properties.C08
import AsyncVerif.Properties.C09Live
import AsyncVerif.Properties.C11
import AsyncVerif.Properties.C12
import AsyncVerif.Properties.C14
import AsyncVerif.Properties.C15
/-!
# C18 — cancellation anywhere: the stateful parts (tee, lru_cache, cached_property, ExitStack,
# scoped_iter, ContextDecorator)

`Properties/C18.lean` states C18 for the iterator tools and aggregations (`CancelSafe`).  This file
states C18's clauses DIRECTLY for each stateful part, on the machine that models it:

  "If the task running any library operation is cancelled (an exception is thrown in at an arbitrary
   suspension point), that same exception propagates out of the operation, and afterwards — once the
   owner has closed the library iterator it was advancing, where there is one — every source iterator
   handed to the operation is closed or exhausted, every user-supplied lock is released, registered
   ExitStack exits have run with that exception, and the caches and cached properties involved
   contain no partial entry and keep working."

Every theorem is for every reachable state / every operation sequence / every cancellation point of
its machine (each machine has one operation per suspension point, so "at each suspension point 1..N"
is "in every reachable state in which the task is suspended").  They are derived from the theorems of
C08 (scoped_iter), C09/C09Live (tee), C10/C11 (lru_cache), C12 (cached_property), C14 (ExitStack),
C15 (ContextDecorator) and the lemmas of `Proofs/C18Machines.lean`.
-/

/-! ## tee (`Machines/Tee.lean`) -/
namespace AsyncVerif.Tee

/-- **tee: a cancelled consumer releases the lock and spares its siblings.**  In every reachable
    state of the tee machine (any items, number of children, suspension script of the source, lock or
    not, source closeable or not, source dying on a cancellation or not; after ANY sequence of `send`s,
    `aclose()`s, cancellations and `Tee.aclose()`s), for every child `i` whose consumer task is still
    running, throwing a cancellation into that task at its current suspension point (`Op.cancel i`):

    1. the cancellation propagates out of the consumer (`Out.cancelled`), whose task is `cancelled`
       from then on; it has received nothing more;
    2. the lock is not held by `i` afterwards: if `i` held it, it is free; otherwise its holder is
       unchanged;
    3. no other child's record (position, buffer, items yielded, consumer state) has changed, nothing
       was fetched and nothing was taken from the source;
    4. if the cancellation landed INSIDE the child — the task was suspended in `lock.__aenter__` or
       inside `iterator.__anext__()` — the child's `finally` block has run: the child is finished and
       its buffer is unregistered, and the tee called `iterator.aclose()` exactly when the source can be
       closed and `i` was the last registered child (`LastRegistered`), and not otherwise;
    5. if the cancellation landed at the consumer's own suspension point (between two items, before the
       first step, or after the child was closed), the child generator is untouched — it is for the
       owner to close it (`C18_tee_owner_closes_cancelled_child_partial`) — and the source is not closed;
    6. the source was finished by the cancellation (`srcKilled`) exactly if it dies on a cancellation
       (an async generator) and the cancellation was thrown into a pending `__anext__`. -/
theorem C18_tee_cancellation_releases_lock_and_spares_siblings
    (items n susp lock closeable dies ops) (i : Nat) (hi : i < n)
    (ha : ((reach items n susp lock closeable dies ops).kid i).task = .active) :
    let s := reach items n susp lock closeable dies ops
    let s' := (step s (.cancel i)).1
    ((step s (.cancel i)).2 = .cancelled ∧ (s'.kid i).task = .cancelled ∧ (s'.kid i).out = (s.kid i).out) ∧
    (s'.holder = (if s.holder = some i then none else s.holder) ∧ s'.holder ≠ some i) ∧
    ((∀ j, j ≠ i → s'.kid j = s.kid j) ∧ s'.fetched = s.fetched ∧ s'.src = s.src) ∧
    (((s.kid i).pc = .acquiring ∨ isFetching (s.kid i).pc = true) →
       (s'.kid i).pc = .done ∧ (s'.kid i).buf = none ∧
       (closeable = true → LastRegistered s i → s'.srcCloses = s.srcCloses + 1) ∧
       ((closeable = false ∨ ¬ LastRegistered s i) → s'.srcCloses = s.srcCloses)) ∧
    ((s.kid i).pc ≠ .acquiring → isFetching (s.kid i).pc = false →
       (s'.kid i).pc = (s.kid i).pc ∧ (s'.kid i).buf = (s.kid i).buf ∧ s'.srcCloses = s.srcCloses) ∧
    s'.srcKilled = (s.srcKilled || (dies && isFetching (s.kid i).pc)) := by
  intro s s'
  have hinv : Inv s := reach_inv items n susp lock closeable dies ops
  have hi' : i < s.kids.length := by rw [reach_len]; exact hi
  have hcl : s.closeable = closeable := reach_closeable items n susp lock closeable dies ops
  have hdies : s.diesOnCancel = dies := reach_dies items n susp lock closeable dies ops
  have hstep : step s (.cancel i) = cancel s i := by simp [step, hi']
  obtain ⟨h1, h2, h3, h4, h5⟩ := hinv.cancel_spec i hi' ha
  rw [hcl] at h3
  rw [hdies] at h5
  show (_ ∧ ((step s (.cancel i)).1.kid i).task = _ ∧ ((step s (.cancel i)).1.kid i).out = _) ∧
    ((step s (.cancel i)).1.holder = _ ∧ (step s (.cancel i)).1.holder ≠ _) ∧
    ((∀ j, j ≠ i → (step s (.cancel i)).1.kid j = _) ∧ (step s (.cancel i)).1.fetched = _ ∧
      (step s (.cancel i)).1.src = _) ∧
    (_ → ((step s (.cancel i)).1.kid i).pc = _ ∧ ((step s (.cancel i)).1.kid i).buf = _ ∧
      (_ → _ → (step s (.cancel i)).1.srcCloses = _) ∧ (_ → (step s (.cancel i)).1.srcCloses = _)) ∧
    (_ → _ → ((step s (.cancel i)).1.kid i).pc = _ ∧ ((step s (.cancel i)).1.kid i).buf = _ ∧
      (step s (.cancel i)).1.srcCloses = _) ∧ (step s (.cancel i)).1.srcKilled = _
  rw [hstep]
  refine ⟨h1, h2, ⟨fun j hj => (cancel_frame s i j hi' hj).1, ?_, ?_⟩, h3, h4, h5⟩
  · exact (cancel_frame s i (i + 1) hi' (by omega)).2.1
  · exact (cancel_frame s i (i + 1) hi' (by omega)).2.2

/-- A cancellation thrown into a consumer that is not running any more (it has ended, was stopped or
    was cancelled before) changes nothing at all. -/
theorem C18_tee_cancel_finished_consumer_noop (s : St) (i : Nat) (h : (s.kid i).task ≠ .active) :
    step s (.cancel i) = (s, .noop) := by
  simp only [step]
  split
  · exact cancel_inactive s i h
  · rfl

/-- **tee: the owner closes the child of the cancelled consumer — partial.**  In every reachable state,
    after a cancellation of the running consumer of child `i`, `await child.aclose()` by the owner is
    never refused (no RuntimeError: the child is never left with a pending `__anext__`), leaves the child
    finished, and — if the child had been started and had not been closed before — leaves its buffer
    unregistered (so the last such child closes the source, clause 4 of the previous theorem / `finishKid`);
    the lock stays free of `i`.
    PARTIAL: the hypothesis `pc ≠ unstarted` of the last clause cannot be dropped — a consumer cancelled
    before its first step leaves a generator whose `aclose()` runs no `finally`
    (`C18_tee_unstarted_child_counterexample`); for such children only `Tee.aclose()` unregisters the
    buffer and closes the source (`C18_tee_aclose_after_cancellations_closes_source`, which has no such
    hypothesis). -/
theorem C18_tee_owner_closes_cancelled_child_partial (items n susp lock closeable dies ops) (i : Nat) (hi : i < n)
    (ha : ((reach items n susp lock closeable dies ops).kid i).task = .active) :
    let s := reach items n susp lock closeable dies ops
    let s2 := reach items n susp lock closeable dies (ops ++ [.cancel i, .close i])
    (step (step s (.cancel i)).1 (.close i)).2 = .closed ∧
    (s2.kid i).pc = .done ∧ (s2.kid i).task = .cancelled ∧ s2.holder ≠ some i ∧
    ((s.kid i).pc ≠ .unstarted → (s.kid i).pc ≠ .done → (s2.kid i).buf = none) := by
  intro s s2
  have hs2 : s2 = (step (step s (.cancel i)).1 (.close i)).1 := by
    show reach items n susp lock closeable dies (ops ++ [.cancel i, .close i]) = _
    rw [reach_append]; rfl
  have hinv : Inv s := reach_inv items n susp lock closeable dies ops
  have hi' : i < s.kids.length := by rw [reach_len]; exact hi
  have hstep : step s (.cancel i) = cancel s i := by simp [step, hi']
  obtain ⟨⟨_, ht, _⟩, ⟨_, hh⟩, hin, hout, _⟩ := hinv.cancel_spec i hi' ha
  have hi2 : i < (cancel s i).1.kids.length := by
    have := (cancel_eff s i hi').len; omega
  have hstep2 : step (cancel s i).1 (.close i) = closeKid (cancel s i).1 i := by simp [step, hi2]
  rw [hs2, hstep, hstep2]
  by_cases hx : (s.kid i).pc = .acquiring ∨ isFetching (s.kid i).pc = true
  · obtain ⟨hd, hb, _⟩ := hin hx
    have hck : closeKid (cancel s i).1 i = ((cancel s i).1, .closed) := by simp [closeKid, hd]
    rw [hck]
    exact ⟨rfl, hd, ht, hh, fun _ _ => hb⟩
  · have hna : (s.kid i).pc ≠ .acquiring := fun e => hx (Or.inl e)
    have hnf : isFetching (s.kid i).pc = false := by
      cases hf : isFetching (s.kid i).pc with
      | false => rfl
      | true => exact absurd (Or.inr hf) hx
    obtain ⟨hp, hb, _⟩ := hout hna hnf
    cases hpc : (s.kid i).pc with
    | acquiring => exact absurd hpc hna
    | fetching k => rw [hpc] at hnf; simp [isFetching] at hnf
    | unstarted =>
      rw [hpc] at hp
      simp [closeKid, hp, kid_setKid _ _ _ _ hi2, ht, hh]
    | atYield =>
      rw [hpc] at hp
      simp [closeKid, hp, finishKid_kid _ _ _ _ hi2, Child.finished, ht, hh]
    | done =>
      rw [hpc] at hp
      simp [closeKid, hp, ht, hh]

/-- The one case the previous theorem leaves out (the code as it is; the same finding as
    `C09_closed_before_first_step_counterexample`): a consumer cancelled BEFORE its first step leaves a
    `tee_peer` generator that was never started; `child.aclose()` on it runs none of its code, so its
    `finally` never runs: the buffer stays registered and — here with a single child — the source is
    neither closed nor exhausted.  Only `Tee.aclose()` (leaving `async with tee(...)`) cleans up:
    `C18_tee_aclose_after_cancellations_closes_source`. -/
theorem C18_tee_unstarted_child_counterexample :
    let s := reach [1, 2] 1 [] true true true [.cancel 0, .close 0]
    (s.kid 0).task = .cancelled ∧ (s.kid 0).pc = .done ∧ (s.kid 0).buf = some [] ∧
      s.srcCloses = 0 ∧ s.srcDead = false ∧
      (step s .closeAll).2 = .closed ∧ (step s .closeAll).1.srcCloses = 1 ∧
      ((step s .closeAll).1.kid 0).buf = none := by
  decide

/-- **tee: the source is closed once the owner has closed the tee.**  After ANY operation sequence
    after which no consumer is running any more (each has been cancelled — at whatever suspension
    point —, has ended or was stopped), `Tee.aclose()` is never refused, leaves every child finished
    and every buffer unregistered (also those of children cancelled or closed before their first
    step), holds no lock, and — if the source can be closed and the tee has a child — the source has
    been closed. -/
theorem C18_tee_aclose_after_cancellations_closes_source (items n susp lock closeable dies ops)
    (hfin : ∀ j, j < n → ((reach items n susp lock closeable dies ops).kid j).task ≠ .active) :
    let s' := (step (reach items n susp lock closeable dies ops) .closeAll).1
    (step (reach items n susp lock closeable dies ops) .closeAll).2 = .closed ∧
    (∀ j, j < n → (s'.kid j).buf = none ∧ (s'.kid j).pc = .done) ∧
    (reach items n susp lock closeable dies ops).holder = none ∧
    (closeable = true → 0 < n → 0 < s'.srcCloses) := by
  intro s'
  have hinv := reach_inv items n susp lock closeable dies ops
  have hlen := reach_len items n susp lock closeable dies ops
  have hni : NoneInside (reach items n susp lock closeable dies ops) := by
    intro j hj
    have hj' : j < n := by rw [← hlen]; exact hj
    constructor
    · intro e; exact hfin j hj' (hinv.inside j hj (Or.inr e))
    · cases hf : isFetching ((reach items n susp lock closeable dies ops).kid j).pc with
      | false => rfl
      | true => exact absurd (hinv.inside j hj (Or.inl hf)) (hfin j hj')
  have hnb : (step (reach items n susp lock closeable dies ops) .closeAll).2 ≠ .busy := hni.closeAll_not_busy
  have hall := C09_tee_aclose_unregisters_all items n susp lock closeable dies ops hnb
  refine ⟨?_, hall.1, ?_, hall.2⟩
  · rcases closeAll_out (reach items n susp lock closeable dies ops) with h | h
    · exact h
    · exact absurd h hnb
  · cases hh : (reach items n susp lock closeable dies ops).holder with
    | none => rfl
    | some h =>
      have := C09_lock_not_leaked items n susp lock closeable dies ops h hh
      exact absurd this.2.2 (hfin h this.1)

/-- **tee: the survivors complete.**  Under the precondition of `tee` (a lock is supplied, or the
    source never suspends): after ANY operation prefix `ops` — containing any number of cancellations
    of consumers at any of their suspension points, `aclose()`s and `Tee.aclose()`s — a fair round-robin
    drain of `B ≥ drainBound items n susp` rounds

    1. finishes every remaining consumer (nobody is left waiting for a lock that a cancelled consumer
       would have kept);
    2. leaves the lock free;
    3. every consumer `j` that was never closed and never cancelled in `ops` has run to the end of the
       source by itself and has received the WHOLE fetched sequence, the source is exhausted or closed;
       unless a cancellation thrown into a pending `__anext__` of a source that dies on cancellation
       finished the source (`srcKilled`) that is the whole source sequence — in particular always when
       the source does not die on a cancellation (`dies = false`, a class-based iterator). -/
theorem C18_tee_survivors_complete (items n susp lock closeable dies ops) (hpre : Pre lock susp)
    (B : Nat) (hB : drainBound items n susp ≤ B) :
    let s' := reach items n susp lock closeable dies (ops ++ roundRobin n B)
    (∀ j, j < n → (s'.kid j).task ≠ .active) ∧
    s'.holder = none ∧
    (∀ j, j < n → Op.close j ∉ ops → Op.cancel j ∉ ops → Op.closeAll ∉ ops →
      (s'.kid j).task = .ended ∧ (s'.kid j).out = s'.fetched ∧ s'.srcDead = true ∧
      (s'.srcKilled = false → (s'.kid j).out = items ∧ s'.src = []) ∧
      (dies = false → (s'.kid j).out = items)) := by
  intro s'
  have hB' : (reach items n susp lock closeable dies ops).measure ≤ B :=
    Nat.le_trans (reach_measure_le items n susp lock closeable dies ops) hB
  refine ⟨fun j hj => C09_fair_drain_finishes items n susp lock closeable dies ops B hB j hj,
    C09_drained_lock_free items n susp lock closeable dies ops B hB', ?_⟩
  intro j hj h1 h2 h3
  obtain ⟨a, b, c, d, _⟩ :=
    C09_drained_children_saw_everything items n susp lock closeable dies ops hpre B hB' j hj h1 h2 h3
  refine ⟨a, b, c, d, fun hd => (d ?_).1⟩
  have := killed_of_not_dies (init items n susp lock closeable dies) (ops ++ roundRobin n B)
    (by simp [init, hd])
  exact this.trans rfl

/-! Non-vacuity (tee): 3 children over `[1, 2]`, a lock, a source whose pulls suspend once.  After
    `sched 0, sched 1, sched 2` child 0 holds the lock inside the source, children 1 and 2 wait for
    the lock. -/
private def opsT : List Op := [.sched 0, .sched 1, .sched 2]

/-- hypotheses of `C18_tee_cancellation_releases_lock_and_spares_siblings` at the three kinds of
    suspension point: inside the source (child 0, lock holder), inside `lock.__aenter__` (child 1), and
    at the consumer's own point (child 0 after its first item) -/
example :
    let s := reach [1, 2] 3 [1, 1, 1] true true true opsT
    (s.kid 0).task = .active ∧ (s.kid 0).pc = .fetching 0 ∧ s.holder = some 0 ∧
    (s.kid 1).task = .active ∧ (s.kid 1).pc = .acquiring ∧ ¬ LastRegistered s 0 := by
  refine ⟨by decide, by decide, by decide, by decide, by decide, fun h => ?_⟩
  have := h 1 (by decide) (by decide)
  revert this; decide
example :
    let s := reach [1, 2] 3 [1, 1, 1] true true true opsT
    (step s (.cancel 0)).2 = .cancelled ∧ (step s (.cancel 0)).1.holder = none ∧
    (step s (.cancel 0)).1.srcKilled = true ∧ (step s (.cancel 0)).1.srcCloses = 0 ∧
    ((step s (.cancel 0)).1.kid 0).buf = none ∧ (step s (.cancel 1)).1.holder = some 0 ∧
    (step s (.cancel 1)).1.srcKilled = false := by decide
/-- the last registered child cancelled inside the source: the tee closes the source -/
example :
    let s := reach [1, 2] 2 [1, 1, 1] true true false [.sched 0, .sched 1, .cancel 1]
    LastRegistered s 0 ∧ (s.kid 0).task = .active ∧ (step s (.cancel 0)).1.srcCloses = 1 := by
  refine ⟨fun j hj hne => ?_, by decide, by decide⟩
  have hj' : j < 2 := hj
  have : j = 1 := by omega
  subst this; decide
/-- hypotheses of `C18_tee_owner_closes_cancelled_child_partial`: cancelled at the `yield` -/
example :
    let s := reach [1, 2] 2 [] true true true [.sched 0]
    (s.kid 0).task = .active ∧ (s.kid 0).pc = .atYield ∧
    ((reach [1, 2] 2 [] true true true [.sched 0, .cancel 0, .close 0]).kid 0).buf = none := by decide
/-- hypothesis of `C18_tee_cancel_finished_consumer_noop`: a second cancellation of the same consumer -/
example : ((reach [1, 2] 2 [] true true true [.sched 0, .cancel 0]).kid 0).task ≠ .active := by decide
/-- hypothesis of `C18_tee_aclose_after_cancellations_closes_source`: everybody cancelled (one before
    its first step, one inside the source, one waiting for the lock) -/
example : ∀ j, j < 3 →
    ((reach [1, 2] 3 [1, 1, 1] true true false [.sched 0, .sched 1, .cancel 2, .cancel 1, .cancel 0]).kid j).task
      ≠ .active := by decide
example :
    (step (reach [1, 2] 3 [1, 1, 1] true true false [.sched 0, .sched 1, .cancel 2, .cancel 1, .cancel 0])
      .closeAll).1.srcCloses = 1 := by decide
/-- hypotheses of `C18_tee_survivors_complete`: the lock holder and a waiter are cancelled, child 2
    survives and gets everything (source not dying on the cancellation) -/
private def opsS : List Op := opsT ++ [.cancel 0, .cancel 1]
example : Pre true [1, 1, 1] := Or.inl rfl
example : Op.close 2 ∉ opsS ∧ Op.cancel 2 ∉ opsS ∧ Op.closeAll ∉ opsS := by simp [opsS, opsT]
set_option maxRecDepth 8192 in
example :
    let s := reach [1, 2] 3 [1, 1, 1] true true false (opsS ++ roundRobin 3 8)
    (s.kid 0).task = .cancelled ∧ (s.kid 1).task = .cancelled ∧ (s.kid 2).task = .ended ∧
    (s.kid 2).out = [1, 2] ∧ s.holder = none ∧ s.srcCloses = 1 := by decide

end AsyncVerif.Tee

/-! ## lru_cache (`Machines/Lru.lean`, the machine with overlapping calls `cstep`/`gstep` and the task
    layer `schedStep`) -/
namespace AsyncVerif.Lru

/-- **lru_cache: a cancelled call stores nothing, and the cache keeps working.**  For every
    configuration (`maxsize` None / 0 / positive, typed or not), after ANY interleaving `ops` of calls
    begun, calls finished (returned, raised, cancelled), `cache_clear`, `cache_discard`, `cache_info`:
    a cancellation of call `c` — thrown at whichever suspension point of the awaited wrapped function;
    the cache has one step `finish c .cancel` for all of them, since `__call__` itself has no other
    `await` —

    1. propagates (`cancelled`, if `c` is a call in flight; an unknown call id is ignored), stores
       nothing — entries, their order and both counters are exactly as before — changes no
       bookkeeping, and only removes `c` from the calls in flight;
    2. and whatever happens afterwards (`more`: any further overlapping calls, results, failures,
       cancellations, clears, discards), at every moment
       * the counters are consistent: hits + misses = calls begun, misses = invocations of the wrapped
         function (both since the last `cache_clear`),
       * the size bound holds and no two entries have equal keys,
       * there is no partial entry: every stored (pattern, value) is a value the wrapped function
         actually RETURNED for that pattern (never anything of a cancelled or failed call),
       * the cache is fully usable: every sequential history from the state reached produces exactly
         the outputs of `functools.lru_cache` started from the same contents and counters (C10). -/
theorem C18_lru_cancellation_stores_nothing_and_cache_keeps_working (cfg : Cfg) (hok : cfg.ok)
    (ops : List COp) (c : Nat) (more : List COp) (sops : List Op) :
    let x := grun cfg (CSt.init, Ghost.init) ops
    let y := (gstep cfg x (.finish c .cancel)).1
    let z := grun cfg y more
    (y.1.core = x.1.core ∧ y.2 = x.2 ∧ y.1.inflight = dropCall c x.1.inflight ∧
      (∀ p, lookupCall c x.1.inflight = some p → (gstep cfg x (.finish c .cancel)).2 = .cancelled) ∧
      (lookupCall c x.1.inflight = none → (gstep cfg x (.finish c .cancel)).2 = .ignored ∧ y = x)) ∧
    (z.1.core.hits + z.1.core.misses = z.2.calls ∧ z.1.core.misses = z.2.invoked) ∧
    ((∀ n, cfg.maxsize = some n → z.1.core.store.length ≤ n) ∧ Distinct cfg.typed z.1.core.store) ∧
    (∀ e ∈ z.1.core.store, e ∈ z.2.produced) ∧
    run (Impl.step cfg) z.1.core sops = run (Spec.step cfg) z.1.core sops := by
  intro x y z
  have hx : CInv cfg x := grun_inv cfg hok ops (CSt.init, Ghost.init) (CInv.init cfg)
  have hy : CInv cfg y := gstep_inv cfg hok x hx (.finish c .cancel)
  have hz : CInv cfg z := grun_inv cfg hok more y hy
  refine ⟨⟨?_, ?_, ?_, ?_, ?_⟩, ⟨hz.total, hz.missed⟩, ⟨?_, hz.inv.distinct⟩, hz.produced, ?_⟩
  · exact C11_failure_stores_nothing cfg x.1 c .cancel (by intro v h; cases h)
  · show gupd x.1.inflight x.2 (.finish c .cancel) (cstep cfg x.1 (.finish c .cancel)).2 = x.2
    exact gupd_cancel _ _ _ _
  · show (cstep cfg x.1 (.finish c .cancel)).1.inflight = _
    simp only [cstep]
    cases hl : lookupCall c x.1.inflight with
    | some p => rfl
    | none =>
      simp only
      -- nothing to drop
      clear hx hy hz y z
      generalize x.1.inflight = l at hl ⊢
      induction l with
      | nil => rfl
      | cons e r ih =>
        simp only [lookupCall] at hl
        by_cases he : e.1 = c
        · simp [he] at hl
        · simp only [he, if_false] at hl
          simp only [dropCall, he, if_false, ← ih hl]
  · intro p hp
    show (cstep cfg x.1 (.finish c .cancel)).2 = _
    simp [cstep, hp]
  · intro hn
    refine ⟨by show (cstep cfg x.1 (.finish c .cancel)).2 = _; simp [cstep, hn], ?_⟩
    show ((cstep cfg x.1 (.finish c .cancel)).1, gupd x.1.inflight x.2 (.finish c .cancel) _) = x
    rw [gupd_cancel]
    simp [cstep, hn]
  · intro n hn
    obtain ⟨var, typed⟩ := cfg
    cases var with
    | uncached =>
      simp only [Cfg.maxsize, Option.some.injEq] at hn
      rw [(hz.inv.wf rfl).2]; simp
    | memo => simp [Cfg.maxsize] at hn
    | bounded m =>
      simp only [Cfg.maxsize, Option.some.injEq] at hn
      subst hn
      exact hz.inv.bound m rfl
  · exact C10_refines_from cfg hok _ hz.inv.wf sops

/-- **lru_cache, task level: cancellation at each suspension point.**  In ANY state of the task
    layer, for a task `t` that is suspended inside the wrapped function of its call `c` with `k` further
    suspensions still to come (`k` arbitrary: this is "at each suspension point 1..N" of the call),
    `coro.throw(cancellation)`: the cache contents and counters are unchanged, the call is no longer in
    flight, the only cache event is the cancelled `finish`, the task has ended with the cancellation
    (it runs none of its remaining program), and no other task is touched. -/
theorem C18_lru_task_cancelled_at_any_suspension_point (cfg : Cfg) (x : CSt × List Task) (t : Nat)
    (tk : Task) (c k : Nat) (r : Res) (ht : x.2[t]? = some tk) (hw : tk.waiting = some (c, k, r)) :
    let y := schedStep cfg x (.cancel t)
    y.1.1.core = x.1.core ∧ y.1.1.inflight = dropCall c x.1.inflight ∧
    y.2 = [(.finish c .cancel, (cstep cfg x.1 (.finish c .cancel)).2)] ∧
    y.1.2[t]? = some ⟨[], tk.pc, none⟩ ∧ (∀ t', t' ≠ t → y.1.2[t']? = x.2[t']?) := by
  intro y
  have hlt : t < x.2.length := by
    cases Nat.lt_or_ge t x.2.length with
    | inl h => exact h
    | inr h => rw [List.getElem?_eq_none h] at ht; cases ht
  have hy : y = (((cstep cfg x.1 (.finish c .cancel)).1, setTask x.2 t ⟨[], tk.pc, none⟩),
      [(.finish c .cancel, (cstep cfg x.1 (.finish c .cancel)).2)]) := by
    show schedStep cfg x (.cancel t) = _
    simp [schedStep, ht, cancelTask, hw]
  rw [hy]
  refine ⟨C11_failure_stores_nothing cfg x.1 c .cancel (by intro v h; cases h), ?_, rfl,
    setTask_get _ _ _ hlt, fun t' hne => setTask_get_other _ _ _ _ hne⟩
  simp only [cstep]
  cases hl : lookupCall c x.1.inflight with
  | some p => rfl
  | none =>
    simp only
    generalize x.1.inflight = l at hl ⊢
    induction l with
    | nil => rfl
    | cons e r ih =>
      simp only [lookupCall] at hl
      by_cases he : e.1 = c
      · simp [he] at hl
      · simp only [he, if_false] at hl
        simp only [dropCall, he, if_false, ← ih hl]

/-- **lru_cache, task level: every schedule with cancellations leaves a working cache.**  Whatever
    the tasks' programs and whatever the schedule of `send`s and cancellations (thrown into any task at
    any of its suspension points, any number of them), afterwards the size bound holds, keys are
    distinct and every sequential history from the state reached behaves exactly like
    `functools.lru_cache` from the same contents and counters. -/
theorem C18_lru_every_schedule_keeps_working (cfg : Cfg) (hok : cfg.ok) (tasks : List Task)
    (sched : List SOp) (sops : List Op) :
    let s := (schedFinal cfg (CSt.init, tasks) sched).1
    (∀ n, cfg.maxsize = some n → s.core.store.length ≤ n) ∧ Distinct cfg.typed s.core.store ∧
    run (Impl.step cfg) s.core sops = run (Spec.step cfg) s.core sops := by
  intro s
  have h := (C11_schedules cfg hok tasks sched).1
  refine ⟨(C11_schedules cfg hok tasks sched).2, ?_, ?_⟩
  · show Distinct cfg.typed (schedFinal cfg (CSt.init, tasks) sched).1.core.store
    rw [h]; exact (C11_size_bounded cfg hok _).2
  · show run (Impl.step cfg) (schedFinal cfg (CSt.init, tasks) sched).1.core sops
      = run (Spec.step cfg) (schedFinal cfg (CSt.init, tasks) sched).1.core sops
    rw [h]; exact C11_then_C10 cfg hok _ sops

private def k (n : Int) : Pattern := ⟨[.prim (.int n)], []⟩

/-- **"Once no call is in flight the state is a reachable state of the sequential machine" is false
    of the machine as stated** (so C18/C11 are stated with what does hold: the invariants above and
    `C10_refines_from` from the state reached).  A `cache_clear` while a call is in flight — here next
    to a cancelled call — resets the counters, and the call that finishes afterwards stores its value:
    no call is in flight, the cache holds one entry and reports `misses = 0`; every state of the
    sequential machine satisfies `currsize ≤ misses` (`SeqBound`: an entry is stored only by a miss
    since the last clear).  The state is still fully usable: the refinement of C10 holds from it. -/
theorem C18_lru_quiescent_not_sequential_counterexample :
    let cfg : Cfg := ⟨.bounded 2, false⟩
    let s := crun cfg CSt.init [.begin 0 (k 1), .begin 1 (k 2), .clear, .finish 1 .cancel, .finish 0 (.ok 10)]
    s.inflight = [] ∧ s.core = ⟨0, 0, [(k 1, 10)]⟩ ∧
    (∀ ops : List Op, final (Impl.step cfg) St.init ops ≠ s.core) ∧
    (∀ sops : List Op, run (Impl.step cfg) s.core sops = run (Spec.step cfg) s.core sops) := by
  refine ⟨by decide, by decide, ?_, fun sops => C10_refines_from _ (by decide) _ (fun h => by cases h) sops⟩
  intro ops heq
  have hb := (final_seqBound ⟨.bounded 2, false⟩ ops St.init (seqBound_init _)).2
  rw [heq] at hb
  revert hb
  decide

/-- … and the strongest true variant: every state of the SEQUENTIAL machine satisfies
    `currsize ≤ misses`; a quiescent state of the machine with overlapping calls satisfies everything
    else the sequential states do (well-formedness, distinct keys, size bound, consistent counters) and
    the refinement of C10 holds from it
    (`C18_lru_cancellation_stores_nothing_and_cache_keeps_working`). -/
theorem C18_lru_sequential_states_partial (cfg : Cfg) (ops : List Op) :
    (final (Impl.step cfg) St.init ops).store.length ≤ (final (Impl.step cfg) St.init ops).misses :=
  (final_seqBound cfg ops St.init (seqBound_init cfg)).2

/-! Non-vacuity (lru_cache) -/
private def c1 : Cfg := ⟨.bounded 1, false⟩
example : c1.ok := by decide
/-- call 1 is in flight when it is cancelled; a hit, an eviction and a failure follow -/
example :
    let x := grun c1 (CSt.init, Ghost.init) [.begin 0 (k 1), .finish 0 (.ok 10), .begin 1 (k 2)]
    lookupCall 1 x.1.inflight = some (k 2) ∧ (gstep c1 x (.finish 1 .cancel)).2 = .cancelled ∧
    (gstep c1 x (.finish 1 .cancel)).1.1.core = ⟨0, 2, [(k 1, 10)]⟩ ∧
    grun c1 (gstep c1 x (.finish 1 .cancel)).1 [.begin 2 (k 1), .begin 3 (k 2), .finish 3 (.ok 20), .begin 4 (k 3),
        .finish 4 (.fail 9)]
      = (⟨⟨1, 4, [(k 2, 20)]⟩, []⟩, ⟨5, 4, [(k 1, 10), (k 2, 20)]⟩) := by decide
/-- task 0 is cancelled at the first and at the second suspension point of its wrapped function -/
example :
    let x : CSt × List Task := (CSt.init, [⟨[.call (k 1) 3 (.ok 5), .call (k 2) 0 (.ok 6)], 0, none⟩])
    ((schedFinal c1 x [.send 0]).2[0]?).map (·.waiting) = some (some (0, 2, .ok 5)) ∧
    ((schedFinal c1 x [.send 0, .send 0]).2[0]?).map (·.waiting) = some (some (0, 1, .ok 5)) ∧
    (schedFinal c1 x [.send 0, .cancel 0]).1 = ⟨⟨0, 1, []⟩, []⟩ ∧
    (schedFinal c1 x [.send 0, .send 0, .cancel 0]).1 = ⟨⟨0, 1, []⟩, []⟩ ∧
    (schedFinal c1 x [.send 0, .send 0, .cancel 0]).2 = [⟨[], 1, none⟩] := by decide

end AsyncVerif.Lru

/-! ## cached_property (`Machines/CachedProperty.lean`) -/
namespace AsyncVerif.CachedProperty

/-- **cached_property: a cancelled computation caches nothing and holds no lock.**  For every
    environment (lock type supplied or not, every getter run suspending any number of times) and every
    reachable state (any history, any interleaving, `del`s, earlier cancellations), throwing a
    cancellation into ANY task `t` at its current suspension point:

    1. changes no slot of any instance (nothing is cached, no placeholder is replaced), starts no
       getter run, and touches no other task;
    2. task inside the getter (run `r` for placeholder `p`, with `k` suspensions still to come — any
       `k`: each suspension point of the getter): the cancellation propagates out of the await, run `r`
       is recorded as cancelled, `p`'s lock is free in the same step and every other lock is unchanged;
    3. task queued at the lock (`lockwait p`): the cancellation propagates, the lock was not the
       task's and no lock changes — it never acquires it;
    4. task that has not started its await yet: the cancellation propagates, nothing else changes;
    5. afterwards `t` holds no lock whatsoever. -/
theorem C18_cached_property_cancellation (cfg : Cfg) (ops : List Op) (t : Nat) :
    let s := reach cfg ops
    let s' := (step cfg s (.cancel t)).1
    (s'.slot = s.slot ∧ s'.nRuns = s.nRuns ∧ ∀ t', t' ≠ t → s'.pc t' = s.pc t') ∧
    (∀ p r k, s.pc t = .getter p r k →
      (step cfg s (.cancel t)).2 = .cancelled ∧ s'.pc t = .done .cancelled ∧ (s'.run r).st = .cancelled ∧
      s'.lock p = none ∧ ∀ q, q ≠ p → s'.lock q = s.lock q) ∧
    (∀ p, s.pc t = .lockwait p →
      (step cfg s (.cancel t)).2 = .cancelled ∧ s'.pc t = .done .cancelled ∧ s.lock p ≠ some t ∧
      s'.lock = s.lock ∧ s'.run = s.run) ∧
    (∀ h, s.pc t = .start h →
      (step cfg s (.cancel t)).2 = .cancelled ∧ s'.pc t = .done .cancelled ∧ s'.lock = s.lock ∧ s'.run = s.run) ∧
    (∀ q, s'.lock q ≠ some t) := by
  intro s s'
  have hinv : Inv cfg s := reach_inv cfg ops
  refine ⟨⟨C12_cancel_caches_nothing cfg s t, ?_, ?_⟩, ?_, ?_, ?_, ?_⟩
  · show (cancel cfg s t).1.nRuns = _
    simp only [cancel]; split <;> try rfl
    simp only [setPc, setRunSt, release]; split <;> rfl
  · intro t' hne
    show (cancel cfg s t).1.pc t' = _
    simp only [cancel]; split <;> simp [setPc, setRunSt, release, hne] <;> split <;> rfl
  · intro p r k hpc
    have hl : s.lock p = none ∨ cfg.lock = true := by
      cases hc : cfg.lock with
      | false => exact Or.inl (hinv.nolock hc p)
      | true => exact Or.inr rfl
    refine ⟨by simp [step, cancel, hpc], by simp [s', step, cancel, hpc, setPc],
      by simp [s', step, cancel, hpc, setPc, setRunSt, release], ?_, ?_⟩
    · rcases hl with hl | hl
      · cases hc : cfg.lock <;> simp [s', step, cancel, hpc, setPc, setRunSt, release, hc, setLock, hl]
      · simp [s', step, cancel, hpc, setPc, setRunSt, release, hl, setLock]
    · intro q hq
      cases hc : cfg.lock <;> simp [s', step, cancel, hpc, setPc, setRunSt, release, hc, setLock, hq]
  · intro p hpc
    refine ⟨by simp [step, cancel, hpc], by simp [s', step, cancel, hpc, setPc], ?_,
      by simp [s', step, cancel, hpc, setPc], by simp [s', step, cancel, hpc, setPc]⟩
    intro h
    rcases hinv.lock_owner p t h with hh | ⟨r, k, hh⟩ <;> rw [hpc] at hh <;> cases hh
  · intro h hpc
    exact ⟨by simp [step, cancel, hpc], by simp [s', step, cancel, hpc, setPc],
      by simp [s', step, cancel, hpc, setPc], by simp [s', step, cancel, hpc, setPc]⟩
  · intro q hq
    have hs' : s' = reach cfg (ops ++ [.cancel t]) := (reach_snoc cfg ops (.cancel t)).symm
    rw [hs'] at hq
    obtain ⟨r, k, hg, _⟩ := C12_lock_held_only_while_computing cfg (ops ++ [.cancel t]) q t hq
    rw [← hs'] at hg
    -- after the cancellation `t` is not inside a getter
    have : ∀ p r k, s'.pc t ≠ .getter p r k := by
      intro p r k
      show (cancel cfg s t).1.pc t ≠ _
      simp only [cancel]
      split <;> simp_all [setPc]
    exact this _ _ _ hg

/-- **cached_property: after a cancellation everything keeps working.**  After a cancellation of any
    task at any point of any history, and for ANY continuation `more` of operations (further awaits,
    schedules, cancellations, `del`s), the invariants of C12 hold at every moment: no operation gets
    stuck; a lock is held only by a task that is inside a live getter run for that placeholder (so
    nobody waits for a cancelled computation); whatever value an instance holds is the value of a
    getter run on that instance that RETURNED — in particular the value of a cancelled run is never
    cached (no partial entry). -/
theorem C18_cached_property_keeps_working (cfg : Cfg) (ops : List Op) (t : Nat) (more : List Op) :
    let s := reach cfg (ops ++ .cancel t :: more)
    (∀ op, (step cfg s op).2 ≠ .stuck) ∧
    (∀ p t', s.lock p = some t' → ∃ r k, s.pc t' = .getter p r k ∧ (s.run r).st = .running ∧ (s.run r).task = t') ∧
    (∀ i v, s.slot i = some (.val v) →
      v < s.nRuns ∧ (s.run v).st = .returned ∧ (s.run v).inst = i ∧ cfg.ok v = true) ∧
    (∀ r, (s.run r).st = .cancelled → ∀ i, s.slot i ≠ some (.val r)) := by
  intro s
  refine ⟨fun op => (C12_never_stuck cfg _ op).1,
    fun p t' h => C12_lock_held_only_while_computing cfg _ p t' h,
    fun i v h => C12_cached_value_is_returned_run cfg _ i v h, ?_⟩
  intro r hr i hi
  have := (C12_cached_value_is_returned_run cfg _ i r hi).2.1
  rw [hr] at this; cases this

/-- **cached_property: a later await computes afresh.**  Cancel the task that is inside the getter
    for placeholder `p` (at any of the getter's suspension points) while `p` is still the entry of its
    instance `i`.  Then a subsequent solo `await instance_i.<name>` (driven to completion) runs the
    getter AGAIN — a brand-new run, number `nRuns` — returns that run's value (or raises that run's
    exception), and if it returned, that value is what the instance holds afterwards: the placeholder
    is usable, the lock is not stuck, nothing of the cancelled run is served. -/
theorem C18_cached_property_recomputes_after_cancellation (cfg : Cfg) (ops : List Op) (t p r k : Nat)
    (hpc : (reach cfg ops).pc t = .getter p r k)
    (hslot : (reach cfg ops).slot ((reach cfg ops).phInst p) = some (.ph p)) :
    let i := (reach cfg ops).phInst p
    let s' := (step cfg (reach cfg ops) (.cancel t)).1
    let a := seqStep cfg s' (.await i)
    s'.nRuns = (reach cfg ops).nRuns ∧
    a.2 = (if cfg.ok s'.nRuns then .ret s'.nRuns else .raised s'.nRuns) ∧
    a.1.nRuns = s'.nRuns + 1 ∧
    (cfg.ok s'.nRuns = true → a.1.slot i = some (.val s'.nRuns)) ∧
    (cfg.ok s'.nRuns = false → a.1.slot = s'.slot) := by
  intro i s' a
  obtain ⟨⟨hsl, hnr, _⟩, hg, _⟩ := C18_cached_property_cancellation cfg ops t
  obtain ⟨_, _, _, hlk, _⟩ := hg p r k hpc
  have hph : s'.phInst p = i := by
    show (cancel cfg (reach cfg ops) t).1.phInst p = _
    simp only [cancel, hpc, setPc, setRunSt, release]; split <;> rfl
  have hs : s'.slot i = some (.ph p) := by
    show (step cfg (reach cfg ops) (.cancel t)).1.slot i = _
    rw [hsl]; exact hslot
  have ha : a = _ := await_recomputes cfg s' i p hs hph hlk
  obtain ⟨p1, _, p3, p4, _⟩ :=
    afterRun_proj cfg (setPc (addTask s' i (.ph p)) s'.nTasks (.entered p)) s'.nTasks p
  have hn : (setPc (addTask s' i (.ph p)) s'.nTasks (.entered p)).nRuns = s'.nRuns := rfl
  have hq : (setPc (addTask s' i (.ph p)) s'.nTasks (.entered p)).phInst p = i := hph
  rw [hn] at p1 p3
  refine ⟨hnr, by rw [ha], by rw [ha]; exact p3, fun hok => ?_, fun hok => ?_⟩
  · rw [ha]; simp only [p1, hok, if_true, hq]
  · rw [ha]; simp only [p1, hok, Bool.false_eq_true, if_false]; rfl

/-- **cached_property: the waiter takes over.**  With a lock: a task queued at placeholder `p`'s lock
    that is resumed after the computing task was cancelled (the lock is free, `p` is still the entry of
    its instance) takes the lock and runs the getter again — a brand-new run — instead of waiting for
    ever or being handed a partial result. -/
theorem C18_cached_property_waiter_takes_over (cfg : Cfg) (s : State) (w p : Nat) (hl : cfg.lock = true)
    (hpc : s.pc w = .lockwait p) (hfree : s.lock p = none)
    (hslot : s.slot (s.phInst p) = some (.ph p)) :
    (step cfg s (.sched w)).1.nRuns = s.nRuns + 1 ∧
    ((step cfg s (.sched w)).1.run s.nRuns).task = w ∧
    ((step cfg s (.sched w)).2 = .suspended s.nRuns ∨ (step cfg s (.sched w)).2 = .ret s.nRuns ∨
     (step cfg s (.sched w)).2 = .raised s.nRuns) := by
  cases hs : cfg.susp s.nRuns <;> cases hok : cfg.ok s.nRuns <;>
    simp [step, sched, schedFuel, schedN, micro, hpc, hfree, setPc, setLock, instanceValue, access, hslot, hl, hs,
      complete, hok, setRunSt, setSlot, release]

/-! Non-vacuity (cached_property): a lock, getter runs suspending twice.  Task 0 is inside the getter
    (1 suspension to come), task 1 is queued at the lock. -/
private def cfgL : Cfg := ⟨true, fun _ => 2, fun _ => true⟩
private def opsC : List Op := [.spawn 0, .spawn 0, .sched 0, .sched 1, .sched 0]

example : (reach cfgL opsC).pc 0 = .getter 0 0 0 ∧ (reach cfgL opsC).pc 1 = .lockwait 0 ∧
    (reach cfgL opsC).lock 0 = some 0 ∧
    (reach cfgL opsC).slot ((reach cfgL opsC).phInst 0) = some (.ph 0) := by decide
/-- cancelled at the first / at the second suspension point of the getter: nothing cached, lock free -/
example : (reach cfgL [.spawn 0, .sched 0, .cancel 0]).slot 0 = some (.ph 0) ∧
    (reach cfgL [.spawn 0, .sched 0, .cancel 0]).lock 0 = none ∧
    (reach cfgL [.spawn 0, .sched 0, .sched 0, .cancel 0]).slot 0 = some (.ph 0) ∧
    (reach cfgL [.spawn 0, .sched 0, .sched 0, .cancel 0]).lock 0 = none := by decide
/-- the computing task is cancelled; a solo await recomputes (run 1) and caches; the queued task is
    served the value -/
example : (seqStep cfgL (step cfgL (reach cfgL opsC) (.cancel 0)).1 (.await 0)).2 = .ret 1 ∧
    (seqStep cfgL (step cfgL (reach cfgL opsC) (.cancel 0)).1 (.await 0)).1.slot 0 = some (.val 1) := by decide
example : outs cfgL (reach cfgL opsC) [.cancel 0, .sched 1, .cancel 1, .spawn 0, .sched 2, .sched 2, .sched 2]
    = [.cancelled, .suspended 1, .cancelled, .handle (.ph 0), .suspended 2, .suspended 2, .ret 2] := by decide
/-- hypotheses of `C18_cached_property_waiter_takes_over`: after the cancellation of task 0, task 1 is
    queued at the free lock of placeholder 0, which is still the instance's entry -/
example :
    let s := (step cfgL (reach cfgL opsC) (.cancel 0)).1
    cfgL.lock = true ∧ s.pc 1 = .lockwait 0 ∧ s.lock 0 = none ∧ s.slot (s.phInst 0) = some (.ph 0) ∧
    (step cfgL s (.sched 1)).2 = .suspended 1 := by decide
/-- the queued task is cancelled: it never gets the lock, the computing task finishes normally -/
example : outs cfgL (reach cfgL opsC) [.cancel 1, .sched 0, .sched 1] = [.cancelled, .ret 0, .noop] ∧
    (exec cfgL (reach cfgL opsC) [.cancel 1]).lock 0 = some 0 := by decide

end AsyncVerif.CachedProperty

/-! ## ExitStack (`Machines/ExitStack.lean`) -/
namespace AsyncVerif.ExitStack

/-- **ExitStack: a cancelled block runs every registered exit with the cancellation.**  The block of
    `async with stack:` is left by the cancellation `e` (block outcome `raises e`; to the stack a
    BaseException like any other).  For every stack (any number of exits, each with any behaviour,
    pushed exits / entered managers / callbacks):

    1. every registered exit runs exactly once, in reverse registration order;
    2. the exit registered at any position (`stack = outer ++ en :: inner`) is the `inner.length`-th to
       run and is handed the exception in flight at that moment (a `callback(...)` is handed nothing):
       `inflight inner (some e)` — the cancellation `e` as transformed by the exits registered after it,
       each of which keeps it (falsy), suppresses it (truthy) or replaces it (raises);
    3. that exception in flight IS `e` as long as no later-registered exit suppressed or replaced it;
    4. what propagates out of the `async with` is the exception in flight after the last exit — nothing
       if it was suppressed;
    5. if no exit suppresses or replaces, `e` itself propagates and every exit (that is not a plain
       callback) was handed `e`. -/
theorem C18_exitstack_cancellation_runs_every_exit_with_it (stack : List Entry) (e : ExcId) :
    let r := implExit stack (.raises e)
    (r.2.map Prod.fst = (stack.map (·.id)).reverse ∧ r.2.length = stack.length) ∧
    (∀ outer en inner, stack = outer ++ en :: inner →
      r.2[inner.length]? = some (en.id, if en.isCallback then none else inflight inner (some e))) ∧
    (∀ inner : List Entry, (∀ en ∈ inner, en.run (some e) = .falsy) → inflight inner (some e) = some e) ∧
    r.1 = ofExc (inflight stack (some e)) ∧
    ((∀ en ∈ stack, en.run (some e) = .falsy) →
      r.1 = .raises e ∧
      r.2 = stack.reverse.map (fun en => (en.id, if en.isCallback then none else some e))) := by
  intro r
  have hr : r = nested stack (.raises e) := C14_nested stack (.raises e)
  refine ⟨⟨C14_order stack (.raises e), ?_⟩, ?_, fun inner h => inflight_all_falsy inner _ h, ?_, ?_⟩
  · rw [hr]; exact nested_log_length _ _
  · intro outer en inner hs
    rw [hr, hs, nested_append, nested_cons_log]
    have hlen := nested_log_length inner (.raises e)
    simp only [List.append_assoc]
    rw [List.getElem?_append_right (by omega), hlen]
    simp [Outcome.exc]
  · rw [hr]; exact nested_outcome stack (.raises e)
  · intro h
    rw [hr]
    refine ⟨?_, nested_all_falsy_log stack (.raises e) h⟩
    rw [nested_outcome]
    show ofExc (inflight stack (some e)) = _
    rw [inflight_all_falsy stack _ h]; rfl

/-- **ExitStack: a cancellation raised INSIDE an exit reaches all remaining exits.**  Whatever the
    block outcome (normal, an exception, a cancellation): if the exit `en` — handed the exception in
    flight when its turn comes — is itself cancelled (its behaviour is to raise `c`), then the
    later-registered exits `inner` have run exactly as without it, `en` has run once, and the remaining
    (earlier-registered) exits `outer` run exactly as if THEIR block had been left by `c`: each once, in
    reverse order, handed `c` until one of them suppresses or replaces it
    (`C18_exitstack_cancellation_runs_every_exit_with_it` for `outer`), and what propagates is what
    propagates from that — `c` itself if none of them suppresses or replaces. -/
theorem C18_exitstack_cancellation_inside_exit (outer inner : List Entry) (en : Entry) (body : Outcome)
    (c : ExcId) (hc : en.run (inflight inner body.exc) = .raise c) :
    implExit (outer ++ en :: inner) body
      = ((implExit outer (.raises c)).1,
         (implExit inner body).2 ++ (en.id, if en.isCallback then none else inflight inner body.exc)
            :: (implExit outer (.raises c)).2) ∧
    ((∀ x ∈ outer, x.run (some c) = .falsy) → (implExit (outer ++ en :: inner) body).1 = .raises c) := by
  have h1 : nested (en :: inner) body
      = (.raises c, (nested inner body).2 ++ [(en.id, if en.isCallback then none else inflight inner body.exc)]) := by
    apply Prod.ext
    · rw [nested_cons_outcome]; simp [react, hc, ofExc]
    · exact nested_cons_log en inner body
  have h2 : implExit (outer ++ en :: inner) body
      = ((implExit outer (.raises c)).1,
         (implExit inner body).2 ++ (en.id, if en.isCallback then none else inflight inner body.exc)
            :: (implExit outer (.raises c)).2) := by
    rw [C14_nested, C14_nested, C14_nested, nested_append, h1]
    simp
  refine ⟨h2, fun h => ?_⟩
  rw [h2]
  exact ((C18_exitstack_cancellation_runs_every_exit_with_it outer c).2.2.2.2 h).1

/-- **ExitStack, whole histories: the exits of a cancelled block never run again.**  In any history
    (several stacks, `push`/`callback`/`enter_context`, `pop_all`, `aclose`, blocks left normally, by
    exception or by cancellation), leaving the block of stack `sid` by the cancellation `e` runs exactly
    the exits then registered on it with `e` (the unwinding above), leaves the stack empty — a later
    `aclose()` or a second exit runs nothing — and over the whole history no exit ever runs twice. -/
theorem C18_exitstack_cancelled_block_unwinds_once (ops : List Op) (hreg : (regIds ops).Nodup)
    (sid : Nat) (e : ExcId) (b2 : Outcome) :
    let h := runOps ops
    let h' := step h (.leave sid (.raises e))
    h'.log = h.log ++ (implExit (h.stack sid) (.raises e)).2 ∧
    h'.outs = h.outs ++ [(implExit (h.stack sid) (.raises e)).1] ∧
    h'.stack sid = [] ∧ (step h' (.aclose sid)).log = h'.log ∧ (step h' (.leave sid b2)).log = h'.log ∧
    (h'.log.map Prod.fst).Nodup := by
  intro h h'
  have hs : h'.stack sid = [] := by
    show (unwind h sid (.raises e)).stack sid = []
    rw [stack_unwind]; simp
  refine ⟨rfl, rfl, hs, C14_unwind_again h sid (.raises e) .normal, C14_unwind_again h sid (.raises e) b2, ?_⟩
  have hrun : h' = runOps (ops ++ [.leave sid (.raises e)]) := by
    simp [h', h, runOps, List.foldl_append]
  have hids : regIds (ops ++ [.leave sid (.raises e)]) = regIds ops := by
    clear hreg hrun hs
    induction ops with
    | nil => rfl
    | cons op rest ih => cases op <;> simp [regIds, ih]
  rw [hrun]
  exact C14_once _ (by rw [hids]; exact hreg)

/-! Non-vacuity (ExitStack): a manager that keeps the exception, one that replaces a cancellation by
    77, a callback, one that suppresses, and an exit that is itself cancelled (raises 99). -/
private def eKeep : Entry := ⟨1, false, fun _ => .falsy⟩
private def eRepl : Entry := ⟨2, false, fun o => match o with | some _ => .raise 77 | none => .falsy⟩
private def eCb : Entry := ⟨3, true, fun _ => .falsy⟩
private def eSupp : Entry := ⟨4, false, fun _ => .truthy⟩
private def eCanc : Entry := ⟨5, false, fun _ => .raise 99⟩

/-- nobody suppresses or replaces: the cancellation 5 reaches every exit and propagates -/
example : ∀ en ∈ [eKeep, eCb, eKeep], en.run (some 5) = .falsy := by decide
example : implExit [eKeep, eCb, eKeep] (.raises 5) = (.raises 5, [(1, some 5), (3, none), (1, some 5)]) := by decide
/-- replaced by 77 on the way out; the outermost exit sees 77, which propagates -/
example : implExit [eKeep, eRepl, eCb, eKeep] (.raises 5)
    = (.raises 77, [(1, some 5), (3, none), (2, some 5), (1, some 77)]) := by decide
example : inflight [eRepl, eCb, eKeep] (some 5) = some 77 ∧ inflight [eSupp, eKeep] (some 5) = none := by decide
/-- hypothesis of `C18_exitstack_cancellation_inside_exit`: the block ends normally, `eCanc` is
    cancelled inside its exit; the two earlier-registered exits are handed 99, which propagates -/
example : eCanc.run (inflight [eKeep] Outcome.normal.exc) = .raise 99 := by decide
example : implExit ([eKeep, eCb] ++ eCanc :: [eKeep]) .normal
    = (.raises 99, [(1, none), (5, none), (3, none), (1, some 99)]) := by decide
/-- a history: the block of stack 0 is cancelled, then `aclose()` and a second leave run nothing -/
example : (regIds [.register 0 eKeep, .register 0 eRepl, .register 0 eCb]).Nodup := by decide
example : (runOps [.register 0 eKeep, .register 0 eRepl, .register 0 eCb, .leave 0 (.raises 5), .aclose 0,
    .leave 0 (.raises 6)]).log = [(3, none), (2, some 5), (1, some 77)] := by decide

end AsyncVerif.ExitStack

/-! ## scoped_iter (`Machines/Borrow.lean`) -/
namespace AsyncVerif.Borrow

/-- **scoped_iter: a block left by cancellation closes the iterator exactly once.**  Open a scope
    directly on the underlying iterator (which has `aclose`) in any state in which no other scope sits
    directly on it.  Let the block run ANY prefix `body` of what it would have done (pulls on any
    handle, tools, `asend`, borrowing, nested scopes entered and left, closing handles — anything but
    closing the underlying iterator itself, scoping it directly once more, or leaving this scope), and
    then be cancelled: either between two operations (`pending = none`) or inside a pull on any target
    `t` (`pending = some t`: the cancellation is thrown at the suspension inside the underlying
    iterator's `__anext__`, `Op.nextCancel t`).  The block is then left by the cancellation
    (`__aexit__` with `ExitMode.cancel`).  Whatever the prefix and wherever the cancellation landed:

    * while the block ran, and while the cancellation propagated through the handles, no `aclose()`
      reached the underlying iterator;
    * leaving the scope makes exactly ONE `aclose()` reach it, after which it is dead (closed — or
      already exhausted / failed / killed by the cancellation);
    * the scoped handle is inert afterwards;
    * the state is exactly the state after leaving the same block normally or by an exception. -/
theorem C18_scoped_iter_cancellation_closes_once (s0 : State) (body : List Op) (pending : Option (Option Nat))
    (m : ExitMode) (hc : s0.u.hasClose = true)
    (hno : ∀ (c : Nat) (cx : Ctx), s0.ctxs[c]? = some cx → cx.target ≠ none)
    (hb : ∀ op ∈ body, op.inBlock s0.ctxs.length = true) :
    let cut : List Op := body ++ (match pending with | none => [] | some t => [.nextCancel t])
    (exec s0 (.enter none :: cut)).u.closeReqs = s0.u.closeReqs ∧
    (exec s0 (.enter none :: cut ++ [.exit s0.ctxs.length .cancel])).u.closeReqs = s0.u.closeReqs + 1 ∧
    (exec s0 (.enter none :: cut ++ [.exit s0.ctxs.length .cancel])).u.status.dead = true ∧
    (∃ hd, (exec s0 (.enter none :: cut ++ [.exit s0.ctxs.length .cancel])).hs[s0.hs.length]? = some hd ∧ Inert hd) ∧
    exec s0 (.enter none :: cut ++ [.exit s0.ctxs.length .cancel])
      = exec s0 (.enter none :: cut ++ [.exit s0.ctxs.length m]) := by
  intro cut
  have hcut : ∀ op ∈ cut, op.inBlock s0.ctxs.length = true := by
    intro op hop
    rcases List.mem_append.1 hop with h | h
    · exact hb op h
    · cases pending with
      | none => simp at h
      | some t => simp only [List.mem_singleton] at h; subst h; rfl
  obtain ⟨h1, _, h3, h4, h5⟩ := C08_closed_exactly_once_at_exit s0 cut .cancel hc hno hcut
  refine ⟨h1, h3, h4, h5, ?_⟩
  show exec s0 ((.enter none :: cut) ++ [.exit s0.ctxs.length .cancel])
    = exec s0 ((.enter none :: cut) ++ [.exit s0.ctxs.length m])
  rw [exec_append, exec_append]
  show (step _ _).1 = (step _ _).1
  rw [C08_exit_mode_irrelevant _ _ .cancel m]

/-- **scoped_iter: after the cancelled block the handle yields nothing.**  Whatever happens later
    (`ops`), pulling the handle of a scope that was left by cancellation — also a cancelled pull, also
    through `asend` — answers StopAsyncIteration and changes nothing. -/
theorem C18_scoped_iter_handle_inert_after_cancellation (s : State) (c : Nat) (cx : Ctx) (hid : Nat)
    (hc : s.ctxs[c]? = some cx) (ho : cx.own = some hid) (hv : hid < s.hs.length) (ops : List Op) :
    let s' := exec (step s (.exit c .cancel)).1 ops
    step s' (.next (some hid)) = (s', .res .stop)
    ∧ step s' (.nextCancel (some hid)) = (s', .res .stop)
    ∧ (step s' (.send hid) = (s', .res .stop) ∨ step s' (.send hid) = (s', .noattr)) :=
  C08_handle_inert_after_exit s c .cancel cx hid hc ho hv ops

/-! Non-vacuity (scoped_iter): an async generator; the block pulls two items through the scoped handle,
    then a pull is cancelled inside the generator (which dies of it); the scope is left by the
    cancellation. -/
private def uG : U :=
  { gen := true, hasClose := true, hasSend := true,
    rest := [.item 1, .item 2, .item 3, .item 4], status := .fresh, log := [], closeReqs := 0 }

example : (init uG).u.hasClose = true := rfl
example : ∀ op ∈ ([.next (some 0), .next (some 0)] : List Op), op.inBlock (init uG).ctxs.length = true := by decide
example : outs (init uG) [.enter none, .next (some 0), .next (some 0), .nextCancel (some 0), .exit 0 .cancel,
      .next (some 0), .next none]
    = [.entered 0 (some 0), .res (.item 1), .res (.item 2), .res .cancelled, .ok, .res .stop, .res .stop] := by
  decide
example :
    (exec (init uG) [.enter none, .next (some 0), .next (some 0), .nextCancel (some 0)]).u.closeReqs = 0 ∧
    (exec (init uG) [.enter none, .next (some 0), .next (some 0), .nextCancel (some 0)]).u.status = .killed ∧
    (exec (init uG) [.enter none, .next (some 0), .next (some 0), .nextCancel (some 0), .exit 0 .cancel]).u.closeReqs = 1 ∧
    (exec (init uG) [.enter none, .next (some 0), .next (some 0), .exit 0 .cancel]).u.status = .closed := by
  decide

/-- hypotheses of `C18_scoped_iter_handle_inert_after_cancellation` -/
example :
    let s := exec (init uG) [.enter none, .next (some 0)]
    s.ctxs[0]? = some ⟨none, some 0⟩ ∧ (0 : Nat) < s.hs.length := by decide

end AsyncVerif.Borrow

/-! ## ContextDecorator (`Machines/Decorator.lean`) -/
namespace AsyncVerif.Decorator

/-- **ContextDecorator: a cancelled call exits its own context with the cancellation, once.**  For
    every configuration (generator-based or class-based manager, any number of calls, any scripted
    behaviour and suspension counts) and after ANY schedule `ops` (any interleaving of the calls, earlier
    cancellations), throw the cancellation `x` into the task of call `c` at its current suspension point
    (`⟨c, .cancel x⟩`).  What call `c` logs in that step and where it ends up, by suspension point:

    * not started yet: nothing of it runs — no manager is created, entered or exited — `x` leaves;
    * inside `await cm.__aenter__()`: the context was not established: no body, no exit, `x` leaves;
    * inside the body `await func(...)` (with any number `k` of suspensions to come): the body ends with
      `x`, and the call's OWN manager's exit starts, handed exactly `x` — then either the exit code is
      suspended (the call is in `exiting (raised x)`), or it has answered `resp` and the call is
      finished with `combine (raised x) resp`: `x` itself if the exit answered falsy, `None` if it
      suppressed, the exit's exception if it raised;
    * inside `await cm.__aexit__(...)`: the exit code is not started again, `x` leaves (replacing what
      was in flight);
    * already finished: nothing happens.

    And no other call is disturbed: program counter, generator reference, the generator object it
    holds and its events are untouched. -/
theorem C18_decorator_cancellation (cfg : Cfg) (ops : List Op) (c : Nat) (cc : CallCfg) (x : Exc)
    (hcc : cfg.calls[c]? = some cc) :
    let s := (run cfg ops).1
    let s' := (run cfg (ops ++ [⟨c, .cancel x⟩])).1
    ((s.calls c).pc = .fresh →
      proj c s'.log = proj c s.log ++ [.finish (.raised x)] ∧ (s'.calls c).pc = .done (.raised x)) ∧
    (∀ k, (s.calls c).pc = .entering k →
      proj c s'.log = proj c s.log ++ [.finish (.raised x)] ∧ (s'.calls c).pc = .done (.raised x)) ∧
    (∀ k, (s.calls c).pc = .body k →
      (proj c s'.log = proj c s.log ++ [.bodyEnd (.raised x), .exit (some x)] ∧
        ∃ j, (s'.calls c).pc = .exiting (.raised x) j) ∨
      (∃ resp, proj c s'.log = proj c s.log
          ++ [.bodyEnd (.raised x), .exit (some x), .exited resp, .finish (combine (.raised x) resp)] ∧
        (s'.calls c).pc = .done (combine (.raised x) resp))) ∧
    (∀ o k, (s.calls c).pc = .exiting o k →
      ∃ resp, proj c s'.log = proj c s.log ++ [.exited resp, .finish (.raised x)] ∧
        (s'.calls c).pc = .done (.raised x)) ∧
    (∀ r, (s.calls c).pc = .done r → proj c s'.log = proj c s.log ∧ (s'.calls c).pc = .done r) ∧
    (∀ c', c' ≠ c → s'.calls c' = s.calls c' ∧ proj c' s'.log = proj c' s.log ∧
      ∀ g, (s.calls c').gid = some g → s'.gens g = s.gens g) ∧
    (combine (.raised x) (.returned false) = .raised x ∧ combine (.raised x) (.returned true) = .none ∧
      ∀ y, combine (.raised x) (.raised y) = .raised y) := by
  intro s s'
  obtain ⟨hcoh, hpc, hlog, hpc'⟩ := run_snoc cfg ops ⟨c, .cancel x⟩ cc hcc
  simp only at hcoh hpc hlog hpc'
  refine ⟨?_, ?_, ?_, ?_, ?_, ?_, ⟨rfl, rfl, fun _ => rfl⟩⟩
  · intro h
    rw [← hpc] at h
    have := callStep_fresh_cancel cfg.generatorBased cc _ x h
    show proj c (run cfg (ops ++ [⟨c, .cancel x⟩])).1.log = _ ∧ ((run cfg (ops ++ [⟨c, .cancel x⟩])).1.calls c).pc = _
    rw [hlog, hpc', this]
    exact ⟨rfl, rfl⟩
  · intro k h
    rw [← hpc] at h
    obtain ⟨a, b, _⟩ := callStep_cancel_entering cfg.generatorBased cc _ x k h hcoh
    show proj c (run cfg (ops ++ [⟨c, .cancel x⟩])).1.log = _ ∧ ((run cfg (ops ++ [⟨c, .cancel x⟩])).1.calls c).pc = _
    rw [hlog, hpc', a, b]
    exact ⟨rfl, rfl⟩
  · intro k h
    rw [← hpc] at h
    show (proj c (run cfg (ops ++ [⟨c, .cancel x⟩])).1.log = _ ∧
        ∃ j, ((run cfg (ops ++ [⟨c, .cancel x⟩])).1.calls c).pc = _) ∨
      ∃ resp, proj c (run cfg (ops ++ [⟨c, .cancel x⟩])).1.log = _ ∧
        ((run cfg (ops ++ [⟨c, .cancel x⟩])).1.calls c).pc = _
    rw [hlog, hpc']
    rcases callStep_cancel_body cfg.generatorBased cc _ x k h hcoh with ⟨a, j, b⟩ | ⟨resp, a, b⟩
    · left; rw [a]; exact ⟨rfl, j, b⟩
    · right; rw [a]; exact ⟨resp, rfl, b⟩
  · intro o k h
    rw [← hpc] at h
    obtain ⟨resp, a, b, _⟩ := callStep_cancel_exiting cfg.generatorBased cc _ x o k h hcoh
    show ∃ resp, proj c (run cfg (ops ++ [⟨c, .cancel x⟩])).1.log = _ ∧
      ((run cfg (ops ++ [⟨c, .cancel x⟩])).1.calls c).pc = _
    rw [hlog, hpc', a, b]
    exact ⟨resp, rfl, rfl⟩
  · intro r h
    rw [← hpc] at h
    have := callStep_done cfg.generatorBased cc _ (.cancel x) r h
    show proj c (run cfg (ops ++ [⟨c, .cancel x⟩])).1.log = _ ∧ ((run cfg (ops ++ [⟨c, .cancel x⟩])).1.calls c).pc = _
    rw [hlog, hpc', this]
    exact ⟨by simp [s], h⟩
  · intro c' hne
    have := C15_noninterference cfg ops ⟨c, .cancel x⟩ c' (fun h => hne h.symm)
    simp only at this
    show (run cfg (ops ++ [⟨c, .cancel x⟩])).1.calls c' = _ ∧ proj c' (run cfg (ops ++ [⟨c, .cancel x⟩])).1.log = _ ∧
      ∀ g, _ → (run cfg (ops ++ [⟨c, .cancel x⟩])).1.gens g = _
    rw [run_snoc_state]
    exact ⟨this.1, this.2.2, this.2.1⟩

/-- **ContextDecorator: the context of a call is exited at most once**, under every schedule with any
    cancellations at any suspension points (in particular a cancellation arriving while the exit is
    already running does not start it again, and a suppressed cancellation does not re-enter it). -/
theorem C18_decorator_exit_at_most_once (cfg : Cfg) (ops : List Op) (c : Nat) :
    (proj c (run cfg ops).1.log).countP isExitEv ≤ 1 := by
  obtain ⟨full, r, hpre, hshape⟩ := C15_prefix_of_complete cfg ops c
  exact Nat.le_trans (hpre.sublist.countP_le) (completeShape_exit_once full r hshape)

/-- **ContextDecorator: what a call whose body was cancelled finally gives.**  Under every schedule:
    if the body of call `c` ended with the cancellation `x` and the call is finished with result `r`,
    then its complete history is `enter, entered, bodyBegin, bodyEnd (raised x), exit (some x),
    exited resp, finish r` — the exit ran exactly once and was handed `x` — and `r` is `x` itself
    unless the context suppressed it (`resp` truthy: `None`) or its exit raised (that exception). -/
theorem C18_decorator_cancelled_body_result (cfg : Cfg) (ops : List Op) (c : Nat) (x : Exc) (r : Result)
    (hb : LEv.bodyEnd (.raised x) ∈ proj c (run cfg ops).1.log)
    (hd : ((run cfg ops).1.calls c).pc = .done r) :
    ∃ resp, r = combine (.raised x) resp ∧
      proj c (run cfg ops).1.log
        = [.enter, .entered, .bodyBegin, .bodyEnd (.raised x), .exit (some x), .exited resp, .finish r] ∧
      (resp = .returned false → r = .raised x) := by
  have hs := C15_complete_call cfg ops c r hd
  generalize proj c (run cfg ops).1.log = l at hb hs
  cases hs with
  | thrownBeforeStart y => simp at hb
  | enterFailed y => simp at hb
  | paired o resp =>
    have ho : o = .raised x := by
      simp only [List.mem_cons, reduceCtorEq, LEv.bodyEnd.injEq, false_or, List.not_mem_nil, or_false] at hb
      exact hb.symm
    subst ho
    exact ⟨resp, rfl, rfl, fun h => by rw [h]; rfl⟩

/-! Non-vacuity (ContextDecorator): a generator-based manager whose enter, exit and handler suspend
    once; call 0's generator re-raises what is thrown in, call 1's swallows it. -/
private def gRe : GenProg := ⟨1, .yields, 1, .stops, 1, .reraise⟩
private def pD : PlainProg := ⟨1, .ok, 1, .falsy, .truthy⟩
private def cfgD : Cfg :=
  { generatorBased := true,
    calls := [⟨gRe, pD, 2, .returns 7⟩, ⟨{ gRe with thr := .swallow }, pD, 2, .returns 8⟩] }
private def sd (c : Nat) : Op := ⟨c, .resume⟩

example : cfgD.calls[0]? = some ⟨gRe, pD, 2, .returns 7⟩ := rfl
/-- the four suspension points of call 0 -/
example : ((run cfgD []).1.calls 0).pc = .fresh ∧ ((run cfgD [sd 0]).1.calls 0).pc = .entering 0 ∧
    ((run cfgD [sd 0, sd 0]).1.calls 0).pc = .body 1 ∧ ((run cfgD [sd 0, sd 0, sd 0]).1.calls 0).pc = .body 0 ∧
    ((run cfgD [sd 0, sd 0, sd 0, sd 0]).1.calls 0).pc = .exiting (.returned 7) 0 := by decide
/-- body cancelled at its first / second suspension point, interleaved with call 1: the exit is handed
    the cancellation, suspends once, then re-raises it: the cancellation propagates -/
example : proj 0 (run cfgD [sd 0, sd 1, sd 0, ⟨0, .cancel (.user 99)⟩, sd 1, sd 0]).1.log
    = [.enter, .entered, .bodyBegin, .bodyEnd (.raised (.user 99)), .exit (some (.user 99)),
       .exited (.returned false), .finish (.raised (.user 99))] := by decide
example : proj 0 (run cfgD [sd 0, sd 0, sd 0, ⟨0, .cancel (.user 99)⟩]).1.log
    = [.enter, .entered, .bodyBegin, .bodyEnd (.raised (.user 99)), .exit (some (.user 99))] ∧
    ((run cfgD [sd 0, sd 0, sd 0, ⟨0, .cancel (.user 99)⟩]).1.calls 0).pc = .exiting (.raised (.user 99)) 0 := by
  decide
/-- hypotheses of `C18_decorator_cancelled_body_result` -/
example :
    let s := (run cfgD [sd 0, sd 1, sd 0, ⟨0, .cancel (.user 99)⟩, sd 1, sd 0]).1
    LEv.bodyEnd (.raised (.user 99)) ∈ proj 0 s.log ∧ (s.calls 0).pc = .done (.raised (.user 99)) := by decide
/-- call 1's manager swallows: the cancelled call returns `None` -/
example : ((run cfgD [sd 1, sd 1, ⟨1, .cancel (.user 99)⟩, sd 1]).1.calls 1).pc = .done .none := by decide
/-- cancelled inside enter / inside exit -/
example : proj 0 (run cfgD [sd 0, ⟨0, .cancel (.user 99)⟩]).1.log = [.enter, .finish (.raised (.user 99))] := by decide
example : proj 0 (run cfgD [sd 0, sd 0, sd 0, sd 0, ⟨0, .cancel (.user 99)⟩]).1.log
    = [.enter, .entered, .bodyBegin, .bodyEnd (.returned 7), .exit none, .exited (.raised (.user 99)),
       .finish (.raised (.user 99))] := by decide
/-- a class-based manager (its `__aexit__` suspends once and answers truthy to an exception) -/
example : proj 0 (run { cfgD with generatorBased := false } [sd 0, sd 0, ⟨0, .cancel (.user 99)⟩, sd 0]).1.log
    = [.enter, .entered, .bodyBegin, .bodyEnd (.raised (.user 99)), .exit (some (.user 99)),
       .exited (.returned true), .finish .none] := by decide

end AsyncVerif.Decorator
