import AsyncVerif.Proofs.Adapters
/-!
# C19 — asynctools adapters normalise every async shape to the same plain result

Property theorems only.  Model: `Machines/Adapters.lean` (`anyStep` = `any_iter`, `eachStep` =
`await_each`, `apply`, `sync`/`asyncWrapped`/`callSynced`); the specifications are the plain list
functions `specOps`/`specOuts`, `eachSeg`/`tailSteps` and `native` of the same file.
-/
namespace AsyncVerif.Adapters

/-! ## any_iter -/

/-- For every argument shape — plain or behind an awaitable (any tokens, possibly failing), a list,
    an iterator or an async iterator (any tokens per pull), every item plain or awaitable (any
    tokens, possibly failing) — and every sequence of consumer operations (requests and closes in
    any order), the consumer sees the plain results of the items in order, one per request; the
    first failure surfaces once, as that exception; afterwards, and after a close, the generator
    is finished. -/
theorem C19_any_iter_ops (o : Option Outer) (src : Src) (ops : List Op) :
    outs (run anyStep (.fresh o src) ops) = specOps (anyResults o src) ops :=
  any_fresh o src ops

/-- Shape independence, fault-free reading: if the items stand for the plain values `vals`
    (each either is `vals[i]` or is an awaitable producing `vals[i]`), then for each of the
    2 × 3 × 2^n shapes and all tokens, `k` requests give the first `k` of
    `vals` followed by `StopAsyncIteration`s. -/
theorem C19_any_iter_shape (o : Option Outer) (src : Src) (vals : List Val) (k : Nat)
    (ho : o.bind (·.fail) = none) (hv : src.items.map (fun p => p.2.res) = vals.map Res.ok) :
    outs (run anyStep (.fresh o src) (List.replicate k .next))
      = (vals.map Out.item ++ List.replicate k Out.stop).take k := by
  rw [any_fresh, specOps_replicate, anyResults, ho]
  simp only [hv]
  clear hv ho
  induction vals generalizing k with
  | nil => simp [specOuts_nil]
  | cons v vs ih =>
    cases k with
    | zero => rfl
    | succ k =>
      simp only [List.map_cons, specOuts, ih k, List.cons_append, List.take_succ_cons,
        List.replicate_succ]
      congr 1
      -- taking k from `vs ++ k stops` or from `vs ++ (k+1) stops` is the same
      have h1 : Out.stop :: List.replicate k Out.stop = List.replicate k Out.stop ++ [Out.stop] := by
        rw [← List.replicate_succ, List.replicate_succ']
      rw [h1, ← List.append_assoc]
      exact (List.take_append_of_le_length (by simp)).symm

/-- Two arguments of whatever shapes whose items stand for the same results are
    indistinguishable to every consumer. -/
theorem C19_any_iter_same (o₁ o₂ : Option Outer) (s₁ s₂ : Src) (ops : List Op)
    (h : anyResults o₁ s₁ = anyResults o₂ s₂) :
    outs (run anyStep (.fresh o₁ s₁) ops) = outs (run anyStep (.fresh o₂ s₂) ops) := by
  rw [any_fresh, any_fresh, h]

/-- Closing `any_iter` in any state awaits nothing and pulls nothing, and nothing happens on any
    later operation. -/
theorem C19_any_iter_after_close (s : AnySt) (ops : List Op) :
    run anyStep s (.close :: ops) = ([], .closed) :: ops.map deadStep := by
  simp only [run, anyStep, anyClose, any_done]

/-! ## await_each -/

/-- `await_each` over a list or iterator, under every sequence of consumer operations: each
    request gives the result of the next awaitable, in order; the first failure (or a
    non-awaitable element: `TypeError`) surfaces once and ends the generator. -/
theorem C19_await_each_ops (src : Src) (hk : src.kind ≠ .aiter) (ops : List Op) :
    outs (run eachStep (.live src) ops) = specOps (eachResults src) ops := by
  obtain ⟨kind, items, endToks⟩ := src
  exact each_outs kind hk endToks items ops

/-- Laziness, request by request: for awaitables that do not fail, the `i`-th request of the
    consumer consists of exactly: one more element taken from the source, the `i`-th awaitable
    run from its start through all its suspensions to its completion, its value handed out —
    nothing of any other awaitable.  Requests beyond the end find the source exhausted once and
    then do nothing. -/
theorem C19_await_each_lazy (kind : Kind) (hk : kind ≠ .aiter) (aws : List Aw)
    (hok : ∀ a ∈ aws, ∃ v, a.res = .ok v) (k : Nat) :
    run eachStep (.live (awSrc kind aws)) (List.replicate k .next)
      = (aws.map (eachSeg kind)).take k ++ tailSteps kind (k - aws.length) :=
  each_steps kind hk aws hok k

/-- Only when asked: under every sequence of consumer operations (requests and closes, failing
    awaitables included), an awaitable that is preceded in the source by at least as many
    elements as the consumer made requests, and is a different object from those, is never
    started. -/
theorem C19_await_each_only_when_asked (kind : Kind) (pre post : List Aw) (a : Aw) (ops : List Op)
    (hn : nexts ops ≤ pre.length) (hd : a.id ∉ pre.map (·.id)) :
    Ev.start a.id ∉ trace (run eachStep (.live (awSrc kind (pre ++ a :: post))) ops) := by
  intro h
  have h2 := each_started _ _ _ h
  simp only [awSrc, List.map_append, List.map_cons] at h2
  rw [List.take_append_of_le_length (by simpa using hn)] at h2
  apply hd
  have : ∀ (l : List Aw) (n : Nat) (x : Nat),
      x ∈ awIds ((l.map fun a => (([] : List Tok), Item.aw a)).take n) → x ∈ l.map (·.id) := by
    intro l
    induction l with
    | nil => intro n x hx; simp [awIds] at hx
    | cons b l ih =>
      intro n x hx
      cases n with
      | zero => simp [awIds] at hx
      | succ n =>
        simp only [List.map_cons, List.take_succ_cons, awIds, List.mem_cons] at hx ⊢
        rcases hx with hx | hx
        · exact Or.inl hx
        · exact Or.inr (ih n x hx)
  exact this pre _ _ h2

/-- Closing `await_each` awaits nothing, and nothing happens on any later operation. -/
theorem C19_await_each_after_close (s : EachSt) (ops : List Op) :
    run eachStep s (.close :: ops) = ([], .closed) :: ops.map deadStep := by
  simp only [run, eachStep, each_done]

/-! ## apply -/

/-- If every positional and keyword argument is an awaitable that succeeds, `apply` awaits the
    positional ones in order, then the keyword ones in order, each completely before the next,
    then calls the function once with the awaited values (keywords under their names), and its
    result — value or exception — is the function's. -/
theorem C19_apply_value (f : Fn) (args : List Item) (kwargs : List (Nat × Item))
    (vs kvs : List Val)
    (ha : args.map (fun it => (awaitItem it).2) = vs.map Res.ok)
    (hk : kwargs.map (fun p => (awaitItem p.2).2) = kvs.map Res.ok) :
    apply f args kwargs =
      ((args.map fun it => (awaitItem it).1).flatten ++ (kwargs.map fun p => (awaitItem p.2).1).flatten
          ++ [Ev.call f.id vs ((kwargs.map Prod.fst).zip kvs)],
        f.beh vs ((kwargs.map Prod.fst).zip kvs)) := by
  simp only [apply, awaitAll_ok args vs ha, awaitKw_ok kwargs kvs hk]

/-- If a positional argument fails, that exception is the result; the function is not called and
    no later argument is awaited. -/
theorem C19_apply_arg_fails (f : Fn) (pre : List Item) (vs : List Val) (bad : Item)
    (post : List Item) (kwargs : List (Nat × Item)) (e : Exc)
    (h : pre.map (fun it => (awaitItem it).2) = vs.map Res.ok) (hb : (awaitItem bad).2 = .err e) :
    apply f (pre ++ bad :: post) kwargs
      = ((pre.map fun it => (awaitItem it).1).flatten ++ (awaitItem bad).1, .err e) := by
  simp only [apply, awaitAll_fail pre vs bad post e h hb]

/-- If a keyword argument fails (all positional ones having succeeded), that exception is the
    result; the function is not called and no later argument is awaited. -/
theorem C19_apply_kw_fails (f : Fn) (args : List Item) (vs : List Val)
    (pre : List (Nat × Item)) (kvs : List Val) (bad : Nat × Item) (post : List (Nat × Item)) (e : Exc)
    (ha : args.map (fun it => (awaitItem it).2) = vs.map Res.ok)
    (h : pre.map (fun p => (awaitItem p.2).2) = kvs.map Res.ok) (hb : (awaitItem bad.2).2 = .err e) :
    apply f args (pre ++ bad :: post)
      = ((args.map fun it => (awaitItem it).1).flatten
          ++ ((pre.map fun p => (awaitItem p.2).1).flatten ++ (awaitItem bad.2).1), .err e) := by
  simp only [apply, awaitAll_ok args vs ha, awaitKw_fail pre kvs bad post e h hb]

/-! ## sync -/

/-- Awaiting `sync(f)(*args, **kwargs)` is, for every callable flavour (plain function, function
    returning an awaitable, object with `async def __call__`, `async def`, `partial` of an
    `async def`), exactly what the callable gives natively: it runs once with the same
    arguments, its awaitable (if any) suspends with the same tokens, and the same value or the
    same exception comes out. -/
theorem C19_sync_same (f : UFn) (hc : f.flavour.callable = true) (args : List Val)
    (kw : List (Nat × Val)) : callSynced f args kw = native f args kw := by
  cases hf : f.flavour <;> rw [hf] at hc <;>
    simp [Flavour.callable] at hc <;>
    simp [callSynced, sync, native, asyncWrapped, callRaw, awaitRaw, hf, Flavour.callable,
      Flavour.isCoroFn, Flavour.returnsAw]
  · cases f.res args kw <;> rfl

/-- `sync` returns its argument unchanged exactly for coroutine functions, wraps every other
    callable, and raises `TypeError` exactly for non-callables. -/
theorem C19_sync_unchanged (f : UFn) :
    (sync f = .same ↔ f.flavour.isCoroFn = true) ∧
    (sync f = .typeError ↔ f.flavour.callable = false) ∧
    (sync f = .wrapped ↔ (f.flavour.callable = true ∧ f.flavour.isCoroFn = false)) := by
  cases hf : f.flavour <;> simp [sync, hf, Flavour.callable, Flavour.isCoroFn]

/-! ## Non-vacuity -/

private def a0 : Aw := ⟨0, [10, 11], .ok 100⟩
private def a1 : Aw := ⟨1, [], .ok 101⟩
private def a2 : Aw := ⟨2, [12], .ok 102⟩
private def aBad : Aw := ⟨3, [13], .err (.user 7)⟩

/-- an awaitable async iterator of mixed items and a plain list of plain items give the same -/
example : outs (run anyStep (.fresh (some ⟨9, [90], none⟩)
      ⟨.aiter, [([50], .aw a0), ([], .plain 101), ([51, 52], .aw a2)], [53]⟩) (List.replicate 5 .next))
    = outs (run anyStep (.fresh none ⟨.list, [([], .plain 100), ([], .plain 101), ([], .plain 102)], []⟩)
      (List.replicate 5 .next)) := by decide
example : outs (run anyStep (.fresh (some ⟨9, [90], none⟩)
      ⟨.aiter, [([50], .aw a0), ([], .plain 101), ([51, 52], .aw a2)], [53]⟩) (List.replicate 5 .next))
    = [.item 100, .item 101, .item 102, .stop, .stop] := by decide
/-- the hypotheses of `C19_any_iter_shape` are satisfiable -/
example : (some (⟨9, [90], none⟩ : Outer)).bind (·.fail) = none ∧
    ([([50], Item.aw a0), (([] : List Tok), Item.plain 101)].map fun p => p.2.res)
      = [100, 101].map Res.ok := by decide
/-- a failing item surfaces once -/
example : outs (run anyStep (.fresh none ⟨.iter, [([], .aw a0), ([], .aw aBad), ([], .aw a2)], []⟩)
      (List.replicate 4 .next)) = [.item 100, .raised (.user 7), .stop, .stop] := by decide
/-- laziness: two requests on three awaitables -/
example : run eachStep (.live (awSrc .iter [a0, a1, a2])) [.next, .next]
    = [([.pull, .start 0, .susp 10, .susp 11, .fin 0], .item 100), ([.pull, .start 1, .fin 1], .item 101)] := by
  decide
example : Ev.start 2 ∉ trace (run eachStep (.live (awSrc .iter [a0, a1, a2])) [.next, .close, .next]) := by
  decide
example : ∀ a ∈ [a0, a1, a2], ∃ v, a.res = .ok v := by
  intro a ha; simp [a0, a1, a2] at ha; rcases ha with h | h | h <;> subst h <;> exact ⟨_, rfl⟩
/-- apply: two positionals, one keyword -/
example : (apply ⟨5, fun vs kvs => .ok (vs.length + kvs.length)⟩ [.aw a0, .aw a1] [(7, .aw a2)])
    = ([.start 0, .susp 10, .susp 11, .fin 0, .start 1, .fin 1, .start 2, .susp 12, .fin 2,
        .call 5 [100, 101] [(7, 102)]], .ok 3) := by decide
example : (apply ⟨5, fun _ _ => .ok 1⟩ [.aw a0, .aw aBad, .aw a1] [(7, .aw a2)])
    = ([.start 0, .susp 10, .susp 11, .fin 0, .start 3, .susp 13, .fin 3], .err (.user 7)) := by decide
/-- sync: an object with `async def __call__` is wrapped and awaited; an `async def` is unchanged -/
example : sync ⟨.objAsync, 1, fun _ _ => [4], fun _ _ => .ok 9⟩ = .wrapped ∧
    callSynced ⟨.objAsync, 1, fun _ _ => [4], fun _ _ => .ok 9⟩ [2] [(3, 4)]
      = ([.call 1 [2] [(3, 4)], .susp 4], .ok 9) := by decide
example : sync ⟨.asyncDef, 1, fun _ _ => [4], fun _ _ => .err (.user 3)⟩ = .same := by decide

end AsyncVerif.Adapters
