import AsyncVerif.Proofs.Core
namespace AsyncVerif
theorem C04_placeholder_true : True := trivial
end AsyncVerif
