import AsyncVerif.Impl.Aggregations
import AsyncVerif.Proofs.ReleaseMore
import AsyncVerif.Proofs.Release
import AsyncVerif.Proofs.Chain
import AsyncVerif.Proofs.ChainCancel
/-!
# C04 — owned async iterators are released when a tool finishes, fails or is closed

`Released src` : an async generator source is closed, exhausted or finished by its own failure; a
class-based source with `aclose` had `aclose()` called or delivered `StopAsyncIteration`.
Every theorem is for **every world**: every input, every fault script of sources and callables,
every consumer behaviour (exhaust, close after any number of items, throw after any number of items).
The only proviso is that the model did not run out of fuel (fuel is a model artefact bounding loops;
the correspondence runs show it is never hit with `fuel >` total script length).
-/
namespace AsyncVerif

theorem C04_filter (fn : Option Nat) (s fuel : Nat) (w : World)
    (h : (Impl.filter fn s fuel w).1 ≠ .error .outOfFuel) :
    Released ((Impl.filter fn s fuel w).2.srcs s) := scopedIter_released s _ w h

theorem C04_filterfalse (fn : Option Nat) (s fuel : Nat) (w : World)
    (h : (Impl.filterfalse fn s fuel w).1 ≠ .error .outOfFuel) :
    Released ((Impl.filterfalse fn s fuel w).2.srcs s) := scopedIter_released s _ w h

theorem C04_enumerate (s : Nat) (start : Int) (fuel : Nat) (w : World)
    (h : (Impl.enumerate s start fuel w).1 ≠ .error .outOfFuel) :
    Released ((Impl.enumerate s start fuel w).2.srcs s) := scopedIter_released s _ w h

theorem C04_takewhile (f s fuel : Nat) (w : World)
    (h : (Impl.takewhile f s fuel w).1 ≠ .error .outOfFuel) :
    Released ((Impl.takewhile f s fuel w).2.srcs s) := scopedIter_released s _ w h

theorem C04_dropwhile (f s fuel : Nat) (w : World)
    (h : (Impl.dropwhile f s fuel w).1 ≠ .error .outOfFuel) :
    Released ((Impl.dropwhile f s fuel w).2.srcs s) := scopedIter_released s _ w h

theorem C04_starmap (f s fuel : Nat) (w : World)
    (h : (Impl.starmap f s fuel w).1 ≠ .error .outOfFuel) :
    Released ((Impl.starmap f s fuel w).2.srcs s) := scopedIter_released s _ w h

theorem C04_accumulate (fn : Option Nat) (initial : Option Val) (s fuel : Nat) (w : World)
    (h : (Impl.accumulate fn initial s fuel w).1 ≠ .error .outOfFuel) :
    Released ((Impl.accumulate fn initial s fuel w).2.srcs s) := scopedIter_released s _ w h

/-- valid parameters (`n ≥ 1`): the `ValueError` for `n < 1` is raised before the iterable is touched -/
theorem C04_batched (n : Nat) (hn : 1 ≤ n) (strict : Bool) (s fuel : Nat) (w : World)
    (h : (Impl.batched n strict s fuel w).1 ≠ .error .outOfFuel) :
    Released ((Impl.batched n strict s fuel w).2.srcs s) := by
  have hn' : ¬ n < 1 := by omega
  unfold Impl.batched at h ⊢
  simp only [hn', if_false] at h ⊢
  exact scopedIter_released s _ w h

theorem C04_islice (s start : Nat) (stop : Option Nat) (step fuel : Nat) (w : World)
    (h : (Impl.islice s start stop step fuel w).1 ≠ .error .outOfFuel) :
    Released ((Impl.islice s start stop step fuel w).2.srcs s) := scopedIter_released s _ w h

theorem C04_pairwise (s fuel : Nat) (w : World)
    (h : (Impl.pairwise s fuel w).1 ≠ .error .outOfFuel) :
    Released ((Impl.pairwise s fuel w).2.srcs s) := scopedIter_released s _ w h

theorem C04_all (s fuel : Nat) (w : World) (h : (Impl.all s fuel w).1 ≠ .error .outOfFuel) :
    Released ((Impl.all s fuel w).2.srcs s) := scopedIter_released s _ w h

theorem C04_any (s fuel : Nat) (w : World) (h : (Impl.any s fuel w).1 ≠ .error .outOfFuel) :
    Released ((Impl.any s fuel w).2.srcs s) := scopedIter_released s _ w h

theorem C04_zip (srcs : List Nat) (fuel : Nat) (w : World)
    (h : (Impl.zip srcs fuel w).1 ≠ .error .outOfFuel) :
    ∀ s ∈ srcs, Released ((Impl.zip srcs fuel w).2.srcs s) := by
  unfold Impl.zip at h ⊢
  split
  · rename_i he; intro s hs; cases srcs <;> simp_all
  · rename_i he; simp only [he] at h; exact tryFinally_closeAll_released srcs _ w h

theorem C04_zip_strict (srcs : List Nat) (fuel : Nat) (w : World)
    (h : (Impl.zipStrict srcs fuel w).1 ≠ .error .outOfFuel) :
    ∀ s ∈ srcs, Released ((Impl.zipStrict srcs fuel w).2.srcs s) := by
  unfold Impl.zipStrict at h ⊢
  split
  · rename_i he; intro s hs; cases srcs <;> simp_all
  · rename_i he; simp only [he] at h; exact tryFinally_closeAll_released srcs _ w h

theorem C04_map (f : Nat) (srcs : List Nat) (fuel : Nat) (w : World)
    (h : (Impl.map f srcs fuel w).1 ≠ .error .outOfFuel) :
    ∀ s ∈ srcs, Released ((Impl.map f srcs fuel w).2.srcs s) := by
  unfold Impl.map at h ⊢
  split
  · rename_i he; intro s hs; cases srcs <;> simp_all
  · rename_i he; simp only [he] at h; exact tryFinally_closeAll_released srcs _ w h

theorem C04_zip_longest (fillv : Val) (srcs : List Nat) (fuel : Nat) (w : World)
    (h : (Impl.zipLongest fillv srcs fuel w).1 ≠ .error .outOfFuel) :
    ∀ s ∈ srcs, Released ((Impl.zipLongest fillv srcs fuel w).2.srcs s) := by
  unfold Impl.zipLongest at h ⊢
  split
  · rename_i he; intro s hs; cases srcs <;> simp_all
  · rename_i he; simp only [he] at h; exact tryFinally_closeAll_released srcs _ w h

/-- both iterators of `compress` (two nested scopes) -/
theorem C04_compress (d sel fuel : Nat) (w : World)
    (h : (Impl.compress d sel fuel w).1 ≠ .error .outOfFuel) :
    Released ((Impl.compress d sel fuel w).2.srcs d) ∧ Released ((Impl.compress d sel fuel w).2.srcs sel) := by
  refine ⟨scopedIter_released d _ w h, ?_⟩
  unfold Impl.compress at h ⊢
  obtain ⟨hw, hb⟩ := tryFinally_final _ (closeSrc d) w h
  unfold scopedIter at hw hb ⊢
  rw [hw]
  apply closeSrc_preserves
  exact scopedIter_released sel _ w hb

/-- `chain` run to exhaustion: every input has been released (each in its own scope, never un-released later) -/
theorem C04_chain_exhausted (srcs : List Nat) (fuel : Nat) (w : World)
    (h : (Impl.chain srcs fuel w).1 = .ok ()) :
    ∀ s ∈ srcs, Released ((Impl.chain srcs fuel w).2.srcs s) := by
  have hc : Impl.chain srcs fuel w = Impl.chainIter srcs fuel w := by
    unfold Impl.chain at h ⊢
    rcases hi : Impl.chainIter srcs fuel w with ⟨r, w1⟩
    rw [hi] at h
    cases r with
    | ok u => rfl
    | error e => cases e <;> first | rfl | (simp at h; split at h <;> simp at h)
  rw [hc] at h ⊢
  exact chainIter_released fuel srcs w h

/-- `chain` closed by its consumer (`chain.aclose()`, started or not at that input): every input is released,
    also those never reached -/
theorem C04_chain_closed (srcs : List Nat) (fuel : Nat) (w : World)
    (h : (Impl.chain srcs fuel w).1 = .error .genExit) :
    ∀ s ∈ srcs, Released ((Impl.chain srcs fuel w).2.srcs s) := by
  unfold Impl.chain at h ⊢
  rcases hi : Impl.chainIter srcs fuel w with ⟨r, w1⟩
  rw [hi] at h
  cases r with
  | ok u => simp at h
  | error e =>
    cases e <;> try (simp at h)
    intro s hs
    have := closeOwned_releases srcs w1 s hs
    simp only at h ⊢
    rcases ho : Impl.closeOwned srcs w1 with ⟨r2, w2⟩
    rw [ho] at this h
    cases r2 <;> simpa using this

/-- The owner's `chain.aclose()` (in the model: `Impl.closeOwned srcs`, i.e. `for it in self._owned_iterators:
    await it.aclose()`; closing the already finished `_chain_iterator` generator is a no-op) run after **any** run
    of the handle — exhausted, closed, raised, even cut off by the model's fuel: every argument is released. -/
theorem C04_chain_owner_close (srcs : List Nat) (fuel : Nat) (w : World) :
    ∀ s ∈ srcs, Released ((Impl.closeOwned srcs (Impl.chain srcs fuel w).2).2.srcs s) :=
  closeOwned_releases srcs _

/-- What is open when `chain` has stopped (for whatever reason other than the model's fuel): an argument that is
    not released at that point was never touched — it is exactly as it was handed in.  So the only arguments
    `chain` leaves open are the ones it had not started (known finding D19). -/
theorem C04_chain_unreleased_untouched (srcs : List Nat) (fuel : Nat) (w : World)
    (h : (Impl.chain srcs fuel w).1 ≠ .error .outOfFuel) :
    ∀ s ∈ srcs, Released ((Impl.chain srcs fuel w).2.srcs s) ∨ (Impl.chain srcs fuel w).2.srcs s = w.srcs s := by
  by_cases hg : (Impl.chain srcs fuel w).1 = .error .genExit
  · exact fun s hs => Or.inl (C04_chain_closed srcs fuel w hg s hs)
  · rw [chain_eq_chainIter srcs fuel w hg] at h ⊢
    exact chainIter_unreleased_untouched fuel srcs w h

/-- Known finding D19, formally.  `chain`'s iterator **raises** `x` while it is advanced (a fault of an argument,
    an exception thrown in by the consumer, a cancellation — anything but the model's fuel).  At that point the
    arguments reached so far are released (each in its own scope) but the arguments not yet started are still as
    they were handed in, possibly open (first conjunct: released *or untouched*).  They are released by the owner's
    `chain.aclose()` (second conjunct), which is what the check verifies. -/
theorem C04_chain_raised (srcs : List Nat) (fuel : Nat) (w : World) (x : Exc)
    (h : (Impl.chain srcs fuel w).1 = .error x) (hx : x ≠ .outOfFuel) :
    (∀ s ∈ srcs, Released ((Impl.chain srcs fuel w).2.srcs s) ∨ (Impl.chain srcs fuel w).2.srcs s = w.srcs s)
    ∧ ∀ s ∈ srcs, Released ((Impl.closeOwned srcs (Impl.chain srcs fuel w).2).2.srcs s) := by
  refine ⟨C04_chain_unreleased_untouched srcs fuel w ?_, C04_chain_owner_close srcs fuel w⟩
  rw [h]; intro hc; injection hc with hc; exact hx hc

theorem C04_merge (fn : Option Nat) (reverse : Bool) (srcs : List Nat) (fuel : Nat) (w : World)
    (h : (Impl.merge fn reverse srcs fuel w).1 ≠ .error .outOfFuel) :
    ∀ s ∈ srcs, Released ((Impl.merge fn reverse srcs fuel w).2.srcs s) :=
  tryFinally_closeAll_released srcs _ w h

theorem C04_sum (start : Option Val) (s fuel : Nat) (w : World) (h : (Impl.sum start s fuel w).1 ≠ .error .outOfFuel) :
    Released ((Impl.sum start s fuel w).2.srcs s) := scopedIter_released s _ w h

theorem C04_min_max (fn : Option Nat) (isMax : Bool) (d : Option Val) (s fuel : Nat) (w : World)
    (h : (Impl.minmax fn isMax d s fuel w).1 ≠ .error .outOfFuel) :
    Released ((Impl.minmax fn isMax d s fuel w).2.srcs s) := scopedIter_released s _ w h

theorem C04_reduce (f : Nat) (ini : Option Val) (s fuel : Nat) (w : World)
    (h : (Impl.reduce f ini s fuel w).1 ≠ .error .outOfFuel) :
    Released ((Impl.reduce f ini s fuel w).2.srcs s) := scopedIter_released s _ w h

theorem C04_list (s fuel : Nat) (w : World) (h : (Impl.list s fuel w).1 ≠ .error .outOfFuel) :
    Released ((Impl.list s fuel w).2.srcs s) := scopedIter_released s _ w h

theorem C04_tuple (s fuel : Nat) (w : World) (h : (Impl.tuple s fuel w).1 ≠ .error .outOfFuel) :
    Released ((Impl.tuple s fuel w).2.srcs s) := scopedIter_released s _ w h

theorem C04_nlargest_nsmallest (largest : Bool) (n : Nat) (fn : Option Nat) (s fuel : Nat) (w : World)
    (h : (Impl.nBest largest n fn s fuel w).1 ≠ .error .outOfFuel) :
    Released ((Impl.nBest largest n fn s fuel w).2.srcs s) := scopedIter_released s _ w h

/-- `cycle`: the source is owned only during the first pass; the replay phase never touches it -/
theorem C04_cycle (s fuel : Nat) (w : World) (h : (Impl.cycle s fuel w).1 ≠ .error .outOfFuel) :
    Released ((Impl.cycle s fuel w).2.srcs s) :=
  scoped_then_frame_released s _ _ (fun buf => srcsFrame_replay buf fuel []) w h

/-- `sorted`: items and keys are collected inside the scope; sorting happens after the source was released -/
theorem C04_sorted (fn : Option Nat) (reverse : Bool) (s fuel : Nat) (w : World)
    (h : (Impl.sorted fn reverse s fuel w).1 ≠ .error .outOfFuel) :
    Released ((Impl.sorted fn reverse s fuel w).2.srcs s) :=
  scoped_then_frame_released s _ _
    (fun keyed => srcsFrame_bind (srcsFrame_liftExc _) (fun r => srcsFrame_pure _)) w h

theorem C04_set (s fuel : Nat) (w : World) (h : (Impl.set s fuel w).1 ≠ .error .outOfFuel) :
    Released ((Impl.set s fuel w).2.srcs s) := scopedIter_released s _ w h

theorem C04_dict (s fuel : Nat) (w : World) (h : (Impl.dict s fuel w).1 ≠ .error .outOfFuel) :
    Released ((Impl.dict s fuel w).2.srcs s) := scopedIter_released s _ w h

/-! Non-vacuity for the `chain` theorems: source 0 (an async generator) fails at its second use, sources 1
    (async generator) and 2 (class-based with `aclose`) were not started. -/
section Examples

private def wChain : World where
  srcs := fun s =>
    if s = 0 then { kind := .agen, script := [.item (.obj 1 5), .err 7] }
    else if s = 1 then { kind := .agen, script := [.item (.obj 3 1)] }
    else { kind := .aobj, script := [.item (.obj 4 2)] }
  fns := fun _ _ args => .ok (args.headD .none)
  calls := fun _ => 0
  cons := .run 5 .exhaust
  vis := []
  rel := []

example : (Impl.chain [0, 1, 2] 10 wChain).1 = .error (.user 7) := by rfl
example : ((Impl.chain [0, 1, 2] 10 wChain).2.srcs 0).status = .failed := by rfl
example : (Impl.chain [0, 1, 2] 10 wChain).2.srcs 1 = wChain.srcs 1 := by rfl
example : ((Impl.chain [0, 1, 2] 10 wChain).2.srcs 1).status = .fresh := by rfl
example : ∀ s ∈ [0, 1, 2], Released ((Impl.closeOwned [0, 1, 2] (Impl.chain [0, 1, 2] 10 wChain).2).2.srcs s) :=
  (C04_chain_raised [0, 1, 2] 10 wChain (.user 7) rfl (by simp)).2
example : ((Impl.closeOwned [0, 1, 2] (Impl.chain [0, 1, 2] 10 wChain).2).2.srcs 1).status = .closed := by rfl
example : ((Impl.closeOwned [0, 1, 2] (Impl.chain [0, 1, 2] 10 wChain).2).2.srcs 2).closes = 1 := by rfl

end Examples

end AsyncVerif
