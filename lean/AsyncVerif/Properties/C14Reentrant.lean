import AsyncVerif.Proofs.ExitStackReentrant
import AsyncVerif.Properties.C14
/-!
# C14, continued — exits that touch their own stack while it unwinds

Property theorems only.  Model: `Machines/ExitStackReentrant.lean` (`Impl.unwind` = the loop of
asyncstdlib's `ExitStack.__aexit__`, `Spec.unwind` = the loop of CPython's
`AsyncExitStack.__aexit__`; several stacks; an exit may `pop_all` / `push` / `callback` on the stack
being unwound before it answers).  Deques are written right end first (`St.stacks`), `St.deque` is
the registration order.
-/
namespace AsyncVerif.ExitStackRe
open AsyncVerif.ExitStack

/-! Fixtures for the non-vacuity examples: the harness family with three pushed exits `0,1,2`
    (2 at the right end of the deque); exit 1 resp. 2 acts. -/
private def st3 : St := St.init (familyItems 3) 4
private def scPop : Script := familyScript 1 .popAll (.raise 401)
private def scPopTop : Script := familyScript 2 .popAll .falsy
private def scPush : Script := familyScript 2 (.push 102) .truthy
private def scCb : Script := familyScript 2 (.callback 202) (.raise 402)
private def scNone : Script := familyScript 7 .popAll .truthy

/-- asyncstdlib's `ExitStack` and CPython's `AsyncExitStack` cannot be told apart by exits that
    touch the stack being unwound: for every script of entries and stack actions, every state of
    the stacks and every block outcome, one `__aexit__`/`aclose`, every history of operations and
    the harness history (block, close the moved stacks, `aclose` again) end in the same state —
    same exit log (which entry ran, during the unwind of which stack, handed which in-flight
    exception), same propagated outcomes, same final stacks, same registrations. -/
theorem C14_reentrant_refines_contextlib (sc : Script) (st : St) :
    (∀ sid body, Impl.unwind sc st sid body = Spec.unwind sc st sid body) ∧
    (∀ ops, Impl.run sc ops st = Spec.run sc ops st) ∧
    (∀ body, Impl.history sc st body = Spec.history sc st body) := by
  refine ⟨fun sid body => unwind_eq sc st sid body, fun ops => ?_, fun body => ?_⟩
  · simp only [Impl.run, Spec.run, unwind_fun_eq]
  · simp only [Impl.history, Spec.history, unwind_fun_eq]

/-! Example: exit 1 of 3 calls `pop_all` and raises 401 while 5 is in flight: 2 and 1 run on stack 0
    with 5, the block raises 401, exit 0 runs with nothing in flight when the moved stack 1 is closed,
    `aclose()` again runs nothing.  Both machines. -/
example : (Impl.history scPop st3 (.raises 5)).log =
    [⟨2, 0, false, some 5⟩, ⟨1, 0, false, some 5⟩, ⟨0, 1, false, none⟩] := by decide
example : (Impl.history scPop st3 (.raises 5)).outs =
    [⟨0, .raises 401, 2⟩, ⟨1, .normal, 3⟩, ⟨0, .normal, 3⟩] := by decide
example : (Spec.history scPop st3 (.raises 5)).log = (Impl.history scPop st3 (.raises 5)).log ∧
    (Spec.history scPop st3 (.raises 5)).outs = (Impl.history scPop st3 (.raises 5)).outs ∧
    (Spec.history scPop st3 (.raises 5)).allDeques = [[], []] := by decide

/-- Every registered exit — registered before the block or by a running exit during an unwind —
    runs at most once over the whole history (any mix of leaving blocks, `aclose`, `pop_all`,
    registering, unwinding again, with exits that `pop_all`/`push`/`callback` while they run),
    provided registrations are distinct objects (distinct ids).  Only registered exits run; an exit
    that ran is on no stack any more; and an exit that is on no stack at the end ran exactly once. -/
theorem C14_reentrant_once (sc : Script) (ops : List Op) (items : List Item) (budget : Nat)
    (hreg : (Impl.run sc ops (St.init items budget)).regs.Nodup) :
    let fin := Impl.run sc ops (St.init items budget)
    fin.logIds.Nodup ∧
    (∀ x, x ∈ fin.logIds → x ∈ fin.regs ∧ ∀ sid, x ∉ itemIds (fin.stacks sid)) ∧
    (∀ x, x ∈ fin.regs → (∀ sid, x ∉ itemIds (fin.stacks sid)) → fin.logIds.count x = 1) := by
  intro fin
  have hi : HInv fin := (Inv.run sc ops (Inv.init items budget)).2 hreg
  refine ⟨hi.logNodup, fun x hx => ⟨hi.known x (Or.inl hx), fun sid hm => hi.logStack sid x hm hx⟩, ?_⟩
  intro x hx hno
  rw [hi.logNodup.count]
  rcases hi.complete x hx with h | ⟨sid, h⟩
  · simp [h]
  · exact absurd h (hno sid)

/-! Example: the hypothesis holds for a history in which exit 2 pushes exit 102 during the unwind, the
    stack is popped from outside and both stacks are closed: 4 registrations, all distinct, all ran. -/
example : (Impl.run scPush [.leave 0 (.raises 5), .register 0 ⟨9, true⟩, .popAll 0, .aclose 1, .aclose 0]
    st3).regs = [0, 1, 2, 102, 9] := by decide
example : (Impl.run scPush [.leave 0 (.raises 5), .register 0 ⟨9, true⟩, .popAll 0, .aclose 1, .aclose 0]
    st3).logIds = [2, 102, 1, 0, 9] := by decide
example : (Impl.run scPush [.leave 0 (.raises 5), .register 0 ⟨9, true⟩, .popAll 0, .aclose 1, .aclose 0]
    st3).regs.Nodup := by decide

/-- Closing a stack (leaving its block or `aclose`) empties it, whatever its exits do to it
    meanwhile: every exit that was on it, or was pushed onto it during the unwind and not moved
    away by `pop_all`, has run when `__aexit__` returns.  (With `C14_reentrant_once`: it ran exactly once.) -/
theorem C14_reentrant_closed_is_empty (sc : Script) (st : St) (sid : Nat) (body : Outcome) :
    (Impl.unwind sc st sid body).stacks sid = [] := by
  unfold Impl.unwind
  exact loop_done sc sid _ st _ (Nat.le_refl _)

example : (Impl.unwind scPush st3 0 (.raises 5)).stacks 0 = [] ∧
    (Impl.unwind scPush st3 0 (.raises 5)).logIds = [2, 102, 1, 0] := by decide

/-- `C14_reentrant_once` for the harness history: block on stack 0, closing every stack that
    `pop_all` produced during the block, `aclose()` of stack 0 again. -/
theorem C14_reentrant_once_history (sc : Script) (items : List Item) (budget : Nat) (body : Outcome)
    (hreg : (Impl.history sc (St.init items budget) body).regs.Nodup) :
    let fin := Impl.history sc (St.init items budget) body
    fin.logIds.Nodup ∧
    (∀ x, x ∈ fin.logIds → x ∈ fin.regs ∧ ∀ sid, x ∉ itemIds (fin.stacks sid)) ∧
    (∀ x, x ∈ fin.regs → (∀ sid, x ∉ itemIds (fin.stacks sid)) → fin.logIds.count x = 1) ∧
    fin.stacks 0 = [] := by
  have e : Impl.history sc (St.init items budget) body =
      Impl.run sc (harnessOps body (Impl.unwind sc (St.init items budget) 0 body).nstacks)
        (St.init items budget) := history_eq_run _ _ _
  intro fin
  have h := C14_reentrant_once sc _ items budget (e ▸ hreg)
  rw [← e] at h
  exact ⟨h.1, h.2.1, h.2.2, C14_reentrant_closed_is_empty sc _ 0 .normal⟩

example : (Impl.history scPush st3 (.raises 5)).regs = [0, 1, 2, 102] ∧
    (Impl.history scPush st3 (.raises 5)).logIds = [2, 102, 1, 0] ∧
    (Impl.history scPush st3 (.raises 5)).regs.Nodup := by decide

/-- `pop_all` from inside an exit.  Exit `it` is popped from stack `sid` (deque then `rest`) and,
    before anything else, calls `stack.pop_all()`.  Then, at whatever point of whatever unwind this
    happens and however the loop goes on: the new stack (id `st.nstacks`) holds exactly `rest` when
    the loop ends — nothing of it ran, nothing was added; every exit that the loop runs on stack
    `sid` after `it` was registered after the `pop_all` (`new`); so, registrations being distinct,
    none of the moved entries runs on the original stack. -/
theorem C14_reentrant_popall_moves (sc : Script) (sid fuel : Nat) (st : St) (ls : Impl.Loop)
    (it : Item) (rest : List Item) (post : List Act)
    (hs : sid < st.nstacks) (heq : st.stacks sid = it :: rest)
    (hacts : (sc.beh it.id (it.handed ls.exc)).1 = .popAll :: post) :
    let fin := (Impl.loop sc sid (fuel + 1) st ls).1
    fin.stacks st.nstacks = rest ∧
    ∃ tail new, fin.log = st.log ++ ⟨it.id, sid, it.cb, it.handed ls.exc⟩ :: tail ∧
      fin.regs = st.regs ++ new ∧
      (∀ r, r ∈ tail → r.sid = sid ∧ r.id ∈ new) ∧
      (fin.regs.Nodup → (∀ x, x ∈ itemIds rest → x ∈ st.regs) → ∀ r, r ∈ tail → r.id ∉ itemIds rest) := by
  intro fin
  have hfin : fin = (Impl.loop sc sid fuel (invoke sc sid st it rest ls.exc).1
      (Impl.react ls (invoke sc sid st it rest ls.exc).2)).1 := by
    show (Impl.loop sc sid (fuel + 1) st ls).1 = _
    rw [loop_succ_cons sc sid fuel st ls it rest heq]
  obtain ⟨hmoved, hn, n1, e1, s1⟩ := invoke_popAll sc sid st it rest ls.exc hs post hacts
  obtain ⟨tail, n2, hl, hr, hran⟩ := loop_ran_from sc sid fuel (invoke sc sid st it rest ls.exc).1
    (Impl.react ls (invoke sc sid st it rest ls.exc).2)
  have hmem : ∀ r, r ∈ tail → r.sid = sid ∧ r.id ∈ n1 ++ n2 := by
    intro r hr'
    obtain ⟨h1, h2⟩ := hran r hr'
    refine ⟨h1, ?_⟩
    rcases h2 with h2 | h2
    · exact List.mem_append_left _ (s1 _ h2)
    · exact List.mem_append_right _ h2
  have hregs : fin.regs = st.regs ++ (n1 ++ n2) := by rw [hfin, hr, e1, List.append_assoc]
  refine ⟨?_, tail, n1 ++ n2, ?_, hregs, hmem, ?_⟩
  · rw [hfin, loop_frame sc sid st.nstacks (by omega) fuel _ _ hn, hmoved]
  · rw [hfin, hl, invoke_log]; simp
  · intro hnd hknown r hr' hin
    rw [hregs] at hnd
    exact (List.nodup_append.mp hnd).2.2 _ (hknown _ hin) _ (hmem r hr').2 rfl

/-! Example: exit 2 (top of stack 0 of `st3`) calls `pop_all` first thing: the hypotheses hold, with
    `rest` = exits 1, 0; they end up on stack 1 and nothing else runs on stack 0. -/
example : (0 < st3.nstacks) ∧ st3.stacks 0 = ⟨2, false⟩ :: [⟨1, false⟩, ⟨0, false⟩] ∧
    (scPopTop.beh 2 ((⟨2, false⟩ : Item).handed (some 5))).1 = .popAll :: [] := by decide
example : (Impl.loop scPopTop 0 7 st3 ⟨some 5, false, false⟩).1.stacks 1 = [⟨1, false⟩, ⟨0, false⟩] ∧
    (Impl.loop scPopTop 0 7 st3 ⟨some 5, false, false⟩).1.log = [⟨2, 0, false, some 5⟩] := by decide

/-- ... and the moved entries run when the moved stack `m` is closed.  If they do not touch their
    stack themselves, `aclose()` of the moved stack is the old machine's `__aexit__` (hence, by
    `C14_nested`, literally nested `async with`) over exactly these entries with nothing in
    flight: they run in reverse registration order (`moved` is written right end first), each
    exactly once, during the unwind of `m`; each is handed what `nested` says — the exception a
    sibling on the moved stack raised, if any — and if none of them raises, each is handed `none`
    and `aclose()` returns normally.  The original stack is not involved. -/
theorem C14_reentrant_popall_moved_run_at_close (sc : Script) (st : St) (m : Nat) (moved : List Item)
    (hm : st.stacks m = moved) (hq : ∀ it, it ∈ moved → ∀ h, (sc.beh it.id h).1 = []) :
    let entries := moved.reverse.map (entryOf sc)
    ∃ recs, Impl.unwind sc st m .normal =
        { st.setStack m [] with
          log := st.log ++ recs
          outs := st.outs ++ [⟨m, (nested entries .normal).1, (st.log ++ recs).length⟩] } ∧
      recs.map (·.id) = itemIds moved ∧ (∀ r, r ∈ recs → r.sid = m) ∧
      recs.map Rec.pair = (nested entries .normal).2 ∧
      ((∀ it, it ∈ moved → ∀ e, it.resp (sc.beh it.id none).2 ≠ .raise e) →
        recs = moved.map (fun it => ⟨it.id, m, it.cb, none⟩) ∧ (nested entries .normal).1 = .normal) := by
  intro entries
  subst hm
  have hx : nested entries .normal = (_, _) :=
    (C14_nested entries .normal) ▸ implExit_quiet sc m (st.stacks m) .normal
  refine ⟨quietRecs sc m (st.stacks m) ⟨Outcome.normal.exc, false, false⟩, ?_,
    quietRecs_ids sc m (st.stacks m) _, quietRecs_sid sc m (st.stacks m) _, ?_, ?_⟩
  · rw [unwind_quiet sc st m .normal hq, hx]
  · rw [hx]
  · intro hnr
    obtain ⟨a, b, c⟩ := quiet_none sc m (st.stacks m) hnr ⟨Outcome.normal.exc, false, false⟩ rfl rfl
    refine ⟨a, ?_⟩
    rw [hx]
    simp [Impl.outcome, c]

/-! Example: the moved stack 1 of the previous example holds exits 1, 0, which do not act and do not
    raise: closing it runs 1 then 0, each handed `none`. -/
example : ∀ it, it ∈ [(⟨1, false⟩ : Item), ⟨0, false⟩] → ∀ h, (scPopTop.beh it.id h).1 = [] := by
  intro it hit h
  simp only [List.mem_cons, List.not_mem_nil, or_false] at hit
  rcases hit with rfl | rfl <;> rfl
example : (Impl.unwind scPopTop (Impl.unwind scPopTop st3 0 (.raises 5)) 1 .normal).log =
    [⟨2, 0, false, some 5⟩, ⟨1, 1, false, none⟩, ⟨0, 1, false, none⟩] := by decide

/-- An exit pushed during the unwind is the next one to run on that stack and receives the
    exception then in flight.  Exit `it` is popped from stack `sid` while `ls.exc` is in flight and
    its last stack action is `stack.push(new)` (the budget of late registrations not being
    exhausted).  Then the very next exit invocation of the loop is `new`, during the unwind of the
    same stack, and it is handed the exception in flight after `it` answered: what `it` raised,
    nothing if `it` suppressed, otherwise what `it` was handed. -/
theorem C14_reentrant_pushed_runs_next (sc : Script) (sid fuel : Nat) (st : St) (ls : Impl.Loop)
    (it : Item) (rest : List Item) (heq : st.stacks sid = it :: rest)
    (pre : List Act) (new : Nat)
    (hacts : (sc.beh it.id (it.handed ls.exc)).1 = pre ++ [.push new]) (hbud : pre.length < st.budget) :
    ∃ tail, (Impl.loop sc sid (fuel + 2) st ls).1.log =
      st.log ++ [⟨it.id, sid, it.cb, it.handed ls.exc⟩,
                 ⟨new, sid, false, (Impl.react ls (it.resp (sc.beh it.id (it.handed ls.exc)).2)).exc⟩]
        ++ tail :=
  loop_runs_registered_next sc sid fuel st ls it rest heq pre (.push new) ⟨new, false⟩ rfl hacts hbud

/-! Example: exit 2 pushes exit 102 and suppresses 5: 102 runs next, on stack 0, handed `none`. -/
example : st3.stacks 0 = ⟨2, false⟩ :: [⟨1, false⟩, ⟨0, false⟩] ∧
    (scPush.beh 2 ((⟨2, false⟩ : Item).handed (some 5))).1 = [] ++ [.push 102] ∧
    ([] : List Act).length < st3.budget := by decide
example : (Impl.loop scPush 0 2 st3 ⟨some 5, false, false⟩).1.log =
    [⟨2, 0, false, some 5⟩, ⟨102, 0, false, none⟩] := by decide

/-- The same for `stack.callback(fn, ...)` from inside an exit: the late callback is the next one
    to run on that stack (and, being a callback, is handed nothing). -/
theorem C14_reentrant_callback_runs_next (sc : Script) (sid fuel : Nat) (st : St) (ls : Impl.Loop)
    (it : Item) (rest : List Item) (heq : st.stacks sid = it :: rest)
    (pre : List Act) (new : Nat)
    (hacts : (sc.beh it.id (it.handed ls.exc)).1 = pre ++ [.callback new]) (hbud : pre.length < st.budget) :
    ∃ tail, (Impl.loop sc sid (fuel + 2) st ls).1.log =
      st.log ++ [⟨it.id, sid, it.cb, it.handed ls.exc⟩, ⟨new, sid, true, none⟩] ++ tail :=
  loop_runs_registered_next sc sid fuel st ls it rest heq pre (.callback new) ⟨new, true⟩ rfl hacts hbud

/-! Example: exit 2 registers callback 202 and raises 402: the callback runs next, exit 1 then gets 402. -/
example : (scCb.beh 2 ((⟨2, false⟩ : Item).handed none)).1 = [] ++ [.callback 202] := by decide
example : (Impl.loop scCb 0 3 st3 ⟨none, false, false⟩).1.log =
    [⟨2, 0, false, none⟩, ⟨202, 0, true, none⟩, ⟨1, 0, false, some 402⟩] := by decide

/-- On exits without stack actions the new machine is the old one: unwinding a stack whose
    entries only answer is `implExit` (= `nested`, by `C14_nested`) of `Machines/ExitStack.lean` on
    the corresponding entries in registration order — same outcome, same (entry, handed) log —
    and touches nothing but that stack, which it empties.  So `C14_nested`, `C14_order`, … carry
    over to the re-entrant machine. -/
theorem C14_reentrant_conservative (sc : Script) (st : St) (sid : Nat) (body : Outcome)
    (hq : ∀ it, it ∈ st.stacks sid → ∀ h, (sc.beh it.id h).1 = []) :
    let entries := (st.deque sid).map (entryOf sc)
    ∃ recs, Impl.unwind sc st sid body =
        { st.setStack sid [] with
          log := st.log ++ recs
          outs := st.outs ++ [⟨sid, (implExit entries body).1, (st.log ++ recs).length⟩] } ∧
      recs.map Rec.pair = (implExit entries body).2 ∧ (∀ r, r ∈ recs → r.sid = sid) ∧
      implExit entries body = nested entries body := by
  intro entries
  have hx : implExit entries body = (_, _) := implExit_quiet sc sid (st.stacks sid) body
  refine ⟨quietRecs sc sid (st.stacks sid) ⟨body.exc, false, false⟩, ?_, ?_,
    quietRecs_sid sc sid (st.stacks sid) _, C14_nested ..⟩
  · rw [unwind_quiet sc st sid body hq, hx]
  · rw [hx]

/-! Example: in `scNone` only exit 7 would act; the stack of `st3` does not hold it. -/
example : ∀ it, it ∈ st3.stacks 0 → ∀ h, (scNone.beh it.id h).1 = [] := by
  intro it hit h
  have : it ∈ [(⟨2, false⟩ : Item), ⟨1, false⟩, ⟨0, false⟩] := hit
  simp only [List.mem_cons, List.not_mem_nil, or_false] at this
  rcases this with rfl | rfl | rfl <;> rfl
example : (Impl.unwind scNone st3 0 (.raises 5)).log =
    [⟨2, 0, false, some 5⟩, ⟨1, 0, false, some 5⟩, ⟨0, 0, false, some 5⟩] ∧
    (implExit ((st3.deque 0).map (entryOf scNone)) (.raises 5)).2 = [(2, some 5), (1, some 5), (0, some 5)] := by
  decide

/-- A script none of whose exits ever acts on a stack: `C14_reentrant_conservative` applies to every
    stack in every state. -/
theorem C14_reentrant_conservative_script (sc : Script) (hsc : ∀ id h, (sc.beh id h).1 = [])
    (st : St) (sid : Nat) (body : Outcome) :
    (Impl.unwind sc st sid body).outs =
      st.outs ++ [⟨sid, (nested ((st.deque sid).map (entryOf sc)) body).1,
                   (Impl.unwind sc st sid body).log.length⟩] ∧
    (Impl.unwind sc st sid body).log.map Rec.pair =
      st.log.map Rec.pair ++ (nested ((st.deque sid).map (entryOf sc)) body).2 := by
  obtain ⟨recs, h1, h2, _, h4⟩ := C14_reentrant_conservative sc st sid body (fun it _ h => hsc it.id h)
  rw [h1, ← h4]
  exact ⟨rfl, by simp [h2]⟩

/-! Example: a script in which no exit ever acts. -/
example : ∀ id h, ((⟨fun _ _ => ([], .truthy)⟩ : Script).beh id h).1 = [] := fun _ _ => rfl

end AsyncVerif.ExitStackRe
