import AsyncVerif.Proofs.BorrowSend
/-!
# C07 (asend / athrow forwarding) — a borrowed iterator can never close its underlying iterator

Property theorems only.  Model: `Machines/BorrowSend.lean` (`pullU`/`sendU`/`throwU`/`closeU` = the
underlying iterator and the log of every call that reaches it; `Handle.send`/`Handle.throw` = where a
handle's `asend`/`athrow` slots point; `step` = one of `next h | asend h v | athrow h e | close h |
scopeExit h | borrow t | scope t`).  All theorems quantify over every state `s` — every underlying
iterator (async generator or class-based, every subset of asend/athrow/aclose, any items, any set of
exceptions it handles, any status), every handle table — and every finite operation sequence.
-/
namespace AsyncVerif.BorrowSend
open AsyncVerif.Borrow (Val ExcId Kind SendTgt)

/-- No operation on any handle — pulling, `asend` of any value, `athrow` of any exception, closing,
    re-borrowing, opening scopes, leaving inner scopes — ever makes an `aclose()` call reach the
    underlying iterator, except leaving a `scoped_iter` scope that was opened on the underlying
    iterator itself (the outermost scope, which owns it): the number of `closed` entries in the
    underlying iterator's log grows by exactly the number of such owner's scope exits in the run.
    In particular a run without any scope exit, and any single operation that is not an owner's
    scope exit, add none. -/
theorem C07_send_never_closes_underlying (s : State) (ops : List Op) :
    (exec s ops).u.log.count .closed = s.u.log.count .closed + ownerExits s ops
    ∧ ((∀ op ∈ ops, ∀ x, op ≠ .scopeExit x) →
        (exec s ops).u.log.count .closed = s.u.log.count .closed)
    ∧ (∀ op, ownerExit s op = false →
        (step s op).1.u.log.count .closed = s.u.log.count .closed) := by
  refine ⟨exec_closed ops s, ?_, ?_⟩
  · intro h
    rw [exec_closed, ownerExits_zero ops h s]; rfl
  · intro op h
    rw [(step_spec s op).closed, h]; rfl

/-- a handle whose `asend` / `athrow` slots do not point to the underlying iterator: once so, for
    ever so — whatever is done afterwards, `asend` / `athrow` on it change nothing at all (in
    particular log nothing on the underlying iterator) and answer as a closed wrapper generator
    does (StopAsyncIteration resp. `None`), or the method does not exist -/
theorem C07_dead_slot_stays_dead (s : State) (h : Nat) (hd : Handle) (hh : s.hs[h]? = some hd)
    (ops : List Op) :
    let s' := exec s ops
    (hd.send ≠ .direct → ∀ v,
        step s' (.asend h v) = (s', .res .stop) ∨ step s' (.asend h v) = (s', .noattr))
    ∧ (hd.throw ≠ .direct → ∀ e,
        step s' (.athrow h e) = (s', .res .nothing) ∨ step s' (.athrow h e) = (s', .noattr)) := by
  intro s'
  obtain ⟨hd', e', l⟩ := (exec_mono ops s).2 h hd hh
  constructor
  · intro hs v
    cases hs' : hd.send with
    | direct => exact absurd hs' hs
    | dead => left; simp [step, s', e', l.sendDead hs']
    | absent => right; simp [step, s', e', l.sendAbsent hs']
  · intro hs e
    cases hs' : hd.throw with
    | direct => exact absurd hs' hs
    | dead => left; simp [step, s', e', l.throwDead hs']
    | absent => right; simp [step, s', e', l.throwAbsent hs']

/-- A closed handle is inert for `asend` and `athrow`: after `_aclose_wrapper` reached handle `h`
    (by its own `aclose()`, by leaving its scope, or by leaving a scope opened on it) and after any
    further operations whatsoever, `h.asend(v)` and `h.athrow(e)` — any value, any exception —
    leave the whole state as it is, so nothing is logged on the underlying iterator and nothing is
    delivered, and they answer as the dead wrapper does: StopAsyncIteration resp. returning `None`
    (the exception is swallowed), or AttributeError if the handle never had the method.

    What "closed by an ancestor's closing" means for `asend`/`athrow`:
    `C07_closed_handle_send_inert_descendants_partial`. -/
theorem C07_closed_handle_send_inert (s : State) (h : Nat) (hd : Handle) (hh : s.hs[h]? = some hd)
    (cl : Op) (hc : ClosesHandle s h hd cl) (ops : List Op) :
    let s' := exec (step s cl).1 ops
    (∀ v, step s' (.asend h v) = (s', .res .stop) ∨ step s' (.asend h v) = (s', .noattr))
    ∧ (∀ e, step s' (.athrow h e) = (s', .res .nothing) ∨ step s' (.athrow h e) = (s', .noattr)) := by
  intro s'
  have h1 := closesHandle_slots s h hd hh cl hc
  have h2 := C07_dead_slot_stays_dead (step s cl).1 h (closeWrapper hd) h1 ops
  exact ⟨h2.1 (by simp only [closeWrapper, deaden]; cases hd.send <;> simp),
         h2.2 (by simp only [closeWrapper, deaden]; cases hd.throw <;> simp)⟩

/-- Descendants of a closed handle — the part that holds: every handle made from `h` (by `borrow`
    or `scoped_iter`, directly or through further handles made from those) AFTER `h`'s slots stopped
    pointing to the underlying iterator inherits slots that do not point there either, and is inert
    for `asend`/`athrow` for ever, like `h` itself.
    What is missing for the full claim "closed by an ancestor's closing": a descendant made BEFORE
    the ancestor was closed keeps its own `asend`/`athrow` bound to the underlying iterator — the
    real code never re-binds them — so it still reaches it; see `C07_send_outlives_ancestor_close`. -/
theorem C07_closed_handle_send_inert_descendants_partial (s : State) (h : Nat) (hd : Handle)
    (hh : s.hs[h]? = some hd) (ops : List Op) (k : Kind) :
    let s' := exec s ops
    (hd.send ≠ .direct → (newHandle s' (some h) k).send ≠ .direct)
    ∧ (hd.throw ≠ .direct → (newHandle s' (some h) k).throw ≠ .direct) := by
  intro s'
  obtain ⟨hd', e', l⟩ := (exec_mono ops s).2 h hd hh
  constructor
  · intro hs
    cases hs' : hd.send with
    | direct => exact absurd hs' hs
    | dead => simp [newHandle, sendOf, s', e', l.sendDead hs']
    | absent => simp [newHandle, sendOf, s', e', l.sendAbsent hs']
  · intro hs
    cases hs' : hd.throw with
    | direct => exact absurd hs' hs
    | dead => simp [newHandle, throwOf, s', e', l.throwDead hs']
    | absent => simp [newHandle, throwOf, s', e', l.throwAbsent hs']

/-- On a handle whose slot points to the underlying iterator (a live handle of an iterator that has
    the method), `h.asend(v)` / `h.athrow(e)` is exactly the underlying iterator's own
    `asend(v)` / `athrow(e)`: the call is logged there exactly once (the log grows by the single
    entry `sent v` resp. `thrown e`), the answer is the underlying iterator's answer, and nothing
    else changes (no wrapper generator is involved: the handle table stays as it is). -/
theorem C07_live_handle_send_reaches_underlying (s : State) (h : Nat) (hd : Handle)
    (hh : s.hs[h]? = some hd) :
    (hd.send = .direct → ∀ v,
        step s (.asend h v) = ({ s with u := (sendU v s.u).1 }, .res (sendU v s.u).2)
        ∧ (sendU v s.u).1.log = s.u.log ++ [.sent v])
    ∧ (hd.throw = .direct → ∀ e,
        step s (.athrow h e) = ({ s with u := (throwU e s.u).1 }, .res (throwU e s.u).2)
        ∧ (throwU e s.u).1.log = s.u.log ++ [.thrown e]) := by
  constructor
  · intro hs v
    exact ⟨by simp [step, hh, hs], sendU_log v s.u⟩
  · intro hs e
    exact ⟨by simp [step, hh, hs], throwU_log e s.u⟩

/-- A handle stays live for `asend`/`athrow` as long as nobody closes IT: over any run in which no
    `aclose()` is aimed at `h`, and no scope that `h` belongs to or that was opened on `h` is left
    (`untouched`) — whatever else happens, including closing its ancestors, exhausting its wrapper,
    throwing exceptions into the underlying iterator — its `asend`/`athrow` slots are what they
    were; so if they pointed to the underlying iterator they still do, and
    `C07_live_handle_send_reaches_underlying` applies after the run. -/
theorem C07_untouched_handle_stays_live (s : State) (h : Nat) (hd : Handle) (hh : s.hs[h]? = some hd)
    (ops : List Op) (hu : untouched h s ops = true) :
    ∃ hd', (exec s ops).hs[h]? = some hd' ∧ hd'.send = hd.send ∧ hd'.throw = hd.throw := by
  have h1 := exec_slots ops s h hd hh hu
  cases h2 : (exec s ops).hs[h]? with
  | none => rw [h2] at h1; cases h1
  | some hd' =>
    rw [h2] at h1
    have e : slots hd' = slots hd := by simpa using h1
    simp only [slots, Prod.mk.injEq] at e
    exact ⟨hd', rfl, e.1, e.2⟩

/-- A handle made directly from the underlying iterator (or from a handle whose slots point to
    it) is live in the sense of `C07_live_handle_send_reaches_underlying`: its slots point to the
    underlying iterator exactly when that has the method. -/
theorem C07_new_handle_slots (s : State) (k : Kind) :
    (newHandle s none k).send = (if s.u.hasSend then .direct else .absent)
    ∧ (newHandle s none k).throw = (if s.u.hasThrow then .direct else .absent)
    ∧ ∀ p pd, s.hs[p]? = some pd →
        (newHandle s (some p) k).send = pd.send ∧ (newHandle s (some p) k).throw = pd.throw := by
  refine ⟨rfl, rfl, ?_⟩
  intro p pd hp
  simp [newHandle, sendOf, throwOf, hp]

/-- Items leave the underlying iterator exactly once and in order, each as the answer of the very
    operation that made it yield — `next`, `asend` or a caught `athrow`, through whichever handle:
    the items not yet yielded before the run are the items delivered during the run followed by
    the items not yet yielded afterwards (so what is delivered is a prefix of the underlying
    sequence, nothing is lost, duplicated or reordered). -/
theorem C07_send_items_once_in_order (s : State) (ops : List Op) :
    s.u.rest = delivered (outs s ops) ++ (exec s ops).u.rest :=
  exec_items ops s

/-! ## Examples (non-vacuity) -/

/-- an async generator with six items that handles exception 7 -/
private def g0 : U :=
  { gen := true, hasSend := true, hasThrow := true, hasClose := true, catches := [7],
    rest := [1, 2, 3, 4, 5, 6], status := .fresh, log := [] }

/-- borrow, `asend(5)` to the unstarted generator (TypeError), pull, re-borrow, scope over the
    re-borrowed handle, `asend(10)` and a caught `athrow(7)` through the scoped handle, close handle 0,
    use it, use handle 1 (made before), borrow handle 0 again (made after), leave the scope -/
private def prog0 : List Op :=
  [.borrow none, .asend 0 (some 5), .next 0, .borrow (some 0), .scope (some 1), .asend 2 (some 10),
   .athrow 2 7, .close 0, .asend 0 (some 11), .athrow 0 8, .asend 1 (some 12), .next 1,
   .borrow (some 0), .asend 3 (some 13), .scopeExit 2, .asend 1 (some 15)]

example : outs (init g0) prog0
    = [.handle 0, .res .typeError, .res (.item 1), .handle 1, .handle 2, .res (.item 2), .res (.item 3),
       .ok, .res .stop, .res .nothing, .res (.item 4), .res .stop, .handle 3, .res .stop, .ok,
       .res .stop] := by decide
example : (exec (init g0) prog0).u.log
    = [.sent (some 5), .pull, .sent (some 10), .thrown 7, .sent (some 12)] := by decide
-- C07_send_never_closes_underlying: an inner scope exit is not an owner's exit
example : ownerExits (init g0) prog0 = 0 ∧ (exec (init g0) prog0).u.log.count .closed = 0 := by decide
-- ... and the outermost one is
example : ownerExits (init g0) [.scope none, .scope (some 0), .asend 1 none, .scopeExit 1, .scopeExit 0] = 1
    ∧ (exec (init g0) [.scope none, .scope (some 0), .asend 1 none, .scopeExit 1, .scopeExit 0]).u.log
        = [.sent none, .closed] := by decide
-- C07_closed_handle_send_inert: the three ways of closing
example : ClosesHandle (exec (init g0) [.borrow none]) 0
    { parent := none, kind := .borrowed, wopen := true, send := .direct, throw := .direct } (.close 0) :=
  Or.inl ⟨rfl, rfl⟩
example : (exec (init g0) [.borrow none]).hs[0]?
    = some { parent := none, kind := .borrowed, wopen := true, send := .direct, throw := .direct } := by decide
example : ClosesHandle (exec (init g0) [.borrow none, .scope (some 0)]) 0
    { parent := none, kind := .borrowed, wopen := true, send := .direct, throw := .direct } (.scopeExit 1) :=
  Or.inr (Or.inr ⟨1, { parent := some 0, kind := .scoped, wopen := true, send := .direct, throw := .direct },
    rfl, by decide, rfl, rfl, rfl⟩)
-- C07_live_handle_send_reaches_underlying: a thrown exception that is not handled ends the generator
-- (the owner's choice), and is logged once
example : outs (init g0) [.borrow none, .next 0, .athrow 0 3, .next 0, .athrow 0 3]
    = [.handle 0, .res (.item 1), .res (.raised 3), .res .stop, .res .nothing]
    ∧ (exec (init g0) [.borrow none, .next 0, .athrow 0 3, .next 0, .athrow 0 3]).u.log
      = [.pull, .thrown 3, .pull, .thrown 3] := by decide
-- C07_untouched_handle_stays_live: handle 1 is never aimed at, though its parent is closed
example : untouched 1 (exec (init g0) [.borrow none, .borrow (some 0)])
    [.next 1, .close 0, .next 1, .athrow 1 3, .scope (some 0), .scopeExit 2] = true
    ∧ (exec (init g0) [.borrow none, .borrow (some 0)]).hs[1]?
      = some { parent := some 0, kind := .borrowed, wopen := true, send := .direct, throw := .direct } := by
  decide
-- C07_send_items_once_in_order
example : delivered (outs (init g0) prog0) = [1, 2, 3, 4] ∧ (exec (init g0) prog0).u.rest = [5, 6] := by
  decide

/-- a class-based iterator with `athrow` and `aclose` but no `asend` -/
private def o0 : U :=
  { gen := false, hasSend := false, hasThrow := true, hasClose := true, catches := [],
    rest := [1, 2], status := .fresh, log := [] }

example : outs (init o0) [.borrow none, .asend 0 none, .athrow 0 4, .close 0, .athrow 0 4, .asend 0 none]
    = [.handle 0, .noattr, .res (.raised 4), .ok, .res .nothing, .noattr]
    ∧ (exec (init o0) [.borrow none, .asend 0 none, .athrow 0 4, .close 0, .athrow 0 4, .asend 0 none]).u.log
      = [.thrown 4] := by decide

/-- Not claimed, because the real code does not do it (confirmed on the real objects, see the
    correspondence script): closing a handle does not disable `asend`/`athrow` of handles that were
    borrowed from it BEFORE — handle 1 below still reaches the underlying iterator after handle 0,
    its parent, was closed (its `__anext__` does not: that goes through the parent's wrapper). -/
theorem C07_send_outlives_ancestor_close :
    outs (init g0) [.borrow none, .borrow (some 0), .next 1, .close 0, .next 1, .asend 1 (some 9), .athrow 1 7]
      = [.handle 0, .handle 1, .res (.item 1), .ok, .res .stop, .res (.item 2), .res (.item 3)]
    ∧ (exec (init g0) [.borrow none, .borrow (some 0), .next 1, .close 0, .next 1, .asend 1 (some 9),
        .athrow 1 7]).u.log = [.pull, .sent (some 9), .thrown 7] := by decide

end AsyncVerif.BorrowSend
