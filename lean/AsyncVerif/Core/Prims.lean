import AsyncVerif.Core.Basic
/-!
# Derived combinators shared by the tool models (`async for`, value helpers)
-/
namespace AsyncVerif

/-- `async for x in it: body x`; `body` returns `true` to continue, `false` for `break` -/
def forEach (s : Nat) (body : Val → M Bool) : Nat → M Unit
  | 0 => raise .outOfFuel
  | fuel+1 => do
    match ← pull s with
    | none => pure ()
    | some x => do
      if (← body x) then forEach s body fuel else pure ()

/-- Python `==` on the value domain: objects and numbers compare by key, tuples elementwise -/
def Val.pyEq : Val → Val → Bool
  | .tup a, .tup b => pyEqList a b
  | .none, .none => true
  | .fill, .fill => true
  | a, b => match a.key?, b.key? with
    | some x, some y => x == y
    | _, _ => false
where pyEqList : List Val → List Val → Bool
  | [], [] => true
  | x :: xs, y :: ys => Val.pyEq x y && pyEqList xs ys
  | _, _ => false

/-- Python `<` : defined on objects/numbers (by key); anything else is unorderable (`TypeError`) -/
def Val.lt (a b : Val) : Except Exc Bool :=
  match a.key?, b.key? with
  | some x, some y => .ok (decide (x < y))
  | _, _ => .error .typeError

/-- Python `+` as used by `sum` / default `accumulate`: numbers only -/
def Val.add (a b : Val) : Except Exc Val :=
  match a, b with
  | .int x, .int y => .ok (.int (x + y))
  | .int x, .bool y => .ok (.int (x + if y then 1 else 0))
  | .bool x, .int y => .ok (.int ((if x then 1 else 0) + y))
  | .bool x, .bool y => .ok (.int ((if x then 1 else 0) + (if y then 1 else 0)))
  | _, _ => .error .typeError

def liftExc {α : Type} (r : Except Exc α) : M α := fun w =>
  match r with
  | .ok a => (.ok a, w)
  | .error e => (.error e, w)

/-- `function(*args)` for `starmap`: the item must be a tuple -/
def Val.asArgs : Val → Except Exc (List Val)
  | .tup vs => .ok vs
  | _ => .error .typeError

/-- optional user predicate: `None` means plain truthiness (no user callable is invoked) -/
def test (fn : Option Nat) (x : Val) : M Bool :=
  match fn with
  | some f => do pure (← call f [x]).truthy
  | none => pure x.truthy

end AsyncVerif
