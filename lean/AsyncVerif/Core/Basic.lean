/-!
# S1 core: values, exceptions, events, the scripted world, the monad and its primitives

Everything a tool can do to its environment goes through the primitives of this file
(`pull`, `closeSrc`, `call`, `yieldV`, `raise`, `tryFinally`, `tryCatchStop`).
No Mathlib; this file is compiled into the driver.
-/
namespace AsyncVerif

/-- what flows through the tools -/
inductive Val where
  | obj (id : Nat) (key : Int)     -- user item: identity `id`; ordering/equality/truthiness by `key`
  | int (n : Int)
  | bool (b : Bool)
  | none
  | fill                           -- a distinguished fillvalue object
  | tup (vs : List Val)            -- tuples built by zip/batched/pairwise/enumerate, or by user functions
  | lst (vs : List Val)            -- a list returned by an aggregation
  deriving Repr

mutual
def Val.beq : Val → Val → Bool
  | .obj i k, .obj j l => i == j && k == l
  | .int n, .int m => n == m
  | .bool a, .bool b => a == b
  | .none, .none => true
  | .fill, .fill => true
  | .tup a, .tup b => Val.beqList a b
  | .lst a, .lst b => Val.beqList a b
  | _, _ => false
def Val.beqList : List Val → List Val → Bool
  | [], [] => true
  | x :: xs, y :: ys => Val.beq x y && Val.beqList xs ys
  | _, _ => false
end

instance : BEq Val := ⟨Val.beq⟩

/-- Python truthiness -/
def Val.truthy : Val → Bool
  | .obj _ k => k != 0
  | .int n => n != 0
  | .bool b => b
  | .none => false
  | .fill => true
  | .tup vs => !vs.isEmpty
  | .lst vs => !vs.isEmpty

/-- the ordering/equality key of a value, when it has one (objects and numbers) -/
def Val.key? : Val → Option Int
  | .obj _ k => some k
  | .int n => some n
  | .bool b => some (if b then 1 else 0)
  | _ => Option.none

inductive Exc where
  | user (id : Nat)          -- injected fault / cancellation: identity = id
  | typeError | valueError | runtimeError      -- raised by library code
  | stop                     -- StopAsyncIteration
  | genExit                  -- the consumer closed the generator at a yield
  | ignoredExit              -- "async generator ignored GeneratorExit"
  | outOfFuel                -- model artefact; never observed (see theorems)
  deriving DecidableEq, Repr

inductive Ev where
  | pull (s : Nat) | item (s : Nat) (v : Val) | endd (s : Nat) | srcErr (s : Nat) (e : Nat)
  | call (f : Nat) (args : List Val) | ret (f : Nat) (v : Val) | callErr (f : Nat) (e : Nat)
  | yld (v : Val) | closed | thrown (e : Nat)
  | close (s : Nat)
  deriving Repr

/-- one scripted reply of a source -/
inductive Resp where
  | item (v : Val) | err (e : Nat)
  deriving Repr

inductive Status where
  | fresh | running | exhausted | failed | closed
  deriving DecidableEq, Repr

def Status.live : Status → Bool
  | .fresh | .running => true
  | _ => false

/-- flavours of iterable arguments -/
inductive SrcKind where
  | list | seq | iter          -- synchronous: wrapped by `_aiter_sync`
  | agen                       -- async generator
  | aobj                       -- class-based async iterator with `aclose`
  | aobjNc                     -- class-based async iterator without `aclose`
  deriving DecidableEq, Repr

def SrcKind.isSync : SrcKind → Bool
  | .list | .seq | .iter => true
  | _ => false

/-- does user code run (and is it therefore observable) when an already finished source is polled? -/
def SrcKind.repollVisible : SrcKind → Bool
  | .aobj | .aobjNc => true
  | _ => false

structure Src where
  kind : SrcKind
  script : List Resp
  status : Status := .fresh
  closes : Nat := 0
  deriving Repr

inductive Final where
  | exhaust | close | throw (e : Nat)
  deriving DecidableEq, Repr

/-- the consumer of a generator tool: take `steps` items, then exhaust / `aclose()` / `athrow(e)` -/
inductive Cons where
  | run (steps : Nat) (fin : Final) | done
  deriving DecidableEq, Repr

/-- behaviour of a user callable: invocation number → arguments → result or injected fault -/
abbrev FnBeh := Nat → List Val → Except Nat Val

structure World where
  srcs : Nat → Src
  fns : Nat → FnBeh
  calls : Nat → Nat
  cons : Cons
  vis : List Ev      -- pulls, items, ends, calls, returns, yields, consumer actions
  rel : List Ev      -- resource events (closes)

def World.pushVis (w : World) (ev : Ev) : World := { w with vis := w.vis ++ [ev] }
def World.pushRel (w : World) (ev : Ev) : World := { w with rel := w.rel ++ [ev] }
def World.setSrc (w : World) (s : Nat) (x : Src) : World :=
  { w with srcs := fun i => if i = s then x else w.srcs i }

def M (α : Type) := World → (Except Exc α × World)

instance : Monad M where
  pure a := fun w => (.ok a, w)
  bind m f := fun w => match m w with
    | (.ok a, w') => f a w'
    | (.error e, w') => (.error e, w')

def raise {α : Type} (e : Exc) : M α := fun w => (.error e, w)

/-- `try: body finally: fin` — an exception raised by `fin` replaces the one in flight -/
def tryFinally {α : Type} (body : M α) (fin : M Unit) : M α := fun w =>
  match body w with
  | (.ok a, w') => match fin w' with
      | (.ok _, w'') => (.ok a, w'')
      | (.error e, w'') => (.error e, w'')
  | (.error .outOfFuel, w') => (.error .outOfFuel, w')
  | (.error e, w') => match fin w' with
      | (.ok _, w'') => (.error e, w'')
      | (.error e2, w'') => (.error e2, w'')

/-- `try: body except StopAsyncIteration: handler` -/
def tryCatchStop {α : Type} (body : M α) (handler : M α) : M α := fun w =>
  match body w with
  | (.error .stop, w') => handler w'
  | r => r

/-- `await it.__anext__()` under `async for` / `anext(it, default)`: `none` = StopAsyncIteration -/
def pull (s : Nat) : M (Option Val) := fun w =>
  let src := w.srcs s
  if src.status.live then
    let w1 := w.pushVis (.pull s)
    match src.script with
    | .item v :: rest =>
      (.ok (some v), (w1.setSrc s { src with script := rest, status := .running }).pushVis (.item s v))
    | .err e :: rest =>
      (.error (.user e),
        (w1.setSrc s { src with script := rest,
                                status := if src.kind.repollVisible then .running else .failed }).pushVis (.srcErr s e))
    | [] => (.ok none, (w1.setSrc s { src with status := .exhausted }).pushVis (.endd s))
  else if src.kind.repollVisible then
    (.ok none, (w.pushVis (.pull s)).pushVis (.endd s))
  else (.ok none, w)

/-- `await anext(it)` outside `async for`: exhaustion is `StopAsyncIteration` -/
def anext (s : Nat) : M Val := do
  match ← pull s with
  | some v => pure v
  | none => raise .stop

/-- `aclose()` of an iterator obtained with `aiter(x)` (guarded by `AttributeError`/`ACloseable`) -/
def closeSrc (s : Nat) : M Unit := fun w =>
  let src := w.srcs s
  match src.kind with
  | .aobj => (.ok (), (w.setSrc s { src with status := .closed, closes := src.closes + 1 }).pushRel (.close s))
  | .aobjNc => (.ok (), w)
  | .agen =>
    match src.status with
    | .running => (.ok (), (w.setSrc s { src with status := .closed, closes := src.closes + 1 }).pushRel (.close s))
    | .fresh => (.ok (), w.setSrc s { src with status := .closed })
    | _ => (.ok (), w)
  | _ => -- synchronous kinds: only the `_aiter_sync` wrapper is closed, the user object sees nothing
    if src.status.live then (.ok (), w.setSrc s { src with status := .closed }) else (.ok (), w)

/-- `async with ScopedIter(x) as it: body` -/
def scopedIter {α : Type} (s : Nat) (body : M α) : M α := tryFinally body (closeSrc s)

/-- `await awaitify(f)(*args)` -/
def call (f : Nat) (args : List Val) : M Val := fun w =>
  let n := w.calls f
  let w1 := { w with calls := fun i => if i = f then n + 1 else w.calls i, vis := w.vis ++ [Ev.call f args] }
  match w.fns f n args with
  | .ok v => (.ok v, w1.pushVis (.ret f v))
  | .error e => (.error (.user e), w1.pushVis (.callErr f e))

/-- `yield v` in the outermost library generator: hand `v` to the consumer -/
def yieldV (v : Val) : M Unit := fun w =>
  let w1 := w.pushVis (.yld v)
  match w.cons with
  | .run (n+1) f => (.ok (), { w1 with cons := .run n f })
  | .run 0 .exhaust => (.ok (), w1)
  | .run 0 .close => (.error .genExit, { w1 with cons := .done }.pushVis .closed)
  | .run 0 (.throw e) => (.error (.user e), { w1 with cons := .done }.pushVis (.thrown e))
  | .done => (.error .ignoredExit, w1)

/-- a generator body: the code with `yield` abstracted (continuation-passing style) -/
abbrev Gen := (Val → M Unit) → M Unit

/-- close every iterator of a list, in order (`for it in iters: await it.aclose()`) -/
def closeAll : List Nat → M Unit
  | [] => pure ()
  | s :: rest => do closeSrc s; closeAll rest

/-- how the run of a tool ended, as its consumer sees it -/
inductive Outcome where
  | returned (v : Val)         -- awaitable completed with a value
  | exhausted                  -- generator ran to its end (StopAsyncIteration)
  | closedOk                   -- consumer closed it, GeneratorExit propagated
  | raised (e : Exc)
  deriving Repr

def outcomeGen : Except Exc Unit → Outcome
  | .ok _ => .exhausted
  | .error .genExit => .closedOk
  | .error e => .raised e

def outcomeVal : Except Exc Val → Outcome
  | .ok v => .returned v
  | .error e => .raised e

end AsyncVerif
