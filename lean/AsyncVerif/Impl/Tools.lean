import AsyncVerif.Std.Tools
/-!
# Models of asyncstdlib's iterator tools (builtins.py, itertools.py)

One definition per Python function, same control flow.  Where asyncstdlib's loop body is
literally the CPython algorithm wrapped in `async with ScopedIter(...)`, the model reuses the
twin's loop and adds the scoping — which is exactly what the source does.
-/
namespace AsyncVerif.Impl

open AsyncVerif

/-- `builtins.filter` -/
def filter (fn : Option Nat) (s : Nat) (fuel : Nat) : M Unit :=
  scopedIter s (Std.filterLoop fn false s fuel)

/-- `itertools.filterfalse` (`predicate=None` → `bool`, not a user callable) -/
def filterfalse (fn : Option Nat) (s : Nat) (fuel : Nat) : M Unit :=
  scopedIter s (Std.filterLoop fn true s fuel)

/-- `builtins.enumerate` -/
def enumerate (s : Nat) (start : Int) (fuel : Nat) : M Unit :=
  scopedIter s (Std.enumerateLoop s start fuel)

/-- `itertools.takewhile` -/
def takewhile (f : Nat) (s : Nat) (fuel : Nat) : M Unit :=
  scopedIter s (Std.takewhileLoop f s fuel)

/-- first loop of `itertools.dropwhile`: `some fuel'` = left by `break` after yielding the first kept
    item (with the fuel that is left), `none` = the iterable is exhausted (`else: return`) -/
def dropPhase (f : Nat) (s : Nat) : Nat → M (Option Nat)
  | 0 => raise .outOfFuel
  | fuel+1 => do
    match ← pull s with
    | none => pure none
    | some x =>
      if (← call f [x]).truthy then dropPhase f s fuel
      else do yieldV x; pure (some fuel)

/-- `itertools.dropwhile`: two loops over the same iterator -/
def dropwhile (f : Nat) (s : Nat) (fuel : Nat) : M Unit :=
  scopedIter s do
    match ← dropPhase f s fuel with
    | some rest => forEach s (fun x => do yieldV x; pure true) rest
    | none => pure ()

/-- `itertools.starmap` -/
def starmap (f : Nat) (s : Nat) (fuel : Nat) : M Unit :=
  scopedIter s (Std.starmapLoop f s fuel)

/-- `itertools.accumulate` -/
def accumulate (fn : Option Nat) (initial : Option Val) (s : Nat) (fuel : Nat) : M Unit :=
  scopedIter s (Std.accumulate fn initial s fuel)

/-- `itertools.batched` -/
def batched (n : Nat) (strict : Bool) (s : Nat) (fuel : Nat) : M Unit :=
  if n < 1 then raise .valueError else scopedIter s (Std.batchedLoop n strict s fuel)

/-- `chain._chain_iterator`: every inner iterable in its own `ScopedIter` -/
def chainIter : List Nat → Nat → M Unit
  | [], _ => pure ()
  | s :: rest, fuel => do
    scopedIter s (forEach s (fun x => do yieldV x; pure true) fuel)
    chainIter rest fuel

/-- `chain._owned_iterators`: an argument that is an async iterator with `aclose` is closed -/
def closeIfOwned (s : Nat) : M Unit := fun w =>
  if (w.srcs s).kind = .agen ∨ (w.srcs s).kind = .aobj then closeSrc s w else (.ok (), w)

def closeOwned : List Nat → M Unit
  | [] => pure ()
  | s :: rest => do closeIfOwned s; closeOwned rest

/-- the `chain` handle: advancing delegates to `_chain_iterator`; the consumer's `aclose()` also
    closes every owned iterator, started or not -/
def chain (srcs : List Nat) (fuel : Nat) : M Unit := fun w =>
  match chainIter srcs fuel w with
  | (.error .genExit, w') =>
    match closeOwned srcs w' with
    | (.ok _, w'') => (.error .genExit, w'')
    | (.error e, w'') => (.error e, w'')
  | r => r

/-- `itertools.compress`: two scopes around an (unscoped) `zip` of both iterators -/
def compress (d sel : Nat) (fuel : Nat) : M Unit :=
  scopedIter d (scopedIter sel
    (tryFinally
      (Std.zipLoop [d, sel] (fun row =>
        match row with
        | [x, k] => if k.truthy then yieldV x else pure ()
        | _ => pure ()) fuel)
      (closeAll [d, sel])))

/-- `itertools.cycle` -/
def cycle (s : Nat) (fuel : Nat) : M Unit := do
  let buf ← scopedIter s (Std.cycleFirst s [] fuel)
  Std.replay buf [] fuel

/-- indexed loop of `itertools.islice`; `lim` = index at which to return -/
def idxLoop (s : Nat) (step : Nat) (lim : Option Nat) : Nat → Nat → M Unit
  | _, 0 => raise .outOfFuel
  | idx, fuel+1 => do
    match ← pull s with
    | none => pure ()
    | some x => do
      if idx % step == 0 then yieldV x
      if (match lim with | some l => decide (l ≤ idx) | none => false) then pure ()
      else idxLoop s step lim (idx + 1) fuel

/-- `itertools.islice` (valid parameters: `step ≥ 1`) -/
def islice (s : Nat) (start : Nat) (stop : Option Nat) (step : Nat) (fuel : Nat) : M Unit :=
  scopedIter s do
    -- always consume the first `start` items, even if the slice is empty
    let ok ← if start > 0 then (do let r ← Std.skipTo s start 0; pure r.2) else pure true
    if !ok then pure ()
    else match stop with
      | none => idxLoop s step none 0 fuel
      | some st => if st ≤ start then pure () else idxLoop s step (some (st - start - 1)) 0 fuel

/-- `itertools.pairwise` -/
def pairwise (s : Nat) (fuel : Nat) : M Unit :=
  scopedIter s (Std.pairwise s fuel)

/-- `builtins.zip` -/
def zip (srcs : List Nat) (fuel : Nat) : M Unit :=
  if srcs.isEmpty then pure ()
  else tryFinally (Std.zipLoop srcs (fun row => yieldV (.tup row)) fuel) (closeAll srcs)

/-- `builtins.zip(strict=True)` -/
def zipStrict (srcs : List Nat) (fuel : Nat) : M Unit :=
  if srcs.isEmpty then pure ()
  else tryFinally (Std.zipStrictLoop srcs fuel) (closeAll srcs)

/-- `builtins.map`: a `ScopedIter` around `zip(*iterables)`, whose `finally` closes the sources -/
def map (f : Nat) (srcs : List Nat) (fuel : Nat) : M Unit :=
  if srcs.isEmpty then pure ()
  else tryFinally (Std.zipLoop srcs (fun row => do yieldV (← call f row)) fuel) (closeAll srcs)

/-- `itertools.zip_longest` -/
def zipLongest (fillv : Val) (srcs : List Nat) (fuel : Nat) : M Unit :=
  if srcs.isEmpty then pure ()
  else tryFinally (Std.zipLongestLoop fillv (srcs.map (·, true)) srcs.length fuel) (closeAll srcs)

/-- `builtins.iter(callable, sentinel)` -/
def iterSentinel (f : Nat) (sentinel : Val) (fuel : Nat) : M Unit :=
  Std.iterSentinel f sentinel fuel

/-- `builtins.all` / `builtins.any` -/
def all (s : Nat) (fuel : Nat) : M Val := scopedIter s (Std.allLoop s fuel)
def any (s : Nat) (fuel : Nat) : M Val := scopedIter s (Std.anyLoop s fuel)

end AsyncVerif.Impl
