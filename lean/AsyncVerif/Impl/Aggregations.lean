import AsyncVerif.Std.Aggregations
import AsyncVerif.Std.Select
/-!
# Models of asyncstdlib's aggregations (builtins.py, functools.py, heapq.py) and `heapq.merge`
-/
namespace AsyncVerif.Impl

open AsyncVerif

/-- `builtins.sum` (a `str`/`bytes` start is rejected before anything is touched; not in the value domain) -/
def sum (start : Option Val) (s : Nat) (fuel : Nat) : M Val :=
  scopedIter s (Std.sumLoop s (start.getD (.int 0)) fuel)

/-- `builtins.min` / `builtins.max` (`_min_max`) -/
def minmax (fn : Option Nat) (isMax : Bool) (default : Option Val) (s : Nat) (fuel : Nat) : M Val :=
  scopedIter s (Std.minmax fn isMax default s fuel)

/-- `functools.reduce` -/
def reduce (f : Nat) (initial : Option Val) (s : Nat) (fuel : Nat) : M Val :=
  scopedIter s (Std.reduce f initial s fuel)

/-- `builtins.list` / `builtins.tuple` -/
def list (s : Nat) (fuel : Nat) : M Val := scopedIter s (do pure (.lst (← Std.collectAll s [] fuel)))
def tuple (s : Nat) (fuel : Nat) : M Val := scopedIter s (do pure (.tup (← Std.collectAll s [] fuel)))

/-- `builtins.set` / `builtins.dict` (without keyword arguments): a comprehension inside the scope -/
def set (s : Nat) (fuel : Nat) : M Val := scopedIter s (Std.set s fuel)
def dict (s : Nat) (fuel : Nat) : M Val := scopedIter s (Std.dict s fuel)

/-- `builtins.sorted`: items (and keys) are collected inside the scope, sorted outside -/
def sorted (fn : Option Nat) (reverse : Bool) (s : Nat) (fuel : Nat) : M Val := do
  let keyed ← scopedIter s (Std.collectKeyed fn s [] fuel)
  let r ← liftExc (Std.sortKeyed reverse keyed)
  pure (.lst r)

/-- `heapq.nlargest` / `heapq.nsmallest` (`_largest`): the bounded heap inside the scope; keys of `nsmallest` are
    wrapped in `ReverseLT`, stamps count downwards in both directions (`order_sign = -1`) -/
def nBest (largest : Bool) (n : Nat) (fn : Option Nat) (s : Nat) (fuel : Nat) : M Val :=
  scopedIter s (Std.nBestAlgo ⟨largest, false⟩ n fn s fuel)

/-- `heapq.merge`: every iterator is owned from the start and closed in `finally` -/
def merge (fn : Option Nat) (reverse : Bool) (srcs : List Nat) (fuel : Nat) : M Unit :=
  tryFinally (Std.merge fn reverse srcs fuel) (closeAll srcs)

/-- `builtins.dict(iterable=(), /, **kwargs)`: `base_dict = {key: value async for key, value in item_iter}` inside the
    scope; after the scope is left `if kwargs: base_dict.update(kwargs)`; `return base_dict` -/
def dictKw (kw : List (Val × Val)) (s : Nat) (fuel : Nat) : M Val := do
  let base ← scopedIter s (Std.dictLoop s [] fuel)
  let base ← if kw.isEmpty then pure base else Std.dictUpdateKw base kw
  pure (Std.dictVal base)

end AsyncVerif.Impl
