import Driver.Util
import AsyncVerif.Machines.BorrowSend
/-!
# driver for `Machines/BorrowSend.lean` — command `"m": "borrowsend"`

Request (one JSON object per line):
* `"m": "borrowsend"`
* `"u"`: the underlying iterator —
  `{"gen": bool, "send": bool, "throw": bool, "close": bool, "catches": [nat, ...], "items": [nat, ...]}`
  (`gen = true`: async generator, the three capability flags are then all true)
* `"ops"`: list of operations, each a JSON array
  - `["next", h]`            `await anext(h)`
  - `["asend", h, v]`        `await h.asend(v)`; `v` = null (None) or a nat
  - `["athrow", h, e]`       `await h.athrow(E(e))`
  - `["close", h]`           `await h.aclose()`
  - `["exit", h]`            `__aexit__` of the `scoped_iter` context whose handle is `h`
  - `["borrow", t]`          `borrow(t)`; `t` = null (the underlying iterator) or a handle id
  - `["scope", t]`           `await scoped_iter(t).__aenter__()`
  Handle ids are assigned in order of creation, starting at 0.

Reply:
* `"outs"`: one entry per op: `["item", v]`, `"stop"`, `["raised", e]`, `"none"`, `"typeerror"`,
  `"stuck"`, `"ok"`, `"noattr"`, `["handle", id]`, `"nullctx"`, `"invalid"`
* `"underlying_log"`: every call that reached the underlying iterator, in order:
  `"pull"`, `["sent", v|null]`, `["thrown", e]`, `"closed"`
* `"alive"`: per handle `[wrapper_open, asend_slot, athrow_slot]`, slots being `"absent"`, `"direct"`, `"dead"`
* `"closed_count"`, `"owner_exits"`: number of `closed` entries of the log / of scope exits of a scope
  opened on the underlying iterator itself (the quantities `C07_send_never_closes_underlying` equates)
* `"rest"`: items the underlying iterator has not yielded yet
-/
open Lean AsyncVerif.BorrowSend
open AsyncVerif.Borrow (SendTgt)

namespace Drv.BorrowSend

def optValJson : Option Nat → Json
  | none => .null
  | some n => toJson n

def evJson : UEv → Json
  | .pull => "pull"
  | .sent v => Json.arr #["sent", optValJson v]
  | .thrown e => Json.arr #["thrown", toJson e]
  | .closed => "closed"

def resJson : Res → Json
  | .item v => Json.arr #["item", toJson v]
  | .stop => "stop"
  | .raised e => Json.arr #["raised", toJson e]
  | .nothing => "none"
  | .typeError => "typeerror"
  | .stuck => "stuck"

def outJson : Out → Json
  | .res r => resJson r
  | .ok => "ok"
  | .noattr => "noattr"
  | .handle h => Json.arr #["handle", toJson h]
  | .nullctx => "nullctx"
  | .invalid => "invalid"

def tgtJson : SendTgt → Json
  | .absent => "absent" | .direct => "direct" | .dead => "dead"

def parseOp (j : Json) : Except String Op := do
  let a ← j.getArr?
  let tag ← (← arrGet a 0).getStr?
  match tag with
  | "next" => pure (.next (← (← arrGet a 1).getNat?))
  | "asend" => pure (.asend (← (← arrGet a 1).getNat?) (← getOptNat (← arrGet a 2)))
  | "athrow" => pure (.athrow (← (← arrGet a 1).getNat?) (← (← arrGet a 2).getNat?))
  | "close" => pure (.close (← (← arrGet a 1).getNat?))
  | "exit" => pure (.scopeExit (← (← arrGet a 1).getNat?))
  | "borrow" => pure (.borrow (← getOptNat (← arrGet a 1)))
  | "scope" => pure (.scope (← getOptNat (← arrGet a 1)))
  | t => throw s!"bad op {t}"

def run (j : Json) : Except String Json := do
  let uj ← j.getObjVal? "u"
  let items ← (← getArr uj "items").toList.mapM (·.getNat?)
  let catches ← (← getArr uj "catches").toList.mapM (·.getNat?)
  let u : U := { gen := ← getBool uj "gen", hasSend := ← getBool uj "send", hasThrow := ← getBool uj "throw",
                 hasClose := ← getBool uj "close", catches := catches, rest := items,
                 status := .fresh, log := [] }
  let ops ← (← getArr j "ops").toList.mapM parseOp
  let s := exec (init u) ops
  pure (Json.mkObj [
    ("outs", Json.arr ((outs (init u) ops).toArray.map outJson)),
    ("underlying_log", Json.arr (s.u.log.toArray.map evJson)),
    ("alive", Json.arr (s.hs.toArray.map fun hd =>
        Json.arr #[toJson hd.wopen, tgtJson hd.send, tgtJson hd.throw])),
    ("closed_count", toJson (s.u.log.count .closed)),
    ("owner_exits", toJson (ownerExits (init u) ops)),
    ("rest", toJson s.u.rest)])

end Drv.BorrowSend
