import Driver.Util
import Driver.CachedProperty
import AsyncVerif.Machines.CachedPropertyHandoff
open Lean AsyncVerif.CachedProperty AsyncVerif.CachedPropertyHandoff

/-! Driver for `Machines/CachedPropertyHandoff.lean`: the request of `Driver/CachedProperty.lean`
    (`lock`, `susp`, `ok`, `ninst`, `mode`, `ops`, `drain`) plus `"handoff": h` (suspensions of the
    lock's `__aexit__` after it released; default 0) and optionally `"late": true` (the mutant that
    stores after the release; default false).  The answer has the shape of the plain driver's; a
    task suspended inside `__aexit__` reports `["handoff"]`. -/
namespace Drv.CachedPropertyHandoff

def houtJson : HOut → Json
  | .base o => Drv.CachedProperty.outJson o
  | .handoff => Json.arr #["handoff"]

/-- state projection after every op, as in the plain driver (lock flags: "1" = held — a lock whose
    holder is suspended inside `__aexit__` is free already) -/
def snap (ninst : Nat) (s : HState) (o : HOut) (op : Op) : Json :=
  Json.arr #[Drv.CachedProperty.opJson op, houtJson o,
    Json.arr ((List.range ninst).toArray.map fun i => Drv.CachedProperty.slotJson (s.base.slot i)),
    Json.str (String.join ((List.range s.base.nextP).map fun p => if (s.base.lock p).isSome then "1" else "0")),
    Json.str (String.join ((List.range s.base.nRuns).map fun r =>
      toString (s.base.run r).inst ++ Drv.CachedProperty.runStChar (s.base.run r).st))]

def trace (hc : HCfg) (ninst : Nat) : HState → List Op → HState × List Json
  | s, [] => (s, [])
  | s, op :: ops =>
    let (s1, o) := hstep hc s op
    let (s2, l) := trace hc ninst s1 ops
    (s2, snap ninst s1 o op :: l)

/-- finished AND out of `__aexit__` -/
def isDone (s : HState) (t : Nat) : Bool :=
  match s.unl t, s.base.pc t with
  | none, .done _ => true
  | _, _ => false

/-- round-robin drain (driver-level convenience, not part of the machine), as in the plain driver -/
def drain (hc : HCfg) (ninst : Nat) : Nat → HState → List Json
  | 0, _ => []
  | n + 1, s =>
    let todo := (List.range s.base.nTasks).filter fun t => !isDone s t
    if todo.isEmpty then [] else
    let (s1, l) := todo.foldl (fun (acc : HState × List Json) t =>
      if isDone acc.1 t then acc else
      let (s', o) := hstep hc acc.1 (.sched t)
      (s', snap ninst s' o (.sched t) :: acc.2)) (s, [])
    l.reverse ++ drain hc ninst n s1

/-- sequential histories (driver-level): an await is driven until the task has finished -/
def driveTask (hc : HCfg) : Nat → HState → Nat → HState × SOut
  | 0, s, _ => (s, .noop)
  | n + 1, s, t =>
    match hstep hc s (.sched t) with
    | (s1, .base (.ret v)) => (s1, .ret v)
    | (s1, .base (.raised r)) => (s1, .raised r)
    | (s1, .base .noop) => (s1, .noop)
    | (s1, .base .stuck) => (s1, .noop)
    | (s1, _) => driveTask hc n s1 t

def seqStep (hc : HCfg) (budget : Nat) (s : HState) : SOp → HState × SOut
  | .await i => driveTask hc budget (hstep hc s (.spawn i)).1 s.base.nTasks
  | .take i => ((hstep hc s (.spawn i)).1, .taken)
  | .awaitTaken t =>
    match s.unl t, s.base.pc t with
    | none, .start _ => driveTask hc budget s t
    | _, _ => (s, .noop)
  | .del i =>
    match hstep hc s (.del i) with
    | (s1, .base .deleted) => (s1, .deleted)
    | (s1, _) => (s1, .attrError)

def seqOuts (hc : HCfg) (budget : Nat) : HState → List SOp → List SOut
  | _, [] => []
  | s, op :: ops => (seqStep hc budget s op).2 :: seqOuts hc budget (seqStep hc budget s op).1 ops

def run (j : Json) : Except String Json := do
  let lock ← getBool j "lock"
  let susp ← (← getArr j "susp").toList.mapM fun x => x.getNat?
  let ok ← (← getArr j "ok").toList.mapM fun x => x.getBool?
  let ninst := natOr j "ninst" 2
  let cfg : Cfg := { lock := lock, susp := fun r => susp.getD r 0, ok := fun r => ok.getD r true }
  let hc : HCfg := { cfg := cfg, handoff := natOr j "handoff" 0, lateStore := boolOr j "late" false }
  let mode ← getStr j "mode"
  if mode == "seq" then
    let ops ← (← getArr j "ops").toList.mapM Drv.CachedProperty.parseSOp
    let budget := susp.foldl max 0 + 2 * hc.handoff + 4
    pure (Json.mkObj [("impl", Json.arr ((seqOuts hc budget HState.init ops).toArray.map Drv.CachedProperty.soutJson)),
                      ("spec", Json.arr ((specOuts cfg Spec.init ops).toArray.map Drv.CachedProperty.soutJson))])
  else
    let ops ← (← getArr j "ops").toList.mapM Drv.CachedProperty.parseOp
    let (s1, l) := trace hc ninst HState.init ops
    let l2 := drain hc ninst (natOr j "drain" 0) s1
    pure (Json.mkObj [("trace", Json.arr (l ++ l2).toArray)])

end Drv.CachedPropertyHandoff
