import Driver.Util
import AsyncVerif.Machines.ExitStackEnter
open Lean AsyncVerif.ExitStackEnter
open AsyncVerif.ExitStack (ExitResp Outcome)

/-!
Driver for `Machines/ExitStackEnter.lean`.

request  `{"m":"exitstackenter","managers":[{"flavour":"async"|"sync"|"callback","enterSusp":n,
           "enter":"ok"|["ok",v]|["raises",e],"exitSusp":n,"exit":"false"|"true"|["raises",e]}...],
           "bodySusp":n,"body":"ok"|["raises",e],"ops":[["s"]|["x",e]...]}`
answer   `{"impl":{"log":[...],"outs":[...]},"nested":{"log":[...],"outs":[...]}}`

`log`:  `["enter",i]`, `["entered",i,v]`, `["pushed",i]`, `["exit",i,e|null]`.
`outs`: one entry for starting the task, then one per op:
        `["susp","enter",i]`, `["susp","body"]`, `["susp","exit",i]`, `["done",null|e]`, `"dead"`.
-/
namespace Drv.ExitStackEnter

/-- `"tag"` or `["tag", n]` -/
def tagged (j : Json) : Except String (String × Option Nat) :=
  match j with
  | .str s => pure (s, none)
  | _ => do
    let a ← j.getArr?
    let t ← (← arrGet a 0).getStr?
    match a[1]? with
    | some v => pure (t, some (← v.getNat?))
    | none => pure (t, none)

def parseMgr (j : Json) : Except String Mgr := do
  let fl ← (do
    match ← getStr j "flavour" with
    | "async" => pure Flavour.async
    | "sync" => pure Flavour.sync
    | "callback" => pure Flavour.callback
    | s => throw s!"bad flavour {s}")
  let en ← (do
    match j.getObjVal? "enter" with
    | .error _ => pure (EnterRes.ok 0)
    | .ok v =>
      match ← tagged v with
      | ("ok", v) => pure (EnterRes.ok (v.getD 0))
      | ("raises", some e) => pure (EnterRes.raises e)
      | (t, _) => throw s!"bad enter {t}")
  let ex ← (do
    match ← tagged (← j.getObjVal? "exit") with
    | ("false", _) => pure ExitResp.falsy
    | ("true", _) => pure ExitResp.truthy
    | ("raises", some e) => pure (ExitResp.raise e)
    | (t, _) => throw s!"bad exit {t}")
  pure { flavour := fl, enterSusp := natOr j "enterSusp" 0, enter := en,
         exitSusp := natOr j "exitSusp" 0, exit := ex }

def parseOp (j : Json) : Except String Op := do
  match ← tagged j with
  | ("s", _) => pure .send
  | ("x", some e) => pure (.throw e)
  | (t, _) => throw s!"bad op {t}"

def outcomeJson : Outcome → Json
  | .normal => .null
  | .raises e => toJson e

def evJson : Ev → Json
  | .enter i => Json.arr #[Json.str "enter", toJson i]
  | .entered i v => Json.arr #[Json.str "entered", toJson i, toJson v]
  | .pushed i => Json.arr #[Json.str "pushed", toJson i]
  | .exit i h => Json.arr #[Json.str "exit", toJson i, optNatJson h]

def outJson : Out → Json
  | .susp (.enter i) => Json.arr #[Json.str "susp", Json.str "enter", toJson i]
  | .susp .body => Json.arr #[Json.str "susp", Json.str "body"]
  | .susp (.exit i) => Json.arr #[Json.str "susp", Json.str "exit", toJson i]
  | .finished o => Json.arr #[Json.str "done", outcomeJson o]
  | .dead => Json.str "dead"

def sideJson (log : List Ev) (outs : List Out) : Json :=
  Json.mkObj [("log", Json.arr (log.toArray.map evJson)), ("outs", Json.arr (outs.toArray.map outJson))]

def run (j : Json) : Except String Json := do
  let mgrs ← (← getArr j "managers").toList.mapM parseMgr
  let body ← (do
    match ← tagged (← j.getObjVal? "body") with
    | ("ok", _) => pure Outcome.normal
    | ("raises", some e) => pure (Outcome.raises e)
    | (t, _) => throw s!"bad body {t}")
  let cfg : Cfg := { mgrs := mgrs, bodySusp := natOr j "bodySusp" 0, body := body }
  let ops ← (← getArr j "ops").toList.mapM parseOp
  let si := Impl.run cfg ops
  let sn := Nested.run cfg ops
  pure (Json.mkObj [("impl", sideJson si.log si.outs), ("nested", sideJson sn.log sn.outs)])

end Drv.ExitStackEnter
