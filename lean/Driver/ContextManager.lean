import Driver.Util
import AsyncVerif.Machines.ContextManager
open Lean AsyncVerif.ContextManager

namespace Drv.ContextManager

def kindOf (s : String) : Except String Kind :=
  match s with
  | "Exception" => pure .exception
  | "ValueError" => pure .valueError
  | "BaseExc" => pure .baseExc
  | "KeyboardInterrupt" => pure .keyboardInterrupt
  | "GeneratorExit" => pure .generatorExit
  | "StopIteration" => pure .stopIteration
  | "StopAsyncIteration" => pure .stopAsyncIteration
  | "RuntimeError" => pure .runtimeError
  | "RecursionError" => pure .recursionError
  | k => throw s!"bad kind {k}"

def kindName : Kind → String
  | .exception => "Exception"
  | .valueError => "ValueError"
  | .baseExc => "BaseExc"
  | .keyboardInterrupt => "KeyboardInterrupt"
  | .generatorExit => "GeneratorExit"
  | .stopIteration => "StopIteration"
  | .stopAsyncIteration => "StopAsyncIteration"
  | .runtimeError => "RuntimeError"
  | .recursionError => "RecursionError"

def libName : LibExc → String
  | .stopAsync => "stopAsync"
  | .closeGE => "closeGE"
  | .ignoredGE => "ignoredGE"
  | .didNotYield => "didNotYield"
  | .didNotStop => "didNotStop"
  | .didNotStopAfterThrow => "didNotStopAfterThrow"

def strAt (a : Array Json) (i : Nat) : Except String String := do (← arrGet a i).getStr?
def natAt (a : Array Json) (i : Nat) : Except String Nat := do (← arrGet a i).getNat?

/-- ["user", id, kind] | ["from", id, kind, cause] | ["promoted", cause] -/
partial def parseExc (j : Json) : Except String Exc := do
  let a ← j.getArr?
  match ← strAt a 0 with
  | "user" => pure (.user (← natAt a 1) (← kindOf (← strAt a 2)))
  | "from" => pure (.userFrom (← natAt a 1) (← kindOf (← strAt a 2)) (← parseExc (← arrGet a 3)))
  | "promoted" => pure (.promoted (← parseExc (← arrGet a 1)))
  | t => throw s!"bad exc {t}"

def excJson : Exc → Json
  | .user i k => Json.arr #["user", toJson i, kindName k]
  | .userFrom i k c => Json.arr #["from", toJson i, kindName k, excJson c]
  | .promoted c => Json.arr #["promoted", excJson c]
  | .lib l => Json.arr #["lib", libName l]

def parseStart (j : Json) : Except String Start := do
  let a ← j.getArr?
  match ← strAt a 0 with
  | "raise" => pure (.raises (← parseExc (← arrGet a 1)))
  | "noyield" => pure .noYield
  | "yield" => pure (.yields (← natAt a 1))
  | t => throw s!"bad start {t}"

def parseCatch (s : String) : Except String Catch :=
  match s with
  | "all" => pure .all
  | "exception" => pure .exception
  | "genexit" => pure .genExit
  | t => throw s!"bad catch {t}"

def parseAction (j : Json) : Except String Action := do
  let a ← j.getArr?
  match ← strAt a 0 with
  | "swallow" => pure .swallow
  | "reraise" => pure .reraise
  | "new" => pure (.raiseNew (← parseExc (← arrGet a 1)))
  | "from" => pure (.raiseFrom (← natAt a 1) (← kindOf (← strAt a 2)))
  | "sametype" => pure (.raiseSameType (← natAt a 1))
  | "return" => pure .return_
  | "yield" => pure (.yieldAgain (← natAt a 1))
  | t => throw s!"bad action {t}"

def parseHandler (j : Json) : Except String Handler := do
  let a ← j.getArr?
  match ← strAt a 0 with
  | "none" => pure .none
  | "finally" => pure .finally_
  | "handle" => pure (.handle (← parseCatch (← strAt a 1)) (← parseAction (← arrGet a 2)))
  | t => throw s!"bad handler {t}"

def parseGuard (j : Json) : Except String Guard := do
  let a ← j.getArr?
  match ← strAt a 0 with
  | "bare" => pure .bare
  | "finraise" => pure (.finallyRaise (← parseExc (← arrGet a 1)))
  | "swyield" => pure (.swallowYield (← natAt a 1))
  | "swstop" => pure .swallowStop
  | t => throw s!"bad guard {t}"

def parseAfter (j : Json) : Except String After := do
  let a ← j.getArr?
  match ← strAt a 0 with
  | "stop" => pure .stop
  | "yield" => pure (.yieldAgain (← natAt a 1) (← parseGuard (← arrGet a 2)))
  | "raise" => pure (.raises (← parseExc (← arrGet a 1)))
  | t => throw s!"bad after {t}"

def parseBlock (j : Json) : Except String Block := do
  match j with
  | .null => pure .normal
  | _ =>
    match ← parseExc j with
    | .user i k => pure (.raises i k)
    | .userFrom i k c => pure (.raisesFrom i k c)
    | _ => throw "block exception must be a user object"

def opJson : GenOp → Json
  | .anext => Json.arr #["anext"]
  | .athrow e => Json.arr #["athrow", excJson e]
  | .aclose => Json.arr #["aclose"]

def finalJson : Final → Json
  | .normal => Json.arr #["normal"]
  | .suppressed => Json.arr #["suppressed"]
  | .raises e => Json.arr #["raises", excJson e]

def obsJson (o : Obs) : Json :=
  Json.mkObj [("entered", optNatJson o.entered), ("final", finalJson o.final),
              ("ops", Json.arr (o.ops.toArray.map opJson))]

def exitJson : ExitRes → Json
  | .ret b => Json.arr #["ret", toJson b]
  | .raises e => Json.arr #["raises", excJson e]

def run (j : Json) : Except String Json := do
  let pj ← j.getObjVal? "prog"
  let p : Program := { start := ← parseStart (← pj.getObjVal? "start"),
                       handler := ← parseHandler (← pj.getObjVal? "handler"),
                       after := ← parseAfter (← pj.getObjVal? "after") }
  let b ← parseBlock (← j.getObjVal? "block")
  let g := p.gen
  -- the declarative reading, for entered generators (none otherwise)
  let decl : Json := match g with
    | .yield _ k => exitJson (Decl.aexit k b.exc)
    | _ => .null
  let implExit : Json := match g with
    | .yield _ k => exitJson (Impl.aexit k b.exc).1
    | _ => .null
  pure (Json.mkObj [("impl", obsJson (Impl.run g b)), ("std", obsJson (Std.run g b)),
                    ("decl", decl), ("implExit", implExit),
                    ("clean", toJson (secondYieldClean g b)), ("genexit", toJson b.isGenExit)])

end Drv.ContextManager
