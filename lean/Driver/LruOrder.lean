import Driver.Util
import Driver.Lru
import AsyncVerif.Machines.Lru
open Lean AsyncVerif.Lru

/-! Driver mode "lruorder": runs `cstep` over an explicit interleaving of `begin` / `finish` /
`clear` / `discard` / `info` steps and replies, after every step, with the step's output, the
counters and the cache content in ORDER (values oldest first, and the call patterns as sent). -/
namespace Drv.LruOrder

def parseCRes (j : Json) : Except String CRes := do
  let a ← j.getArr?
  let tag ← (← arrGet a 0).getStr?
  match tag with
  | "ok" => pure (.ok (← (← arrGet a 1).getNat?))
  | "fail" => pure (.fail (← (← arrGet a 1).getNat?))
  | "cancel" => pure .cancel
  | t => throw s!"bad cres {t}"

def parseCOp (j : Json) : Except String COp := do
  let a ← j.getArr?
  let tag ← (← arrGet a 0).getStr?
  match tag with
  | "begin" => pure (.begin (← (← arrGet a 1).getNat?) (← Drv.Lru.parsePattern (← arrGet a 2)))
  | "finish" => pure (.finish (← (← arrGet a 1).getNat?) (← parseCRes (← arrGet a 2)))
  | "clear" => pure .clear
  | "discard" => pure (.discard (← Drv.Lru.parsePattern (← arrGet a 1)))
  | "info" => pure .info
  | t => throw s!"bad cop {t}"

def coutJson : COut → Json
  | .hit v => Json.arr #["hit", toJson v]
  | .started => Json.arr #["started"]
  | .ret v => Json.arr #["ret", toJson v]
  | .raised e => Json.arr #["raised", toJson e]
  | .cancelled => Json.arr #["cancelled"]
  | .seq o => Drv.Lru.outJson o
  | .ignored => Json.arr #["ignored"]

def stepsOf (cfg : Cfg) : CSt → List COp → List (COut × CSt)
  | _, [] => []
  | s, op :: ops => ((cstep cfg s op).2, (cstep cfg s op).1) :: stepsOf cfg (cstep cfg s op).1 ops

def run (j : Json) : Except String Json := do
  let d ← Drv.Lru.parseDec (← j.getObjVal? "dec")
  let cfg := Impl.lruCache d
  let ops ← (← getArr j "ops").toList.mapM parseCOp
  let steps := stepsOf cfg CSt.init ops
  pure (Json.mkObj [
    ("steps", Json.arr (steps.toArray.map fun st => Json.mkObj [
      ("out", coutJson st.1),
      ("info", Drv.Lru.infoJson cfg st.2.core),
      ("vals", Json.arr (st.2.core.store.toArray.map fun e => toJson e.2)),
      ("inflight", Json.arr (st.2.inflight.toArray.map fun e => toJson e.1))]))])

end Drv.LruOrder
