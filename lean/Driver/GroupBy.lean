import Driver.Util
import AsyncVerif.Machines.GroupBy
open Lean AsyncVerif.GroupBy

namespace Drv.GroupBy

def outJson : Out → Json
  | .key k g => Json.arr #["key", toJson k, toJson g]
  | .item v => Json.arr #["item", toJson v]
  | .stop => Json.arr #["stop"]
  | .closed => Json.arr #["closed"]

def parseOp (j : Json) : Except String Op := do
  let a ← j.getArr?
  let tag ← (← arrGet a 0).getStr?
  match tag with
  | "adv" => pure .adv
  | "grp" => pure (.grpNext (← (← arrGet a 1).getNat?))
  | "cls" => pure (.grpClose (← (← arrGet a 1).getNat?))
  | t => throw s!"bad op {t}"

/-- number of source items still unread after each operation -/
def remaining (f : St → Op → St × Out) : St → List Op → List Nat
  | _, [] => []
  | s, op :: ops => (f s op).1.items.length :: remaining f (f s op).1 ops

def run (j : Json) : Except String Json := do
  let items ← (← getArr j "items").toList.mapM fun p => do
    let a ← p.getArr?
    pure ((← (← arrGet a 0).getNat?), (← (← arrGet a 1).getNat?))
  let ops ← (← getArr j "ops").toList.mapM parseOp
  let oi := AsyncVerif.GroupBy.run stepI (init items) ops
  let os := AsyncVerif.GroupBy.run stepS (init items) ops
  let ri := remaining stepI (init items) ops
  let rs := remaining stepS (init items) ops
  pure (Json.mkObj [("impl", Json.arr (oi.toArray.map outJson)), ("spec", Json.arr (os.toArray.map outJson)),
    ("impl_consumed", toJson (ri.map (items.length - ·))), ("spec_consumed", toJson (rs.map (items.length - ·))),
    ("runs", Json.arr ((runs items).toArray.map fun (k, vs) => Json.arr #[toJson k, toJson vs]))])

end Drv.GroupBy
