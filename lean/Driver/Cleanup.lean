import Driver.Util
import AsyncVerif.Machines.Cleanup
open Lean AsyncVerif.Cleanup

namespace Drv.Cleanup

/-- one behaviour: `"ok"` | `"none"` (no `aclose` attribute) | `["raises", n]` |
    `["interrupted", n]` -/
def parseBeh (j : Json) : Except String CloseBeh :=
  match j with
  | .str "ok" => pure .ok
  | .str "none" => pure .noAclose
  | .str s => throw s!"bad behaviour {s}"
  | _ => do
    let a ← j.getArr?
    let tag ← (← arrGet a 0).getStr?
    let e ← (← arrGet a 1).getNat?
    match tag with
    | "raises" => pure (.raises e)
    | "interrupted" => pure (.interrupted e)
    | t => throw s!"bad behaviour {t}"

def natsJson (l : List Nat) : Json := Json.arr (l.toArray.map fun n => toJson n)

/-- `{"log": [indices in order of invocation], "exc": null | n,
      "closes": [per index: number of aclose invocations],
      "closed": [per index: is the iterator closed afterwards]}` -/
def resJson (behs : List CloseBeh) (r : List Nat × Option ExcId) : Json :=
  Json.mkObj [("log", natsJson r.1), ("exc", optNatJson r.2),
              ("closes", natsJson (countsOf behs.length r.1)),
              ("closed", Json.arr ((closedAfter behs r.1).toArray.map fun b => Json.bool b))]

def run (j : Json) : Except String Json := do
  let behs ← (← getArr j "behs").toList.mapM parseBeh
  let inflight ← match j.getObjVal? "inflight" with
    | .ok v => getOptNat v
    | .error _ => pure none
  pure (Json.mkObj [
    ("robust", resJson behs (closeAllRobust behs)),
    ("flat", resJson behs (closeAllFlat behs)),
    ("nested", resJson behs (closeNested behs)),
    ("finally", optNatJson (finallyCloseAll inflight behs).2),
    ("finally_flat", optNatJson (finallyCloseFlat inflight behs).2),
    ("finally_nested", optNatJson (finallyNested inflight behs).2)])

end Drv.Cleanup
