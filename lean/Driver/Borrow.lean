import Driver.Util
import AsyncVerif.Machines.Borrow
open Lean AsyncVerif.Borrow

namespace Drv.Borrow

def tgtOf (j : Json) : Except String (Option Nat) := getOptNat j

def evJson : Ev → Json
  | .pull => "pull"
  | .send => "send"
  | .item v => Json.arr #["item", toJson v]
  | .end_ => "end"
  | .err e => Json.arr #["err", toJson e]
  | .close => "close"
  | .killed => "killed"

def resJson : Res → Json
  | .item v => Json.arr #["item", toJson v]
  | .stop => "stop"
  | .raised e => Json.arr #["raised", toJson e]
  | .cancelled => "cancelled"
  | .stuck => "stuck"

def outJson : Out → Json
  | .res r => resJson r
  | .ok => "ok"
  | .noattr => "noattr"
  | .handle h => Json.arr #["handle", toJson h]
  | .entered c h => Json.arr #["entered", toJson c, optNatJson h]
  | .invalid => "invalid"

def statusJson : Status → Json
  | .fresh => "fresh" | .live => "live" | .exhausted => "exhausted"
  | .failed => "failed" | .killed => "killed" | .closed => "closed"

def parseEntry (j : Json) : Except String Entry := do
  let a ← j.getArr?
  let tag ← (← arrGet a 0).getStr?
  let n ← (← arrGet a 1).getNat?
  match tag with
  | "i" => pure (.item n)
  | "f" => pure (.fail n)
  | t => throw s!"bad entry {t}"

def parseMode (j : Json) : Except String ExitMode := do
  match j with
  | .str "normal" => pure .normal
  | .str "cancel" => pure .cancel
  | v => do
    let a ← v.getArr?
    pure (.exc (← (← arrGet a 1).getNat?))

def parseOp (j : Json) : Except String TOp := do
  let a ← j.getArr?
  let tag ← (← arrGet a 0).getStr?
  match tag with
  | "next" => pure (.prim (.next (← tgtOf (← arrGet a 1))))
  | "ncancel" => pure (.prim (.nextCancel (← tgtOf (← arrGet a 1))))
  | "send" => pure (.prim (.send (← (← arrGet a 1).getNat?)))
  | "close" => pure (.prim (.close (← tgtOf (← arrGet a 1))))
  | "citer" => pure (.prim (.closeIter (← (← arrGet a 1).getNat?)))
  | "borrow" => pure (.prim (.borrow (← tgtOf (← arrGet a 1))))
  | "enter" => pure (.prim (.enter (← tgtOf (← arrGet a 1))))
  | "exit" => pure (.prim (.exit (← (← arrGet a 1).getNat?) (← parseMode (← arrGet a 2))))
  | "tool" =>
    pure (.tool (← tgtOf (← arrGet a 1)) (← (← arrGet a 2).getNat?) (← (← arrGet a 3).getBool?)
      (← (← arrGet a 4).getBool?))
  | t => throw s!"bad op {t}"

def handleJson (hd : Handle) : Json :=
  Json.mkObj [("parent", optNatJson hd.parent),
    ("kind", match hd.kind with | .borrowed => "borrowed" | .scoped => "scoped"),
    ("open", toJson hd.wopen),
    ("send", match hd.send with | .absent => "absent" | .direct => "direct" | .dead => "dead")]

def run (j : Json) : Except String Json := do
  let uj ← j.getObjVal? "u"
  let script ← (← getArr uj "script").toList.mapM parseEntry
  let u : U := { gen := ← getBool uj "gen", hasClose := ← getBool uj "close", hasSend := ← getBool uj "send",
                 rest := script, status := .fresh, log := [], closeReqs := 0 }
  let tops ← (← getArr j "ops").toList.mapM parseOp
  let mut s := init u
  let mut recs : Array Json := #[]
  for top in tops do
    let prims := top.expand
    let n := s.u.log.length
    let os := outs s prims
    s := exec s prims
    recs := recs.push (Json.mkObj [
      ("out", Json.arr (os.toArray.map outJson)),
      ("seg", Json.arr ((s.u.log.drop n).toArray.map evJson)),
      ("status", statusJson s.u.status),
      ("dead", toJson s.u.status.dead),
      ("closeReqs", toJson s.u.closeReqs)])
  -- the same run through `execT` (what the theorems speak about) must end in the same state
  let s' := execT (init u) tops
  pure (Json.mkObj [("ops", Json.arr recs),
    ("final", Json.mkObj [("closeReqs", toJson s.u.closeReqs), ("status", statusJson s.u.status),
       ("rest", toJson (itemsOf s.u.rest)), ("handles", Json.arr (s.hs.toArray.map handleJson)),
       ("consistent", toJson (decide (s' = s)))])])

end Drv.Borrow
