import Driver.Util
import AsyncVerif.Machines.CachedProperty
open Lean AsyncVerif.CachedProperty

namespace Drv.CachedProperty

def storedJson : Stored → Json
  | .ph p => Json.arr #["ph", toJson p]
  | .val v => Json.arr #["val", toJson v]

def slotJson : Option Stored → Json
  | none => Json.arr #["absent"]
  | some x => storedJson x

def outJson : Out → Json
  | .handle h => Json.arr #["handle", storedJson h]
  | .blocked => Json.arr #["blocked"]
  | .suspended r => Json.arr #["susp", toJson r]
  | .ret v => Json.arr #["ret", toJson v]
  | .raised r => Json.arr #["raised", toJson r]
  | .cancelled => Json.arr #["cancelled"]
  | .deleted => Json.arr #["deleted"]
  | .attrError => Json.arr #["attrerr"]
  | .noop => Json.arr #["noop"]
  | .stuck => Json.arr #["stuck"]

def soutJson : SOut → Json
  | .ret v => Json.arr #["ret", toJson v]
  | .raised r => Json.arr #["raised", toJson r]
  | .taken => Json.arr #["taken"]
  | .deleted => Json.arr #["deleted"]
  | .attrError => Json.arr #["attrerr"]
  | .noop => Json.arr #["noop"]

def opJson : Op → Json
  | .spawn i => Json.arr #["spawn", toJson i]
  | .respawn t => Json.arr #["respawn", toJson t]
  | .sched t => Json.arr #["sched", toJson t]
  | .cancel t => Json.arr #["cancel", toJson t]
  | .del i => Json.arr #["del", toJson i]

def parseOp (j : Json) : Except String Op := do
  let a ← j.getArr?
  let tag ← (← arrGet a 0).getStr?
  let n ← (← arrGet a 1).getNat?
  match tag with
  | "spawn" => pure (.spawn n)
  | "respawn" => pure (.respawn n)
  | "sched" => pure (.sched n)
  | "cancel" => pure (.cancel n)
  | "del" => pure (.del n)
  | t => throw s!"bad op {t}"

def parseSOp (j : Json) : Except String SOp := do
  let a ← j.getArr?
  let tag ← (← arrGet a 0).getStr?
  let n ← (← arrGet a 1).getNat?
  match tag with
  | "await" => pure (.await n)
  | "take" => pure (.take n)
  | "awaitTaken" => pure (.awaitTaken n)
  | "del" => pure (.del n)
  | t => throw s!"bad sop {t}"

def runStChar : RunSt → String
  | .running => "r" | .returned => "R" | .raised => "F" | .cancelled => "C"

/-- state projection after every op: slots of the first `ninst` instances, lock flags of all
    placeholders ("1" = held), and `<instance><status>` of every getter run started so far -/
def snap (ninst : Nat) (s : State) (o : Out) (op : Op) : Json :=
  Json.arr #[opJson op, outJson o,
    Json.arr ((List.range ninst).toArray.map fun i => slotJson (s.slot i)),
    Json.str (String.join ((List.range s.nextP).map fun p => if (s.lock p).isSome then "1" else "0")),
    Json.str (String.join ((List.range s.nRuns).map fun r => toString (s.run r).inst ++ runStChar (s.run r).st))]

def trace (cfg : Cfg) (ninst : Nat) : State → List Op → State × List Json
  | s, [] => (s, [])
  | s, op :: ops =>
    let (s1, o) := step cfg s op
    let (s2, l) := trace cfg ninst s1 ops
    (s2, snap ninst s1 o op :: l)

def isDone (s : State) (t : Nat) : Bool :=
  match s.pc t with
  | .done _ => true
  | _ => false

/-- round-robin drain (driver-level convenience, not part of the machine): in each round every
    unfinished task is scheduled once; stops when all tasks are finished or after `rounds` rounds -/
def drain (cfg : Cfg) (ninst : Nat) : Nat → State → List Json
  | 0, _ => []
  | n + 1, s =>
    let todo := (List.range s.nTasks).filter fun t => !isDone s t
    if todo.isEmpty then [] else
    let (s1, l) := todo.foldl (fun (acc : State × List Json) t =>
      if isDone acc.1 t then acc else
      let (s', o) := step cfg acc.1 (.sched t)
      (s', snap ninst s' o (.sched t) :: acc.2)) (s, [])
    l.reverse ++ drain cfg ninst n s1

def run (j : Json) : Except String Json := do
  let lock ← getBool j "lock"
  let susp ← (← getArr j "susp").toList.mapM fun x => x.getNat?
  let ok ← (← getArr j "ok").toList.mapM fun x => x.getBool?
  let ninst := natOr j "ninst" 2
  let cfg : Cfg := { lock := lock, susp := fun r => susp.getD r 0, ok := fun r => ok.getD r true }
  let mode ← getStr j "mode"
  if mode == "seq" then
    let ops ← (← getArr j "ops").toList.mapM parseSOp
    pure (Json.mkObj [("impl", Json.arr ((seqOuts cfg State.init ops).toArray.map soutJson)),
                      ("spec", Json.arr ((specOuts cfg Spec.init ops).toArray.map soutJson))])
  else
    let ops ← (← getArr j "ops").toList.mapM parseOp
    let (s1, l) := trace cfg ninst State.init ops
    let l2 := drain cfg ninst (natOr j "drain" 0) s1
    pure (Json.mkObj [("trace", Json.arr (l ++ l2).toArray)])

end Drv.CachedProperty
