import Driver.Util
import AsyncVerif.Machines.Awaitify
open Lean AsyncVerif.Awaitify

namespace Drv.Awaitify

def parseFlavour (s : String) : Except String Flavour :=
  match s with
  | "def" => pure .def_ | "async" => pure .asyncDef | "partial" => pure .partialAsync
  | "obj" => pure .obj | "objx" => pure .objx
  | f => throw s!"bad flavour {f}"

def resJson : Res → Json
  | .val v => Json.arr #["val", toJson v]
  | .exc e => Json.arr #["exc", toJson e]
  | .unawaited => Json.arr #["unawaited"]

/-- behaviours: ["ok", v] | ["fail", e] -/
def parseBeh (j : Json) : Except String (Except Nat Nat) := do
  let a ← j.getArr?
  let tag ← (← arrGet a 0).getStr?
  let n ← (← arrGet a 1).getNat?
  if tag == "ok" then pure (.ok n) else pure (.error n)

def run (j : Json) : Except String Json := do
  let fl ← parseFlavour (← getStr j "flavour")
  let behs ← (← getArr j "behs").toList.mapM parseBeh
  pure (Json.mkObj [("out", Json.arr ((AsyncVerif.Awaitify.run fl init behs).map resJson).toArray)])

end Drv.Awaitify
