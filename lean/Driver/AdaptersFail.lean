import Driver.Util
import Driver.Adapters
import AsyncVerif.Machines.AdaptersFail
open Lean AsyncVerif.AdaptersFail
open AsyncVerif.Adapters (Val Exc Res Kind)

/-! Line protocol for the asynctools adapters on the failure / early-end paths (C19, machine
`Machines/AdaptersFail.lean`): `{"m":"adaptersfail","t":"apply"|"await_each"|"any_iter"|"sync",…}`.

* exc   := `["user", e]` | `["lib", "TypeError"]`
* res   := `["ok", v]` | `["err", exc]`
* arg   := `["p", v]` (plain object) | `["a", k, res]` (awaitable: `k` suspensions, then `res`)
* cut   := `null` (every suspension is resumed) | `[n, c]` (resume `n` suspensions, throw exception `c` into the next)
* op    := `["n", cut]` (`__anext__()` driven under `cut`) | `["c"]` (`aclose()`)
* event := `["await", i]` | `["susp", i, j]` | `["call", [v…], [[k, v]…]]` | `["produced", i]` | `["awaitO"]` | `["suspO", j]`
* outcome of an awaited call := `["ok", v]` | `["raised", exc]` | `["thrown", c]`
* outcome of a generator operation := `["item", v]` | `["stop"]` | `["closed"]` | `["raised", exc]` | `["thrown", c]`

Requests and replies:

* `apply`:      `{"f": res, "args": [arg…], "kwargs": [[key, arg]…], "cut": cut}` → `{"log": [event…], "out": outcome}`
* `await_each`: `{"lazy": bool, "items": [arg…], "ops": [op…]}` → `{"steps": [[[event…], outcome]…]}` (one entry per op)
* `any_iter`:   `{"outer": null | [k, null | exc], "kind": "list"|"iter"|"aiter", "items": [arg…], "ops": [op…]}` → `{"steps": …}`
* `sync`:       `{"calls": [[ans, cut]…]}`, ans := `["p", v]` | `["r", exc]` | `["a", k, res]` → `{"steps": [[[event…], outcome]…]}`
  (call number `i` passes the single positional argument `i`)
-/
namespace Drv.AdaptersFail
open Drv.Adapters (excJson parseExc parseRes parseKind kwJson)

def evJson : Ev → Json
  | .await i => Json.arr #["await", toJson i]
  | .susp i j => Json.arr #["susp", toJson i, toJson j]
  | .call args kw => Json.arr #["call", toJson args, kwJson kw]
  | .produced i => Json.arr #["produced", toJson i]
  | .awaitO => Json.arr #["awaitO"]
  | .suspO j => Json.arr #["suspO", toJson j]

def evsJson (l : List Ev) : Json := Json.arr (l.toArray.map evJson)

def errJson : Err → Json
  | .raised e => Json.arr #["raised", excJson e]
  | .thrown c => Json.arr #["thrown", toJson c]

def resultJson : Except Err Val → Json
  | .ok v => Json.arr #["ok", toJson v]
  | .error e => errJson e

def outJson : Out → Json
  | .item v => Json.arr #["item", toJson v]
  | .stop => Json.arr #["stop"]
  | .failed e => errJson e
  | .closed => Json.arr #["closed"]

def stepsJson (l : List Step) : Json :=
  Json.arr (l.toArray.map fun s => Json.arr #[evsJson s.1, outJson s.2])

def parseArg (j : Json) : Except String Arg := do
  let a ← j.getArr?
  match ← (← arrGet a 0).getStr? with
  | "p" => pure (.plain (← (← arrGet a 1).getNat?))
  | "a" => pure (.aw (← (← arrGet a 1).getNat?) (← parseRes (← arrGet a 2)))
  | t => throw s!"bad arg {t}"

def parseCut (j : Json) : Except String Cut :=
  match j with
  | .null => pure none
  | c => do
    let a ← c.getArr?
    pure (some (← (← arrGet a 0).getNat?, ← (← arrGet a 1).getNat?))

def parseOp (j : Json) : Except String Op := do
  let a ← j.getArr?
  match ← (← arrGet a 0).getStr? with
  | "n" => pure (.next (← parseCut (← arrGet a 1)))
  | "c" => pure .close
  | t => throw s!"bad op {t}"

def parseAns (j : Json) : Except String Ans := do
  let a ← j.getArr?
  match ← (← arrGet a 0).getStr? with
  | "p" => pure (.plain (← (← arrGet a 1).getNat?))
  | "r" => pure (.raises (← parseExc (← arrGet a 1)))
  | "a" => pure (.aw (← (← arrGet a 1).getNat?) (← parseRes (← arrGet a 2)))
  | t => throw s!"bad ans {t}"

def run (j : Json) : Except String Json := do
  let t ← getStr j "t"
  match t with
  | "apply" =>
    let fres ← parseRes (← j.getObjVal? "f")
    let args ← (← getArr j "args").toList.mapM parseArg
    let kwargs ← (← getArr j "kwargs").toList.mapM fun p => do
      let a ← p.getArr?
      pure ((← (← arrGet a 0).getNat?), (← parseArg (← arrGet a 1)))
    let cut ← parseCut (← j.getObjVal? "cut")
    let r := apply ⟨fun _ _ => fres⟩ args kwargs cut
    pure (Json.mkObj [("log", evsJson r.1), ("out", resultJson r.2)])
  | "await_each" =>
    let lazy ← getBool j "lazy"
    let items ← (← getArr j "items").toList.mapM parseArg
    let ops ← (← getArr j "ops").toList.mapM parseOp
    pure (Json.mkObj [("steps", stepsJson (AsyncVerif.AdaptersFail.run (eachStep lazy) (.live 0 items) ops))])
  | "any_iter" =>
    let outer ← match ← j.getObjVal? "outer" with
      | .null => pure none
      | o => do
        let a ← o.getArr?
        let fail ← match ← arrGet a 1 with
          | .null => pure none
          | e => do pure (some (← parseExc e))
        pure (some (⟨← (← arrGet a 0).getNat?, fail⟩ : Outer))
    let kind ← parseKind (← getStr j "kind")
    let items ← (← getArr j "items").toList.mapM parseArg
    let ops ← (← getArr j "ops").toList.mapM parseOp
    pure (Json.mkObj [("steps", stepsJson (AsyncVerif.AdaptersFail.run anyStep (.fresh outer kind items) ops))])
  | "sync" =>
    let calls ← (← getArr j "calls").toList.mapM fun p => do
      let a ← p.getArr?
      pure ((← parseAns (← arrGet a 0)), (← parseCut (← arrGet a 1)))
    let steps := syncRun 0 calls
    pure (Json.mkObj [("steps", Json.arr (steps.toArray.map fun s => Json.arr #[evsJson s.1, resultJson s.2]))])
  | _ => throw s!"bad adaptersfail {t}"

end Drv.AdaptersFail
