import Driver.Util
import AsyncVerif.Machines.Decorator
open Lean AsyncVerif.Decorator

namespace Drv.Decorator

/-- "R<n>" → n -/
def codeNat (s : String) : Nat := (s.drop 1).toNat!

def parsePre (s : String) : Except String PreAct :=
  if s == "Y" then pure .yields else if s == "S" then pure .returns
  else if s.startsWith "R" then pure (.raises (codeNat s)) else throw s!"bad pre {s}"

def parsePost (s : String) : Except String PostAct :=
  if s == "S" then pure .stops else if s == "Y" then pure .yieldsAgain
  else if s.startsWith "R" then pure (.raises (codeNat s)) else throw s!"bad post {s}"

def parseThr (s : String) : Except String ThrowAct :=
  if s == "P" then pure .reraise else if s == "W" then pure .swallow else if s == "Y" then pure .yieldsAgain
  else if s.startsWith "R" then pure (.raiseNew (codeNat s)) else throw s!"bad thr {s}"

def parseEnter (s : String) : Except String EnterAct :=
  if s == "K" then pure .ok
  else if s.startsWith "R" then pure (.raises (codeNat s)) else throw s!"bad enter {s}"

def parseExit (s : String) : Except String ExitAct :=
  if s == "F" then pure .falsy else if s == "T" then pure .truthy else if s == "S" then pure .reraise
  else if s.startsWith "R" then pure (.raiseNew (codeNat s)) else throw s!"bad exit {s}"

def parseBody (s : String) : Except String BodyAct :=
  if s.startsWith "V" then pure (.returns (codeNat s))
  else if s.startsWith "R" then pure (.raises (codeNat s)) else throw s!"bad body {s}"

def parseGen (j : Json) : Except String GenProg := do
  pure { preSusp := ← getNat j "preSusp", pre := ← parsePre (← getStr j "pre"),
         postSusp := ← getNat j "postSusp", post := ← parsePost (← getStr j "post"),
         thrSusp := ← getNat j "thrSusp", thr := ← parseThr (← getStr j "thr") }

def parsePlain (j : Json) : Except String PlainProg := do
  pure { enterSusp := ← getNat j "enterSusp", enter := ← parseEnter (← getStr j "enter"),
         exitSusp := ← getNat j "exitSusp", exitNone := ← parseExit (← getStr j "exitNone"),
         exitSome := ← parseExit (← getStr j "exitSome") }

def parseCall (j : Json) : Except String CallCfg := do
  pure { gen := ← parseGen (← j.getObjVal? "gen"), plain := ← parsePlain (← j.getObjVal? "plain"),
         bodySusp := ← getNat j "bodySusp", body := ← parseBody (← getStr j "body") }

def parseOp (j : Json) : Except String Op := do
  let a ← j.getArr?
  let tag ← (← arrGet a 0).getStr?
  let c ← (← arrGet a 1).getNat?
  match tag with
  | "s" => pure ⟨c, .resume⟩
  | "x" => pure ⟨c, .cancel (.user (← (← arrGet a 2).getNat?))⟩
  | t => throw s!"bad op {t}"

def rtName : RtKind → String
  | .didNotYield => "didNotYield" | .didNotStop => "didNotStop"
  | .didNotStopThrow => "didNotStopThrow" | .alreadyRunning => "alreadyRunning"

def excJson : Exc → Json
  | .user e => Json.arr #["user", toJson e]
  | .runtime k => Json.arr #["lib", "RuntimeError", rtName k]

def optExcJson : Option Exc → Json
  | none => .null
  | some x => excJson x

def bodyOutJson : BodyOut → Json
  | .returned v => Json.arr #["ret", toJson v]
  | .raised x => Json.arr #["exc", excJson x]

def resultJson : Result → Json
  | .value v => Json.arr #["ret", toJson v]
  | .none => Json.arr #["none"]
  | .raised x => Json.arr #["exc", excJson x]

def respJson : ExitResp → Json
  | .returned b => Json.arr #["ret", toJson b]
  | .raised x => Json.arr #["exc", excJson x]

def levJson : LEv → Array Json
  | .enter => #["enter"]
  | .entered => #["entered"]
  | .bodyBegin => #["bodyBegin"]
  | .bodyEnd o => #["bodyEnd", bodyOutJson o]
  | .exit x => #["exit", optExcJson x]
  | .exited r => #["exited", respJson r]
  | .finish r => #["finish", resultJson r]

def stageName : Stage → String
  | .enter => "enter" | .body => "body" | .exit => "exit"

def outJson : Out → Json
  | .suspended s => Json.arr #["susp", stageName s]
  | .finished r => Json.arr #["fin", resultJson r]
  | .skipped => Json.arr #["skip"]

def pcJson : Pc → Json
  | .fresh => Json.arr #["fresh"]
  | .entering k => Json.arr #["entering", toJson k]
  | .body k => Json.arr #["body", toJson k]
  | .exiting o k => Json.arr #["exiting", bodyOutJson o, toJson k]
  | .done r => Json.arr #["done", resultJson r]

/-- kind=gensem: one generator object used by several callers; `aws` = callers with an awaitable
    in progress (bookkeeping of the harness, mirrored here) -/
def gensemStep (p : GenProg) (st : GenPc × List Nat) (j : Json) : Except String ((GenPc × List Nat) × Json) := do
  let a ← j.getArr?
  let tag ← (← arrGet a 0).getStr?
  let who ← (← arrGet a 1).getNat?
  let (pc, aws) := st
  let eid : Nat := match a[2]? with
    | some v => (match v.getNat? with | .ok n => n | _ => 0)
    | none => 0
  let r? : Option Resume ← match tag with
    | "next" => pure (some Resume.next)
    | "throw" => pure (some (Resume.throwIn (.user eid)))
    | "cont" => pure (if aws.contains who then some Resume.cont else none)
    | "cancel" => pure (if aws.contains who then some (Resume.cancel (.user eid)) else none)
    | t => throw s!"bad gensem op {t}"
  match r? with
  | none => pure (st, Json.arr #["skip"])
  | some r =>
    let (pc', out, evs) := genAdvance p pc r
    let evj := Json.arr (evs.toArray.map fun e => Json.arr (levJson e))
    let aws' := aws.filter (· != who)
    match out with
    | .suspended => pure ((pc', who :: aws'), Json.arr #["suspended", evj])
    | .yielded => pure ((pc', aws'), Json.arr #["yielded", evj])
    | .stopped => pure ((pc', aws'), Json.arr #["stopped", evj])
    | .raised x => pure ((pc', aws'), Json.arr #["raised", excJson x, evj])

def runGensem (j : Json) : Except String Json := do
  let p ← parseGen (← j.getObjVal? "prog")
  let ops ← getArr j "ops"
  let mut st : GenPc × List Nat := (.unstarted, [])
  let mut outs : Array Json := #[]
  for op in ops do
    let (st', o) ← gensemStep p st op
    st := st'
    outs := outs.push o
  pure (Json.mkObj [("outs", Json.arr outs)])

def runCalls (j : Json) : Except String Json := do
  let gb ← getBool j "gb"
  let calls ← (← getArr j "calls").toList.mapM parseCall
  let ops ← (← getArr j "ops").toList.mapM parseOp
  let cfg : Cfg := { generatorBased := gb, calls := calls }
  let (s, outs) := AsyncVerif.Decorator.run cfg ops
  let (ps, pouts) := prun cfg ops
  let idx := List.range calls.length
  let accepted := idx.all fun c => (specFrom .init (proj c s.log)).isSome
  pure (Json.mkObj [
    ("impl", Json.mkObj [
      ("outs", Json.arr (outs.toArray.map outJson)),
      ("log", Json.arr (s.log.toArray.map fun e => Json.arr (#[toJson e.call, optNatJson e.gen] ++ levJson e.ev))),
      ("gids", Json.arr (idx.toArray.map fun c => optNatJson (s.calls c).gid)),
      ("pcs", Json.arr (idx.toArray.map fun c => pcJson (s.calls c).pc)),
      ("ngens", toJson s.ngens),
      ("accepted", toJson accepted)]),
    ("spec", Json.mkObj [
      ("outs", Json.arr (pouts.toArray.map outJson)),
      ("log", Json.arr (ps.log.toArray.map fun (c, e) => Json.arr (#[toJson c] ++ levJson e))),
      ("pcs", Json.arr (idx.toArray.map fun c => pcJson (ps.calls c).pc))])])


def run (j : Json) : Except String Json := do
  match getStr j "mode" with
  | .ok "gensem" => runGensem j
  | _ => runCalls j

end Drv.Decorator
