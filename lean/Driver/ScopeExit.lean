import Driver.Util
import AsyncVerif.Machines.ScopeExit
open Lean AsyncVerif.ScopeExit

/-!
Request  `{"m":"scopeexit","depth":D,"n":N,"mode":"raise"|"cancel"|"ok"|"suspend","taken":K}`
optional `"swapped":true` (the two awaits of `__aexit__` in the wrong order), `"leave":null|["exc",e]|["cancel",e]`
(how the innermost block is left; default: it falls through, as in the harness), `"n"` default 6, `"taken"` default 1.

The twin of `_observe_badclose` (harness/props/c08.py): `_BadCloseSource(N, mode)`, `D` nested `scoped_iter`
blocks, each level takes `K` item(s) from its new handle before opening the next; the nest is left; one
`__anext__` on every handle, then `list(islice(handles[0], 2))`.
mode `raise`: the source's `aclose()` raises `UserExc(31)`; `cancel`: it suspends and `UserBaseExc(32)` is thrown
in; `ok` = the harness's `suspend`: it suspends, is resumed and completes.

Response `{"exit": null | ["user",31] | ["user",32], "after": ["stop" | ["item",v], …], "tool_after": [v, …],
"closes": c, "consumed": k}` — the encoding of `obs["badclose"]`.
-/
namespace Drv.ScopeExit

def parseMode (s : String) : Except String CloseBeh :=
  match s with
  | "raise" => pure (.raises 31)
  | "cancel" => pure (.cancelledIn 32)
  | "ok" => pure .ok
  | "suspend" => pure .ok
  | m => throw s!"bad mode {m}"

def parseLeave (j : Json) : Except String Leave :=
  match j with
  | .null => pure .normal
  | v => do
    let a ← v.getArr?
    let tag ← (← arrGet a 0).getStr?
    let e ← (← arrGet a 1).getNat?
    match tag with
    | "exc" => pure (.raised e)
    | "cancel" => pure (.cancelled e)
    | t => throw s!"bad leave {t}"

/-- `exc_name(res.exc)` -/
def leaveJson : Leave → Json
  | .normal => .null
  | .raised e => Json.arr #["user", toJson e]
  | .cancelled e => Json.arr #["user", toJson e]

def afterJson : Option Val → Json
  | none => "stop"
  | some v => Json.arr #["item", toJson v]

def run (j : Json) : Except String Json := do
  let depth ← getNat j "depth"
  if depth == 0 then throw "depth must be at least 1"
  let beh ← parseMode (← getStr j "mode")
  let n := natOr j "n" 6
  let taken := natOr j "taken" 1
  let swapped := boolOr j "swapped" false
  let leave ← match j.getObjVal? "leave" with
    | .ok v => parseLeave v
    | .error _ => pure Leave.normal
  let o := observe swapped depth n beh taken leave
  pure (Json.mkObj [("exit", leaveJson o.exit), ("after", Json.arr (o.after.map afterJson).toArray),
    ("tool_after", toJson o.toolAfter), ("closes", toJson o.closes), ("consumed", toJson o.consumed)])

end Drv.ScopeExit
