import Driver.Util
import Driver.Tee
import AsyncVerif.Machines.TeeClose
open Lean AsyncVerif.Tee AsyncVerif.TeeClose

namespace Drv.TeeClose

def parseSrcClose (s : String) : Except String SrcClose :=
  match s with
  | "ok" => pure .ok
  | "raises" => pure .raises
  | "none" => pure .none
  | t => throw s!"bad srcclose {t}"

/-- the error that comes out of `Tee.aclose()` when the Bool is set is the source's, not IndexError -/
def outJson (o : Out) (raised : Bool) : Json :=
  if raised then Json.arr #["error", "SourceCloseError"] else Drv.Tee.outJson o

/-- request: a tee over `items` with `n` children is driven by `ops` (encoding of `Driver/Tee.lean`),
    then `Tee.aclose()` is called once with a source whose `aclose()` behaves as `srcclose` says -/
def run (j : Json) : Except String Json := do
  let items ← (← getArr j "items").toList.mapM fun x => x.getNat?
  let n ← getNat j "n"
  let susp ← (← getArr j "susp").toList.mapM fun x => x.getNat?
  let lock ← getBool j "lock"
  let closeable ← getBool j "closeable"
  let dies ← getBool j "dies"
  let ops ← (← getArr j "ops").toList.mapM Drv.Tee.parseOp
  let sc ← parseSrcClose (← getStr j "srcclose")
  let s := runOps (init items n susp lock closeable dies) ops
  let r := closeAllF s sc
  pure (Json.mkObj [
    ("out", outJson r.2.1 r.2.2),
    ("raised", toJson r.2.2),
    ("retained_before", toJson (retained s)),
    ("retained_after", toJson (retained r.1)),
    ("kids_done", Json.arr (r.1.kids.toArray.map fun c => toJson (decide (c.pc = .done)))),
    ("closes_before", toJson s.srcCloses),
    ("closes_after", toJson r.1.srcCloses)])

end Drv.TeeClose
