import Driver.Util
import AsyncVerif.Machines.ChainObj
open Lean AsyncVerif.ChainObj

namespace Drv.ChainObj

def parseKind (s : String) : Except String Kind :=
  match s with
  | "aiter_close" => pure .asyncIteratorWithClose
  | "asyncIteratorWithClose" => pure .asyncIteratorWithClose
  | "aiter_noclose" => pure .asyncIteratorNoClose
  | "asyncIteratorNoClose" => pure .asyncIteratorNoClose
  | "reiterable" => pure .reiterableAsync
  | "reiterableAsync" => pure .reiterableAsync
  | "sync" => pure .syncIterable
  | "syncIterable" => pure .syncIterable
  | k => throw s!"bad kind {k}"

/-- `"ok"` | `["raises", e]` -/
def parseClose (j : Json) : Except String CloseBeh :=
  match j with
  | .str "ok" => pure .ok
  | .str s => throw s!"bad close {s}"
  | _ => do
    let a ← j.getArr?
    let tag ← (← arrGet a 0).getStr?
    let e ← (← arrGet a 1).getNat?
    match tag with
    | "raises" => pure (.raises e)
    | t => throw s!"bad close {t}"

/-- `{"kind": .., "items": [..], "susp": n, "close": "ok" | ["raises", e]}`
    (`susp` defaults to 0, `close` to `"ok"`) -/
def parseArg (j : Json) : Except String Arg := do
  let kind ← parseKind (← getStr j "kind")
  let items ← (← getArr j "items").toList.mapM (·.getNat?)
  let close ← match j.getObjVal? "close" with
    | .ok v => parseClose v
    | .error _ => pure .ok
  pure { kind := kind, items := items, susp := natOr j "susp" 0, close := close }

def parseOp (j : Json) : Except String Op := do
  match (← j.getStr?) with
  | "next" => pure .next
  | "aclose" => pure .aclose
  | "aclose_running" => pure .acloseWhileRunning
  | "cancel" => pure .cancel
  | o => throw s!"bad op {o}"

def parseMode (s : String) : Except String Mode :=
  match s with
  | "positional" => pure .positional
  | "from_iterable" => pure .fromIterable
  | m => throw s!"bad mode {m}"

def tagNat (t : String) (n : Nat) : Json := Json.arr #[Json.str t, toJson n]
def tag0 (t : String) : Json := Json.arr #[Json.str t]

def outJson : Out → Json
  | .item v => tagNat "item" v
  | .susp i => tagNat "susp" i
  | .end_ => tag0 "end"
  | .closed => tag0 "closed"
  | .busy => tag0 "busy"
  | .raised e => tagNat "raised" e
  | .cancelled => tag0 "cancelled"
  | .idle => tag0 "idle"

def evJson : Ev → Json
  | .pull i => tagNat "pull" i
  | .item v => tagNat "item" v
  | .end_ i => tagNat "end" i
  | .close i => tagNat "close" i

def scopeJson : Scope → Json
  | .untouched => Json.str "untouched"
  | .open => Json.str "open"
  | .left => Json.str "left"

def closerJson : Closer → Json
  | .owner => Json.str "owner"
  | .scope => Json.str "scope"

def pcJson : Pc → Json
  | .unstarted => tag0 "unstarted"
  | .suspendedAtYield i => tagNat "yield" i
  | .runningInPull i k => Json.arr #[Json.str "pull", toJson i, toJson k]
  | .done => tag0 "done"

def natsJson (l : List Nat) : Json := Json.arr (l.toArray.map fun n => toJson n)

/-- `{"outs": [per op], "log": [events], "owned": [indices], "pc": .., "status": [[scope,
    [closers]] per argument]}` -/
def run (j : Json) : Except String Json := do
  let mode ← parseMode (← getStr j "mode")
  let args ← (← getArr j "args").toList.mapM parseArg
  let ops ← (← getArr j "ops").toList.mapM parseOp
  let r := AsyncVerif.ChainObj.run args (init mode args) ops
  pure (Json.mkObj [
    ("outs", Json.arr (r.2.toArray.map outJson)),
    ("log", Json.arr (r.1.log.toArray.map evJson)),
    ("owned", natsJson r.1.owned),
    ("pc", pcJson r.1.pc),
    ("status", Json.arr (r.1.status.toArray.map fun s =>
      Json.arr #[scopeJson s.scope, Json.arr (s.closedBy.toArray.map closerJson)]))])

end Drv.ChainObj
