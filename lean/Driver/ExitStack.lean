import Driver.Util
import AsyncVerif.Machines.ExitStack
open Lean AsyncVerif.ExitStack

namespace Drv.ExitStack

/-- "F" falsy, "T" truthy, "R<n>" raise n, "S" re-raise the in-flight exception -/
def parseResp (s : String) (infl : Option ExcId) : ExitResp :=
  if s == "T" then .truthy
  else if s == "S" then (match infl with | some e => .raise e | none => .falsy)
  else if s.startsWith "R" then .raise ((s.drop 1).toNat!)
  else .falsy

def parseEntry (id : Nat) (j : Json) : Except String Entry := do
  let cb ← getBool j "cb"
  let n ← getStr j "none"
  let s ← getStr j "some"
  pure { id := id, isCallback := cb,
         beh := fun o => match o with | none => parseResp n none | some e => parseResp s (some e) }

def outcomeOf (j : Json) : Except String Outcome := do
  match ← getOptNat j with
  | none => pure .normal
  | some e => pure (.raises e)

def outcomeJson : Outcome → Json
  | .normal => .null
  | .raises e => toJson e

def logJson (l : ExitLog) : Json :=
  Json.arr (l.toArray.map fun (i, e) => Json.arr #[toJson i, optNatJson e])

def parseOp (entries : Nat → Except String Entry) (j : Json) : Except String Op := do
  let a ← j.getArr?
  let tag ← (← arrGet a 0).getStr?
  let sid ← (← arrGet a 1).getNat?
  match tag with
  | "reg" => pure (.register sid (← entries (← (← arrGet a 2).getNat?)))
  | "enterfail" =>
    pure (.enterFails sid (← entries (← (← arrGet a 2).getNat?)) (← (← arrGet a 3).getNat?))
  | "leave" => pure (.leave sid (← outcomeOf (← arrGet a 2)))
  | "aclose" => pure (.aclose sid)
  | "popall" => pure (.popAll sid)
  | t => throw s!"bad op {t}"

def run (j : Json) : Except String Json := do
  let ents ← j.getObjVal? "entries"
  let entries : Nat → Except String Entry := fun id => do
    parseEntry id (← ents.getObjVal? (toString id))
  let mode ← getStr j "mode"
  if mode == "unwind" then
    let ids ← getArr j "stack"
    let stack ← ids.toList.mapM fun i => do entries (← i.getNat?)
    let body ← outcomeOf (← j.getObjVal? "body")
    let (o1, l1) := implExit stack body
    let (o2, l2) := nested stack body
    pure (Json.mkObj [("impl", Json.mkObj [("out", outcomeJson o1), ("log", logJson l1)]),
                      ("spec", Json.mkObj [("out", outcomeJson o2), ("log", logJson l2)])])
  else
    let ops ← (← getArr j "ops").toList.mapM (parseOp entries)
    let h := runOps ops
    pure (Json.mkObj [("outs", Json.arr (h.outs.toArray.map outcomeJson)), ("log", logJson h.log),
                      ("left", Json.arr (h.stacks.toArray.map fun s => Json.arr (s.toArray.map fun e => toJson e.id)))])

end Drv.ExitStack
