import Lean.Data.Json
open Lean

namespace Drv

def getNat (j : Json) (k : String) : Except String Nat := do
  let v ← j.getObjVal? k
  v.getNat?

def getInt (j : Json) (k : String) : Except String Int := do
  let v ← j.getObjVal? k
  v.getInt?

def getStr (j : Json) (k : String) : Except String String := do
  let v ← j.getObjVal? k
  v.getStr?

def getBool (j : Json) (k : String) : Except String Bool := do
  let v ← j.getObjVal? k
  v.getBool?

def getArr (j : Json) (k : String) : Except String (Array Json) := do
  let v ← j.getObjVal? k
  v.getArr?

def getOptNat (j : Json) : Except String (Option Nat) :=
  match j with
  | .null => pure none
  | v => do pure (some (← v.getNat?))

def optNatJson : Option Nat → Json
  | none => .null
  | some n => toJson n

def arrGet (a : Array Json) (i : Nat) : Except String Json :=
  match a[i]? with
  | some v => pure v
  | none => throw s!"index {i} out of range"

def boolOr (j : Json) (k : String) (d : Bool) : Bool :=
  match getBool j k with | .ok b => b | _ => d

def natOr (j : Json) (k : String) (d : Nat) : Nat :=
  match getNat j k with | .ok b => b | _ => d

end Drv
