import Driver.Util
import AsyncVerif.Machines.Heap
open Lean AsyncVerif.Heap

/-!
`{"m":"heap","init":[ints...],"ops":[op...]}` (optional `"div":d`, `d ≥ 1`: entries are compared by `x // d`, Python floor
division, so that distinct entries can tie) with
`op = ["push",x] | ["pop"] | ["replace",x] | ["heapify"] | ["siftup",pos] | ["siftdown",startpos,pos]`
→ `{"heaps":[[ints...] after each op], "outs":[per op: the popped / replaced-out value, null for push/heapify/sift*,
"IndexError" for pop/replace on an empty heap and for a sift position outside the list (heap unchanged)]}`.
-/
namespace Drv.Heap

def ltDiv (d : Int) (a b : Int) : Bool := decide (a.fdiv d < b.fdiv d)

def step (lt : Int → Int → Bool) (h : Array Int) (op : Json) : Except String (Array Int × Json) := do
  let a ← op.getArr?
  let tag ← (← arrGet a 0).getStr?
  match tag with
  | "push" => do
    let x ← (← arrGet a 1).getInt?
    pure (heappush lt h x, Json.null)
  | "pop" =>
    match heappop lt h with
    | some (x, h') => pure (h', toJson x)
    | none => pure (h, Json.str "IndexError")
  | "replace" => do
    let x ← (← arrGet a 1).getInt?
    match heapreplace lt h x with
    | some (y, h') => pure (h', toJson y)
    | none => pure (h, Json.str "IndexError")
  | "heapify" => pure (heapify lt h, Json.null)
  | "siftup" => do
    let pos ← (← arrGet a 1).getNat?
    if pos < h.size then pure (siftup lt h pos, Json.null) else pure (h, Json.str "IndexError")
  | "siftdown" => do
    let startpos ← (← arrGet a 1).getNat?
    let pos ← (← arrGet a 2).getNat?
    if pos < h.size then pure (siftdown lt h startpos pos, Json.null) else pure (h, Json.str "IndexError")
  | t => throw s!"bad heap op {t}"

def run (j : Json) : Except String Json := do
  let init ← (← getArr j "init").mapM (fun v => v.getInt?)
  let ops ← getArr j "ops"
  let d : Int := match getInt j "div" with | .ok d => (if d ≥ 1 then d else 1) | _ => 1
  let lt := ltDiv d
  let mut h := init
  let mut heaps : Array Json := #[]
  let mut outs : Array Json := #[]
  for op in ops do
    let (h', o) ← step lt h op
    h := h'
    heaps := heaps.push (toJson h)
    outs := outs.push o
  pure (Json.mkObj [("heaps", Json.arr heaps), ("outs", Json.arr outs)])

end Drv.Heap
