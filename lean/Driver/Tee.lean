import Driver.Util
import AsyncVerif.Machines.Tee
open Lean AsyncVerif.Tee

namespace Drv.Tee

def outJson : Out → Json
  | .item v => Json.arr #["item", toJson v]
  | .suspLock => Json.arr #["susp", "lock"]
  | .suspSrc => Json.arr #["susp", "src"]
  | .end_ => Json.arr #["end"]
  | .closed => Json.arr #["closed"]
  | .cancelled => Json.arr #["cancelled"]
  | .busy => Json.arr #["busy"]
  | .noop => Json.arr #["noop"]
  | .error => Json.arr #["error", "IndexError"]

def parseOp (j : Json) : Except String Op := do
  let a ← j.getArr?
  let tag ← (← arrGet a 0).getStr?
  match tag with
  | "s" => pure (.sched (← (← arrGet a 1).getNat?))
  | "c" => pure (.close (← (← arrGet a 1).getNat?))
  | "x" => pure (.cancel (← (← arrGet a 1).getNat?))
  | "ca" => pure .closeAll
  | t => throw s!"bad op {t}"

def natsJson (l : List Nat) : Json := Json.arr (l.toArray.map toJson)

/-- the longest registered buffer = everything the tee still holds in a buffer -/
def retained (s : St) : List Val :=
  s.kids.foldl (fun acc c => match c.buf with
    | some b => if acc.length < b.length then b else acc
    | none => acc) []

def pcJson : Pc → Json
  | .unstarted => "unstarted"
  | .atYield => "yield"
  | .acquiring => "acquiring"
  | .fetching _ => "fetching"
  | .done => "done"

/-- fields with their default value (empty / false / null / 0) are omitted: a run keeps every reply in memory -/
def stJson (s : St) : Json :=
  Json.mkObj (
    (if s.fetched.isEmpty then [] else [("fetched", natsJson s.fetched)]) ++
    (if s.pulls == 0 then [] else [("pulls", toJson s.pulls)]) ++
    (if s.overlap then [("overlap", toJson true)] else []) ++
    (match s.holder with | some h => [("holder", toJson h)] | none => []) ++
    (if s.srcCloses == 0 then [] else [("closes", toJson s.srcCloses)]) ++
    (if s.srcEnded || s.srcKilled || decide (0 < s.srcCloses) then [("released", toJson true)] else []) ++
    (if (retained s).isEmpty then [] else [("retained", natsJson (retained s))]) ++
    [("outs", Json.arr (s.kids.toArray.map fun c => natsJson c.out))])

/-- internal view, only on request (`"debug": true`) -/
def dbgJson (s : St) : Json :=
  Json.mkObj [
    ("bufs", Json.arr (s.kids.toArray.map fun c => match c.buf with
      | some b => natsJson b
      | none => Json.null)),
    ("pcs", Json.arr (s.kids.toArray.map fun c => pcJson c.pc))]

/-- spec value for every delivery: the k-th delivery to child i is the k-th source item -/
def specOf (items : List Val) (s : St) (op : Op) (o : Out) : Json :=
  match op, o with
  | .sched i, .item _ => match (specOut items ((s.kid i).out.length + 1)).getLast? with
    | some v => toJson v
    | none => Json.null
  | _, _ => Json.null

/-- one reply per operation; a `noop` changes nothing, so its state is not repeated -/
def steps (dbg : Bool) (items : List Val) (s : St) : List Op → List Json
  | [] => []
  | op :: ops =>
    let r := step s op
    let j := match r.2 with
      | .noop => Json.mkObj [("out", outJson r.2)]
      | _ => Json.mkObj ([("out", outJson r.2), ("st", stJson r.1)]
              ++ (match specOf items s op r.2 with | .null => [] | j => [("spec", j)])
              ++ (if dbg then [("dbg", dbgJson r.1)] else []))
    j :: steps dbg items r.1 ops

def run (j : Json) : Except String Json := do
  let n ← getNat j "n"
  let len ← getNat j "len"
  let susp ← (← getArr j "susp").toList.mapM fun x => x.getNat?
  let lock ← getBool j "lock"
  let closeable ← getBool j "closeable"
  let dies ← getBool j "dies"
  let ops ← (← getArr j "ops").toList.mapM parseOp
  let items := List.range len
  let s0 := init items n susp lock closeable dies
  -- the step list is returned as one string (decoded only when the case is judged): a run keeps
  -- hundreds of thousands of replies in memory
  pure (Json.mkObj [("steps", Json.str (Json.arr (steps (boolOr j "debug" false) items s0 ops).toArray).compress)])

end Drv.Tee
