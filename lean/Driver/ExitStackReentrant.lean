import Driver.Util
import AsyncVerif.Machines.ExitStackReentrant
open Lean AsyncVerif.ExitStack AsyncVerif.ExitStackRe

/-!
Driver for `Machines/ExitStackReentrant.lean`, mirroring the harness family `reentrant` of
`harness/props/c14.py` (`_run_reentrant`).

request  `{"m":"exitstackre","n":N,"at":K,"act":"popall"|"push"|"callback","beh":"F"|"T"|"R","body":null|E}`
answer   `{"impl":{"out":null,"log":[...]},"spec":{"out":null,"log":[...]},"final":{"impl":[[ids]..],"spec":[[ids]..]}}`

`log` is the harness log: `["exit",i,eid|null]`, `["late-callback",i,[i]]`, `["block-raised",e]`,
`["after-block"]`, `["moved-raised",e]`, `["after-moved"]`, `["again-raised",e]`.
Ids: exits `0..N-1`; the exit pushed by exit `K` is `100+K`; the callback registered by exit `K` is
entry `200+K` of the model (printed as `late-callback K [K]`); exit `K` raising raises exception `400+K`.
`out` is what escapes the harness's `main()`: every outcome is caught and logged there, so `null`.
`final` = the deques (registration order) of all stacks at the end.
-/
namespace Drv.ExitStackRe

def recJson (r : Rec) : Json :=
  if r.cb then Json.arr #[Json.str "late-callback", toJson (r.id - 200), Json.arr #[toJson (r.id - 200)]]
  else Json.arr #[Json.str "exit", toJson r.id, optNatJson r.handed]

def segment (log : List Rec) (a b : Nat) : List Json := ((log.drop a).take (b - a)).map recJson

def marker (tag : String) : Outcome → List Json
  | .normal => []
  | .raises e => [Json.arr #[Json.str tag, toJson e]]

/-- the harness log of a finished history: first unwind = the block, last = `aclose()` again,
    the ones in between = closing the moved stacks -/
def render (st : St) : List Json :=
  let n := st.outs.length
  let rec go (i pos : Nat) (acc : List Json) : List Left → List Json
    | [] => acc
    | l :: rest =>
      let seg := segment st.log pos l.ran
      let acc' :=
        if i == 0 then acc ++ seg ++ marker "block-raised" l.out ++ [Json.arr #[Json.str "after-block"]]
        else if i + 1 == n then
          acc ++ [Json.arr #[Json.str "after-moved"]] ++ seg ++ marker "again-raised" l.out
        else acc ++ seg ++ marker "moved-raised" l.out
      go (i + 1) l.ran acc' rest
  go 0 0 [] st.outs

def sideJson (st : St) : Json :=
  Json.mkObj [("out", Json.null), ("log", Json.arr (render st).toArray)]

def dequesJson (st : St) : Json :=
  Json.arr (st.allDeques.toArray.map fun d => Json.arr (d.toArray.map fun it => toJson it.id))

def run (j : Json) : Except String Json := do
  let n ← getNat j "n"
  let k ← getNat j "at"
  let act ← getStr j "act"
  let beh ← getStr j "beh"
  let body ← (do
    match ← getOptNat (← j.getObjVal? "body") with
    | none => pure Outcome.normal
    | some e => pure (Outcome.raises e))
  let a ← (match act with
    | "popall" => pure Act.popAll
    | "push" => pure (Act.push (100 + k))
    | "callback" => pure (Act.callback (200 + k))
    | s => throw s!"bad act {s}")
  let r ← (match beh with
    | "F" => pure ExitResp.falsy
    | "T" => pure ExitResp.truthy
    | "R" => pure (ExitResp.raise (400 + k))
    | s => throw s!"bad beh {s}")
  let sc := familyScript k a r
  let st0 := St.init (familyItems n) (n + 1)
  let si := Impl.history sc st0 body
  let ss := Spec.history sc st0 body
  pure (Json.mkObj [("impl", sideJson si), ("spec", sideJson ss),
                    ("final", Json.mkObj [("impl", dequesJson si), ("spec", dequesJson ss)])])

end Drv.ExitStackRe
