import Driver.Awaitify
import Driver.Borrow
import Driver.Tee
import Driver.CachedProperty
import Driver.Lru
import Driver.Decorator
import Driver.Adapters
import Driver.ContextManager
import Driver.ExitStack
import Driver.GroupBy
import Driver.GroupByFault
import Driver.Cleanup
import Driver.Heap
import Driver.ExitStackReentrant
import Driver.ScopeExit
import Driver.TeeClose
import Driver.ChainObj
import Driver.DecoratorDirect
import Driver.ExitStackEnter
import Driver.CloseBusy
import Driver.AwaitifyReuse
import Driver.CachedPropertyHandoff
import Driver.BorrowSend
import Driver.AdaptersFail
import Driver.LruOrder
import Driver.Tools
open Lean

def dispatch (j : Json) : Except String Json := do
  let m ← Drv.getStr j "m"
  match m with
  | "exitstack" => Drv.ExitStack.run j
  | "groupby" => Drv.GroupBy.run j
  | "groupbyfault" => Drv.GroupByFault.run j
  | "cleanup" => Drv.Cleanup.run j
  | "heap" => Drv.Heap.run j
  | "exitstackre" => Drv.ExitStackRe.run j
  | "scopeexit" => Drv.ScopeExit.run j
  | "teeclose" => Drv.TeeClose.run j
  | "chainobj" => Drv.ChainObj.run j
  | "decoratordirect" => Drv.DecoratorDirect.run j
  | "exitstackenter" => Drv.ExitStackEnter.run j
  | "closebusy" => Drv.CloseBusy.run j
  | "awaitifyreuse" => Drv.AwaitifyReuse.run j
  | "cachedpropertyhandoff" => Drv.CachedPropertyHandoff.run j
  | "borrowsend" => Drv.BorrowSend.run j
  | "adaptersfail" => Drv.AdaptersFail.run j
  | "lruorder" => Drv.LruOrder.run j
  | "tool" => Drv.Tools.run j
  | "contextmanager" => Drv.ContextManager.run j
  | "adapters" => Drv.Adapters.run j
  | "decorator" => Drv.Decorator.run j
  | "lru" => Drv.Lru.run j
  | "cachedprop" => Drv.CachedProperty.run j
  | "tee" => Drv.Tee.run j
  | "borrow" => Drv.Borrow.run j
  | "awaitify" => Drv.Awaitify.run j
  | _ => throw s!"unknown machine {m}"

partial def loop (h : IO.FS.Stream) (out : IO.FS.Stream) : IO Unit := do
  let line ← h.getLine
  if line.isEmpty then return ()
  let res := match Json.parse line with
    | .ok j => (match dispatch j with
        | .ok r => r.compress
        | .error e => (Json.mkObj [("error", Json.str e)]).compress)
    | .error e => (Json.mkObj [("error", Json.str s!"parse: {e}")]).compress
  out.putStrLn res
  loop h out

def main : IO Unit := do
  let out ← IO.getStdout
  loop (← IO.getStdin) out
  out.flush
