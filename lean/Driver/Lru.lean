import Driver.Util
import AsyncVerif.Machines.Lru
open Lean AsyncVerif.Lru

namespace Drv.Lru

def parsePrim (j : Json) : Except String Prim := do
  let a ← j.getArr?
  let tag ← (← arrGet a 0).getStr?
  match tag with
  | "i" => pure (.int (← (← arrGet a 1).getInt?))
  | "f" => pure (.float (← (← arrGet a 1).getInt?))
  | "b" => pure (.bool (← (← arrGet a 1).getBool?))
  | "s" => pure (.str (← (← arrGet a 1).getNat?))
  | "n" => pure .none
  | "o" => pure (.obj (← (← arrGet a 1).getNat?))
  | t => throw s!"bad prim {t}"

def parseArg (j : Json) : Except String Arg := do
  let a ← j.getArr?
  let tag ← (← arrGet a 0).getStr?
  if tag == "t" then
    pure (.tup (← (← (← arrGet a 1).getArr?).toList.mapM parsePrim))
  else
    pure (.prim (← parsePrim j))

def parsePattern (j : Json) : Except String Pattern := do
  let args ← (← getArr j "a").toList.mapM parseArg
  let kw ← (← getArr j "k").toList.mapM fun e => do
    let a ← e.getArr?
    pure ((← (← arrGet a 0).getNat?), (← parseArg (← arrGet a 1)))
  pure ⟨args, kw⟩

def parseRes (j : Json) : Except String Res := do
  let a ← j.getArr?
  let tag ← (← arrGet a 0).getStr?
  let v ← (← arrGet a 1).getNat?
  match tag with
  | "ok" => pure (.ok v)
  | "fail" => pure (.fail v)
  | t => throw s!"bad res {t}"

def parseDec (j : Json) : Except String Dec := do
  match j with
  | .str "bare" => pure .bare
  | _ =>
    let a ← j.getArr?
    let typed ← (← arrGet a 2).getBool?
    match ← arrGet a 1 with
    | .null => pure (.paren .none typed)
    | v => pure (.paren (.int (← v.getInt?)) typed)

def parseOp (j : Json) : Except String Op := do
  let a ← j.getArr?
  let tag ← (← arrGet a 0).getStr?
  match tag with
  | "call" => pure (.call (← parsePattern (← arrGet a 1)) (← parseRes (← arrGet a 2)))
  | "mcall" => pure (.mcall (← (← arrGet a 1).getNat?) (← parsePattern (← arrGet a 2)) (← parseRes (← arrGet a 3)))
  | "clear" => pure .clear
  | "discard" => pure (.discard (← parsePattern (← arrGet a 1)))
  | "mdiscard" => pure (.mdiscard (← (← arrGet a 1).getNat?) (← parsePattern (← arrGet a 2)))
  | "info" => pure .info
  | "params" => pure .params
  | t => throw s!"bad op {t}"

def outJson : Out → Json
  | .ret v i => Json.arr #["ret", toJson v, toJson i]
  | .raised e => Json.arr #["raised", toJson e]
  | .info h m mx c => Json.arr #["info", toJson h, toJson m, optNatJson mx, toJson c]
  | .params mx t => Json.arr #["params", optNatJson mx, toJson t]
  | .done => Json.arr #["done"]

def parseAct (j : Json) : Except String Act := do
  let a ← j.getArr?
  let tag ← (← arrGet a 0).getStr?
  match tag with
  | "call" => pure (.call (← parsePattern (← arrGet a 1)) (← (← arrGet a 2).getNat?) (← parseRes (← arrGet a 3)))
  | "clear" => pure .clear
  | "discard" => pure (.discard (← parsePattern (← arrGet a 1)))
  | "info" => pure .info
  | t => throw s!"bad act {t}"

def parseSOp (j : Json) : Except String SOp := do
  let a ← j.getArr?
  let tag ← (← arrGet a 0).getStr?
  let t ← (← arrGet a 1).getNat?
  match tag with
  | "s" => pure (.send t)
  | "x" => pure (.cancel t)
  | t => throw s!"bad sched op {t}"

def evJson : Ev → Json
  | (.begin c _, .started) => Json.arr #["started", toJson c]
  | (.begin c _, .hit v) => Json.arr #["hit", toJson c, toJson v]
  | (.finish c _, .ret v) => Json.arr #["ret", toJson c, toJson v]
  | (.finish c _, .raised e) => Json.arr #["raised", toJson c, toJson e]
  | (.finish c _, .cancelled) => Json.arr #["cancelled", toJson c]
  | (.clear, _) => Json.arr #["clear"]
  | (.discard _, _) => Json.arr #["discard"]
  | (.info, .seq o) => outJson o
  | _ => Json.arr #["ignored"]

def infoJson (cfg : Cfg) (s : St) : Json := outJson (Impl.info cfg s)

def cfgMax (cfg : Cfg) : Option Nat :=
  match cfg.var with
  | .uncached => some 0
  | .memo => none
  | .bounded n => some n

def runSeq (j : Json) : Except String Json := do
  let d ← parseDec (← j.getObjVal? "dec")
  let ops ← (← getArr j "ops").toList.mapM parseOp
  let oi := AsyncVerif.Lru.run (Impl.step (Impl.lruCache d)) St.init ops
  let os := AsyncVerif.Lru.run (Spec.step (Spec.lruCache d)) St.init ops
  pure (Json.mkObj [("impl", Json.arr (oi.toArray.map outJson)), ("spec", Json.arr (os.toArray.map outJson))])

def runConc (j : Json) : Except String Json := do
  let d ← parseDec (← j.getObjVal? "dec")
  let cfg := Impl.lruCache d
  let tasks ← (← getArr j "tasks").toList.mapM fun t => do
    let prog ← (← t.getArr?).toList.mapM parseAct
    pure (⟨prog, 0, none⟩ : Task)
  let sched ← (← getArr j "sched").toList.mapM parseSOp
  let steps := schedRun cfg (CSt.init, tasks) sched
  let evs := schedEvents cfg (CSt.init, tasks) sched
  let fin := schedFinal cfg (CSt.init, tasks) sched
  let g := grun cfg (CSt.init, Ghost.init) (evs.map Prod.fst)
  -- run-time re-check of what the theorems say (size bound at every step, counters, same final state)
  let sizeOk := steps.all fun st => match cfgMax cfg with
    | some n => decide (st.2.core.store.length ≤ n)
    | none => true
  let countersOk := decide (g.1.core.hits + g.1.core.misses = g.2.calls) && decide (g.1.core.misses = g.2.invoked)
  let sameFinal := decide (g.1 = fin.1)
  pure (Json.mkObj [
    ("steps", Json.arr (steps.toArray.map fun st => Json.mkObj [
      ("ev", Json.arr (st.1.toArray.map evJson)),
      ("info", infoJson cfg st.2.core),
      ("inflight", toJson st.2.inflight.length)])),
    ("calls", toJson g.2.calls), ("invoked", toJson g.2.invoked),
    ("size_ok", toJson sizeOk), ("counters_ok", toJson countersOk), ("same_final", toJson sameFinal)])

def run (j : Json) : Except String Json := do
  let mode ← getStr j "mode"
  if mode == "seq" then runSeq j else runConc j

end Drv.Lru
