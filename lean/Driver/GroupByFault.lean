import Driver.Util
import Driver.GroupBy
import AsyncVerif.Machines.GroupByFault
open Lean AsyncVerif.GroupByFault

namespace Drv.GroupByFault

def outJson : Out → Json
  | .key k g => Json.arr #["key", toJson k, toJson g]
  | .item v => Json.arr #["item", toJson v]
  | .stop => Json.arr #["stop"]
  | .closed => Json.arr #["closed"]
  | .exc e => Json.arr #["exc", toJson e]

/-- `["i", v, k]` item `v` with key `k` | `["k", v, e]` item `v` whose key computation raises `e` |
    `["s", e]` a pull that raises `e` -/
def parseResp (j : Json) : Except String Resp := do
  let a ← j.getArr?
  let tag ← (← arrGet a 0).getStr?
  match tag with
  | "i" => pure (.item (← (← arrGet a 1).getNat?) (← (← arrGet a 2).getNat?))
  | "k" => pure (.keyErr (← (← arrGet a 1).getNat?) (← (← arrGet a 2).getNat?))
  | "s" => pure (.srcErr (← (← arrGet a 1).getNat?))
  | t => throw s!"bad script entry {t}"

def run (j : Json) : Except String Json := do
  let script ← (← getArr j "script").toList.mapM parseResp
  let ops ← (← getArr j "ops").toList.mapM Drv.GroupBy.parseOp
  let oi := AsyncVerif.GroupByFault.run stepIF (init script) ops
  let os := AsyncVerif.GroupByFault.run stepSF (init script) ops
  let ci := consumed stepIF script.length (init script) ops
  let cs := consumed stepSF script.length (init script) ops
  pure (Json.mkObj [("impl", Json.arr (oi.toArray.map outJson)), ("spec", Json.arr (os.toArray.map outJson)),
    ("impl_consumed", toJson ci), ("spec_consumed", toJson cs)])

end Drv.GroupByFault
