import Driver.Util
import AsyncVerif.Machines.CloseBusy
open Lean AsyncVerif.CloseBusy

/-!
Request  `{"m":"closebusy","kind":"gen"|"chain"|"groupby"|"borrowed"|"tee"|"scoped"|"teeall",
           "srcKind":"native"|"class","k":n,"closeSusp":n,"sched":[0,1,...]}`
optional `"polling":true` (the deliberately wrong `aclose()` that waits for the handle to become idle).

Task `0` = A: it IS suspended inside the user's `S.__anext__()` through the handle (its first token has been
delivered already), `k` more suspensions follow.  Task `1` = B: `await handle.aclose()`.  One entry of `sched` =
one `send(None)` on that task's coroutine; entries naming a finished task are skipped.

Response `{"a":[out…],"b":[out…],"events":[["user",tok]|["lib"],…],"sourceClosed":bool,
           "closes":n,"closeCalls":n,"handleDone":bool,"aSteps":n,"bSteps":n}`
with `out` = `["susp",["user",tok]]` | `["susp",["lib"]]` | `"item"` | `"stop"` | `"ret"` | `"busy"`
(`busy` = RuntimeError "aclose(): asynchronous generator is already running") and `tok` = `["src",j]`
(suspension `j` of `S.__anext__()`, counted from the one A was found in = 0) | `["close",j]`
(suspension `j` of the `S.aclose()` call it belongs to).
-/
namespace Drv.CloseBusy

def parseKind (s : String) : Except String Kind :=
  match s with
  | "gen" => pure .gen
  | "chain" => pure .chainObj
  | "groupby" => pure .groupbyObj
  | "borrowed" => pure .borrowed
  | "scoped" => pure .scoped
  | "tee" => pure .teeChild
  | "teeall" => pure .teeAll
  | k => throw s!"bad kind {k}"

def parseSrcKind (s : String) : Except String SrcKind :=
  match s with
  | "native" => pure .native
  | "class" => pure .cls
  | k => throw s!"bad srcKind {k}"

def parseTask (j : Json) : Except String Op := do
  match ← j.getNat? with
  | 0 => pure (.sched .A)
  | 1 => pure (.sched .B)
  | n => throw s!"bad task {n}"

def tokJson : Tok → Json
  | .src j => Json.arr #["src", toJson j]
  | .close j => Json.arr #["close", toJson j]

def originJson : Origin → Json
  | .user tok => Json.arr #["user", tokJson tok]
  | .lib => Json.arr #["lib"]

def outJson : Out → Json
  | .susp o => Json.arr #["susp", originJson o]
  | .item => "item"
  | .stop => "stop"
  | .ret => "ret"
  | .busy => "busy"

def run (j : Json) : Except String Json := do
  let kind ← parseKind (← getStr j "kind")
  let srcKind ← parseSrcKind (← getStr j "srcKind")
  let k ← getNat j "k"
  let cs := natOr j "closeSusp" 0
  let ops ← (← getArr j "sched").toList.mapM parseTask
  let s0 := init kind srcKind k cs
  let s := if boolOr j "polling" false then runPolling s0 ops else AsyncVerif.CloseBusy.run s0 ops
  pure (Json.mkObj [("a", Json.arr (s.aOut.map outJson).toArray), ("b", Json.arr (s.bOut.map outJson).toArray),
    ("events", Json.arr (s.events.map (fun e => originJson e.origin)).toArray),
    ("sourceClosed", toJson s.dead), ("closes", toJson s.closes), ("closeCalls", toJson s.closeCalls),
    ("handleDone", toJson s.handleDone), ("aSteps", toJson s.aSteps), ("bSteps", toJson s.bSteps)])

end Drv.CloseBusy
