import Driver.Util
import AsyncVerif.Machines.AwaitifyReuse
open Lean AsyncVerif.AwaitifyReuse

namespace Drv.AwaitifyReuse

/-- answers: ["plain", v] | ["awaitable", v] | ["raises", e] | ["awaitable_raises", e] -/
def parseAnswer (j : Json) : Except String Answer := do
  let a ← j.getArr?
  let tag ← (← arrGet a 0).getStr?
  let n ← (← arrGet a 1).getNat?
  match tag with
  | "plain" => pure (.plain n)
  | "awaitable" => pure (.awaitable n)
  | "raises" => pure (.raisesSync n)
  | "awaitable_raises" => pure (.awaitableRaising n)
  | t => throw s!"bad answer {t}"

def parseFunc (j : Json) : Except String (Bool × List Answer) := do
  let coro ← getBool j "coro"
  let answers ← (← getArr j "answers").toList.mapM parseAnswer
  pure (coro, answers)

/-- ops: ["wrap", f] | ["call", w] -/
def parseOp (j : Json) : Except String Op := do
  let a ← j.getArr?
  let tag ← (← arrGet a 0).getStr?
  let n ← (← arrGet a 1).getNat?
  match tag with
  | "wrap" => pure (.wrap n)
  | "call" => pure (.call n)
  | t => throw s!"bad op {t}"

def outJson : Out → Json
  | .wrapper w => Json.arr #["wrapper", toJson w]
  | .ret v => Json.arr #["ret", toJson v]
  | .raised e => Json.arr #["raised", toJson e]
  | .typeError => Json.arr #["typeerror"]
  | .unawaited => Json.arr #["unawaited"]
  | .noSuchWrapper => Json.arr #["nosuchwrapper"]

def stateJson : Wrapper → Json
  | .function _ => "function"
  | .awaitify _ .undecided => "undecided"
  | .awaitify _ .sync => "sync"
  | .awaitify _ .async => "async"

def run (j : Json) : Except String Json := do
  let funcs ← (← getArr j "funcs").toList.mapM parseFunc
  let ops ← (← getArr j "ops").toList.mapM parseOp
  let fs : Nat → Func := fun i =>
    match funcs[i]? with
    | some (coro, answers) => ⟨coro, fun n => answers.getD n (.plain 0)⟩
    | none => ⟨false, fun _ => .plain 0⟩
  for op in ops do
    match op with
    | .wrap f => if f ≥ funcs.length then throw s!"no function {f}"
    | _ => pure ()
  let fin := stateAfter fs init ops
  for (i, (_, answers)) in (List.range funcs.length).zip funcs do
    if fin.calls i > answers.length then throw s!"script of function {i} exhausted"
  let tr := AsyncVerif.AwaitifyReuse.run fs init ops
  let sp := specRun fs specInit ops
  pure (Json.mkObj [
    ("outs", Json.arr (tr.map (outJson ·.out)).toArray),
    ("spec", Json.arr (sp.map (outJson ·.out)).toArray),
    ("states", Json.arr (fin.wrappers.map stateJson).toArray)])

end Drv.AwaitifyReuse
