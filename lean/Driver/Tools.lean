import Driver.Util
import AsyncVerif.Impl.Tools
import AsyncVerif.Impl.Aggregations
open Lean AsyncVerif

namespace Drv.Tools

partial def parseVal (j : Json) : Except String Val := do
  let a ← j.getArr?
  let tag ← (← arrGet a 0).getStr?
  match tag with
  | "o" => pure (.obj (← (← arrGet a 1).getNat?) (← (← arrGet a 2).getInt?))
  | "i" => pure (.int (← (← arrGet a 1).getInt?))
  | "b" => pure (.bool (← (← arrGet a 1).getBool?))
  | "n" => pure .none
  | "fill" => pure .fill
  | "t" => do
    let vs ← (a.toList.drop 1).mapM parseVal
    pure (.tup vs)
  | t => throw s!"bad value tag {t}"

partial def valJson : Val → Json
  | .obj i _ => Json.arr #["o", toJson i]
  | .int n => Json.arr #["i", toJson n]
  | .bool b => Json.arr #["b", toJson b]
  | .none => Json.arr #["n"]
  | .fill => Json.arr #["fill"]
  | .tup vs => Json.arr (#[Json.str "t"] ++ (vs.map valJson).toArray)
  | .lst vs => Json.arr (#[Json.str "l"] ++ (vs.map valJson).toArray)

def parseResp (j : Json) : Except String Resp := do
  let a ← j.getArr?
  let tag ← (← arrGet a 0).getStr?
  if tag == "!" then pure (.err (← (← arrGet a 1).getNat?))
  else pure (.item (← parseVal j))

def parseKind (s : String) : Except String SrcKind :=
  match s with
  | "list" => pure .list | "seq" => pure .seq | "iter" => pure .iter
  | "agen" => pure .agen | "aobj" => pure .aobj | "aobj_nc" => pure .aobjNc
  | k => throw s!"bad kind {k}"

def parseSrc (j : Json) : Except String Src := do
  let kind ← parseKind (← getStr j "kind")
  let script ← (← getArr j "script").toList.mapM parseResp
  pure { kind := kind, script := script }

def keyOf (v : Val) : Int := (v.key?).getD 0

/-- user callable behaviours understood by the driver (mirrored in harness/tools.py) -/
def parseFn (j : Json) : Except String FnBeh := do
  let kind ← getStr j "kind"
  let failAt : Option Nat := match getNat j "fail_at" with | .ok n => some n | _ => none
  let eid := natOr j "eid" 0
  let base : Nat → List Val → Val ← match kind with
    | "keymod" => do
      let m ← getNat j "m"; let r ← getNat j "r"
      pure fun _ args => .bool (decide ((keyOf (args.headD .none)) % (m : Int) = (r : Int)))
    | "truthy" => pure fun _ args => .bool (args.headD .none).truthy
    | "pair" => pure fun _ args => .tup args
    | "key" => pure fun _ args => .int (keyOf (args.headD .none))
    | "negkey" => pure fun _ args => .int (- keyOf (args.headD .none))
    | "ident" => pure fun _ args => args.headD .none
    | "const" => do let v ← parseVal (← j.getObjVal? "v"); pure fun _ _ => v
    | "seq" => do
      let vs ← (← getArr j "vs").toList.mapM parseVal
      pure fun n _ => vs.getD n (vs.getLastD .none)
    | k => throw s!"bad fn kind {k}"
  pure fun n args => if failAt = some n then .error eid else .ok (base n args)

def parseCons (j : Json) : Except String Cons := do
  let fin ← getStr j "fin"
  let take := natOr j "take" 1
  match fin with
  | "exhaust" => pure (.run 0 .exhaust)
  | "close" => pure (.run (take - 1) .close)
  | "throw" => pure (.run (take - 1) (.throw (natOr j "eid" 999)))
  | f => throw s!"bad fin {f}"

def excJson : Exc → Json
  | .user e => Json.arr #["user", toJson e]
  | .typeError => Json.arr #["lib", "TypeError"]
  | .valueError => Json.arr #["lib", "ValueError"]
  | .runtimeError => Json.arr #["lib", "RuntimeError"]
  | .stop => Json.arr #["lib", "StopAsyncIteration"]
  | .genExit => Json.arr #["lib", "GeneratorExit"]
  | .ignoredExit => Json.arr #["lib", "RuntimeError"]
  | .outOfFuel => Json.arr #["model", "outOfFuel"]

def outcomeJson : Outcome → Json
  | .returned v => Json.arr #["returned", valJson v]
  | .exhausted => Json.arr #["exhausted"]
  | .closedOk => Json.arr #["closed"]
  | .raised e => Json.arr #["raised", excJson e]

def evJson : Ev → Json
  | .pull s => Json.arr #["pull", toJson s]
  | .item s v => Json.arr #["item", toJson s, valJson v]
  | .endd s => Json.arr #["end", toJson s]
  | .srcErr s e => Json.arr #["srcerr", toJson s, toJson e]
  | .call f args => Json.arr #["call", toJson f, Json.arr (args.map valJson).toArray]
  | .ret f v => Json.arr #["ret", toJson f, valJson v]
  | .callErr f e => Json.arr #["callerr", toJson f, toJson e]
  | .yld v => Json.arr #["yield", valJson v]
  | .closed => Json.arr #["closed"]
  | .thrown e => Json.arr #["thrown", toJson e]
  | .close s => Json.arr #["close", toJson s]

def statusStr : Status → String
  | .fresh => "fresh" | .running => "running" | .exhausted => "exhausted"
  | .failed => "failed" | .closed => "closed"

/-- C04's predicate on the final state of a source -/
def released (src : Src) : Bool :=
  match src.kind with
  | .aobj => src.closes > 0 || src.status == .exhausted
  | .aobjNc => src.status == .exhausted
  | _ => src.status == .closed || src.status == .exhausted || src.status == .failed

def optFn (j : Json) (k : String) : Option Nat :=
  match getNat j k with | .ok n => some n | _ => none

def optVal (j : Json) (k : String) : Except String (Option Val) :=
  match j.getObjVal? k with
  | .ok .null => pure none
  | .ok v => do pure (some (← parseVal v))
  | .error _ => pure none

/-- `"params": {"kw": [[k, v], ...]}`: the keyword arguments of `dict(iterable, **kw)` in call order, keys and values
    in the value encoding of `parseVal`; absent / `null` = the call without keywords -/
def parseKw (p : Json) : Except String (Option (List (Val × Val))) :=
  match p.getObjVal? "kw" with
  | .ok .null => pure none
  | .ok v => do
    let l ← (← v.getArr?).toList.mapM fun e => do
      let pr ← e.getArr?
      if pr.size != 2 then throw "kw entry must be [key, value]"
      pure ((← parseVal (← arrGet pr 0)), (← parseVal (← arrGet pr 1)))
    pure (some l)
  | .error _ => pure none

inductive Prog where
  | gen (impl std : M Unit)
  | val (impl std : M Val)

def program (tool : String) (p : Json) (nsrc : Nat) (fuel : Nat) : Except String Prog := do
  let srcs := List.range nsrc
  match tool with
  | "filter" => pure (.gen (Impl.filter (optFn p "fn") 0 fuel) (Std.filterLoop (optFn p "fn") false 0 fuel))
  | "filterfalse" => pure (.gen (Impl.filterfalse (optFn p "fn") 0 fuel) (Std.filterLoop (optFn p "fn") true 0 fuel))
  | "enumerate" => do
    let st := match getInt p "start" with | .ok n => n | _ => 0
    pure (.gen (Impl.enumerate 0 st fuel) (Std.enumerateLoop 0 st fuel))
  | "takewhile" => pure (.gen (Impl.takewhile 0 0 fuel) (Std.takewhileLoop 0 0 fuel))
  | "dropwhile" => pure (.gen (Impl.dropwhile 0 0 fuel) (Std.dropwhileLoop 0 0 false fuel))
  | "starmap" => pure (.gen (Impl.starmap 0 0 fuel) (Std.starmapLoop 0 0 fuel))
  | "accumulate" => do
    let ini ← optVal p "initial"
    pure (.gen (Impl.accumulate (optFn p "fn") ini 0 fuel) (Std.accumulate (optFn p "fn") ini 0 fuel))
  | "batched" => do
    let n ← getNat p "n"
    let strict := boolOr p "strict" false
    pure (.gen (Impl.batched n strict 0 fuel) (Std.batched n strict 0 fuel))
  | "chain" => pure (.gen (Impl.chain srcs fuel) (Std.chain srcs fuel))
  | "compress" => pure (.gen (Impl.compress 0 1 fuel) (Std.compressLoop 0 1 fuel))
  | "cycle" => pure (.gen (Impl.cycle 0 fuel) (Std.cycle 0 fuel))
  | "islice" => do
    let start := natOr p "start" 0
    let stop := optFn p "stop"
    let step := natOr p "step" 1
    pure (.gen (Impl.islice 0 start stop step fuel) (Std.islice 0 start stop step fuel))
  | "pairwise" => pure (.gen (Impl.pairwise 0 fuel) (Std.pairwise 0 fuel))
  | "zip" =>
    if boolOr p "strict" false then pure (.gen (Impl.zipStrict srcs fuel) (Std.zipStrict srcs fuel))
    else pure (.gen (Impl.zip srcs fuel) (Std.zip srcs fuel))
  | "map" => pure (.gen (Impl.map 0 srcs fuel) (Std.map 0 srcs fuel))
  | "zip_longest" => do
    let fv := (← optVal p "fill").getD .none
    pure (.gen (Impl.zipLongest fv srcs fuel) (Std.zipLongest fv srcs fuel))
  | "iter" => do
    let sv := (← optVal p "sentinel").getD .none
    pure (.gen (Impl.iterSentinel 0 sv fuel) (Std.iterSentinel 0 sv fuel))
  | "sum" => do
    let st ← optVal p "start"
    pure (.val (Impl.sum st 0 fuel) (Std.sumLoop 0 (st.getD (.int 0)) fuel))
  | "min" => do
    let d ← optVal p "default"
    pure (.val (Impl.minmax (optFn p "key") false d 0 fuel) (Std.minmax (optFn p "key") false d 0 fuel))
  | "max" => do
    let d ← optVal p "default"
    pure (.val (Impl.minmax (optFn p "key") true d 0 fuel) (Std.minmax (optFn p "key") true d 0 fuel))
  | "reduce" => do
    let ini ← optVal p "initial"
    pure (.val (Impl.reduce 0 ini 0 fuel) (Std.reduce 0 ini 0 fuel))
  | "list" => pure (.val (Impl.list 0 fuel) (do pure (.lst (← Std.collectAll 0 [] fuel))))
  | "tuple" => pure (.val (Impl.tuple 0 fuel) (do pure (.tup (← Std.collectAll 0 [] fuel))))
  | "set" => pure (.val (Impl.set 0 fuel) (Std.set 0 fuel))
  | "dict" => do
    match ← parseKw p with
    | none => pure (.val (Impl.dict 0 fuel) (Std.dict 0 fuel))
    | some kw => pure (.val (Impl.dictKw kw 0 fuel) (Std.dictKw kw 0 fuel))
  | "sorted" => pure (.val (Impl.sorted (optFn p "key") (boolOr p "reverse" false) 0 fuel)
                           (Std.sorted (optFn p "key") (boolOr p "reverse" false) 0 fuel))
  | "nlargest" => pure (.val (Impl.nBest true (natOr p "n" 0) (optFn p "key") 0 fuel)
                             (Std.nBest true (natOr p "n" 0) (optFn p "key") 0 fuel))
  | "nsmallest" => pure (.val (Impl.nBest false (natOr p "n" 0) (optFn p "key") 0 fuel)
                              (Std.nBest false (natOr p "n" 0) (optFn p "key") 0 fuel))
  | "merge" => pure (.gen (Impl.merge (optFn p "key") (boolOr p "reverse" false) srcs fuel)
                          (Std.merge (optFn p "key") (boolOr p "reverse" false) srcs fuel))
  | "all" => pure (.val (Impl.all 0 fuel) (Std.allLoop 0 fuel))
  | "any" => pure (.val (Impl.any 0 fuel) (Std.anyLoop 0 fuel))
  | t => throw s!"unknown tool {t}"

def worldJson (w : World) (nsrc : Nat) (out : Outcome) : Json :=
  Json.mkObj [
    ("vis", Json.arr (w.vis.map evJson).toArray),
    ("rel", Json.arr (w.rel.map evJson).toArray),
    ("out", outcomeJson out),
    ("srcs", Json.arr ((List.range nsrc).map fun i =>
      let s := w.srcs i
      Json.mkObj [("status", statusStr s.status), ("closes", toJson s.closes), ("left", toJson s.script.length),
                  ("released", toJson (released s))]).toArray)]

def run (j : Json) : Except String Json := do
  let tool ← getStr j "tool"
  let params := (j.getObjVal? "params").toOption.getD (Json.mkObj [])
  let srcl ← (← getArr j "srcs").toList.mapM parseSrc
  let fnl ← (match getArr j "fns" with | .ok a => a.toList.mapM parseFn | _ => pure [])
  let cons ← parseCons (← j.getObjVal? "cons")
  let fuel := natOr j "fuel" 100000
  let w0 : World := {
    srcs := fun i => srcl.getD i { kind := .list, script := [] },
    fns := fun i => fnl.getD i (fun _ _ => .ok .none),
    calls := fun _ => 0, cons := cons, vis := [], rel := [] }
  -- the reference world: every source is a plain class-based iterator (what the sync reference uses)
  let wref : World := { w0 with srcs := fun i => { (w0.srcs i) with kind := .aobjNc } }
  match ← program tool params srcl.length fuel with
  | .gen impl std =>
    let (r1, w1) := impl w0
    let (r2, w2) := std w0
    let (r3, w3) := std wref
    pure (Json.mkObj [("impl", worldJson w1 srcl.length (outcomeGen r1)), ("std", worldJson w2 srcl.length (outcomeGen r2)),
                      ("stdref", worldJson w3 srcl.length (outcomeGen r3))])
  | .val impl std =>
    let (r1, w1) := impl w0
    let (r2, w2) := std w0
    let (r3, w3) := std wref
    pure (Json.mkObj [("impl", worldJson w1 srcl.length (outcomeVal r1)), ("std", worldJson w2 srcl.length (outcomeVal r2)),
                      ("stdref", worldJson w3 srcl.length (outcomeVal r3))])

end Drv.Tools
