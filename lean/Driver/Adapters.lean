import Driver.Util
import AsyncVerif.Machines.Adapters
open Lean AsyncVerif.Adapters

/-! Line protocol for the asynctools adapters (C19): `{"m":"adapters","t":"any_iter"|"await_each"|"apply"|"sync",…}`.

* exc   := `["user", e]` | `["lib", "TypeError"]`
* res   := `["ok", v]` | `["err", exc]`
* item  := `["p", v]` | `["a", id, [tok…], res]`
* event := `["pull"]` | `["start", a]` | `["susp", t]` | `["fin", a]` | `["call", f, [v…], [[k, v]…]]`
* out   := `["item", v]` | `["stop"]` | `["raised", exc]` | `["closed"]`
-/
namespace Drv.Adapters

def excJson : Exc → Json
  | .user e => Json.arr #["user", toJson e]
  | .typeError => Json.arr #["lib", "TypeError"]

def resJson : Res → Json
  | .ok v => Json.arr #["ok", toJson v]
  | .err e => Json.arr #["err", excJson e]

def kwJson (kw : List (Nat × Val)) : Json :=
  Json.arr (kw.toArray.map fun (k, v) => Json.arr #[toJson k, toJson v])

def evJson : Ev → Json
  | .pull => Json.arr #["pull"]
  | .start a => Json.arr #["start", toJson a]
  | .susp t => Json.arr #["susp", toJson t]
  | .fin a => Json.arr #["fin", toJson a]
  | .call f args kw => Json.arr #["call", toJson f, toJson args, kwJson kw]

def evsJson (l : List Ev) : Json := Json.arr (l.toArray.map evJson)

def outJson : Out → Json
  | .item v => Json.arr #["item", toJson v]
  | .stop => Json.arr #["stop"]
  | .raised e => Json.arr #["raised", excJson e]
  | .closed => Json.arr #["closed"]

def stepJson (s : Step) : Json := Json.arr #[evsJson s.1, outJson s.2]
def stepsJson (l : List Step) : Json := Json.arr (l.toArray.map stepJson)

def parseNats (j : Json) : Except String (List Nat) := do
  (← j.getArr?).toList.mapM fun x => x.getNat?

def parseExc (j : Json) : Except String Exc := do
  let a ← j.getArr?
  match ← (← arrGet a 0).getStr? with
  | "user" => pure (.user (← (← arrGet a 1).getNat?))
  | "lib" => pure .typeError
  | t => throw s!"bad exc {t}"

def parseRes (j : Json) : Except String Res := do
  let a ← j.getArr?
  match ← (← arrGet a 0).getStr? with
  | "ok" => pure (.ok (← (← arrGet a 1).getNat?))
  | "err" => pure (.err (← parseExc (← arrGet a 1)))
  | t => throw s!"bad res {t}"

def parseItem (j : Json) : Except String Item := do
  let a ← j.getArr?
  match ← (← arrGet a 0).getStr? with
  | "p" => pure (.plain (← (← arrGet a 1).getNat?))
  | "a" => pure (.aw ⟨← (← arrGet a 1).getNat?, ← parseNats (← arrGet a 2), ← parseRes (← arrGet a 3)⟩)
  | t => throw s!"bad item {t}"

def parseKind (s : String) : Except String Kind :=
  match s with
  | "list" => pure .list
  | "iter" => pure .iter
  | "aiter" => pure .aiter
  | t => throw s!"bad kind {t}"

def parseOp (j : Json) : Except String Op := do
  match ← j.getStr? with
  | "n" => pure .next
  | "c" => pure .close
  | t => throw s!"bad op {t}"

def parseSrc (j : Json) : Except String Src := do
  let kind ← parseKind (← getStr j "kind")
  let items ← (← getArr j "items").toList.mapM fun p => do
    let a ← p.getArr?
    pure ((← parseNats (← arrGet a 0)), (← parseItem (← arrGet a 1)))
  let endToks ← parseNats (← j.getObjVal? "endToks")
  pure ⟨kind, items, endToks⟩

def parseOuter (j : Json) : Except String (Option Outer) :=
  match j with
  | .null => pure none
  | o => do
    let fail ← match ← o.getObjVal? "fail" with
      | .null => pure none
      | e => do pure (some (← parseExc e))
    pure (some ⟨← getNat o "id", ← parseNats (← o.getObjVal? "toks"), fail⟩)

instance : BEq Op := ⟨fun a b => decide (a = b)⟩

/-- the laziness specification (theorem `C19_await_each_lazy`): applicable when the source is
    synchronous, all elements are awaitables that succeed, and the operations are requests only -/
def lazySpec (src : Src) (ops : List Op) : Option (List Step) :=
  let aws := src.items.filterMap fun p => match p.2 with
    | .aw a => (match a.res with | .ok _ => some a | .err _ => none)
    | .plain _ => none
  if src.kind != .aiter && aws.length == src.items.length && ops.all (· == .next) then
    some ((aws.map (eachSeg src.kind)).take ops.length ++ tailSteps src.kind (ops.length - aws.length))
  else none

instance : BEq Kind := ⟨fun a b => decide (a = b)⟩

/-- `apply` on plain lists: segments of the arguments up to and including the first failing one -/
def applySpec (f : Fn) (args : List Item) (kwargs : List (Nat × Item)) : List Ev × Res :=
  let all := args ++ kwargs.map Prod.snd
  let good := all.takeWhile fun it => match (awaitItem it).2 with | .ok _ => true | .err _ => false
  let evs := (good.map fun it => (awaitItem it).1).flatten
  match all.drop good.length with
  | bad :: _ => (evs ++ (awaitItem bad).1, (awaitItem bad).2)
  | [] =>
    let vals := good.filterMap fun it => match (awaitItem it).2 with | .ok v => some v | .err _ => none
    let vs := vals.take args.length
    let kvs := (kwargs.map Prod.fst).zip (vals.drop args.length)
    (evs ++ [Ev.call f.id vs kvs], f.beh vs kvs)

def parseFlavour (s : String) : Except String Flavour :=
  match s with
  | "notCallable" => pure .notCallable
  | "syncPlain" => pure .syncPlain
  | "syncAw" => pure .syncAw
  | "objAsync" => pure .objAsync
  | "asyncDef" => pure .asyncDef
  | "partialAsync" => pure .partialAsync
  | t => throw s!"bad flavour {t}"

def parseKw (j : Json) : Except String (List (Nat × Val)) := do
  (← j.getArr?).toList.mapM fun p => do
    let a ← p.getArr?
    pure ((← (← arrGet a 0).getNat?), (← (← arrGet a 1).getNat?))

def run (j : Json) : Except String Json := do
  let t ← getStr j "t"
  match t with
  | "any_iter" =>
    let src ← parseSrc j
    let outer ← parseOuter (← j.getObjVal? "outer")
    let ops ← (← getArr j "ops").toList.mapM parseOp
    let steps := AsyncVerif.Adapters.run anyStep (.fresh outer src) ops
    pure (Json.mkObj [("impl", stepsJson steps),
      ("spec", Json.arr ((specOps (anyResults outer src) ops).toArray.map outJson))])
  | "await_each" =>
    let src ← parseSrc j
    let ops ← (← getArr j "ops").toList.mapM parseOp
    let steps := AsyncVerif.Adapters.run eachStep (.live src) ops
    let spec : Json := if src.kind == .aiter then .null
      else Json.arr ((specOps (eachResults src) ops).toArray.map outJson)
    pure (Json.mkObj [("impl", stepsJson steps), ("spec", spec),
      ("lazy", match lazySpec src ops with | some l => stepsJson l | none => .null)])
  | "apply" =>
    let fj ← j.getObjVal? "f"
    let fres ← parseRes (← fj.getObjVal? "res")
    let f : Fn := ⟨← getNat fj "id", fun _ _ => fres⟩
    let args ← (← getArr j "args").toList.mapM parseItem
    let kwargs ← (← getArr j "kwargs").toList.mapM fun p => do
      let a ← p.getArr?
      pure ((← (← arrGet a 0).getNat?), (← parseItem (← arrGet a 1)))
    let r := apply f args kwargs
    let s := applySpec f args kwargs
    pure (Json.mkObj [("impl", Json.arr #[evsJson r.1, resJson r.2]),
      ("spec", Json.arr #[evsJson s.1, resJson s.2])])
  | "sync" =>
    let fl ← parseFlavour (← getStr j "flavour")
    let toks ← parseNats (← j.getObjVal? "toks")
    let res ← parseRes (← j.getObjVal? "res")
    let f : UFn := ⟨fl, ← getNat j "id", fun _ _ => toks, fun _ _ => res⟩
    let args ← parseNats (← j.getObjVal? "args")
    let kw ← parseKw (← j.getObjVal? "kw")
    let synced := match sync f with | .same => "same" | .wrapped => "wrapped" | .typeError => "typeError"
    let r := callSynced f args kw
    let spec : Json := if fl.callable then
        let s := native f args kw
        Json.arr #[evsJson s.1, resJson s.2]
      else .null
    pure (Json.mkObj [("synced", synced), ("impl", Json.arr #[evsJson r.1, resJson r.2]), ("spec", spec)])
  | _ => throw s!"bad adapter {t}"

end Drv.Adapters
