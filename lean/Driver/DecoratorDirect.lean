import Driver.Util
import Driver.Decorator
import AsyncVerif.Machines.DecoratorDirect
open Lean AsyncVerif.Decorator

/-! Driver for `Machines/DecoratorDirect.lean`.

    {"m":"decoratordirect", "gb":…, "calls":[…], "ops":[…],        -- as the "decorator" run mode
     "direct_at": k,                                               -- optional
     "direct_prog": {"gen":{…}, "plain":{…}, "bodySusp":n, "body":"V5"}}   -- every field optional

    The direct task `async with cm: <body>` is run to completion (sends only) just before the op of
    index `k` (`k ≥ len(ops)` or no `direct_at`: no direct use — as `harness/props/c15.py`).
    Alternatively `"dops"`: an explicit interleaving, ops as in "ops" plus ["ds"] (send on the direct
    task) and ["dx", e] (throw user exception `e` into it); then "ops"/"direct_at" are ignored.
    Defaults of `direct_prog`: the program of call 0 if there is one (the manager object the harness
    enters directly is scripted by call 0), else a generator that yields once / a plain manager that
    does nothing; "bodySusp" 0, "body" "V0".

    Answer: the JSON of the "decorator" run mode (for the decorated calls; "spec" = the private-manager
    machine on the call ops) plus "direct_log", "direct_pc", "direct_outs", "gen0_touched". -/
namespace Drv.DecoratorDirect
open Drv.Decorator

def dfltPlain : PlainProg := ⟨0, .ok, 0, .falsy, .falsy⟩

def parseDirect (calls : List CallCfg) (j? : Option Json) : Except String CallCfg := do
  let base : CallCfg := match calls with
    | cc :: _ => { cc with bodySusp := 0, body := .returns 0 }
    | [] => { gen := dfltProg, plain := dfltPlain, bodySusp := 0, body := .returns 0 }
  match j? with
  | none => pure base
  | some .null => pure base
  | some j =>
    let gen ← match j.getObjVal? "gen" with
      | .ok g => parseGen g
      | .error _ => pure base.gen
    let plain ← match j.getObjVal? "plain" with
      | .ok g => parsePlain g
      | .error _ => pure base.plain
    let body ← match getStr j "body" with
      | .ok b => parseBody b
      | .error _ => pure base.body
    pure { gen := gen, plain := plain, bodySusp := natOr j "bodySusp" 0, body := body }

def parseDOp (j : Json) : Except String DOp := do
  let a ← j.getArr?
  let tag ← (← arrGet a 0).getStr?
  match tag with
  | "ds" => pure .directSend
  | "dx" => pure (.directThrow (.user (← (← arrGet a 1).getNat?)))
  | _ => pure (.call (← parseOp j))

/-- sends after which the direct task is certainly done (further sends are skipped) -/
def directFuel (gb : Bool) (d : CallCfg) : Nat :=
  2 + (if gb then d.gen.preSusp else d.plain.enterSusp) + d.bodySusp +
    (if gb then max d.gen.postSusp d.gen.thrSusp else d.plain.exitSusp)

/-- all sends of the direct task, until it is done -/
def directSends (cfg : Cfg) (d : CallCfg) (s : DState) : Nat → List DOp
  | 0 => []
  | fuel + 1 =>
    match s.dpc with
    | .done _ => []
    | _ => .directSend :: directSends cfg d (dstep cfg d s .directSend).1 fuel

/-- the interleaving meant by `direct_at = k` -/
def weave (cfg : Cfg) (d : CallCfg) (ops : List Op) (k : Option Nat) : List DOp :=
  match k with
  | some k =>
    if k < ops.length then
      let before := (ops.take k).map DOp.call
      let s := (drunFrom cfg d (DState.init d) before).1
      before ++ directSends cfg d s (directFuel cfg.generatorBased d) ++ (ops.drop k).map DOp.call
    else ops.map DOp.call
  | none => ops.map DOp.call

def run (j : Json) : Except String Json := do
  let gb ← getBool j "gb"
  let calls ← (← getArr j "calls").toList.mapM parseCall
  let cfg : Cfg := { generatorBased := gb, calls := calls }
  let d ← parseDirect calls (j.getObjVal? "direct_prog").toOption
  let dops ← match getArr j "dops" with
    | .ok a => a.toList.mapM parseDOp
    | .error _ => do
      let ops ← (← getArr j "ops").toList.mapM parseOp
      let k ← match j.getObjVal? "direct_at" with
        | .ok v => getOptNat v
        | .error _ => pure none
      pure (weave cfg d ops k)
  let (ds, outs) := drun cfg d dops
  let s := ds.st
  let cops := callOps dops
  let (ps, pouts) := prun cfg cops
  let idx := List.range calls.length
  let accepted := idx.all fun c => (specFrom .init (proj c s.log)).isSome
  pure (Json.mkObj [
    ("impl", Json.mkObj [
      ("outs", Json.arr ((callOuts dops outs).toArray.map outJson)),
      ("log", Json.arr (s.log.toArray.map fun e => Json.arr (#[toJson e.call, optNatJson e.gen] ++ levJson e.ev))),
      ("gids", Json.arr (idx.toArray.map fun c => optNatJson (s.calls c).gid)),
      ("pcs", Json.arr (idx.toArray.map fun c => pcJson (s.calls c).pc)),
      ("ngens", toJson s.ngens),
      ("accepted", toJson accepted)]),
    ("spec", Json.mkObj [
      ("outs", Json.arr (pouts.toArray.map outJson)),
      ("log", Json.arr (ps.log.toArray.map fun (c, e) => Json.arr (#[toJson c] ++ levJson e))),
      ("pcs", Json.arr (idx.toArray.map fun c => pcJson (ps.calls c).pc))]),
    ("direct_log", Json.arr (ds.dlog.toArray.map fun e => Json.arr (levJson e))),
    ("direct_pc", pcJson ds.dpc),
    ("direct_outs", Json.arr ((directOuts dops outs).toArray.map outJson)),
    ("direct_accepted", toJson (specFrom .init ds.dlog).isSome),
    ("gen0_touched", toJson (decide (s.gens 0 ≠ initCell d)))])

end Drv.DecoratorDirect
