"""Shared base of the S1 property modules (C01, C04, C05, C06): case families, observation,
and the per-property judges over one common observation format (see tools.py)."""
import itertools

import tools
from framework import Issue
from tools import (build_case, has_fault, list_srcs, run_async, run_sync_safe, source_sets, strip, tool_grid,
                   yields)

KINDS_ALL = ["iter", "agen", "aobj", "seq", "aobj_nc", "list"]
KINDS_ASYNC = ["agen", "aobj"]
FLAV = ["def", "async", "partial", "obj"]
NO_ATHROW = {"chain"}   # class-based handles without athrow
ITER_TOOLS = ["filter", "filterfalse", "enumerate", "takewhile", "dropwhile", "starmap", "accumulate", "batched",
              "chain", "compress", "cycle", "islice", "pairwise", "zip", "map", "zip_longest", "merge"]
AGG_TOOLS = ["all", "any", "sum", "min", "max", "list", "tuple", "set", "dict", "sorted", "reduce", "nlargest", "nsmallest"]
NO_MODEL = set()   # (set and dict used to be oracle-only; they are modelled since Std.setLoop / Std.dictLoop)
TOOL_NAMES = ITER_TOOLS + AGG_TOOLS


def observe(case):
    return {"async": run_async(case), "sync": run_sync_safe(case)}


def model_request(case):
    if case["tool"] in NO_MODEL:
        return None
    return tools.model_request(case)


def _rot(seq, n, k):
    return [seq[(n + i) % len(seq)] for i in range(k)]


def base_cases(tier, rng, kinds, want_cons, tools_subset=None, maxlen=None):
    """tool x params x sources x consumer behaviour, fault free"""
    grid = tool_grid(tier)
    L = maxlen or (3 if tier == "quick" else 4)
    n = 0
    for tool in TOOL_NAMES:
        if tools_subset and tool not in tools_subset:
            continue
        nsrc, plist, fns, style = grid[tool]
        for params in plist:
            lmax = L if tool != "islice" else max(L, 5)
            for keyseqs in source_sets(tool, nsrc, style, lmax, rng, 3 if tier == "quick" else 4):
                total = sum(len(k) for k in keyseqs)
                for cons in want_cons(tool, total):
                    n += 1
                    ks = _rot(kinds, n, len(keyseqs))
                    fl = _rot(FLAV, n, len(fns))
                    yield build_case(tool, params, fns, style, keyseqs, ks, cons, fl)


def cons_all_cuts(tool, total):
    """every number of consumer steps: close after 1..total+1 items, and exhaustion"""
    out = [] if tool == "cycle" else [{"fin": "exhaust"}]
    top = total + 2 if tool != "cycle" else 2 * total + 2
    if tool in tools.AGGREGATIONS:
        return [{"fin": "exhaust"}]
    for take in range(1, top + 1):
        out.append({"fin": "close", "take": take})
    return out


def cons_exhaust(tool, total):
    if tool == "cycle":
        return [{"fin": "close", "take": 2 * total + 1}]
    return [{"fin": "exhaust"}]


def cons_cuts_and_throws(tool, total):
    out = cons_all_cuts(tool, total)
    if tool not in tools.AGGREGATIONS and tool not in NO_ATHROW:
        for take in range(1, total + 2):
            out.append({"fin": "throw", "take": take, "eid": 900 + take})
    return out


def with_faults(case):
    """every single fault position over sources (incl. the end-of-source check) and callables"""
    for si, src in enumerate(case["srcs"]):
        if src["kind"] == "list":
            continue
        for pos in range(len(src["script"]) + 1):
            c = dict(case)
            c["srcs"] = [dict(s) for s in case["srcs"]]
            script = list(src["script"])
            script.insert(pos, ["!", 70 + si * 10 + pos])
            script = script[:pos + 1] + script[pos + 1:]
            c["srcs"][si]["script"] = script
            yield c
    for fi, fn in enumerate(case.get("fns", [])):
        ncalls = sum(len(s["script"]) for s in case["srcs"]) + 1
        for k in range(min(ncalls, 5)):
            c = dict(case)
            c["fns"] = [dict(f) for f in case["fns"]]
            c["fns"][fi]["fail_at"] = k
            c["fns"][fi]["eid"] = 50 + k
            yield c


def random_cases(tier, rng, kinds, count, faults=False, cons_kinds=("exhaust", "close", "throw"), tools_subset=None):
    grid = tool_grid(tier)
    for _ in range(count):
        tool = rng.choice(tools_subset or TOOL_NAMES)
        nsrc, plist, fns, style = grid[tool]
        params = rng.choice(plist)
        ns = nsrc or rng.randint(1, 4)
        keyseqs = [[rng.randrange(3) for _ in range(rng.randint(0, 7))] for _ in range(ns)]
        total = sum(len(k) for k in keyseqs)
        fin = rng.choice(cons_kinds)
        if tool == "cycle" and fin == "exhaust":
            fin = "close"
        if tool in tools.AGGREGATIONS:
            fin = "exhaust"
        if tool in NO_ATHROW and fin == "throw":
            fin = "close"
        cons = {"fin": fin}
        if fin != "exhaust":
            cons["take"] = rng.randint(1, max(1, total + 1))
            cons["eid"] = 995
        case = build_case(tool, params, fns, style, keyseqs, [rng.choice(kinds) for _ in range(ns)], cons,
                          [rng.choice(FLAV) for _ in fns])
        if faults:
            variants = list(with_faults(case))
            if variants:
                case = rng.choice(variants)
        yield case


ODD_VALUES = [["n"], ["fill"], ["i", 0], ["b", False], ["t"]]
# tools that neither order nor add their items: any object may flow through them
ODD_TOOLS = ["filter", "filterfalse", "enumerate", "takewhile", "dropwhile", "batched", "chain", "compress", "cycle",
             "islice", "pairwise", "zip", "map", "zip_longest", "all", "any", "list", "tuple"]


def odd_value_cases(tier, rng, kinds, count, tools_subset=None):
    """items that library-internal sentinels are often confused with (None, a fillvalue-like object, falsy numbers,
    the empty tuple) at every position of short streams, then at random positions of random streams"""
    grid = tool_grid(tier)
    names = [t for t in ODD_TOOLS if not tools_subset or t in tools_subset]
    n = 0
    for tool in names:
        nsrc, plist, fns, style = grid[tool]
        if style not in ("obj", "sel"):
            continue
        ns = nsrc or 2
        shapes = [s for s in itertools.product(range(0, 3), repeat=ns)]
        for params in plist[: (4 if tier == "quick" else 12)]:
            for shape in shapes:
                keyseqs = [[1] * ln for ln in shape]
                cons = cons_exhaust(tool, sum(shape))[0]
                for si in range(ns):
                    for pos in range(shape[si]):
                        for odd in ODD_VALUES[: (2 if tier == "quick" else 5)]:
                            n += 1
                            case = build_case(tool, params, fns, style, keyseqs, _rot(kinds, n, ns), cons,
                                              _rot(FLAV, n, len(fns)))
                            case["srcs"][si]["script"][pos] = odd
                            case["family"] = "odd"
                            yield case
    for case in random_cases(tier, rng, kinds, count, cons_kinds=("exhaust",), tools_subset=names):
        nsrc, plist, fns, style = grid[case["tool"]]
        if style not in ("obj", "sel"):
            continue
        for src in case["srcs"]:
            for pos in range(len(src["script"])):
                if rng.random() < 0.3:
                    src["script"][pos] = rng.choice(ODD_VALUES)
        case["family"] = "odd"
        yield case


def impure_fn_cases(tier, rng, kinds, tools_subset=None, cons_for=None):
    """user callables whose answer depends on the INVOCATION, not on the argument, applied to streams of items that are all
    equal (and to streams that repeat one object): a library that remembers the key / predicate / function value of an
    "equal" item instead of calling again gives different items, a different order or a different call sequence"""
    grid = tool_grid(tier)
    patterns = {
        "pred": [[["b", True], ["b", False], ["b", True], ["b", True], ["b", False], ["b", True]],
                 [["b", False], ["b", True], ["b", False], ["b", False], ["b", True]]],
        "key": [[["i", 2], ["i", 0], ["i", 1], ["i", 1], ["i", 0], ["i", 2], ["i", 3]],
                [["i", 0], ["i", 2], ["i", 1], ["i", 3], ["i", 1], ["i", 0]]],
    }
    role = {"filter": "pred", "filterfalse": "pred", "takewhile": "pred", "dropwhile": "pred", "merge": "key", "min": "key",
            "max": "key", "sorted": "key", "nlargest": "key", "nsmallest": "key", "map": "key", "starmap": "key",
            "accumulate": "key", "reduce": "key"}
    n = 0
    for tool, r in role.items():
        if tools_subset and tool not in tools_subset:
            continue
        nsrc, plist, fns, style = grid[tool]
        if not fns:
            continue
        for params in plist:
            if all(params.get(k) is None for k in ("fn", "key")) and tool not in ("takewhile", "dropwhile", "starmap", "map", "reduce"):
                continue
            for lens in ([(1,), (2,), (3,), (4,)] if nsrc == 1 else [(2, 1), (1, 2), (2, 2), (3, 0), (3, 2)]):
                for vs in patterns[r]:
                    for same_object in (False, True):
                        n += 1
                        keyseqs = [[1] * ln for ln in lens]
                        cons_list = (cons_for or cons_exhaust)(tool, sum(lens))
                        for cons in cons_list:
                            case = build_case(tool, params, [{"kind": "seq", "vs": vs}] * len(fns), style, keyseqs,
                                              _rot(kinds, n, len(lens)), cons, _rot(FLAV, n, len(fns)))
                            if same_object and style in ("obj", "sorted"):
                                for src in case["srcs"]:
                                    src["script"] = [src["script"][0]] * len(src["script"]) if src["script"] else []
                            case["family"] = "impure"
                            yield case


def shared_source_cases(tier, rng, kinds, cons_for=None):
    """the SAME one-shot iterator object handed to a tool at several positions (`zip_longest(*[it] * n)`, the documented
    grouper recipe; `zip(it, it)` pairs; `chain(it, it)`; `compress(it, it)`), also next to a different iterator"""
    grid = tool_grid(tier)
    layouts = [[0, 0], [0, 0, 0], [0, 0, 2], [0, 1, 0]]       # position -> index of the source object it shares
    n = 0
    for tool in ("zip", "map", "zip_longest", "chain", "compress", "merge"):
        nsrc, plist, fns, style = grid[tool]
        for params in plist:
            for layout in (layouts if tool != "compress" else [[0, 0]]):
                for ln in range(0, 7 if tier == "quick" else 9):
                    n += 1
                    keyseqs = [[(j + i) % 2 + 1 for j in range(ln if i == 0 else 2)] for i in range(len(layout))]
                    if style == "sorted":
                        keyseqs = [sorted(k) for k in keyseqs]
                    kset = [k for k in kinds if k not in ("list", "seq")]   # re-iterables give every position a fresh iterator
                    cons_list = (cons_for or cons_exhaust)(tool, ln + 2)
                    for cons in cons_list:
                        case = build_case(tool, params, fns, style, keyseqs, _rot(kset, n, len(layout)), cons, _rot(FLAV, n, len(fns)))
                        for pos, ref in enumerate(layout):
                            if ref != pos:
                                case["srcs"][pos] = {"kind": case["srcs"][ref]["kind"], "script": [], "same_as": ref}
                        case["family"] = "shared"
                        yield case


# ---------------------------------------------------------------------------------------------
# judges


def _model_err(model):
    return model is not None and "error" in model


def correspondence(case, obs, model, projection):
    """edges A (asyncstdlib vs Impl model), B (real stdlib vs Std model on the reference world) and the
    runtime sanity check Impl model vs Std model, all on `projection(vis, out)`"""
    issues = []
    if model is None:
        return issues
    if _model_err(model):
        return [Issue("A", model)]
    ls = list_srcs(case)
    a_impl = projection(strip(obs["async"]["vis"], ls, consumer=False), obs["async"]["out"])
    a_model = projection(strip(model["impl"]["vis"], ls, consumer=False), model["impl"]["out"])
    if a_impl != a_model:
        issues.append(Issue("A", {"asyncstdlib": a_impl, "model": a_model}))
    if not obs["sync"].get("at_construction"):
        b_ref = projection(strip(obs["sync"]["vis"]), _ref_out(obs["sync"]["out"]))
        b_spec = projection(strip(model["stdref"]["vis"]), _ref_out(model["stdref"]["out"]))
        if b_ref != b_spec:
            issues.append(Issue("B", {"stdlib": b_ref, "spec": b_spec}))
    m_impl = projection(strip(model["impl"]["vis"]), model["impl"]["out"])
    m_std = projection(strip(model["std"]["vis"]), model["std"]["out"])
    if m_impl != m_std:
        issues.append(Issue("MS", {"impl": m_impl, "std": m_std}))
    return issues


def _ref_out(out):
    # the synchronous consumer simply stops where the asynchronous one closes / throws
    if out in (["stopped"], ["closed"]):
        return ["cut"]
    if out[0] == "raised" and out[1][0] == "user" and out[1][1] >= 900:
        return ["cut"]      # the consumer's own thrown exception
    return out


def same_ending(a_out, s_out):
    """asyncstdlib vs stdlib ending: exhaustion, or the same exception (type / injected id)"""
    return _ref_out(a_out) == _ref_out(s_out)


def features(case, obs):
    f = ["tool=" + case["tool"], "fin=" + case["cons"]["fin"], "out=" + obs["async"]["out"][0]]
    f += ["kind=" + s["kind"] for s in case["srcs"]]
    f += ["flavour=" + fn.get("flavour", "def") for fn in case.get("fns", [])]
    f.append("len=%d" % sum(len(s["script"]) for s in case["srcs"]))
    if has_fault(case):
        f.append("fault")
    keys = [e[2] for s in case["srcs"] for e in s["script"] if e[0] == "o"]
    if len(keys) != len(set(keys)):
        f.append("ties")
    return f


def nontrivial(case, obs):
    return bool(yields(obs["async"]["vis"])) or obs["async"]["out"][0] in ("raised", "returned")
