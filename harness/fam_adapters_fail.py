"""Failure and early-end paths of the asynctools adapters (family `adaptersfail`, used by C19): `apply` with awaitable
arguments that suspend / raise / are cancelled, `await_each` and `any_iter` consumed partly, closed or cancelled inside an
item, `sync` wrappers called repeatedly with answers of changing flavour.  The real functions are hand-driven and their
ordered log (`await i`, `susp i j`, `call`, `produced i`) and outcome are compared with `Machines/AdaptersFail.lean`
(`C19_apply_awaits_in_order_until_failure`, `C19_apply_failure_leaves_rest_untouched`,
`C19_apply_cancel_propagates_same_exception`, `C19_await_each_lazy_and_once`,
`C19_await_each_cut_leaves_rest_unawaited`, `C19_any_iter_failure_position`, `C19_sync_calls_independent`)."""
import json

from framework import Issue
from world import asyncstdlib

asynctools = asyncstdlib.asynctools


class UserExc(Exception):
    def __init__(self, e):
        super().__init__(e)
        self.e = e


class Thrown(BaseException):
    """what the hand driver throws in at a suspension (stands for CancelledError)"""

    def __init__(self, c):
        super().__init__(c)
        self.c = c


class Token:
    def __init__(self, ev):
        self.ev = ev


def exc_json(x):
    if isinstance(x, UserExc):
        return ["raised", ["user", x.e]]
    if isinstance(x, TypeError):
        return ["raised", ["lib", "TypeError"]]
    return ["raised", ["lib", type(x).__name__]]      # whatever else the library lets out is an observation


class Aw:
    """user awaitable number `i`: suspends `k` times, then returns / raises"""

    def __init__(self, log, i, k, res, outer=False):
        self.log, self.i, self.k, self.res, self.outer = log, i, k, res, outer
        self.payload = None

    def __await__(self):
        self.log.append(["awaitO"] if self.outer else ["await", self.i])
        for j in range(self.k):
            yield Token(["suspO", j] if self.outer else ["susp", self.i, j])
        if self.res[0] == "err":
            raise mk_exc(self.res[1])
        return self.payload if self.payload is not None else self.res[1]


def mk_exc(e):
    return UserExc(e[1]) if e[0] == "user" else TypeError("model")


def mk_item(log, i, a):
    return a[1] if a[0] == "p" else Aw(log, i, a[1], a[2])


class Driven:
    """drive one awaitable by hand; `cut` = [n, c]: resume n suspensions, then throw Thrown(c)"""

    def __init__(self, log):
        self.log = log
        self.thrown = None

    def drive(self, coro, cut):
        """returns ("ok", value) | ("exc", exception)"""
        if hasattr(coro, "send"):
            it = coro
        elif hasattr(coro, "__await__"):
            it = coro.__await__()
        else:
            return ("exc", TypeError("the adapter returned something that cannot be awaited: %r" % type(coro).__name__))
        budget = None if cut is None else cut[0]
        try:
            tok = it.send(None)
            while True:
                assert isinstance(tok, Token), tok
                self.log.append(tok.ev)
                if budget is not None and budget == 0:
                    self.thrown = Thrown(cut[1])
                    budget = None
                    tok = it.throw(self.thrown)
                else:
                    if budget is not None:
                        budget -= 1
                    tok = it.send(None)
        except StopIteration as s:
            return ("ok", s.value)
        except BaseException as x:  # noqa
            return ("exc", x)

    def outcome(self, r):
        if r[0] == "ok":
            return ["ok", r[1]]
        x = r[1]
        if isinstance(x, Thrown):
            assert x is self.thrown, "a different exception object came out"
            return ["thrown", x.c]
        return exc_json(x)


# ---------------------------------------------------------------- apply

def py_apply(case):
    log = []
    n = len(case["args"])
    args = [mk_item(log, i, a) for i, a in enumerate(case["args"])]
    kwargs = {"k%d" % k: mk_item(log, n + i, a) for i, (k, a) in enumerate(case["kwargs"])}

    def f(*vs, **kvs):
        log.append(["call", list(vs), [[int(k[1:]), v] for k, v in kvs.items()]])
        if case["f"][0] == "err":
            raise mk_exc(case["f"][1])
        return case["f"][1]

    d = Driven(log)
    try:
        r = d.drive(asynctools.apply(f, *args, **kwargs), case["cut"])
    except BaseException as x:  # noqa: B036
        r = ("exc", x)
    return {"log": log, "out": d.outcome(r)}


# ---------------------------------------------------------------- generators

def gen_outcome(d, r):
    if r[0] == "ok":
        return ["item", r[1]]
    x = r[1]
    if isinstance(x, StopAsyncIteration):
        return ["stop"]
    if isinstance(x, Thrown):
        assert x is d.thrown
        return ["thrown", x.c]
    return exc_json(x)


def run_gen(ag, log, ops):
    steps = []
    for op in ops:
        del log[:]
        d = Driven(log)
        if op[0] == "n":
            r = d.drive(ag.__anext__(), op[1])
            out = gen_outcome(d, r)
        else:
            r = d.drive(ag.aclose(), None)
            out = ["closed"] if r == ("ok", None) else ["close-failed", repr(r)[:80]]
        steps.append([list(log), out])
    return steps


def sync_source(log, items, lazy):
    if not lazy:
        return [mk_item(log, i, a) for i, a in enumerate(items)]

    def gen():
        for i, a in enumerate(items):
            log.append(["produced", i])
            yield mk_item(log, i, a)

    return gen()


def async_source(log, items):
    async def agen():
        for i, a in enumerate(items):
            log.append(["produced", i])
            yield mk_item(log, i, a)

    return agen()


def py_await_each(case):
    log = []
    src = sync_source(log, case["items"], case["lazy"])
    return {"steps": run_gen(asynctools.await_each(src), log, case["ops"])}


def py_any_iter(case):
    log = []
    if case["kind"] == "aiter":
        src = async_source(log, case["items"])
    else:
        src = sync_source(log, case["items"], case["kind"] == "iter")
    arg = src
    if case["outer"] is not None:
        k, fail = case["outer"]
        arg = Aw(log, 0, k, ["ok", 0] if fail is None else ["err", fail], outer=True)
        arg.payload = src
    steps = run_gen(asynctools.any_iter(arg), log, case["ops"])
    if case["kind"] == "aiter":
        # not started / exhausted / closed async generator: nothing to clean up, no events
        d = Driven(log)
        d.drive(src.aclose(), None)
    return {"steps": steps}


# ---------------------------------------------------------------- sync

def py_sync(case):
    log = []
    answers = iter(case["calls"])
    counter = [0]

    def f(x):
        i = counter[0]
        counter[0] += 1
        log.append(["call", [x], []])
        ans = next(answers)[0]
        if ans[0] == "p":
            return ans[1]
        if ans[0] == "r":
            raise mk_exc(ans[1])
        return Aw(log, i, ans[1], ans[2])

    wrapped = asynctools.sync(f)
    assert wrapped is not f
    steps = []
    for i, (_, cut) in enumerate(case["calls"]):
        del log[:]
        d = Driven(log)
        try:
            r = d.drive(wrapped(i), cut)
        except BaseException as x:  # noqa: B036 - the wrapper ran (and failed) when CALLED instead of when awaited
            r = ("exc", x)
        steps.append([list(log), d.outcome(r)])
    return {"steps": steps}


# ---------------------------------------------------------------- random cases

def r_exc(rng):
    return ["user", rng.randrange(20)]


def r_res(rng, pfail):
    return ["err", r_exc(rng)] if rng.random() < pfail else ["ok", rng.randrange(100)]


def r_arg(rng, pplain, pfail):
    if rng.random() < pplain:
        return ["p", rng.randrange(100)]
    return ["a", rng.choice([0, 0, 1, 1, 2, 3]), r_res(rng, pfail)]


def r_cut(rng, p, hi):
    return [rng.randrange(hi), 1000 + rng.randrange(50)] if rng.random() < p else None


def r_ops(rng, n):
    ops = []
    for _ in range(rng.randrange(n + 4)):
        if rng.random() < 0.12:
            ops.append(["c"])
        else:
            ops.append(["n", r_cut(rng, 0.2, 3)])
    return ops


def r_case(rng):
    t = rng.choice(["apply", "await_each", "any_iter", "sync"])
    pfail = rng.choice([0.0, 0.1, 0.3])
    if t == "apply":
        pplain = rng.choice([0.0, 0.0, 0.1])
        args = [r_arg(rng, pplain, pfail) for _ in range(rng.randrange(5))]
        keys = rng.sample(range(10), rng.randrange(4))
        kwargs = [[k, r_arg(rng, pplain, pfail)] for k in keys]
        return {"m": "adaptersfail", "t": t, "f": r_res(rng, 0.2), "args": args, "kwargs": kwargs,
                "cut": r_cut(rng, 0.5, 10)}
    if t == "await_each":
        items = [r_arg(rng, rng.choice([0.0, 0.0, 0.1]), pfail) for _ in range(rng.randrange(6))]
        return {"m": "adaptersfail", "t": t, "lazy": rng.random() < 0.6, "items": items,
                "ops": r_ops(rng, len(items))}
    if t == "any_iter":
        items = [r_arg(rng, rng.choice([0.0, 0.5, 1.0]), pfail) for _ in range(rng.randrange(6))]
        outer = None
        if rng.random() < 0.5:
            outer = [rng.randrange(3), r_exc(rng) if rng.random() < 0.2 else None]
        return {"m": "adaptersfail", "t": t, "outer": outer, "kind": rng.choice(["list", "iter", "aiter"]),
                "items": items, "ops": r_ops(rng, len(items))}
    calls = []
    for _ in range(rng.randrange(7)):
        c = rng.random()
        if c < 0.3:
            ans = ["p", rng.randrange(100)]
        elif c < 0.5:
            ans = ["r", r_exc(rng)]
        else:
            ans = ["a", rng.randrange(4), r_res(rng, 0.3)]
        calls.append([ans, r_cut(rng, 0.3, 4)])
    return {"m": "adaptersfail", "t": t, "calls": calls}


PY = {"apply": py_apply, "await_each": py_await_each, "any_iter": py_any_iter, "sync": py_sync}


def cases(rng, count):
    for _ in range(count):
        c = r_case(rng)
        yield {"family": "adaptersfail", "tool": c["t"], "req": c, "srcs": [], "params": {}}


def observe(case):
    try:
        return {"real": PY[case["req"]["t"]](case["req"])}
    except AssertionError as exc:      # e.g. a different exception object came out than was thrown in
        return {"real": None, "assertion": str(exc)[:200]}


def model_request(case):
    return case["req"]


def judge(case, obs, model):
    issues = []
    if obs["real"] is None:
        issues.append(Issue("oracle", obs, "adapter-replaced-the-thrown-exception:" + case["tool"]))
        return issues
    if model is not None:
        if "error" in model:
            issues.append(Issue("A", model))
        elif json.loads(json.dumps(obs["real"], default=repr)) != model:
            issues.append(Issue("A", {"asyncstdlib": obs["real"], "model": model}))
    return issues


def features(case, obs):
    s = json.dumps(obs["real"], default=repr)
    return ["adaptersfail:" + case["tool"]] + (["adaptersfail:failure-or-throw"] if ("thrown" in s or "raised" in s) else [])


def nontrivial(case, obs):
    return obs["real"] is not None and bool(json.dumps(obs["real"], default=repr).count("await"))
