"""ExitStack.enter_context whose `__aenter__` / exits / body SUSPEND, with cancellations thrown at any suspension point
(family `entersusp`, shared by C14 and C18).  Three real runs per case — asyncstdlib.ExitStack, the literally nested
`async with` / `with` / `try-finally` statements, contextlib.AsyncExitStack — and the Lean machines
`Machines/ExitStackEnter.lean` (`Impl` = the code of `enter_context`/`__aexit__`, `Nested` = nested statements),
for which `C14_enter_suspended_equals_nested`, `C18_cancel_inside_enter_exits_exactly_the_entered`,
`C18_every_entered_exited_once` are proved for all manager lists, programs and op sequences."""
import contextlib

from framework import Issue
from world import asyncstdlib


class _Susp:
    def __init__(self, tok):
        self.tok = tok

    def __await__(self):
        yield self.tok


class _E(BaseException):
    def __init__(self, eid):
        super().__init__(eid)
        self.eid = eid


def _eid(x):
    return None if x is None else getattr(x, "eid", type(x).__name__)


def _mk(i, m, log, exc):
    fl = m["flavour"]

    def enter_res():
        en = m["enter"]
        if en == "ok":
            return 0
        if en[0] == "ok":
            return en[1]
        raise exc(en[1])

    def exit_res():
        ex = m["exit"]
        if ex == "false":
            return False
        if ex == "true":
            return [True, 1, (0,), "suppress"][i % 4]      # any truthy result suppresses, as in `with` / `async with`
        raise exc(ex[1])
    if fl == "async":
        class A:
            async def __aenter__(self):
                log.append(["enter", i])
                for _ in range(m["enterSusp"]):
                    await _Susp(["susp", "enter", i])
                v = enter_res()
                log.append(["entered", i, v])
                return v

            async def __aexit__(self, t, v, tb):
                log.append(["exit", i, _eid(v)])
                for _ in range(m["exitSusp"]):
                    await _Susp(["susp", "exit", i])
                return exit_res()
        return A()
    if fl == "sync":
        class S:
            def __enter__(self):
                log.append(["enter", i])
                v = enter_res()
                log.append(["entered", i, v])
                return v

            def __exit__(self, t, v, tb):
                log.append(["exit", i, _eid(v)])
                return exit_res()
        return S()

    async def cb():
        log.append(["exit", i, None])
        for _ in range(m["exitSusp"]):
            await _Susp(["susp", "exit", i])
        return exit_res()
    return cb


async def _body(case, exc):
    for _ in range(case["bodySusp"]):
        await _Susp(["susp", "body"])
    if case["body"] != "ok":
        raise exc(case["body"][1])


async def _impl_task(case, log, exc):
    async with asyncstdlib.ExitStack() as st:
        for i, m in enumerate(case["managers"]):
            o = _mk(i, m, log, exc)
            if m["flavour"] == "callback":
                st.callback(o)
                log.append(["pushed", i])
            else:
                await st.enter_context(o)
        await _body(case, exc)


async def _nested_task(case, log, exc, i=0):
    ms = case["managers"]
    if i == len(ms):
        await _body(case, exc)
        return
    m = ms[i]
    o = _mk(i, m, log, exc)
    if m["flavour"] == "async":
        async with o:
            await _nested_task(case, log, exc, i + 1)
    elif m["flavour"] == "sync":
        with o:
            await _nested_task(case, log, exc, i + 1)
    else:
        log.append(["pushed", i])
        try:
            await _nested_task(case, log, exc, i + 1)
        finally:
            await o()


async def _aes_task(case, log, exc):
    async with contextlib.AsyncExitStack() as st:
        for i, m in enumerate(case["managers"]):
            o = _mk(i, m, log, exc)
            if m["flavour"] == "callback":
                st.push_async_callback(o)
                log.append(["pushed", i])
            elif m["flavour"] == "sync":
                st.enter_context(o)
            else:
                await st.enter_async_context(o)
        await _body(case, exc)


def _drive(task, case):
    excs = {}

    def exc(e):
        if e not in excs:
            excs[e] = _E(e)
        return excs[e]
    log, outs = [], []
    coro = task(case, log, exc)

    def do(f):
        try:
            outs.append(f())
            return True
        except StopIteration:
            outs.append(["done", None])
            return False
        except _E as e:
            outs.append(["done", e.eid])
            return False
        except BaseException as e:  # noqa: B036 - anything else the library raises is an observation
            outs.append(["done", "lib:" + type(e).__name__])
            return False
    alive = do(lambda: coro.send(None))
    for op in case["ops"]:
        if not alive:
            outs.append("dead")
            continue
        if op[0] == "s":
            alive = do(lambda: coro.send(None))
        else:
            alive = do(lambda: coro.throw(exc(op[1])))
    res = {"log": [list(e) for e in log], "outs": outs}
    for _ in range(200 if alive else 0):     # teardown of an unfinished task: let it run to its end
        try:
            coro.send(None)
        except BaseException:  # noqa: B036
            break
    return res


def random_case(rng):
    n = rng.randint(0, 4)
    ms = []
    for i in range(n):
        ms.append({"flavour": rng.choice(["async", "async", "sync", "callback"]), "enterSusp": rng.randint(0, 2),
                   "enter": rng.choice(["ok", "ok", "ok", ["ok", rng.randint(1, 9)], ["raises", 100 + i]]),
                   "exitSusp": rng.randint(0, 2), "exit": rng.choice(["false", "false", "true", ["raises", 200 + i]])})
    ops = [rng.choice([["s"], ["s"], ["s"], ["x", 300 + k]]) for k in range(rng.randint(0, 14))]
    return {"kind": "entersusp", "managers": ms, "bodySusp": rng.randint(0, 2), "body": rng.choice(["ok", ["raises", 50]]), "ops": ops}


def grid_cases():
    """one and two async managers: a throw at EVERY suspension point (inside each enter, the body, each exit)"""
    for n in (1, 2):
        for es in (1, 2):
            for exit_ in ("false", "true", ["raises", 200]):
                ms = [{"flavour": "async", "enterSusp": es, "enter": "ok", "exitSusp": 1, "exit": exit_} for _ in range(n)]
                total = n * es + 1 + n + 2
                for pos in range(total):
                    yield {"kind": "entersusp", "managers": ms, "bodySusp": 1, "body": "ok",
                           "ops": [["s"]] * pos + [["x", 300 + pos]] + [["s"]] * (total + 2)}


def cases(rng, count):
    yield from grid_cases()
    for _ in range(count):
        yield random_case(rng)


def observe(case):
    return {"impl": _drive(_impl_task, case), "nested": _drive(_nested_task, case), "std": _drive(_aes_task, case)}


def model_request(case):
    return {"m": "exitstackenter", "managers": case["managers"], "bodySusp": case["bodySusp"], "body": case["body"], "ops": case["ops"]}


def judge(case, obs, model):
    issues = []
    impl = obs["impl"]
    for ref in ("nested", "std"):
        if impl != obs[ref]:
            where = "inside-enter" if _thrown_inside_enter(impl) else "elsewhere"
            issues.append(Issue("oracle", {"asyncstdlib": impl, ref: obs[ref]}, "suspended-enter-differs-from-%s:%s" % (ref, where)))
            break
    entered = [e[1] for e in impl["log"] if e[0] in ("entered", "pushed")]
    exited = [e[1] for e in impl["log"] if e[0] == "exit"]
    finished = any(isinstance(o, list) and o and o[0] == "done" for o in impl["outs"])
    if len(set(exited)) != len(exited) or any(i not in entered for i in exited):
        issues.append(Issue("oracle", {"log": impl["log"]}, "exit-ran-twice-or-without-enter"))
    elif finished and exited != entered[::-1]:
        issues.append(Issue("oracle", {"log": impl["log"], "outs": impl["outs"]}, "entered-context-not-exited"))
    if model is not None:
        if "error" in model:
            issues.append(Issue("A", model))
        else:
            if model["impl"] != impl:
                issues.append(Issue("A", {"asyncstdlib": impl, "model": model["impl"]}))
            if model["nested"] != obs["nested"]:
                issues.append(Issue("B", {"nested": obs["nested"], "spec": model["nested"]}))
            if model["impl"] != model["nested"]:
                issues.append(Issue("MS", model))
    return issues


def _thrown_inside_enter(run):
    outs = run["outs"]
    return any(isinstance(o, list) and o[:2] == ["susp", "enter"] for o in outs)


def features(case, obs):
    f = ["entersusp", "n=%d" % len(case["managers"])]
    if _thrown_inside_enter(obs["impl"]):
        f.append("entersusp:suspended-inside-enter")
    if any(op[0] == "x" for op in case["ops"]):
        f.append("entersusp:throw")
    return f


def nontrivial(case, obs):
    return bool(obs["impl"]["log"])
