"""Closing a library iterator WHILE ANOTHER TASK IS INSIDE IT (family `closebusy`, used by C17): task A is suspended inside
the user's source through the handle, task B calls `handle.aclose()`, any schedule of the two.  Real handles (map, zip,
chain, groupby, borrow, scoped_iter, a tee child, the whole tee) over a native async generator or a class-based source
whose `__anext__` suspends `k` more times and whose close suspends `cs` times, compared with `Machines/CloseBusy.lean`,
for which `C17_close_busy_only_user_suspensions` (no suspension of the library's own, ever) and
`C17_close_busy_B_terminates` (B's number of steps is bounded by the user's own close suspensions, independent of A: no
busy-waiting) are proved for every kind, `k`, `cs` and schedule."""
import itertools

from framework import Issue
from world import asyncstdlib as A

REAL = {"map": "gen", "zip": "gen", "chain": "chain", "groupby": "groupby", "borrowed": "borrowed", "scoped": "scoped",
        "tee": "tee", "teeall": "teeall"}


class _Susp:
    def __init__(self, tok):
        self.tok = tok

    def __await__(self):
        yield ("user", self.tok)


def _native(k, cs, log):
    async def gen():
        try:
            i = 0
            while True:
                for j in range(k):
                    await _Susp(("next", j))
                yield 100 + i
                i += 1
        finally:
            log.append("src-finally")
            for j in range(cs):
                await _Susp(("close", j))
            log.append("src-closed")
    return gen()


class _Cls:
    def __init__(self, k, cs, log):
        self.k, self.cs, self.i, self.closed, self.log = k, cs, 0, False, log

    def __aiter__(self):
        return self

    async def __anext__(self):
        if self.closed:
            raise StopAsyncIteration
        for j in range(self.k):
            await _Susp(("next", j))
        if self.closed:
            raise StopAsyncIteration
        self.i += 1
        return 100 + self.i - 1

    async def aclose(self):
        self.log.append("src-aclose-called")
        for j in range(self.cs):
            await _Susp(("close", j))
        self.closed = True
        self.log.append("src-closed")


def _make(real, src):
    if real == "map":
        return A.map(lambda x: x, src)
    if real == "zip":
        return A.zip(src)
    if real == "chain":
        return A.chain(src)
    if real == "groupby":
        return A.groupby(src)
    if real == "borrowed":
        return A.borrow(src)
    if real == "tee":
        return A.tee(src, n=2)[0]
    return A.tee(src, n=2)


def _step(coro, outs):
    try:
        y = coro.send(None)
    except StopIteration as e:
        outs.append("item" if e.value is not None else "ret")
        return True
    except StopAsyncIteration:
        outs.append("stop")
        return True
    except RuntimeError as e:
        outs.append("busy" if "already running" in str(e) or "asynchronous generator" in str(e) else "RuntimeError:" + str(e)[:50])
        return True
    except BaseException as e:  # noqa: B036 - an observation
        outs.append("exc:" + type(e).__name__)
        return True
    if isinstance(y, tuple) and len(y) == 2 and y[0] == "user":
        t = y[1]
        outs.append(["susp", ["user", ["src" if t[0] == "next" else "close", t[1]]]])
    else:
        outs.append(["susp", ["lib", repr(y)[:60]]])
    return False


def observe(case):
    log = []
    k, cs = case["k"], case["closeSusp"]
    src = _native(k + 1, cs, log) if case["srcKind"] == "native" else _Cls(k + 1, cs, log)
    real = case["real"]
    if real == "scoped":
        ctx = A.scoped_iter(src)
        ent = ctx.__aenter__()
        try:
            ent.send(None)
            raise AssertionError("scoped_iter.__aenter__ suspended")
        except StopIteration as e:
            h = e.value
    else:
        h = _make(real, src)
    ta = (h[0] if real == "teeall" else h).__anext__()
    aout, bout = [], []
    adone = _step(ta, aout)     # A is inside the source now (its first suspension is consumed)
    first = list(aout)
    aout.clear()
    tb, bdone = None, False
    for t in case["sched"]:
        if t == 0:
            if not adone:
                adone = _step(ta, aout)
        else:
            if tb is None:
                tb = h.aclose()
            if not bdone:
                bdone = _step(tb, bout)
    out = {"a": aout, "b": bout, "sourceClosed": "src-closed" in log, "closes": log.count("src-closed"),
           "closeCalls": log.count("src-aclose-called") + log.count("src-finally"), "first": first, "bdone": bdone,
           "bstarted": tb is not None}
    for co in (ta, tb):
        if co is not None:
            try:
                co.close()
            except BaseException:  # noqa: B036 - teardown
                pass
    return out


def model_request(case):
    return {"m": "closebusy", "kind": REAL[case["real"]], "srcKind": case["srcKind"], "k": case["k"], "closeSusp": case["closeSusp"],
            "sched": case["sched"]}


def judge(case, obs, model):
    issues = []
    for who in ("a", "b"):
        if any(isinstance(o, list) and o[1][0] == "lib" for o in obs[who]):
            issues.append(Issue("oracle", {"task": who, "outs": obs[who]}, "foreign-object-reached-loop:closebusy-" + case["real"]))
    # no busy-waiting: B's steps are bounded by the user's own close suspensions (twice for chain: owner + scope), whatever A does
    bound = {"chain": 2}.get(REAL[case["real"]], 1) * case["closeSusp"] + 1
    nb = len(obs["b"])
    if nb > bound or (obs["bstarted"] and not obs["bdone"] and case["sched"].count(1) > bound):
        issues.append(Issue("oracle", {"b": obs["b"], "bound": bound, "sched": case["sched"]}, "close-waits-for-the-running-fetch:" + case["real"]))
    if model is not None:
        if "error" in model:
            issues.append(Issue("A", model))
        else:
            got = (obs["a"], obs["b"], obs["sourceClosed"], obs["closes"], obs["closeCalls"])
            exp = (model["a"], model["b"], model["sourceClosed"], model["closes"], model["closeCalls"])
            if got != exp:
                issues.append(Issue("A", {"asyncstdlib": got, "model": exp}))
    return issues


def cases(maxlen):
    for real in REAL:
        for src_kind in ("native", "class"):
            for k in range(3):
                for cs in range(3):
                    for n in range(0, maxlen + 1):
                        for sched in itertools.product([0, 1], repeat=n):
                            yield {"family": "closebusy", "real": real, "srcKind": src_kind, "k": k, "closeSusp": cs, "sched": list(sched)}


def features(case, obs):
    return ["closebusy:" + case["real"], "closebusy-b:" + (str(obs["b"][-1]) if obs["b"] else "not-started")[:24]]


def nontrivial(case, obs):
    return bool(case["sched"])
