"""`chain` / `chain.from_iterable` as an OBJECT (family `chainobj`, used by C04): next / aclose / aclose while a fetch is
running / cancel in any order over arguments of four kinds (class-based async iterator with or without `aclose`,
re-iterable whose `__aiter__` gives a fresh iterator the chain creates itself, synchronous iterator) whose `aclose` may
raise.  The real object is compared, operation by operation, with `Machines/ChainObj.lean`, for which
`C20_chain_owned_fixed`, `C20_chain_holds_one_inner`, `C04_chain_aclose_closes_all_owned`,
`C17_chain_close_while_running_never_suspends`, `C18_chain_cancel_releases` are proved for all argument lists and
operation sequences.  Oracles on the real object: after an accepted `aclose()` every owned iterator and the open inner
iterator have been closed; the owned set never changes; no operation suspends on anything but the user's tokens."""
import types

from framework import Issue
from world import asyncstdlib as A


@types.coroutine
def _susp(tok):
    yield tok


class _Cancel(BaseException):
    pass


class _Src:
    def __init__(self, log, name, items, s=0, close=None):
        self.log, self.name, self.items, self.s, self.close, self.dead, self.i = log, name, items, s, close, False, 0

    def __aiter__(self):
        return self

    async def __anext__(self):
        for _ in range(self.s):
            await _susp(["src", self.name])
        self.log.append(["pull", self.name])
        if self.dead or self.i >= len(self.items):
            self.log.append(["end", self.name])
            self.dead = True
            raise StopAsyncIteration
        v = self.items[self.i]
        self.i += 1
        self.log.append(["item", v])
        return v

    async def aclose(self):
        self.log.append(["close", self.name])
        self.dead = True
        if self.close is not None:
            raise KeyError(self.close)


class _NoClose:
    def __init__(self, inner):
        self._i = inner

    def __aiter__(self):
        return self

    def __anext__(self):
        return self._i.__anext__()


class _Reit:
    def __init__(self, mk):
        self.mk = mk

    def __aiter__(self):
        return self.mk()


class _SyncIt:
    def __init__(self, log, name, items):
        self.log, self.name, self.items, self.i = log, name, items, 0

    def __iter__(self):
        return self

    def __next__(self):
        self.log.append(["pull", self.name])
        if self.i >= len(self.items):
            self.log.append(["end", self.name])
            raise StopIteration
        v = self.items[self.i]
        self.i += 1
        self.log.append(["item", v])
        return v


def _mk(log, i, d):
    close = None if d["close"] == "ok" else d["close"][1]
    k = d["kind"]
    if k == "aiter_close":
        return _Src(log, i, d["items"], d["susp"], close)
    if k == "aiter_noclose":
        return _NoClose(_Src(log, i, d["items"], d["susp"], close))
    if k == "reiterable":
        return _Reit(lambda: _Src(log, i, d["items"], d["susp"], close))
    return _SyncIt(log, i, d["items"])


def _res(f):
    try:
        tok = f()
        return ["susp", tok[1]] if isinstance(tok, list) and tok[:1] == ["src"] else ["susp", "FOREIGN:" + repr(tok)]
    except StopIteration as e:
        return ["ret", e.value]
    except StopAsyncIteration:
        return ["end"]
    except _Cancel:
        return ["cancelled"]
    except KeyError as e:
        return ["raised", e.args[0]]
    except RuntimeError as e:
        return ["busy"] if "already running" in str(e) else ["raised", "RuntimeError:" + str(e)[:60]]
    except BaseException as e:  # noqa: B036 - any other outcome is an observation
        return ["raised", type(e).__name__]


def observe(case):
    log = []
    srcs = [_mk(log, i, d) for i, d in enumerate(case["args"])]
    ch = A.chain(*srcs) if case["mode"] == "positional" else A.chain.from_iterable(tuple(srcs))
    owned0 = [i for i, s in enumerate(srcs) if any(s is o for o in ch._owned_iterators)]
    outs, pend = [], None
    for op in case["ops"]:
        if op == "next":
            if pend is None:
                pend = ch.__anext__()
            r = _res(lambda: pend.send(None))
            if r[0] == "susp":
                outs.append(r)
            else:
                pend = None
                outs.append(["item", r[1]] if r[0] == "ret" else r)
        elif op in ("aclose", "aclose_running"):
            co = ch.aclose()
            r = _res(lambda: co.send(None))
            if r[0] == "susp":
                co.close()
            outs.append(["closed"] if r[0] == "ret" else r)
        else:
            if pend is None:
                outs.append(["idle"])
            else:
                r = _res(lambda: pend.throw(_Cancel()))
                pend = None
                outs.append(r)
    owned1 = [i for i, s in enumerate(srcs) if any(s is o for o in ch._owned_iterators)]
    n_owned = len(ch._owned_iterators)
    if pend is not None:
        pend.close()
    return {"impl": {"outs": outs, "log": [list(e) for e in log], "owned": owned0}, "owned_after": owned1, "n_owned_after": n_owned}


def model_request(case):
    return {"m": "chainobj", "mode": case["mode"], "args": case["args"], "ops": case["ops"]}


def judge(case, obs, model):
    issues = []
    impl = obs["impl"]
    if obs["owned_after"] != impl["owned"] or obs["n_owned_after"] != len(impl["owned"]):
        issues.append(Issue("oracle", {"owned_at_start": impl["owned"], "after": obs["owned_after"], "n_after": obs["n_owned_after"]},
                            "chain-owned-set-changed"))
    if any(o[0] == "susp" and str(o[1]).startswith("FOREIGN") for o in impl["outs"]):
        issues.append(Issue("oracle", {"outs": impl["outs"]}, "chain-suspends-on-foreign-object"))
    for n_op, (op, out) in enumerate(zip(case["ops"], impl["outs"])):
        if op in ("aclose", "aclose_running") and out[0] == "susp":
            issues.append(Issue("oracle", {"op": n_op, "outs": impl["outs"]}, "chain-aclose-suspended-on-its-own"))
    # an accepted close (not refused as busy): every owned iterator that can be closed has been closed
    closed = {e[1] for e in impl["log"] if e[0] == "close"}
    for op, out in zip(case["ops"], impl["outs"]):
        if op in ("aclose", "aclose_running") and out[0] in ("closed", "raised") and not str(out[-1]).startswith("RuntimeError"):
            missing = [i for i in impl["owned"] if i not in closed]
            if missing:
                issues.append(Issue("oracle", {"owned": impl["owned"], "closed": sorted(closed), "outs": impl["outs"]}, "chain-owned-not-closed-by-aclose"))
            break
    if model is not None:
        if "error" in model:
            issues.append(Issue("A", model))
        elif any(model[k] != impl[k] for k in ("outs", "log", "owned")):
            issues.append(Issue("A", {"asyncstdlib": impl, "model": {k: model[k] for k in ("outs", "log", "owned")}}))
    return issues


def random_case(rng):
    n = rng.randint(0, 4)
    v = [0]

    def items():
        out = []
        for _ in range(rng.choice([0, 0, 1, 2, 3])):
            v[0] += 1
            out.append(v[0])
        return out
    args = [{"kind": rng.choice(["aiter_close", "aiter_close", "aiter_noclose", "reiterable", "sync"]), "items": items(),
             "susp": rng.choice([0, 0, 1, 2]), "close": rng.choice(["ok", "ok", ["raises", rng.randint(1, 9)]])} for _ in range(n)]
    ops = [rng.choice(["next"] * 6 + ["aclose", "aclose_running", "cancel"]) for _ in range(rng.randint(0, 12))]
    return {"family": "chainobj", "tool": "chain", "mode": rng.choice(["positional", "from_iterable"]), "args": args, "ops": ops}


def cases(rng, count):
    for _ in range(count):
        yield random_case(rng)


def features(case, obs):
    f = ["chainobj:" + case["mode"]]
    for out in obs["impl"]["outs"]:
        f.append("chainobj-out:" + out[0])
    return f


def nontrivial(case, obs):
    return bool(obs["impl"]["log"])
