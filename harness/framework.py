"""Shared machinery of every check: Lean build + audit, driver, correspondence loop, failing-input
search, known findings, evidence, verdict.  See DESIGN.md §4–§5."""
import argparse
import concurrent.futures as cf
import fcntl
import hashlib
import importlib
import json
import os
import random
import re
import subprocess
import sys
import time
from pathlib import Path

ROOT = Path(__file__).resolve().parent.parent
LEAN = ROOT / "lean"
EVID = Path(os.environ.get("VERIF_EVIDENCE_DIR") or ROOT / "evidence")   # overridden only by tools/ (seed evaluation)
REPLAYS = Path(os.environ.get("VERIF_REPLAYS_DIR") or ROOT / "replays")
CORPUS = ROOT / "corpus"
FINDINGS = ROOT / "known_findings.json"
DRIVER = LEAN / ".lake" / "build" / "bin" / "avdrv"
CASE_TIMEOUT = 30
ALLOWED_AXIOMS = {"propext", "Classical.choice", "Quot.sound"}
HYGIENE_RE = re.compile(
    r"\bsorry\b|\badmit\b|^\s*axiom\s|native_decide|bv_decide|implemented_by|\bunsafe\s|maxHeartbeats\s+0"
)
TRUSTED_BASE = [
    "Lean 4.33.0 kernel (re-checked by leanchecker in the thorough tier)",
    "axioms allowed in property theorems: propext, Classical.choice, Quot.sound (audited by #print axioms on every run)",
    "Lean code generator: the compiled driver evaluates the same definitions the theorems are about",
    "harness/: the correspondence (sampled, not proved) is the only tie between the model and /repo",
    "Python semantics assumed by the model: see DESIGN.md section 8",
]


class Issue:
    """One disagreement found on a case.

    kind: 'oracle'  — the real code violates the property on this case (tag = specific situation)
          'A'       — real asyncstdlib differs from the Lean model on the property's projection
          'B'       — real CPython stdlib differs from the Lean specification (machinery bug)
          'MS'      — Lean model differs from Lean spec at run time (contradicts the theorem)
          'drift'   — difference outside the projection (diagnostic only)
    """

    def __init__(self, kind, detail, tag="other"):
        self.kind = kind
        self.detail = detail
        self.tag = tag

    def to_json(self):
        return {"kind": self.kind, "tag": self.tag, "detail": self.detail}


# ---------------------------------------------------------------------------------------------
# Lean side


class LeanStatus:
    def __init__(self):
        self.build_ok = False
        self.build_log = ""
        self.hygiene_hits = []
        self.theorems = []          # fully qualified names
        self.axioms = {}            # name -> list of axioms
        self.bad = []               # theorems with unacceptable axioms / missing
        self.leanchecker = None
        self.wall_s = 0.0

    @property
    def ok(self):
        return self.build_ok and not self.hygiene_hits and self.theorems and not self.bad and (
            self.leanchecker in (None, True)
        )


def _strip_comments(text):
    text = re.sub(r"/-.*?-/", lambda m: "\n" * m.group(0).count("\n"), text, flags=re.S)
    return re.sub(r"--.*", "", text)


def lean_hygiene():
    hits = []
    for path in sorted(LEAN.rglob("*.lean")):
        if ".lake" in path.parts:
            continue
        body = _strip_comments(path.read_text())
        for n, line in enumerate(body.split("\n"), 1):
            if HYGIENE_RE.search(line):
                hits.append("%s:%d: %s" % (path.relative_to(LEAN), n, line.strip()))
    return hits


def property_files(prop):
    """Properties/<prop>.lean plus companions Properties/<prop><Suffix>.lean (e.g. C04Fuel.lean), plus any other file of
    Properties/ that states a theorem named <prop>_... (e.g. the C18_cleanup_* theorems next to C04's in C04Cleanup.lean)"""
    d = LEAN / "AsyncVerif" / "Properties"
    own = [p for p in d.glob(prop + "*.lean") if re.fullmatch(re.escape(prop) + r"[A-Za-z]*", p.stem)]
    pat = re.compile(r"^\s*(?:@\[[^\]]*\]\s*)?theorem\s+%s_" % re.escape(prop), re.M)
    guests = [p for p in d.glob("*.lean") if p not in own and pat.search(_strip_comments(p.read_text()))]
    return sorted(own) + sorted(guests)


def property_theorems(prop):
    """Fully qualified names of the theorems stated in Properties/<prop>*.lean."""
    names = []
    for path in property_files(prop):
        body = _strip_comments(path.read_text())
        ns = []
        for line in body.split("\n"):
            m = re.match(r"\s*namespace\s+(\S+)", line)
            if m:
                ns.append(m.group(1))
                continue
            m = re.match(r"\s*end\s+(\S+)", line)
            if m and ns and ns[-1].split(".")[-1] == m.group(1).split(".")[-1]:
                ns.pop()
                continue
            m = re.match(r"\s*(?:@\[[^\]]*\]\s*)?theorem\s+(%s\w*)" % prop, line)
            if m:
                names.append(".".join(ns + [m.group(1)]))
    return names


def lean_check(prop, tier):
    """lake build + hygiene + axiom audit (+ leanchecker in thorough tier), under a file lock."""
    st = LeanStatus()
    t0 = time.time()
    (LEAN / ".lake").mkdir(exist_ok=True)
    with open(LEAN / ".lake" / "verif.lock", "w") as lock:
        fcntl.flock(lock, fcntl.LOCK_EX)
        proc = subprocess.run(["lake", "build"], cwd=LEAN, capture_output=True, text=True)
        st.build_ok = proc.returncode == 0 and DRIVER.exists()
        st.build_log = (proc.stdout + proc.stderr)[-4000:]
        st.hygiene_hits = lean_hygiene()
        st.theorems = property_theorems(prop)
        if st.build_ok and st.theorems:
            audit = LEAN / (".audit_%s_%d.lean" % (prop, os.getpid()))
            audit.write_text(
                "".join("import AsyncVerif.Properties.%s\n" % f.stem for f in property_files(prop))
                + "".join("#print axioms %s\n" % n for n in st.theorems)
            )
            try:
                out = subprocess.run(
                    ["lake", "env", "lean", audit.name], cwd=LEAN, capture_output=True, text=True
                )
            finally:
                audit.unlink(missing_ok=True)
            text = out.stdout + out.stderr
            for name in st.theorems:
                m = re.search(
                    r"'%s' (does not depend on any axioms|depends on axioms: \[([^\]]*)\])" % re.escape(name),
                    text,
                )
                if not m:
                    st.bad.append(name + " (not checked: " + text[-300:] + ")")
                    continue
                axs = [a.strip() for a in (m.group(2) or "").replace("\n", " ").split(",") if a.strip()]
                st.axioms[name] = axs
                if not set(axs) <= ALLOWED_AXIOMS:
                    st.bad.append(name + " uses " + ",".join(axs))
        if st.build_ok and tier == "thorough":
            out = subprocess.run(
                # every Properties module that states a theorem of this property (its own files and guests)
                ["lake", "env", "leanchecker"] + ["AsyncVerif.Properties.%s" % f.stem for f in property_files(prop)],
                cwd=LEAN, capture_output=True, text=True,
            )
            st.leanchecker = out.returncode == 0
            if not st.leanchecker:
                st.build_log += "\nleanchecker: " + (out.stdout + out.stderr)[-2000:]
    st.wall_s = time.time() - t0
    return st


def run_driver(requests):
    """Send JSON requests (one per line) to the compiled Lean driver; returns parsed replies."""
    if not requests:
        return []
    data = "".join(json.dumps(r, separators=(",", ":")) + "\n" for r in requests)
    proc = subprocess.run([str(DRIVER)], input=data, capture_output=True, text=True)
    if proc.returncode != 0:
        raise RuntimeError("driver failed: " + proc.stderr[-2000:])
    lines = proc.stdout.split("\n")
    if lines and lines[-1] == "":
        lines.pop()
    if len(lines) != len(requests):
        raise RuntimeError("driver returned %d lines for %d requests" % (len(lines), len(requests)))
    replies = [json.loads(l) for l in lines]
    for req, rep in zip(requests, replies):
        _canon_collections(req, rep)
    return replies


def _canon_collections(req, rep):
    """The tool models report a set / dict as the list of its elements / (key, value) pairs in insertion order
    (Std.setVal / Std.dictVal); the harness reports the real object order-free (tools.canon_result).  Bring the
    model's answer into that form, once, where the driver's replies enter the harness."""
    if not isinstance(req, dict) or req.get("m") != "tool" or req.get("tool") not in ("set", "dict") or not isinstance(rep, dict):
        return
    for side in rep.values():
        if isinstance(side, dict):
            out = side.get("out")
            if isinstance(out, list) and len(out) == 2 and out[0] == "returned" and isinstance(out[1], list) and out[1][:1] == ["l"]:
                elems = out[1][1:]
                if req["tool"] == "set":
                    side["out"] = ["returned", ["set"] + sorted(elems)]
                else:
                    side["out"] = ["returned", ["dict"] + sorted([e[1], e[2]] for e in elems)]


# ---------------------------------------------------------------------------------------------
# findings


def load_findings(prop):
    if not FINDINGS.exists():
        return []
    data = json.loads(FINDINGS.read_text())
    return [f for f in data.get("findings", []) if f.get("property") == prop]


# ---------------------------------------------------------------------------------------------
# the generic check loop


def _portable(obs):
    """observations travel between processes and into replay files; a foreign object that reached the hand driver
    (an asyncio Future, say) is replaced by its type name instead of crashing the transport"""
    import pickle
    try:
        pickle.dumps(obs)
        return obs
    except Exception:
        return json.loads(json.dumps(obs, default=lambda x: ["foreign-object", "%s.%s" % (type(x).__module__, type(x).__name__)]))


def _impl_worker(args):
    modname, chunk = args
    mod = importlib.import_module(modname)
    out = []
    import signal
    import linecov
    import world
    linecov.start(world.REPO)

    timeout = int(getattr(mod, "CASE_TIMEOUT", CASE_TIMEOUT))

    def _alarm(signum, frame):
        raise TimeoutError("case did not finish within %ds" % timeout)

    signal.signal(signal.SIGALRM, _alarm)
    for case in chunk:
        try:
            signal.alarm(timeout)
            try:
                out.append(_portable(mod.observe(case)))
            finally:
                signal.alarm(0)
            world.flush_deferred()
        except BaseException as exc:  # noqa: B036 - harness failure, reported as such
            import traceback

            out.append({"__harness_error__": "%s: %s\n%s" % (type(exc).__name__, exc, traceback.format_exc()[-1500:])})
    return out, linecov.drain()


LINE_HITS = set()   # (file under asyncstdlib/, line) executed by any case of this run, merged over all workers


def _merge(results):
    obs = []
    for out, hits in results:
        obs.extend(out)
        LINE_HITS.update((f, l) for f, l in hits)
    return obs


def observe_all(modname, cases, jobs):
    """Run mod.observe(case) for every case (real implementation + real reference) in a pool."""
    if not cases:
        return []
    heavy = getattr(importlib.import_module(modname), "HEAVY", False)
    n = max(1, min(jobs, len(cases) if heavy else len(cases) // 50 + 1))
    if n == 1:
        return _merge([_impl_worker((modname, cases))])
    size = 1 if heavy else (len(cases) + n * 4 - 1) // (n * 4)
    chunks = [cases[i:i + size] for i in range(0, len(cases), size)]
    with cf.ProcessPoolExecutor(max_workers=n) as pool:
        results = list(pool.map(_impl_worker, [(modname, c) for c in chunks]))
    return _merge(results)


def case_hash(case):
    return hashlib.sha1(json.dumps(case, sort_keys=True).encode()).hexdigest()[:12]


def write_replay(prop, kind, payload):
    REPLAYS.mkdir(parents=True, exist_ok=True)
    name = "%s-%s-%s.json" % (prop, kind, hashlib.sha1(json.dumps(payload, sort_keys=True, default=str).encode()).hexdigest()[:10])
    path = REPLAYS / name
    path.write_text(json.dumps(payload, indent=1, default=str))
    return path.relative_to(ROOT) if path.is_relative_to(ROOT) else path


def load_corpus(prop):
    out = []
    for path in sorted(CORPUS.glob(prop + "*.json")):
        data = json.loads(path.read_text())
        cases = data if isinstance(data, list) else [data]
        for c in cases:
            c = dict(c)
            c.setdefault("origin", "corpus:" + path.name)
            out.append(c)
    return out


def anchored_files(prop):
    for line in (ROOT / "properties.jsonl").read_text().splitlines():
        if line.strip():
            d = json.loads(line)
            if d["id"] == prop:
                return list(d.get("anchors", {}).get("files", []))
    return []


def line_coverage(prop, src_changed):
    """which function lines of the anchored files the cases of this run executed (advisory, see linecov.py)"""
    try:
        import linecov
        import fingerprint
        import world
        files = sorted(set(anchored_files(prop)) | set(fingerprint.COMMON))
        rep = linecov.report(world.REPO, files, LINE_HITS)
        executed = set(rep["definitions_executed"])
        rep["changed_definitions_no_case_executes"] = [c for c in src_changed
                                                        if "::<" not in c and c not in executed]
        del rep["definitions_executed"]
        return rep
    except Exception as exc:  # advisory layer: must never break a check
        return {"error": str(exc)}


def source_changes(prop):
    """definitions of the files this property is anchored in whose AST differs from the recorded baseline"""
    try:
        import fingerprint
        anchors = anchored_files(prop)
        import world
        return fingerprint.relevant(fingerprint.changed_definitions(world.REPO), anchors)
    except Exception as exc:  # the fingerprint layer is advisory: it must never break a check
        return ["<fingerprint-error: %s>" % exc]


def drain_search(mod, broken_cases, rng):
    """All cases of the module's failing-input search.  The neighbour derivation of a module is written for the case
    shapes it knew; a family case of another shape must not turn a found disagreement into a crash (exit 1 without a
    VIOLATION line): whatever was generated before the error is kept, the broken cases are then offered one by one (so a
    single odd shape does not hide the others) and the module's own sweep (no broken cases) is always run."""
    out, errors = [], []

    def drain(broken):
        n = 0
        try:
            for case in mod.search_cases(broken, rng):
                out.append(case)
                n += 1
        except Exception as e:  # noqa: BLE001
            errors.append("search_cases failed after %d cases on %d broken case(s): %s: %s" % (
                n, len(broken), type(e).__name__, str(e)[:120]))
            return False
        return True

    if not drain(broken_cases) and broken_cases:
        for case in broken_cases:
            drain([case])
        drain([])
    return out, errors


def main(argv=None):
    ap = argparse.ArgumentParser()
    ap.add_argument("prop")
    ap.add_argument("--tier", default=os.environ.get("VERIF_TIER", "quick"), choices=["quick", "thorough"])
    ap.add_argument("--replay")
    ap.add_argument("--jobs", type=int, default=int(os.environ.get("VERIF_JOBS", "16")))
    args = ap.parse_args(argv)
    prop = args.prop
    seed = int(os.environ.get("VERIF_SEED", "0"))
    modname = "props.%s" % prop.lower()
    sys.path.insert(0, str(Path(__file__).resolve().parent))
    mod = importlib.import_module(modname)
    t0 = time.time()

    if args.replay:
        payload = json.loads(Path(args.replay).read_text())
        case = payload.get("case", payload)
        lean_check(prop, "quick")
        obs = mod.observe(case)
        if hasattr(mod, "model_requests"):      # several model runs per case, depending on what was observed
            reqs = mod.model_requests(case, obs)
            model = run_driver(reqs) if reqs else None
        else:
            req = mod.model_request(case)
            model = run_driver([req])[0] if req is not None else None
        issues = mod.judge(case, obs, model)
        print(json.dumps({"case": case, "observed": obs, "model": model,
                          "issues": [i.to_json() for i in issues]}, indent=1, default=str))
        return 1 if any(i.kind in ("oracle", "A") for i in issues) else 0

    lean = lean_check(prop, args.tier)
    rng = random.Random(seed * 1000003 + sum(map(ord, prop)))
    # source fingerprints: if code this property is anchored in is textually not the code the model was written
    # from, explore more (the thorough generator, and the failing-input search unconditionally); never an alarm
    src_changed = source_changes(prop)
    amplified = bool(src_changed) and args.tier == "quick" and not os.environ.get("VERIF_NO_AMPLIFY")
    # modules whose thorough generator is too heavy for an every-change run declare AMPLIFY = "search":
    # they are amplified by their failing-input search only
    gen_tier = "thorough" if amplified and getattr(mod, "AMPLIFY", "thorough") == "thorough" else args.tier
    if gen_tier != args.tier:
        # amplified: the thorough generator, but bounded — a few times the size of the quick run, so that an every-change
        # run stays an every-change run (the thorough enumeration comes first in every generator, the random tail last)
        import itertools
        nquick = sum(1 for _ in mod.cases(args.tier, random.Random(seed * 1000003 + sum(map(ord, prop)))))
        cap = int(os.environ.get("VERIF_AMPLIFY_FACTOR", "4")) * max(nquick, 2000)
        # the every-change cases themselves always run (the cap may cut families off the tail of the thorough generator)
        cases = (load_corpus(prop) + list(mod.cases(args.tier, random.Random(seed * 1000003 + sum(map(ord, prop)))))
                 + list(itertools.islice(mod.cases(gen_tier, rng), cap)))
    else:
        cases = load_corpus(prop) + list(mod.cases(gen_tier, rng))
    observed = observe_all(modname, cases, args.jobs)
    harness_errors = [(c, o) for c, o in zip(cases, observed) if isinstance(o, dict) and "__harness_error__" in o]
    if harness_errors:
        print("HARNESS-ERROR %s: %s" % (prop, harness_errors[0][1]["__harness_error__"]), file=sys.stderr)
        print(json.dumps(harness_errors[0][0]), file=sys.stderr)
        return 2

    models = [None] * len(cases)
    driver_error = None
    if lean.build_ok:
        # a module may ask for several model runs per case, depending on what was observed (model_requests)
        multi = hasattr(mod, "model_requests")
        reqs, slots = [], []
        for i, (c, o) in enumerate(zip(cases, observed)):
            if multi:
                rs = mod.model_requests(c, o)
                if rs:
                    slots.append((i, len(rs)))
                    reqs.extend(rs)
            else:
                r = mod.model_request(c)
                if r is not None:
                    slots.append((i, None))
                    reqs.append(r)
        try:
            replies = run_driver(reqs)
            k = 0
            for i, n in slots:
                if n is None:
                    models[i] = replies[k]
                    k += 1
                else:
                    models[i] = replies[k:k + n]
                    k += n
        except Exception as exc:  # driver crashed: treated like a broken correspondence
            driver_error = str(exc)

    findings = load_findings(prop)
    open_tags = {f["tag"]: f for f in findings if f.get("status") == "open"}
    violations, known_hit, a_breaks, b_breaks, ms_breaks, drift = [], {}, [], [], [], []
    nontrivial = set()
    dist = {}
    for case, obs, model in zip(cases, observed, models):
        try:
            issues = mod.judge(case, obs, model)
            feats = mod.features(case, obs)
            nontriv = mod.nontrivial(case, obs)
        except Exception as e:  # noqa: BLE001
            # the comparison itself cannot digest what the implementation produced (never on the validated tree):
            # the correspondence does not check on this case -> edge A broken, the failing-input search decides
            issues = [Issue("A", {"comparison-failed": "%s: %s" % (type(e).__name__, str(e)[:200])})]
            feats, nontriv = ["comparison-failed"], False
        for key in feats:
            dist[key] = dist.get(key, 0) + 1
        if nontriv:
            nontrivial.add(case_hash(case))
        for iss in issues:
            rec = {"case": case, "observed": obs, "model": model, "issue": iss.to_json()}
            if iss.kind == "oracle":
                if iss.tag in open_tags:
                    known_hit.setdefault(iss.tag, rec)
                else:
                    violations.append(rec)
            elif iss.kind == "A":
                a_breaks.append(rec)
            elif iss.kind == "B":
                b_breaks.append(rec)
            elif iss.kind == "MS":
                ms_breaks.append(rec)
            else:
                drift.append(rec)

    # A broken proof obligation or correspondence is not by itself a violation: search for a failing input.
    searched = 0
    broken = []
    if not lean.ok:
        broken.append("lean: build_ok=%s hygiene=%s bad_theorems=%s" % (lean.build_ok, lean.hygiene_hits[:3], lean.bad[:3]))
    if driver_error:
        broken.append("driver: " + driver_error[:300])
    if a_breaks:
        broken.append("correspondence A (asyncstdlib vs model): %d cases, first: %s" % (
            len(a_breaks), json.dumps(a_breaks[0]["issue"])[:400]))
    if ms_breaks:
        broken.append("model vs spec at run time: %d cases" % len(ms_breaks))
    if (broken or amplified) and not violations and hasattr(mod, "search_cases"):
        extra, search_errors = drain_search(mod, [r["case"] for r in a_breaks[:20]], rng)
        searched = len(extra)
        for err in search_errors:
            print("search: %s" % err, file=sys.stderr)
        for case, obs in zip(extra, observe_all(modname, extra, args.jobs)):
            if "__harness_error__" in obs:
                continue
            try:
                found = mod.judge(case, obs, None)
            except Exception:  # noqa: BLE001
                continue
            for iss in found:
                if iss.kind == "oracle" and iss.tag not in open_tags:
                    violations.append({"case": case, "observed": obs, "model": None, "issue": iss.to_json()})

    for tag, rec in sorted(known_hit.items()):
        print("KNOWN-FINDING: property=%s %s [%s]" % (prop, open_tags[tag]["what"], tag))

    exit_code = 0
    if b_breaks:
        # the specification mis-describes CPython: machinery error, independent of /repo
        path = write_replay(prop, "specbug", b_breaks[0])
        print("HARNESS-ERROR %s: Lean specification disagrees with the real standard library, see %s" % (prop, path),
              file=sys.stderr)
        exit_code = 2
    if violations:
        rec = min(violations, key=lambda r: len(json.dumps(r["case"])))
        rec["replay_cmd"] = "/venv/bin/python harness/check.py %s --replay <this file>" % prop
        rec["also_broken"] = broken
        path = write_replay(prop, "violation", rec)
        print("VIOLATION property=%s replay=%s" % (prop, path))
        exit_code = 1
    elif broken:
        rec = {"broken": broken, "first_case": a_breaks[0] if a_breaks else None,
               "lean_log": lean.build_log[-1500:] if not lean.ok else "", "searched_cases": searched + len(cases)}
        path = write_replay(prop, "unproved", rec)
        print("VIOLATION property=%s replay=%s no-failing-input-found" % (prop, path))
        exit_code = 1

    samples = []
    for case, obs, model in list(zip(cases, observed, models))[:: max(1, len(cases) // 5)][:5]:
        samples.append({"case": case, "observed": obs, "model": model})
    evidence = {
        "property_id": prop,
        "tier": args.tier,
        "seed": seed,
        "level": "proof",
        "coverage": {
            "obligations": len(lean.theorems),
            "discharged": len([n for n in lean.theorems if n in lean.axioms and n not in "".join(lean.bad)]) if lean.build_ok else 0,
            "checker_cmd": "cd lean && lake build && lake env lean <#print axioms for each theorem of Properties/%s.lean>%s" % (
                prop, " && lake env leanchecker AsyncVerif.Properties.%s" % prop if args.tier == "thorough" else ""),
            "trusted_base": TRUSTED_BASE + list(getattr(mod, "TRUSTED", [])),
            "theorems": {n: lean.axioms.get(n) for n in lean.theorems},
            "leanchecker": lean.leanchecker,
            "evaluations": len(cases) + searched,
            "distinct_nontrivial": len(nontrivial),
            "rule": mod.RULE,
            "samples": samples,
            "traces_validated_against_impl": len([m for m in models if m is not None]) - len(a_breaks),
            "correspondence_A_breaks": len(a_breaks),
            "correspondence_B_breaks": len(b_breaks),
            "model_vs_spec_breaks": len(ms_breaks),
            "model_drift": [d["issue"] for d in drift[:10]],
            "model_drift_count": len(drift),
            "distribution": dict(sorted(dist.items())),
            "known_findings_hit": sorted(known_hit),
            "exhaustive": bool(getattr(mod, "EXHAUSTIVE", {}).get(gen_tier, False)),
            "exhaustive_scope": getattr(mod, "SCOPE", {}).get(gen_tier, ""),
            "lean_wall_s": round(lean.wall_s, 2),
            "source_definitions_changed_since_model_validated": src_changed[:40],
            "amplified_exploration": amplified,
            "impl_line_coverage": line_coverage(prop, src_changed),
        },
        "assumptions": list(getattr(mod, "ASSUMPTIONS", [])),
        "wall_s": round(time.time() - t0, 2),
        "violations": len(violations) + (1 if (broken and not violations) else 0),
    }
    EVID.mkdir(parents=True, exist_ok=True)
    (EVID / (prop + ".json")).write_text(json.dumps(evidence, indent=1, default=str))
    vt = {}
    for r in violations:
        vt[r["issue"]["tag"]] = vt.get(r["issue"]["tag"], 0) + 1
    if vt:
        print("violation tags: %s" % json.dumps(vt, sort_keys=True))
    if b_breaks:
        print("B-break cases: %d, e.g. %s" % (len(b_breaks), json.dumps(b_breaks[0]["case"])[:300]))
    print("%s %s: %d cases (%d nontrivial), %d theorems audited, A-breaks=%d, known=%d, violations=%d, %.1fs" % (
        prop, args.tier, len(cases), len(nontrivial), len(lean.theorems), len(a_breaks), len(known_hit),
        len(violations), time.time() - t0))
    return exit_code


if __name__ == "__main__":
    sys.exit(main())
