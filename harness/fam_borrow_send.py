"""`borrow` / `scoped_iter` handles with `asend` / `athrow` (family `borrowsend`, used by C07): handle trees over a real async
generator (behind a call-logging proxy, or bare) or a class-based iterator with any subset of {asend, athrow, aclose};
operations next / asend / athrow / close / scope exit / borrow / scope in any order.  The real objects are compared with
`Machines/BorrowSend.lean` (`C07_send_never_closes_underlying`, `C07_closed_handle_send_inert`,
`C07_live_handle_send_reaches_underlying`, `C07_send_items_once_in_order`, `C07_send_outlives_ancestor_close` = what the
code does for handles borrowed BEFORE an ancestor was closed).  Oracle on the real objects: the underlying iterator is
closed only by the exit of a scope opened on the underlying iterator itself."""
import types  # noqa: F401

from framework import Issue
from world import asyncstdlib

borrow, scoped_iter = asyncstdlib.borrow, asyncstdlib.scoped_iter


class E(Exception):
    def __init__(self, i):
        super().__init__(i)
        self.i = i


def drive(coro):
    try:
        coro.send(None)
    except StopIteration as e:
        return "none" if e.value is None else ["item", e.value]
    except StopAsyncIteration:
        return "stop"
    except E as e:
        return ["raised", e.i]
    except TypeError:
        return "typeerror"
    raise RuntimeError("unexpected suspension")


async def agen(items, catches, body):
    try:
        for x in items:
            try:
                got = yield x
            except E as e:
                body.append(["thrown", e.i])
                if e.i not in catches:
                    raise
            else:
                if got is not None:
                    body.append(["sent", got])
    except GeneratorExit:
        body.append("closed")
        raise


class Proxy:
    """transparent call-logging proxy around a real async generator"""

    def __init__(self, inner, log):
        self._inner, self._log = inner, log

    def __aiter__(self):
        return self

    def __anext__(self):
        self._log.append("pull")
        return self._inner.__anext__()

    def asend(self, v):
        self._log.append(["sent", v])
        return self._inner.asend(v)

    def athrow(self, e):
        self._log.append(["thrown", e.i])
        return self._inner.athrow(e)

    def aclose(self):
        self._log.append("closed")
        return self._inner.aclose()


class ObjBase:
    def __init__(self, items, catches, log):
        self.items, self.catches, self.log = list(items), catches, log
        self.dead = False

    def __aiter__(self):
        return self

    def _adv(self):
        if self.dead or not self.items:
            self.dead = True
            raise StopAsyncIteration
        return self.items.pop(0)

    async def __anext__(self):
        self.log.append("pull")
        return self._adv()


class SendMixin:
    async def asend(self, v):
        self.log.append(["sent", v])
        return self._adv()


class ThrowMixin:
    async def athrow(self, e):
        self.log.append(["thrown", e.i])
        if e.i in self.catches:
            return self._adv()
        raise e


class CloseMixin:
    async def aclose(self):
        self.log.append("closed")
        self.dead = True


def make_u(spec, log, body):
    if spec["kind"] == "bare":
        return agen(spec["items"], spec["catches"], body)
    if spec["kind"] == "gen":
        return Proxy(agen(spec["items"], spec["catches"], body), log)
    bases = [ObjBase]
    if spec["send"]:
        bases.insert(0, SendMixin)
    if spec["throw"]:
        bases.insert(0, ThrowMixin)
    if spec["close"]:
        bases.insert(0, CloseMixin)
    return type("ObjU", tuple(bases), {})(spec["items"], spec["catches"], log)


def slot(h, name, u):
    try:
        m = getattr(h, name)
    except AttributeError:
        return "absent"
    owner = getattr(m, "__self__", None)
    if owner is u:
        return "direct"
    if type(owner).__name__ == "async_generator" and owner.ag_frame is None:
        return "dead"
    return "other"


def run_real(spec, ops):
    log, body = [], []
    u = make_u(spec, log, body)
    handles, ctxs, outs = [], {}, []
    tgt = lambda t: u if t is None else handles[t]
    for op in ops:
        tag = op[0]
        try:
            if tag == "next":
                outs.append(drive(handles[op[1]].__anext__()))
            elif tag == "asend":
                outs.append(drive(handles[op[1]].asend(op[2])))
            elif tag == "athrow":
                outs.append(drive(handles[op[1]].athrow(E(op[2]))))
            elif tag == "close":
                r = drive(handles[op[1]].aclose())
                outs.append("ok" if r == "none" else r)
            elif tag == "exit":
                r = drive(ctxs[op[1]].__aexit__(None, None, None))
                outs.append("ok" if r == "none" else r)
            elif tag == "borrow":
                handles.append(borrow(tgt(op[1])))
                outs.append(["handle", len(handles) - 1])
            elif tag == "scope":
                cm = scoped_iter(tgt(op[1]))
                if type(cm).__name__ == "nullcontext":
                    outs.append("nullctx")
                else:
                    co = cm.__aenter__()
                    try:
                        co.send(None)
                        raise RuntimeError("suspended")
                    except StopIteration as e:
                        h = e.value
                    handles.append(h)
                    ctxs[len(handles) - 1] = cm
                    outs.append(["handle", len(handles) - 1])
        except AttributeError:
            outs.append("noattr")
    try:
        alive = [[h._wrapper.ag_frame is not None, slot(h, "asend", u), slot(h, "athrow", u)] for h in handles]
    except Exception:  # noqa: BLE001 - the handles' private representation is not what it was when the model was written
        alive = None
    return outs, list(log), list(body), alive      # (snapshots: a bare generator logs "closed" when it is garbage-collected)


def gen_case(rng):
    kind = rng.choice(["gen", "bare", "obj", "obj"])
    if kind == "obj":
        send, throw, close = (rng.random() < 0.65 for _ in range(3))
    else:
        send = throw = close = True
    items = list(range(100, 100 + rng.randint(0, 6)))
    catches = [e for e in (1, 2, 3) if rng.random() < 0.4]
    spec = {"kind": kind, "send": send, "throw": throw, "close": close, "items": items, "catches": catches}
    ops, kinds = [], []            # kinds[i] = "b" / "s" per handle
    n = rng.randint(3, 14)
    for _ in range(n):
        if not kinds or rng.random() < 0.22:
            t = None if (not kinds or rng.random() < 0.4) else rng.randrange(len(kinds))
            if rng.random() < 0.5:
                ops.append(["borrow", t])
                kinds.append("b")
            else:
                ops.append(["scope", t])
                if not (t is None and not close):
                    kinds.append("s")
            continue
        h = rng.randrange(len(kinds))
        r = rng.random()
        if r < 0.25:
            ops.append(["next", h])
        elif r < 0.5:
            ops.append(["asend", h, rng.choice([None, None, 7, 8, 9])])
        elif r < 0.7:
            ops.append(["athrow", h, rng.randint(1, 4)])
        elif r < 0.85:
            ops.append(["close", h])
        else:
            scoped = [i for i, k in enumerate(kinds) if k == "s"]
            if scoped:
                ops.append(["exit", rng.choice(scoped)])
            else:
                ops.append(["close", h])
    return spec, ops


def subsequence(a, b):
    it = iter(b)
    return all(any(x == y for y in it) for x in a)


def random_case(rng):
    spec, ops = gen_case(rng)
    return {"family": "borrowsend", "tool": "borrow", "spec": spec, "ops": ops, "srcs": [], "params": {}}


def cases(rng, count):
    for _ in range(count):
        yield random_case(rng)


def observe(case):
    outs, log, body, alive = run_real(case["spec"], case["ops"])
    return {"outs": outs, "log": log, "body": body, "alive": alive}


def model_request(case):
    spec = case["spec"]
    return {"m": "borrowsend", "ops": case["ops"], "u": {"gen": spec["kind"] != "obj", "send": spec["send"], "throw": spec["throw"],
                                                         "close": spec["close"], "catches": spec["catches"], "items": spec["items"]}}


def judge(case, obs, model):
    issues = []
    spec, ops = case["spec"], case["ops"]
    # the underlying iterator is closed only by leaving a scope that was opened on the underlying iterator itself
    owner_scopes, n_handles = set(), 0
    for op, out in zip(ops, obs["outs"]):
        if op[0] in ("borrow", "scope") and isinstance(out, list) and out[0] == "handle":
            if op[0] == "scope" and op[1] is None:
                owner_scopes.add(out[1])
    owner_exits = sum(1 for op in ops if op[0] == "exit" and op[1] in owner_scopes)
    closed = (obs["body"] if spec["kind"] == "bare" else obs["log"]).count("closed")
    if closed > owner_exits:
        issues.append(Issue("oracle", {"closed": closed, "owner_scope_exits": owner_exits, "ops": ops}, "underlying-closed-through-a-handle"))
    if model is not None:
        if "error" in model:
            issues.append(Issue("A", model))
        else:
            ok = obs["outs"] == model["outs"] and obs["alive"] == model["alive"]
            if spec["kind"] == "bare":
                ok = ok and subsequence(obs["body"], model["underlying_log"])
            else:
                ok = ok and obs["log"] == model["underlying_log"]
            if not ok:
                issues.append(Issue("A", {"asyncstdlib": {k: obs[k] for k in ("outs", "log", "alive")},
                                          "model": {k: model[k] for k in ("outs", "underlying_log", "alive")}}))
            if "stuck" in model["outs"] or "invalid" in model["outs"] or model["closed_count"] != model["owner_exits"]:
                issues.append(Issue("MS", model))
    return issues


def features(case, obs):
    return ["borrowsend:" + case["spec"]["kind"]] + sorted({"borrowsend-op:" + op[0] for op in case["ops"]})


def nontrivial(case, obs):
    return any(op[0] in ("next", "asend", "athrow") for op in case["ops"])
