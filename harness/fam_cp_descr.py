"""C12 family `descr`: the descriptor protocol around cached_property, side by side with functools.cached_property.

The property says "values are per instance" and "the getter runs only when no value is cached".  Where the value is
kept is the instance's own __dict__ under the attribute's name; the scenarios below are the places where that
bookkeeping is decided (set_name, two properties on one class, the same getter under two names in two classes,
inheritance, instances without __dict__, access through the class).  Every scenario is run on asyncstdlib and on
functools.cached_property; the observation is a canonical list of outcomes, compared literally (oracle only, no
model run: the Lean machine has the per-instance slot as a primitive).
"""
import functools

from world import asyncstdlib


def _drive(aw):
    """await something that must not suspend"""
    coro = _wrap(aw)
    try:
        coro.send(None)
    except StopIteration as stop:
        return stop.value
    coro.close()
    raise RuntimeError("suspended")


async def _wrap(aw):
    return await aw


def _mk(flavour):
    """(decorator, read) for one of the two implementations"""
    if flavour == "std":
        return functools.cached_property, (lambda inst, name: getattr(inst, name))

    def deco(f):
        async def getter(self):
            return f(self)
        getter.__name__ = f.__name__
        getter.__doc__ = f.__doc__
        return asyncstdlib.cached_property(getter)

    return deco, (lambda inst, name: _drive(getattr(inst, name)))


def _outcome(thunk):
    try:
        return ["ret", thunk()]
    except Exception as e:  # noqa: BLE001
        # py3.12: errors of __set_name__ propagate unchanged; older versions wrap them in RuntimeError
        return ["raised", type(e).__name__]


SCENARIOS = ["two-props", "two-classes-one-getter", "inherit", "slots", "no-set-name", "two-names", "class-access",
             "dict-entry", "preset-dict", "del-other", "shadow-sub"]


def run(scenario, flavour):
    deco, read = _mk(flavour)
    log = []

    def getter(tag):
        def g(self):
            log.append([tag, self.ident])
            return [tag, self.ident, len(log)]
        g.__name__ = tag
        return g

    out = []
    if scenario == "two-props":
        class A:
            def __init__(self, i):
                self.ident = i
            x = deco(getter("x"))
            y = deco(getter("y"))
        a, b = A(0), A(1)
        for inst, n in ((a, "x"), (a, "y"), (b, "y"), (a, "x"), (b, "x"), (a, "y"), (b, "y")):
            out.append(_outcome(lambda: read(inst, n)))
        del a.x
        out.append(_outcome(lambda: read(a, "y")))
        out.append(_outcome(lambda: read(a, "x")))
        out.append(sorted(k for k in a.__dict__ if k != "ident"))
    elif scenario == "two-classes-one-getter":
        g = getter("g")

        class A:
            def __init__(self, i):
                self.ident = i
            first = deco(g)

        class B:
            def __init__(self, i):
                self.ident = i
            second = deco(g)
        a, b = A(0), B(1)
        out += [_outcome(lambda: read(a, "first")), _outcome(lambda: read(b, "second")),
                _outcome(lambda: read(a, "first")), _outcome(lambda: read(b, "second")),
                sorted(k for k in a.__dict__ if k != "ident"), sorted(k for k in b.__dict__ if k != "ident")]
    elif scenario == "inherit":
        class A:
            def __init__(self, i):
                self.ident = i
            x = deco(getter("x"))

        class B(A):
            pass
        a, b = A(0), B(1)
        out += [_outcome(lambda: read(b, "x")), _outcome(lambda: read(a, "x")), _outcome(lambda: read(b, "x")),
                _outcome(lambda: read(a, "x"))]
    elif scenario == "shadow-sub":
        class A:
            def __init__(self, i):
                self.ident = i
            x = deco(getter("base"))

        class B(A):
            x = deco(getter("sub"))
        a, b = A(0), B(1)
        out += [_outcome(lambda: read(a, "x")), _outcome(lambda: read(b, "x")), _outcome(lambda: read(b, "x")),
                _outcome(lambda: read(a, "x"))]
    elif scenario == "slots":
        class A:
            __slots__ = ("ident",)

            def __init__(self, i):
                self.ident = i
            x = deco(getter("x"))
        a = A(0)
        out += [_outcome(lambda: read(a, "x")), _outcome(lambda: read(a, "x"))]
    elif scenario == "no-set-name":
        class A:
            def __init__(self, i):
                self.ident = i
        A.x = deco(getter("x"))
        a = A(0)
        out += [_outcome(lambda: read(a, "x"))]
    elif scenario == "two-names":
        def build():
            p = deco(getter("x"))

            class A:
                x = p
                y = p
            return "built"
        out += [_outcome(build)]

        def build_same():
            p = deco(getter("x"))

            class A:
                x = p

            class B:
                x = p
            return "built"
        out += [_outcome(build_same)]
    elif scenario == "class-access":
        class A:
            def __init__(self, i):
                self.ident = i
            x = deco(getter("x"))
        p = A.__dict__["x"]
        out += [A.x is p, _outcome(lambda: read(A(0), "x"))]
    elif scenario == "dict-entry":
        class A:
            def __init__(self, i):
                self.ident = i
            x = deco(getter("x"))
        a = A(0)
        out.append("x" in a.__dict__)
        out.append(_outcome(lambda: read(a, "x")))
        out.append("x" in a.__dict__)
        del a.x
        out.append("x" in a.__dict__)
        out.append(_outcome(lambda: delattr(a, "x")))
    elif scenario == "preset-dict":
        # a value put into the instance __dict__ by hand shadows the (non-data) descriptor
        class A:
            def __init__(self, i):
                self.ident = i
            x = deco(getter("x"))
        a = A(0)
        a.__dict__["x"] = "preset"
        out.append(_outcome(lambda: getattr(a, "x")))
        del a.x
        out.append(_outcome(lambda: read(a, "x")))
    elif scenario == "del-other":
        class A:
            def __init__(self, i):
                self.ident = i
            x = deco(getter("x"))
        a, b = A(0), A(1)
        out += [_outcome(lambda: read(a, "x")), _outcome(lambda: read(b, "x"))]
        del a.x
        out += [_outcome(lambda: read(b, "x")), _outcome(lambda: read(a, "x")), _outcome(lambda: read(b, "x"))]
    return {"out": out, "runs": log}


def observe(case):
    sc = case["scenario"]
    try:
        impl = run(sc, "impl")
    except BaseException as e:  # noqa: B036
        impl = {"out": ["crashed", type(e).__name__], "runs": []}
    std = run(sc, "std")
    viol = []
    if impl != std:
        viol.append(["descriptor-differs-from-functools", {"scenario": sc, "impl": impl, "functools": std}])
    return {"impl": impl["out"], "std": None, "viol": viol, "nruns": len(impl["runs"]), "descr": True}


def cases():
    for sc in SCENARIOS:
        yield {"kind": "descr", "scenario": sc, "lock": "none", "ops": [], "family": "descr"}
