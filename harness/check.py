#!/venv/bin/python
"""Entry point: `check.py Cxx [--tier quick|thorough] [--replay file]` (cwd = /verif)."""
import sys
from pathlib import Path

sys.path.insert(0, str(Path(__file__).resolve().parent))
import framework  # noqa: E402

if __name__ == "__main__":
    sys.exit(framework.main())
