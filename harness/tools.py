"""Running one S1 case (an iterator tool or aggregation) against the real asyncstdlib, against the
real synchronous standard library, and describing it to the Lean driver."""
import builtins
import functools
import heapq
import itertools

from world import (ALL_KINDS, FILL, Acc, Item, Susp, SyncIterSource, SrcState, UserBaseExc, UserExc, asyncstdlib, canon,
                   drive, exc_name, make_source, user_exc)

A = asyncstdlib

# ---------------------------------------------------------------------------------------------
# values


def mkval(j):
    """value from its case encoding: ["o",id,key] ["i",n] ["b",b] ["n"] ["fill"] ["t",...]"""
    tag = j[0]
    if tag == "o":
        return Item(j[1], j[2])
    if tag == "i":
        return j[1]
    if tag == "b":
        return j[1]
    if tag == "n":
        return None
    if tag == "fill":
        return FILL
    if tag == "t":
        return tuple(mkval(x) for x in j[1:])
    if tag == "l":
        return [mkval(x) for x in j[1:]]
    if tag == "f":
        return float(j[1])
    if tag == "s":
        return j[1]
    if tag == "acc":
        return Acc(j[1])
    raise ValueError(j)


def _pv(p, key):
    """the (single) Python object made for parameter `key` of this run"""
    objs = p.setdefault("_objs", {})
    if key not in objs:
        objs[key] = mkval(p[key])
    return objs[key]


def _kwargs(p):
    """keyword arguments of dict(iterable, **kw): `"kw": [[["s", name], value], ...]` in call order"""
    return {k[1]: mkval(v) for k, v in (p.get("kw") or [])}


def canon_result(v):
    """canonical form of an aggregation result (sets / dicts in insertion order are order-free)"""
    if isinstance(v, (set, frozenset)):
        return ["set"] + sorted(canon(x) for x in v)
    if isinstance(v, dict):
        return ["dict"] + sorted([canon(k), canon(x)] for k, x in v.items())
    return canon(v)


def mkscript(script):
    return [("raise", e[1]) if e[0] == "!" else ("item", mkval(e)) for e in script]


# ---------------------------------------------------------------------------------------------
# user callables (mirrors Driver/Tools.lean parseFn)

FLAVOURS = ("def", "async", "partial", "obj", "objx", "cls", "bound", "wrapsdef")


def _key(v):
    if isinstance(v, Item):
        return v.key
    if isinstance(v, bool):
        return int(v)
    if isinstance(v, int):
        return v
    return 0


def _base(spec):
    kind = spec["kind"]
    if kind == "keymod":
        return lambda n, args: (_key(args[0]) % spec["m"]) == spec["r"]
    if kind == "truthy":
        return lambda n, args: bool(args[0])
    if kind == "pair":
        return lambda n, args: tuple(args)
    if kind == "add":
        return lambda n, args: args[0] + args[1]
    if kind == "key":
        return lambda n, args: _key(args[0])
    if kind == "negkey":
        return lambda n, args: -_key(args[0])
    if kind == "ident":
        return lambda n, args: args[0]
    if kind == "const":
        v = mkval(spec["v"])
        return lambda n, args: v
    if kind == "seq":
        vs = [mkval(v) for v in spec["vs"]]
        return lambda n, args: vs[n] if n < len(vs) else vs[-1]
    raise ValueError(kind)


def make_fn(spec, idx, log, flavour="def", stop_cls=StopAsyncIteration):
    """`fail_kind: "stop"`: the failing invocation raises the end-of-iteration signal of the protocol in use
    (`StopAsyncIteration` under asyncstdlib, `StopIteration` under the standard library) instead of an injected fault"""
    base = _base(spec)
    state = {"n": 0}
    nsusp = spec.get("susp", 0) if flavour != "def" else 0

    async def pre():
        for j in range(nsusp):
            await Susp(["fn", idx, state["n"], j])

    def body(args):
        n = state["n"]
        state["n"] += 1
        log.append(["call", idx, [canon(a) for a in args]])
        if spec.get("fail_at") == n:
            log.append(["callerr", idx, spec.get("eid", 0)])
            if spec.get("fail_kind") == "stop":
                raise stop_cls()
            raise user_exc(spec.get("eid", 0))
        v = base(n, args)
        log.append(["ret", idx, canon(v)])
        return v

    if flavour == "def":
        def f(*args):
            return body(args)
        return f
    if flavour == "async":
        async def f(*args):
            await pre()
            return body(args)
        return f
    if flavour == "partial":
        async def g(_tag, *args):
            await pre()
            return body(args)
        return functools.partial(g, "tag")
    if flavour == "objx":
        # callable object returning a coroutine that fails SYNCHRONOUSLY (at call time) when it is to fail
        class ObjX:
            def __bool__(self):      # a callable object may be falsy: "a key was given" is `key is not None`
                return False

            def __call__(self, *args):
                if spec.get("fail_at") == state["n"]:
                    return body(args)        # raises here, no coroutine is created

                async def co():
                    await pre()
                    return body(args)
                return co()
        return ObjX()
    if flavour == "wrapsdef":
        # a plain function returning plain values that is declared with functools.wraps(<an async def>): a synchronous
        # facade / cached snapshot / test double of a coroutine function.  What counts is what the CALL returns.
        async def original(*args):
            raise AssertionError("the wrapped coroutine function must not be called")

        @functools.wraps(original)
        def facade(*args):
            return body(args)
        return facade
    if flavour == "cls":
        # a CLASS used as the callable: its instances are awaitable (an object whose call returns an awaitable)
        class AwaitableResult:
            def __init__(self, *args):
                self.args = args

            def __await__(self):
                yield from pre().__await__()
                return body(self.args)
        return AwaitableResult
    if flavour == "bound":
        class Holder:
            async def meth(self, *args):
                await pre()
                return body(args)
        return Holder().meth
    if flavour == "obj":
        class Obj:
            def __len__(self):       # falsy by way of an empty container protocol (e.g. a registry that is callable)
                return 0

            def __call__(self, *args):
                async def co():
                    await pre()
                    return body(args)
                return co()
        return Obj()
    raise ValueError(flavour)


# ---------------------------------------------------------------------------------------------
# tool tables: how a case's parameters become a call


def _fn(F, p, key="fn"):
    i = p.get(key)
    return None if i is None else F[i]


def _init(p, key="initial"):
    return _pv(p, key) if p.get(key) is not None else None


def _islice_args(p):
    return (p.get("start") or None, p.get("stop"), p.get("step") or None)


def _acc_kwargs(p):
    return {"initial": _pv(p, "initial")} if p.get("initial") is not None else {}


ASYNC_TOOLS = {
    "filter": lambda S, F, p: A.filter(_fn(F, p), S[0]),
    "filterfalse": lambda S, F, p: A.filterfalse(_fn(F, p), S[0]),
    "enumerate": lambda S, F, p: A.enumerate(S[0], p.get("start", 0)),
    "takewhile": lambda S, F, p: A.takewhile(F[0], S[0]),
    "dropwhile": lambda S, F, p: A.dropwhile(F[0], S[0]),
    "starmap": lambda S, F, p: A.starmap(F[0], S[0]),
    "accumulate": lambda S, F, p: (A.accumulate(S[0], F[p["fn"]], **_acc_kwargs(p)) if p.get("fn") is not None
                                   else A.accumulate(S[0], **_acc_kwargs(p))),
    "batched": lambda S, F, p: A.batched(S[0], p["n"], p.get("strict", False)),
    "chain": lambda S, F, p: A.chain(*S),
    "compress": lambda S, F, p: A.compress(S[0], S[1]),
    "cycle": lambda S, F, p: A.cycle(S[0]),
    "islice": lambda S, F, p: A.islice(S[0], *_islice_args(p)),
    "pairwise": lambda S, F, p: A.pairwise(S[0]),
    "zip": lambda S, F, p: A.zip(*S, strict=True) if p.get("strict") else A.zip(*S),
    "map": lambda S, F, p: A.map(F[0], *S),
    "zip_longest": lambda S, F, p: A.zip_longest(*S, fillvalue=_init(p, "fill")),
    "iter": lambda S, F, p: A.iter(F[0], mkval(p["sentinel"])),
    "all": lambda S, F, p: A.all(S[0]),
    "any": lambda S, F, p: A.any(S[0]),
    "sum": lambda S, F, p: A.sum(S[0], _pv(p, "start")) if p.get("start") is not None else A.sum(S[0]),
    "min": lambda S, F, p: A.min(S[0], **_mm_kwargs(F, p)),
    "max": lambda S, F, p: A.max(S[0], **_mm_kwargs(F, p)),
    "list": lambda S, F, p: A.list(S[0]),
    "tuple": lambda S, F, p: A.tuple(S[0]),
    "set": lambda S, F, p: A.set(S[0]),
    "dict": lambda S, F, p: A.dict(S[0], **_kwargs(p)),
    "sorted": lambda S, F, p: A.sorted(S[0], key=_fn(F, p, "key"), reverse=p.get("reverse", False)),
    "reduce": lambda S, F, p: (A.reduce(F[0], S[0], _pv(p, "initial")) if p.get("initial") is not None
                               else A.reduce(F[0], S[0])),
    "nlargest": lambda S, F, p: A.nlargest(S[0], p["n"], key=_fn(F, p, "key")),
    "nsmallest": lambda S, F, p: A.nsmallest(S[0], p["n"], key=_fn(F, p, "key")),
    "merge": lambda S, F, p: A.merge(*S, key=_fn(F, p, "key"), reverse=p.get("reverse", False)),
}


def _mm_kwargs(F, p):
    kw = {}
    if p.get("key") is not None:
        kw["key"] = F[p["key"]]
    if p.get("default") is not None:
        kw["default"] = _pv(p, "default")
    return kw


def _batched_ref(iterable, n, strict):
    """C semantics of itertools.batched (3.12) + the strict flag of 3.13"""
    if n < 1:
        raise ValueError("n must be at least one")
    # Not itertools.batched itself: CPython 3.12.1's batched_next polls the exhausted iterator once
    # more after a short final batch (3.13 clears it); the reference is the 3.13 algorithm.

    def gen():
        it = iter(iterable)
        while True:
            batch = []
            for _ in range(n):
                try:
                    batch.append(next(it))
                except StopIteration:
                    if not batch:
                        return
                    if strict:
                        raise ValueError("batched(): incomplete batch") from None
                    yield tuple(batch)
                    return
            yield tuple(batch)
    return gen()


def _accumulate_ref(iterable, fn, p):
    """itertools.accumulate + the documented deviation: TypeError on empty input without initial"""
    kw = _acc_kwargs(p)
    inner = itertools.accumulate(iterable, fn, **kw) if fn is not None else itertools.accumulate(iterable, **kw)
    if kw:
        return inner

    def gen():
        n = 0
        for v in inner:
            n += 1
            yield v
        if n == 0:
            raise TypeError("accumulate() of empty sequence with no initial value")
    return gen()


SYNC_TOOLS = {
    "filter": lambda S, F, p: builtins.filter(_fn(F, p), S[0]),
    "filterfalse": lambda S, F, p: itertools.filterfalse(_fn(F, p), S[0]),
    "enumerate": lambda S, F, p: builtins.enumerate(S[0], p.get("start", 0)),
    "takewhile": lambda S, F, p: itertools.takewhile(F[0], S[0]),
    "dropwhile": lambda S, F, p: itertools.dropwhile(F[0], S[0]),
    "starmap": lambda S, F, p: itertools.starmap(F[0], S[0]),
    "accumulate": lambda S, F, p: _accumulate_ref(S[0], _fn(F, p), p),
    "batched": lambda S, F, p: _batched_ref(S[0], p["n"], p.get("strict", False)),
    "chain": lambda S, F, p: itertools.chain(*S),
    "compress": lambda S, F, p: itertools.compress(S[0], S[1]),
    "cycle": lambda S, F, p: itertools.cycle(S[0]),
    "islice": lambda S, F, p: itertools.islice(S[0], *_islice_args(p)),
    "pairwise": lambda S, F, p: itertools.pairwise(S[0]),
    "zip": lambda S, F, p: builtins.zip(*S, strict=True) if p.get("strict") else builtins.zip(*S),
    "map": lambda S, F, p: builtins.map(F[0], *S),
    "zip_longest": lambda S, F, p: itertools.zip_longest(*S, fillvalue=_init(p, "fill")),
    "iter": lambda S, F, p: builtins.iter(F[0], mkval(p["sentinel"])),
    "all": lambda S, F, p: builtins.all(S[0]),
    "any": lambda S, F, p: builtins.any(S[0]),
    "sum": lambda S, F, p: builtins.sum(S[0], _pv(p, "start")) if p.get("start") is not None else builtins.sum(S[0]),
    "min": lambda S, F, p: builtins.min(S[0], **_mm_kwargs(F, p)),
    "max": lambda S, F, p: builtins.max(S[0], **_mm_kwargs(F, p)),
    "list": lambda S, F, p: builtins.list(S[0]),
    "tuple": lambda S, F, p: builtins.tuple(S[0]),
    "set": lambda S, F, p: builtins.set(S[0]),
    "dict": lambda S, F, p: builtins.dict(S[0], **_kwargs(p)),
    "sorted": lambda S, F, p: builtins.sorted(S[0], key=_fn(F, p, "key"), reverse=p.get("reverse", False)),
    "reduce": lambda S, F, p: (functools.reduce(F[0], S[0], _pv(p, "initial")) if p.get("initial") is not None
                               else functools.reduce(F[0], S[0])),
    "nlargest": lambda S, F, p: heapq.nlargest(p["n"], S[0], key=_fn(F, p, "key")),
    "nsmallest": lambda S, F, p: heapq.nsmallest(p["n"], S[0], key=_fn(F, p, "key")),
    "merge": lambda S, F, p: heapq.merge(*S, key=_fn(F, p, "key"), reverse=p.get("reverse", False)),
}

AGGREGATIONS = {"all", "any", "sum", "min", "max", "list", "tuple", "set", "dict", "sorted", "reduce", "nlargest",
                "nsmallest"}

# ---------------------------------------------------------------------------------------------
# running a case


def run_async(case, reply=None):
    """the real asyncstdlib, hand-driven; returns the observation dict"""
    log = []
    p = dict(case.get("params", {}))
    S, states = [], []
    for i, src in enumerate(case["srcs"]):
        if src.get("same_as") is not None:      # the very same iterator object passed at several positions
            S.append(S[src["same_as"]])
            states.append(states[src["same_as"]])
            continue
        obj, st = make_source(src["kind"], mkscript(src["script"]), i, log, src.get("susp", 0), src.get("close_susp", 0))
        S.append(obj)
        states.append(st)
    F = [make_fn(spec, i, log, spec.get("flavour", "def")) for i, spec in enumerate(case.get("fns", []))]
    cons = case["cons"]
    tokens = []
    out = None
    cancel = {"at": case.get("cancel_at"), "n": 0, "exc": None, "tok": None}
    if cancel["at"] is not None and reply is None:
        def reply(i, tok):  # noqa: F811
            cancel["n"] += 1
            if cancel["n"] == cancel["at"]:
                cancel["exc"] = UserBaseExc(800 + cancel["at"])
                cancel["tok"] = tok
                return ("throw", cancel["exc"])
            return ("send", ("r", tok))
    try:
        thing = ASYNC_TOOLS[case["tool"]](S, F, p)
    except BaseException as exc:  # noqa: B036 - raised at construction
        return {"vis": log, "out": ["raised", exc_name(exc)], "srcs": [s.summary() for s in states],
                "tokens": tokens, "at_construction": True}
    if case["tool"] in AGGREGATIONS:
        res = drive(thing, reply)
        tokens += res.tokens
        out = ["raised", exc_name(res.exc)] if res.exc is not None else ["returned", canon_result(res.value)]
        if cancel["exc"] is not None:
            agg_cancel = {"cancel_token": cancel["tok"], "cancel_same_object": res.exc is cancel["exc"]}
        else:
            agg_cancel = {}
        mutated = [k for k, o in p.get("_objs", {}).items() if canon(o) != canon(mkval(case["params"][k]))]
        mutated += ["src%d" % i for i, (src, obj) in enumerate(zip(case["srcs"], S))
                    if src["kind"] == "list" and [canon(x) for x in list.__iter__(obj)] != [canon(mkval(e)) for e in src["script"]]]
        returned_same = [k for k, o in p.get("_objs", {}).items() if res.exc is None and res.value is o]
        return {"vis": log, "out": out, "srcs": [s.summary() for s in states], "tokens": tokens,
                "exc_is_injected": _same_exc(res.exc), "mutated": mutated, "returned_param": returned_same, **agg_cancel}
    taken = 0
    exc_obj = None
    while True:
        if cons["fin"] != "exhaust" and taken == cons.get("take", 1):
            if cons["fin"] == "close":
                log.append(["closed"])
                res = drive(thing.aclose(), reply)
                tokens += res.tokens
                out = ["closed"] if res.exc is None else ["raised", exc_name(res.exc)]
                exc_obj = res.exc
            else:
                thrown = user_exc(cons.get("eid", 999))
                log.append(["thrown", thrown.eid])
                res = drive(thing.athrow(thrown), reply)
                tokens += res.tokens
                if res.exc is None:
                    out = ["yielded-after-throw", canon(res.value)]
                elif isinstance(res.exc, StopAsyncIteration):
                    out = ["exhausted"]
                else:
                    out = ["raised", exc_name(res.exc)]
                    exc_obj = res.exc
                    if res.exc is not thrown and getattr(res.exc, "eid", None) == thrown.eid:
                        out = ["raised", ["copy-of-user", thrown.eid]]
            break
        res = drive(thing.__anext__(), reply)
        tokens += res.tokens
        if res.exc is None:
            log.append(["yield", canon(res.value)])
            taken += 1
            continue
        if isinstance(res.exc, StopAsyncIteration):
            out = ["exhausted"]
        else:
            out = ["raised", exc_name(res.exc)]
            exc_obj = res.exc
        break
    result = {"vis": log, "out": out, "srcs": [s.summary() for s in states], "tokens": tokens,
              "exc_is_injected": _same_exc(exc_obj)}
    if cancel["exc"] is not None:
        result["cancel_token"] = cancel["tok"]
        result["cancel_same_object"] = exc_obj is cancel["exc"]
    if hasattr(thing, "aclose") and out[0] == "raised":
        # the owner's duty after a failure: close the handle; everything must be released then
        n = len(log)
        res = drive(thing.aclose(), reply)
        del log[n:]
        result["owner_close_tokens"] = res.tokens
        result["srcs_after_owner_close"] = [s.summary() for s in states]
        result["owner_close_exc"] = exc_name(res.exc)
    return result


def _same_exc(exc):
    """the exception that reached the consumer is an injected object itself (not a copy/wrapper)"""
    if exc is None:
        return None
    return isinstance(exc, (UserExc, UserBaseExc)) and exc.__cause__ is None


def run_sync(case):
    """the real synchronous standard library on the same data, driven the same number of steps"""
    log = []
    p = dict(case.get("params", {}))
    S = []
    for i, src in enumerate(case["srcs"]):
        if src.get("same_as") is not None:
            S.append(S[src["same_as"]])
            continue
        st = SrcState(i, "iter")
        S.append(SyncIterSource(mkscript(src["script"]), st, log))
    F = [make_fn(spec, i, log, "def", StopIteration) for i, spec in enumerate(case.get("fns", []))]
    cons = case["cons"]
    try:
        thing = SYNC_TOOLS[case["tool"]](S, F, p)
    except BaseException as exc:  # noqa: B036
        return {"vis": log, "out": ["raised", exc_name(exc)], "at_construction": True}
    if case["tool"] in AGGREGATIONS:
        return {"vis": log, "out": ["returned", canon_result(thing)]}
    taken = 0
    while True:
        if cons["fin"] != "exhaust" and taken == cons.get("take", 1):
            out = ["stopped"]
            break
        try:
            v = next(thing)
        except StopIteration:
            out = ["exhausted"]
            break
        except BaseException as exc:  # noqa: B036
            out = ["raised", exc_name(exc)]
            break
        log.append(["yield", canon(v)])
        taken += 1
    return {"vis": log, "out": out}


def run_sync_safe(case):
    try:
        return run_sync(case)
    except BaseException as exc:  # noqa: B036 - aggregation raising
        return {"vis": [], "out": ["raised", exc_name(exc)]}


def model_request(case):
    if any(s.get("same_as") is not None for s in case["srcs"]):
        return None      # one iterator at several positions: the models (and their theorems) assume distinct sources
    fns = [{k: v for k, v in spec.items() if k != "flavour"} for spec in case.get("fns", [])]
    return {"m": "tool", "tool": case["tool"], "params": case.get("params", {}),
            "srcs": [{"kind": s["kind"], "script": s["script"]} for s in case["srcs"]],
            "fns": fns, "cons": case["cons"]}


# ---------------------------------------------------------------------------------------------
# projections


def strip(vis, drop_srcs=(), consumer=True):
    """drop events of uninstrumentable sources (real lists) and, optionally, consumer actions"""
    out = []
    for ev in vis:
        if ev[0] in ("pull", "item", "end", "srcerr") and ev[1] in drop_srcs:
            continue
        if ev[0] == "close":
            continue
        if consumer and ev[0] in ("closed", "thrown"):
            continue
        out.append(ev)
    return out


def yields(vis):
    return [ev[1] for ev in vis if ev[0] == "yield"]


def list_srcs(case):
    return {i for i, s in enumerate(case["srcs"]) if s["kind"] == "list"}


def has_fault(case):
    return any(e[0] == "!" for s in case["srcs"] for e in s["script"]) or any(
        f.get("fail_at") is not None for f in case.get("fns", []))


# ---------------------------------------------------------------------------------------------
# case generation


def items_for(keys, base=0, tuples=False, ints=False):
    out = []
    for i, k in enumerate(keys):
        if ints:
            out.append(["i", k])
        elif tuples:
            out.append(["t", ["o", base + 2 * i, k], ["o", base + 2 * i + 1, k]])
        else:
            out.append(["o", base + i, k])
    return out


PRED = {"kind": "keymod", "m": 2, "r": 1}
PAIR = {"kind": "pair"}

# tool -> (number of sources, list of parameter dicts, fn specs, item style)
def tool_grid(tier):
    big = tier != "quick"
    islice_params = []
    rng_s = range(0, 4 if big else 3)
    for start in rng_s:
        for stop in [None] + list(range(0, 6 if big else 5)):
            for step in (1, 2, 3):
                islice_params.append({"start": start, "stop": stop, "step": step})
    grid = {
        "filter": (1, [{"fn": 0}, {"fn": None}], [PRED], "obj"),
        "filterfalse": (1, [{"fn": 0}, {"fn": None}], [PRED], "obj"),
        "enumerate": (1, [{"start": 0}, {"start": 5}], [], "obj"),
        "takewhile": (1, [{}], [PRED], "obj"),
        "dropwhile": (1, [{}], [PRED], "obj"),
        "starmap": (1, [{}], [PAIR], "tup"),
        "accumulate": (1, [{"fn": 0}, {"fn": 0, "initial": ["o", 900, 1]}, {"fn": None}, {"fn": None, "initial": ["i", 10]}],
                       [PAIR], "acc"),
        "batched": (1, [{"n": 1}, {"n": 2}, {"n": 3}, {"n": 2, "strict": True}, {"n": 3, "strict": True}], [], "obj"),
        "chain": (0, [{}], [], "obj"),
        "compress": (2, [{}], [], "obj"),
        "cycle": (1, [{}], [], "obj"),
        "islice": (1, islice_params, [], "obj"),
        "pairwise": (1, [{}], [], "obj"),
        "zip": (0, [{}, {"strict": True}], [], "obj"),
        "map": (0, [{}], [PAIR], "obj"),
        "zip_longest": (0, [{"fill": None}, {"fill": ["fill"]}], [], "obj"),
        "all": (1, [{}], [], "obj"),
        "any": (1, [{}], [], "obj"),
        "merge": (0, [{}, {"reverse": True}, {"key": 0}, {"key": 0, "reverse": True}], [{"kind": "key"}], "sorted"),
        "sum": (1, [{}, {"start": ["i", 5]}], [], "int"),
        "min": (1, [{}, {"key": 0}, {"key": 0, "default": ["o", 999, 7]}], [{"kind": "negkey"}], "obj"),
        "max": (1, [{}, {"key": 0}], [{"kind": "negkey"}], "obj"),
        "list": (1, [{}], [], "obj"),
        "tuple": (1, [{}], [], "obj"),
        "set": (1, [{}], [], "obj"),
        "dict": (1, [{}], [], "pairs"),
        "sorted": (1, [{}, {"key": 0, "reverse": True}], [{"kind": "negkey"}], "obj"),
        "reduce": (1, [{}, {"initial": ["o", 900, 1]}], [PAIR], "obj"),
        "nlargest": (1, [{"n": 2}, {"n": 2, "key": 0}, {"n": 1}, {"n": 1, "key": 0}], [{"kind": "negkey"}], "obj"),
        "nsmallest": (1, [{"n": 2}, {"n": 0}, {"n": 1}], [], "obj"),
    }
    return grid


def key_seqs(maxlen, nkeys=2):
    for n in range(0, maxlen + 1):
        for ks in itertools.product(range(nkeys), repeat=n):
            yield list(ks)


def source_sets(tool, nsrc, style, maxlen, rng, multi_max=3):
    """lists of item scripts (one per source) for a tool"""
    if nsrc == 1:
        for ks in key_seqs(maxlen):
            if style == "acc":
                yield [ks]
            else:
                yield [ks]
    elif nsrc == 2:
        for a in key_seqs(min(maxlen, 3)):
            for b in key_seqs(min(maxlen, 3)):
                yield [a, b]
    elif style == "sorted":  # pre-sorted inputs (merge): all sorted key lists of length 0..2 over {0,1,2}, 1..multi_max sources
        sorted_lists = [list(c) for ln in range(0, 3) for c in itertools.combinations_with_replacement(range(3), ln)]
        for n in range(1, multi_max + 1):
            if n <= 2:
                for combo in itertools.product(sorted_lists, repeat=n):
                    yield [list(c) for c in combo]
            else:
                for _ in range(40):
                    yield [list(rng.choice(sorted_lists)) for _ in range(n)]
    else:  # variable number of sources: 1..multi_max with lengths 0..2 (+ random longer)
        for n in range(1, multi_max + 1):
            for lens in itertools.product(range(0, 3), repeat=n):
                yield [[rng.randrange(2) for _ in range(ln)] for ln in lens]


def build_case(tool, params, fns, style, keyseqs, kinds, cons, flavours=None):
    srcs = []
    base = 0
    for ks, kind in zip(keyseqs, kinds):
        ints = (style == "acc" and params.get("fn") is None) or style == "int"
        if style == "sorted" and params.get("reverse"):
            ks = sorted(ks, reverse=True)
        elif style == "sorted":
            ks = sorted(ks)
        if style == "pairs":
            script = [["t", ["o", base + 2 * i, k], ["o", base + 2 * i + 1, i]] for i, k in enumerate(ks)]
        else:
            script = items_for(ks, base, tuples=(style == "tup"), ints=ints)
        srcs.append({"kind": kind, "script": script})
        base += 100
    fl = flavours or ["def"] * len(fns)
    return {"tool": tool, "params": params, "srcs": srcs,
            "fns": [dict(f, flavour=fl[i]) for i, f in enumerate(fns)], "cons": cons}


def uses_total(case):
    """upper bound on the number of uses (pulls incl. end checks + calls) in a fault-free run"""
    return sum(len(s["script"]) + 1 for s in case["srcs"])
