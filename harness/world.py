"""Hand-driven coroutine machinery and instrumented user objects shared by all property modules.

There is no event loop here: library coroutines are advanced with ``send``/``throw`` by `drive`,
so every object that reaches "the loop" is seen, every reply is chosen by the harness, and a
cancellation can be thrown at any suspension point.
"""
import os
import sys

REPO = os.environ.get("VERIF_REPO", "/repo")
if REPO not in sys.path:
    sys.path.insert(0, REPO)
os.environ.setdefault("ASYNCSTDLIB_VERIF", "1")

# ---------------------------------------------------------------------------------------------
# asyncio tripwire, installed BEFORE the library is imported
#
# The library may bind asyncio names at import time (`from asyncio import get_running_loop, shield, Lock`), which a
# patch applied later cannot see.  So the recording wrappers go into the asyncio modules first; the library then binds
# the wrappers.  They record only while ASYNCIO_ARMED[0] is set (C17 arms them around hand-driven operations, where no
# event loop exists and the library has no business asking for one); otherwise they are transparent.
import asyncio  # noqa: E402
import asyncio.events, asyncio.futures, asyncio.locks, asyncio.tasks, asyncio.queues  # noqa: E401,E402

ASYNCIO_TRIPS = []
ASYNCIO_ARMED = [False]


def _install_asyncio_tripwire():
    funcs = {"asyncio.events": ["get_running_loop", "_get_running_loop", "get_event_loop", "new_event_loop"],
             "asyncio.tasks": ["current_task", "sleep", "ensure_future", "create_task", "shield", "wait_for", "gather", "wait",
                               "as_completed"],
             "asyncio.futures": ["wrap_future"]}
    classes = {"asyncio.locks": ["Lock", "Event", "Condition", "Semaphore", "BoundedSemaphore"],
               "asyncio.queues": ["Queue"]}
    for modname, names in funcs.items():
        mod = sys.modules[modname]
        for name in names:
            orig = getattr(mod, name, None)
            if orig is None or getattr(orig, "_verif_tripwire", False):
                continue

            def wrapper(*a, _orig=orig, _n=modname + "." + name, **k):
                if ASYNCIO_ARMED[0]:
                    ASYNCIO_TRIPS.append(_n)
                return _orig(*a, **k)
            wrapper._verif_tripwire = True
            wrapper.__name__ = name
            setattr(mod, name, wrapper)
            if getattr(asyncio, name, None) is orig:
                setattr(asyncio, name, wrapper)
    for modname, names in classes.items():
        mod = sys.modules[modname]
        for name in names:
            orig = getattr(mod, name, None)
            if orig is None or getattr(orig, "_verif_tripwire", False):
                continue

            def __init__(self, *a, _orig=orig, _n=modname + "." + name, **k):
                if ASYNCIO_ARMED[0]:
                    ASYNCIO_TRIPS.append(_n)
                _orig.__init__(self, *a, **k)
            sub = type(name, (orig,), {"__init__": __init__, "_verif_tripwire": True, "__module__": orig.__module__})
            setattr(mod, name, sub)
            if getattr(asyncio, name, None) is orig:
                setattr(asyncio, name, sub)


if not os.environ.get("VERIF_NO_ASYNCIO_TRIPWIRE"):
    _install_asyncio_tripwire()

import asyncstdlib  # noqa: E402

assert os.path.realpath(asyncstdlib.__file__).startswith(os.path.realpath(REPO) + os.sep), (
    "asyncstdlib imported from %s, not from %s" % (asyncstdlib.__file__, REPO)
)


class UserExc(Exception):
    """An injected fault; identity is the object, `eid` names it in observations.

    Injected faults come in the exception types library code is most likely to intercept for its own purposes
    (`except AttributeError` around an optional method, `except TypeError` around a fast path, `except KeyError` /
    `LookupError` around a cache or an instance `__dict__`, ...), and every second block of eight eids is *falsy*
    (`bool(exc) is False`), which `if exc_val:` / `if not exc:` style tests confuse with "no exception".  The class is
    a function of the eid, so every family that varies the eid also varies the type and the truthiness; identity
    (`eid`) and `isinstance(_, UserExc)` are unaffected.  `UserExc(eid)` itself returns the typed object, so every
    check injects them, not only those that go through `user_exc`."""

    def __new__(cls, eid=None, *args):
        if cls is UserExc and isinstance(eid, int) and not isinstance(eid, bool) and not os.environ.get("VERIF_PLAIN_FAULTS"):
            cls = _typed_class(eid)
        return super().__new__(cls, eid, *args)

    def __init__(self, eid=None, *args):
        super().__init__(eid)
        self.eid = eid

    def __repr__(self):
        return "UserExc(%r)" % (self.eid,)


_TYPED = {}
_BASES = (None, AttributeError, TypeError, KeyError, ValueError, RuntimeError, LookupError, OSError)


def _falsy(self):
    return False


def _typed_class(eid):
    base = _BASES[eid % len(_BASES)]
    falsy = (eid // len(_BASES)) % 2 == 1
    key = (base, falsy)
    cls = _TYPED.get(key)
    if cls is None:
        name = "User" + (base.__name__ if base else "Exc") + ("Falsy" if falsy else "")
        ns = {"__bool__": _falsy} if falsy else {}
        cls = _TYPED[key] = type(name, (UserExc,) + ((base,) if base else ()), ns)
    return cls


def user_exc(eid):
    """the injected fault object for `eid`"""
    return UserExc(eid)


_FALSY_BASE = {}


class UserBaseExc(asyncio.CancelledError):
    """An injected cancellation: a real `asyncio.CancelledError` (a BaseException that is not an Exception), so code
    that singles out cancellation by type meets it.  Every second block of eight eids is falsy, as for `UserExc`."""

    def __new__(cls, eid=None, *args):
        if cls is UserBaseExc and isinstance(eid, int) and (eid // 8) % 2 == 1 and not os.environ.get("VERIF_PLAIN_FAULTS"):
            cls = _FALSY_BASE.setdefault("c", type("UserBaseExcFalsy", (UserBaseExc,), {"__bool__": _falsy}))
        return super().__new__(cls, eid, *args)

    def __init__(self, eid):
        super().__init__(eid)
        self.eid = eid


class Interrupt(asyncio.CancelledError):
    """thrown in by the driver at a suspension point; a resilient awaitable catches it and carries on"""

    def __init__(self, eid):
        super().__init__(eid)
        self.eid = eid


SUSP_LOG = []        # user-side log of every suspension: ["susp", tok], ["reply", tok, reply], ["thrown-in", tok, eid]
RESILIENT = [False]  # when set, awaitables survive an Interrupt thrown in (C17's throw transparency)


class Susp:
    """Awaitable that suspends once with token `tok`; resumes with what the driver sends."""

    __slots__ = ("tok", "log")

    def __init__(self, tok, log=None):
        self.tok = tok
        self.log = log

    def __await__(self):
        SUSP_LOG.append(["susp", self.tok])
        try:
            reply = yield self.tok
        except Interrupt as exc:
            if not RESILIENT[0]:
                raise
            SUSP_LOG.append(["thrown-in", self.tok, exc.eid])
            reply = yield ["retry", self.tok]
        SUSP_LOG.append(["reply", self.tok, reply])
        if self.log is not None:
            self.log.append(("reply", self.tok, reply))
        return reply


class LivelockError(Exception):
    """raised into observations when a hand-driven operation does not finish within the step budget"""


class Driven:
    """Result of driving a coroutine to completion by hand."""

    __slots__ = ("value", "exc", "tokens")

    def __init__(self):
        self.value = None
        self.exc = None
        self.tokens = []


def drive(coro, reply=None, max_steps=20000):
    """Run `coro` by hand. `reply(i, tok)` -> ("send", v) | ("throw", exc); default sends tok back."""
    res = Driven()
    action = ("send", None)
    for _ in range(max_steps):
        try:
            if action[0] == "send":
                tok = coro.send(action[1])
            else:
                tok = coro.throw(action[1])
        except StopIteration as stop:
            res.value = stop.value
            return res
        except BaseException as exc:  # noqa: B036
            res.exc = exc
            return res
        res.tokens.append(tok)
        action = reply(len(res.tokens) - 1, tok) if reply is not None else ("send", ("r", tok))
    # the operation never finished: report it as an outcome (a livelock of the code under test is behaviour, not a
    # harness failure); callers see it as an exception of type LivelockError
    try:
        coro.close()
    except BaseException:  # noqa: B036
        pass
    res.exc = LivelockError("operation still suspended after %d steps; last token %r" % (max_steps, res.tokens[-1] if res.tokens else None))
    return res


# ---------------------------------------------------------------------------------------------
# async-generator finalisation behaves as under an event loop
#
# Without hooks, CPython closes an abandoned (dropped, still suspended) async generator synchronously the moment its
# reference count reaches zero, which silently "releases" whatever it held.  Every event loop installs hooks
# (sys.set_asyncgen_hooks) that instead *schedule* an aclose() for some later turn of the loop — so under a loop a
# library generator that is merely dropped rather than closed leaves its sources open when the operation completes.
# The harness therefore installs a finalizer hook that defers: the abandoned generator is parked until the observation
# of the current case has been recorded, and only then closed (flush_deferred).

DEFERRED = []


def _defer_finalizer(agen, _park=DEFERRED.append):   # bound early: survives module teardown at interpreter exit
    _park(agen)


if not os.environ.get("VERIF_NO_ASYNCGEN_HOOKS"):
    sys.set_asyncgen_hooks(finalizer=_defer_finalizer)


def flush_deferred():
    """close the async generators that were abandoned during the last observation (after it was recorded)"""
    n = 0
    while DEFERRED and n < 10000:
        agen = DEFERRED.pop()
        n += 1
        try:
            drive(agen.aclose())
        except BaseException:  # noqa: B036
            pass


def exc_name(exc):
    """Canonical name of an outcome exception: injected ones by id, others by type name."""
    if exc is None:
        return None
    eid = getattr(exc, "eid", None)
    if eid is not None:
        return ["user", eid]
    return ["lib", type(exc).__name__]


# ---------------------------------------------------------------------------------------------
# user items


class Item:
    """User item: identity `id`; ordering, equality, hashing and truthiness by `key`."""

    __slots__ = ("id", "key", "__weakref__")

    def __init__(self, id, key):
        self.id, self.key = id, key

    def __lt__(self, other):
        return self.key < other.key

    def __gt__(self, other):
        return self.key > other.key

    def __le__(self, other):
        return self.key <= other.key

    def __ge__(self, other):
        return self.key >= other.key

    def __eq__(self, other):
        return isinstance(other, Item) and self.key == other.key

    def __ne__(self, other):
        return not self.__eq__(other)

    def __hash__(self):
        return hash(self.key)

    def __bool__(self):
        return self.key != 0

    def __repr__(self):
        return "o%dk%d" % (self.id, self.key)


def canon(v):
    """Canonical JSON form of a value flowing out of a tool."""
    if isinstance(v, Item):
        return ["o", v.id]
    if isinstance(v, bool):
        return ["b", v]
    if isinstance(v, int):
        return ["i", v]
    if v is None:
        return ["n"]
    if isinstance(v, tuple):
        return ["t"] + [canon(x) for x in v]
    if isinstance(v, list):
        return ["l"] + [canon(x) for x in v]
    if isinstance(v, str):
        return ["s", v]
    if isinstance(v, Fill):
        return ["fill"]
    if isinstance(v, float):
        return ["f", repr(v)]
    if isinstance(v, Acc):
        return ["acc", v.n]
    return ["?", type(v).__name__]


class Acc:
    """A summable user value written the way `sum()`-friendly classes commonly are: `a + b` builds a new object,
    `0 + a` (the default start) returns `a` itself, and `a += b` works IN PLACE.  An aggregation that switches to `+=`
    on an intermediate total therefore mutates an input item; the value shows it."""

    __slots__ = ("n",)

    def __init__(self, n):
        self.n = n

    def __add__(self, other):
        return Acc(self.n + other.n) if isinstance(other, Acc) else NotImplemented

    def __radd__(self, other):
        return self if other == 0 and not isinstance(other, Acc) else NotImplemented

    def __iadd__(self, other):
        if not isinstance(other, Acc):
            return NotImplemented
        self.n += other.n
        return self

    def __repr__(self):
        return "Acc(%d)" % self.n


class Fill:
    """distinguished fillvalue object"""

    def __repr__(self):
        return "FILL"


FILL = Fill()

# ---------------------------------------------------------------------------------------------
# instrumented sources
#
# script: list of ("item", obj) | ("raise", eid); after the script the source is exhausted.
# Every source appends to `log`: ("pull", name), ("item", name, canon), ("end", name),
# ("srcerr", name, eid), ("close", name).  `state` records pulls / ended / failed / closes.

SYNC_KINDS = ("list", "seq", "iter")
ASYNC_KINDS = ("agen", "aobj", "aobj_nc")
ALL_KINDS = SYNC_KINDS + ASYNC_KINDS


class SrcState:
    __slots__ = ("name", "kind", "pulls", "ended", "failed", "closes", "obj", "started", "iters")

    def __init__(self, name, kind):
        self.name, self.kind = name, kind
        self.pulls = self.ended = self.failed = self.closes = self.iters = 0
        self.obj = None
        self.started = False

    def released(self):
        """closed or run to exhaustion (C04's predicate), for async kinds"""
        if self.kind == "agen":
            return self.obj.ag_frame is None
        return self.closes > 0 or self.ended > 0

    def summary(self):
        out = {"pulls": self.pulls, "ended": self.ended, "failed": self.failed, "closes": self.closes,
               "released": self.released() if self.kind in ASYNC_KINDS else None}
        if self.kind == "list":
            out["iters"] = self.iters      # how often an iterator was requested from the real list
        return out


def _respond(script, idx, st, log):
    """shared body of every __next__/__anext__: returns ('item', obj) | ('end',) | raises"""
    st.pulls += 1
    log.append(["pull", st.name])
    if idx >= len(script):
        st.ended += 1
        log.append(["end", st.name])
        return None
    tag, val = script[idx]
    if tag == "raise":
        st.failed += 1
        log.append(["srcerr", st.name, val])
        raise user_exc(val)
    log.append(["item", st.name, canon(val)])
    return (val,)


class SyncIterSource:
    """one-shot synchronous iterator"""

    def __init__(self, script, st, log):
        self.script, self.st, self.log, self.idx, self.dead = script, st, log, 0, False

    def __iter__(self):
        return self

    def __next__(self):
        if self.dead:
            self.st.pulls += 1
            self.log.append(["pull", self.st.name])
            self.log.append(["end", self.st.name])
            raise StopIteration
        try:
            r = _respond(self.script, self.idx, self.st, self.log)
        except UserExc:
            self.idx += 1
            raise
        self.idx += 1
        if r is None:
            self.dead = True
            raise StopIteration
        return r[0]


class SeqSource:
    """sequence protocol only: __getitem__ with 0.. until IndexError"""

    def __init__(self, script, st, log):
        self.script, self.st, self.log = script, st, log

    def __getitem__(self, i):
        r = _respond(self.script, i, self.st, self.log)
        if r is None:
            raise IndexError(i)
        return r[0]


class ListSource(list):
    """a real list (no instrumentation possible on pulls); content = items of the script.  What CAN be seen is how often
    an iterator is requested from it: a tool that re-iterates its argument (instead of keeping what it fetched), or hands
    out several independent iterators, differs from its stdlib namesake as soon as the list changes in between"""
    _st = None

    def __iter__(self):
        if self._st is not None:
            self._st.iters += 1
        return list.__iter__(self)


class AObjSource:
    """class-based async iterator with aclose; `susp` = tokens to suspend with before each reply"""

    def __init__(self, script, st, log, susp=0, close_susp=0):
        self.script, self.st, self.log, self.idx = script, st, log, 0
        self.susp, self.close_susp = susp, close_susp
        self.dead = False

    def __aiter__(self):
        return self

    async def __anext__(self):
        self.st.started = True
        for j in range(self.susp):
            await Susp(["src", self.st.name, self.st.pulls, j])
        if self.dead:
            self.st.pulls += 1
            self.log.append(["pull", self.st.name])
            self.log.append(["end", self.st.name])
            raise StopAsyncIteration
        try:
            r = _respond(self.script, self.idx, self.st, self.log)
        except UserExc:
            self.idx += 1
            raise
        self.idx += 1
        if r is None:
            self.dead = True
            raise StopAsyncIteration
        return r[0]

    def __eq__(self, other):        # see AObjProxy: distinct sources compare equal
        return isinstance(other, (AObjProxy, AObjSource))

    def __hash__(self):
        return 7

    async def aclose(self):
        for j in range(self.close_susp):
            await Susp(["close", self.st.name, j])
        self.st.closes += 1
        self.dead = True
        self.log.append(["close", self.st.name])
        # a hand-written iterator may return anything from aclose(); a truthy value must not leak into an
        # `__aexit__` result (it would suppress the exception leaving the `async with`)
        return True


class AObjProxy:
    """Transparent proxy around a class-based async iterator: it defines only the iteration protocol itself and forwards
    every other attribute - `aclose` included - through `__getattr__`.  `hasattr(p, "aclose")` is true, a *static*
    look-up (`inspect.getattr_static`, which runtime-checkable protocols use since Python 3.12) does not find it."""

    def __init__(self, inner, strict_aiter=False):
        self._inner = inner
        # an async iterable whose `__aiter__` DOES something: it must be called (once) before the first `__anext__`
        self._need_aiter = strict_aiter

    def __aiter__(self):
        self._need_aiter = False
        return self

    def __anext__(self):
        if self._need_aiter:
            raise RuntimeError("__anext__ called on an async iterable whose __aiter__ was never called")
        return self._inner.__anext__()

    def __getattr__(self, name):
        return getattr(self._inner, name)

    # value-based equality: all instrumented class-based sources compare EQUAL (and hash alike) although they are distinct
    # objects - bookkeeping that finds "its" iterator with `==` / `in` / `list.remove` instead of identity goes wrong
    def __eq__(self, other):
        return isinstance(other, (AObjProxy, AObjSource))

    def __hash__(self):
        return 7


class AObjNoCloseSource:
    def __init__(self, script, st, log, susp=0):
        self._inner = AObjSource(script, st, log, susp)

    def __aiter__(self):
        return self

    def __anext__(self):
        return self._inner.__anext__()


async def _agen_source(script, st, log, susp=0):
    idx = 0
    try:
        while True:
            st.started = True
            for j in range(susp):
                await Susp(["src", st.name, st.pulls, j])
            r = _respond(script, idx, st, log)   # raises UserExc: generator finishes
            idx += 1
            if r is None:
                return
            yield r[0]
    finally:
        if st.ended == 0 and st.failed == 0:
            st.closes += 1
            log.append(["close", st.name])


def make_source(kind, script, name, log, susp=0, close_susp=0):
    """returns (iterable to hand to the library, SrcState)"""
    st = SrcState(name, kind)
    if kind == "list":
        obj = ListSource(v for t, v in script if t == "item")
        obj._st = st
    elif kind == "seq":
        obj = SeqSource(script, st, log)
    elif kind == "iter":
        obj = SyncIterSource(script, st, log)
    elif kind == "agen":
        obj = _agen_source(script, st, log, susp)
    elif kind == "aobj":
        obj = AObjSource(script, st, log, susp, close_susp)
        if (len(script) + (name if isinstance(name, int) else 0)) % 2 == 1 and not os.environ.get("VERIF_NO_PROXY_SOURCES"):
            obj = AObjProxy(obj, strict_aiter=True)    # every second class-based source offers `aclose` only dynamically
    elif kind == "aobj_nc":
        obj = AObjNoCloseSource(script, st, log, susp)
    else:
        raise ValueError(kind)
    st.obj = obj
    return obj, st
