"""Hand-driven coroutine machinery and instrumented user objects shared by all property modules.

There is no event loop here: library coroutines are advanced with ``send``/``throw`` by `drive`,
so every object that reaches "the loop" is seen, every reply is chosen by the harness, and a
cancellation can be thrown at any suspension point.
"""
import os
import sys

REPO = os.environ.get("VERIF_REPO", "/repo")
if REPO not in sys.path:
    sys.path.insert(0, REPO)
os.environ.setdefault("ASYNCSTDLIB_VERIF", "1")

import asyncstdlib  # noqa: E402

assert os.path.realpath(asyncstdlib.__file__).startswith(os.path.realpath(REPO) + os.sep), (
    "asyncstdlib imported from %s, not from %s" % (asyncstdlib.__file__, REPO)
)


class UserExc(Exception):
    """An injected fault; identity is the object, `eid` names it in observations."""

    def __init__(self, eid):
        super().__init__(eid)
        self.eid = eid

    def __repr__(self):
        return "UserExc(%r)" % (self.eid,)


class UserBaseExc(BaseException):
    """An injected cancellation-like fault (not an Exception subclass)."""

    def __init__(self, eid):
        super().__init__(eid)
        self.eid = eid


class Susp:
    """Awaitable that suspends once with token `tok`; resumes with what the driver sends."""

    __slots__ = ("tok", "log")

    def __init__(self, tok, log=None):
        self.tok = tok
        self.log = log

    def __await__(self):
        reply = yield self.tok
        if self.log is not None:
            self.log.append(("reply", self.tok, reply))
        return reply


class Driven:
    """Result of driving a coroutine to completion by hand."""

    __slots__ = ("value", "exc", "tokens")

    def __init__(self):
        self.value = None
        self.exc = None
        self.tokens = []


def drive(coro, reply=None, max_steps=100000):
    """Run `coro` by hand. `reply(i, tok)` -> ("send", v) | ("throw", exc); default sends tok back."""
    res = Driven()
    action = ("send", None)
    for _ in range(max_steps):
        try:
            if action[0] == "send":
                tok = coro.send(action[1])
            else:
                tok = coro.throw(action[1])
        except StopIteration as stop:
            res.value = stop.value
            return res
        except BaseException as exc:  # noqa: B036
            res.exc = exc
            return res
        res.tokens.append(tok)
        action = reply(len(res.tokens) - 1, tok) if reply is not None else ("send", ("r", tok))
    coro.close()
    raise RuntimeError("drive: step budget exhausted")


def exc_name(exc):
    """Canonical name of an outcome exception: injected ones by id, others by type name."""
    if exc is None:
        return None
    eid = getattr(exc, "eid", None)
    if eid is not None:
        return ["user", eid]
    return ["lib", type(exc).__name__]
