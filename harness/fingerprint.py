"""Source fingerprints of the modelled code.

The Lean models are hand-written and tied to /repo by the correspondence that every check runs.  This module adds a
second, purely syntactic observation of the same source: a hash of the AST of every function and class of
`asyncstdlib/*.py` (docstrings and annotations ignored), compared with the hashes recorded when the models were last
validated (`harness/fingerprints.json`, regenerate with `python harness/fingerprint.py --write` on a clean tree).

A difference is NOT an alarm: it says "this code is not textually the code the model was written from".  The framework
answers by *amplifying* the exploration for the properties anchored in the changed files (the thorough case generator is
used even in the quick tier, and the failing-input search always runs), and records the changed definitions in the
evidence.  Whether the property still holds is decided, as always, by the oracles and the model correspondence.
"""
import ast
import hashlib
import json
import sys
from pathlib import Path

HERE = Path(__file__).resolve().parent
BASELINE = HERE / "fingerprints.json"
COMMON = ("asyncstdlib/_core.py", "asyncstdlib/_utility.py", "asyncstdlib/_typing.py")


def _strip(node):
    """drop docstrings, annotations and decorators' overload stubs — things no behaviour depends on"""
    for n in ast.walk(node):
        if isinstance(n, (ast.FunctionDef, ast.AsyncFunctionDef, ast.ClassDef, ast.Module)):
            body = n.body
            if body and isinstance(body[0], ast.Expr) and isinstance(getattr(body[0], "value", None), ast.Constant) \
                    and isinstance(body[0].value.value, str):
                n.body = body[1:] or [ast.Pass()]
        if isinstance(n, (ast.FunctionDef, ast.AsyncFunctionDef)):
            n.returns = None
            for a in n.args.posonlyargs + n.args.args + n.args.kwonlyargs + [n.args.vararg, n.args.kwarg]:
                if a is not None:
                    a.annotation = None
        if isinstance(n, ast.AnnAssign):
            n.annotation = ast.Constant(None)
    return node


def _is_overload(fn):
    return any((isinstance(d, ast.Name) and d.id == "overload") or (isinstance(d, ast.Attribute) and d.attr == "overload")
               for d in fn.decorator_list)


def fingerprints(repo):
    """{"asyncstdlib/x.py::qualname": sha1 of the stripped AST} for every def / class (methods separately)"""
    out = {}
    for path in sorted((Path(repo) / "asyncstdlib").glob("*.py")):
        rel = "asyncstdlib/" + path.name
        try:
            tree = ast.parse(path.read_text())
        except SyntaxError:
            out[rel + "::<syntax-error>"] = "x"
            continue

        def visit(node, prefix):
            for child in node.body:
                if isinstance(child, (ast.FunctionDef, ast.AsyncFunctionDef)):
                    if _is_overload(child):
                        continue
                    name = prefix + child.name
                    h = hashlib.sha1(ast.dump(_strip(child)).encode()).hexdigest()[:16]
                    # a redefinition (e.g. the implementation after its overloads) replaces the earlier entry
                    out[rel + "::" + name] = h
                elif isinstance(child, ast.ClassDef):
                    heads = [c for c in child.body if not isinstance(c, (ast.FunctionDef, ast.AsyncFunctionDef, ast.ClassDef))]
                    shell = ast.ClassDef(name=child.name, bases=child.bases, keywords=child.keywords, body=heads or [ast.Pass()],
                                         decorator_list=child.decorator_list)
                    try:
                        shell.type_params = getattr(child, "type_params", [])
                    except Exception:
                        pass
                    out[rel + "::" + prefix + child.name] = hashlib.sha1(ast.dump(_strip(shell)).encode()).hexdigest()[:16]
                    visit(child, prefix + child.name + ".")
        visit(tree, "")
        top = [n for n in tree.body if not isinstance(n, (ast.FunctionDef, ast.AsyncFunctionDef, ast.ClassDef, ast.Import,
                                                          ast.ImportFrom))]
        out[rel + "::<module-level>"] = hashlib.sha1(
            "".join(ast.dump(_strip(n)) for n in top).encode()).hexdigest()[:16]
    return out


def changed_definitions(repo):
    """qualified names whose fingerprint differs from the recorded baseline (changed, removed or new)"""
    if not BASELINE.exists():
        return []
    base = json.loads(BASELINE.read_text())
    cur = fingerprints(repo)
    return sorted(k for k in set(base) | set(cur) if base.get(k) != cur.get(k))


def relevant(changed, anchor_files):
    files = set(anchor_files) | set(COMMON)
    return [c for c in changed if c.split("::")[0] in files]


if __name__ == "__main__":
    repo = sys.argv[2] if len(sys.argv) > 2 else "/repo"
    if len(sys.argv) > 1 and sys.argv[1] == "--write":
        BASELINE.write_text(json.dumps(fingerprints(repo), indent=0, sort_keys=True) + "\n")
        print("wrote", BASELINE, len(json.loads(BASELINE.read_text())), "definitions")
    else:
        for c in changed_definitions(repo):
            print(c)
