"""Which lines of /repo/asyncstdlib the correspondence cases of a check actually execute.

The Lean models are tied to the code by running both on the same cases.  That tie says nothing about code no case
executes, so every check measures it: `sys.monitoring` LINE events (Python 3.12; each location reports once and is then
disabled, so the cost is negligible) are collected in every worker while the real implementation runs, merged, and
compared with the executable lines of every function body of the files the property is anchored in.  The evidence lists
per definition which lines were never executed; the framework uses the same data to notice a *changed* definition (see
fingerprint.py) none of whose lines ran — a change the correspondence is blind to — and says so in the evidence.
Never an alarm by itself.
"""
import ast
import os
import sys
from pathlib import Path

_HITS = set()
_ON = False


def start(repo):
    """begin collecting (idempotent); returns False when monitoring is unavailable"""
    global _ON
    if _ON:
        return True
    mon = getattr(sys, "monitoring", None)
    if mon is None or os.environ.get("VERIF_NO_LINECOV"):
        return False
    prefix = str(Path(repo) / "asyncstdlib") + os.sep
    try:
        mon.use_tool_id(mon.COVERAGE_ID, "verif-linecov")
    except ValueError:
        return False

    def on_line(code, line):
        if code.co_filename.startswith(prefix):
            _HITS.add((code.co_filename[len(prefix):], line))
        return mon.DISABLE

    mon.register_callback(mon.COVERAGE_ID, mon.events.LINE, on_line)
    mon.set_events(mon.COVERAGE_ID, mon.events.LINE)
    _ON = True
    return True


def drain():
    """hits since the last drain, as a JSON-able list"""
    out = sorted(_HITS)
    _HITS.clear()
    return [[f, l] for f, l in out]


def _function_lines(code, acc):
    for const in code.co_consts:
        if hasattr(const, "co_code"):
            if const.co_flags & 0x1:  # CO_OPTIMIZED: a function / generator / coroutine / lambda / comprehension body
                first = const.co_firstlineno
                for _, _, line in const.co_lines():
                    if line is not None and line != first:
                        acc.add(line)
            _function_lines(const, acc)


def _owners(tree):
    """line -> qualified name of the innermost def/class"""
    owner = {}

    def visit(node, prefix):
        for child in ast.iter_child_nodes(node):
            if isinstance(child, (ast.FunctionDef, ast.AsyncFunctionDef, ast.ClassDef)):
                name = prefix + child.name
                for line in range(child.lineno, (child.end_lineno or child.lineno) + 1):
                    owner[line] = name
                visit(child, name + ".")
            else:
                visit(child, prefix)
    visit(tree, "")
    return owner


def executable(repo, files):
    """{file: {line: qualname}} for lines inside function bodies (def lines, docstrings and overload stubs excluded)"""
    out = {}
    for rel in files:
        path = Path(repo) / rel
        if not path.exists():
            continue
        src = path.read_text()
        try:
            tree = ast.parse(src)
            code = compile(src, str(path), "exec")
        except SyntaxError:
            continue
        lines = set()
        _function_lines(code, lines)
        # overload stubs and protocol bodies consist of `...` / docstrings only: not behaviour
        skip = set()
        for n in ast.walk(tree):
            if isinstance(n, (ast.FunctionDef, ast.AsyncFunctionDef)):
                body = [b for b in n.body if not (isinstance(b, ast.Expr) and isinstance(b.value, ast.Constant))]
                if not body or all(isinstance(b, ast.Pass) for b in body):
                    skip.update(range(n.lineno, (n.end_lineno or n.lineno) + 1))
                if n.body and isinstance(n.body[0], ast.Expr) and isinstance(n.body[0].value, ast.Constant) \
                        and isinstance(n.body[0].value.value, str):
                    skip.update(range(n.body[0].lineno, (n.body[0].end_lineno or n.body[0].lineno) + 1))
        owner = _owners(tree)
        out[rel] = {line: owner.get(line, "<module>") for line in sorted(lines - skip)}
    return out


def ranges(lines):
    """compact '3-7,9,12-14' form of a set of line numbers"""
    out, run = [], []
    for l in sorted(lines):
        if run and l == run[-1] + 1:
            run.append(l)
        else:
            if run:
                out.append(run)
            run = [l]
    if run:
        out.append(run)
    return ",".join(str(r[0]) if len(r) == 1 else "%d-%d" % (r[0], r[-1]) for r in out)


def parse_ranges(text):
    out = set()
    for part in text.split(","):
        if part:
            a, _, b = part.partition("-")
            out.update(range(int(a), int(b or a) + 1))
    return out


def report(repo, anchored_files, hits):
    """summary for the evidence: per file counts, and per definition the lines no case executed"""
    files = sorted(set(anchored_files))
    exe = executable(repo, files)
    hit = {}
    for f, l in hits:
        hit.setdefault("asyncstdlib/" + f, set()).add(l)
    summary, missing, touched = {}, {}, {}
    for rel, lines in exe.items():
        got = hit.get(rel, set())
        done = [l for l in lines if l in got]
        summary[rel] = {"function_lines": len(lines), "executed_by_cases": len(done)}
        for line, name in lines.items():
            key = rel + "::" + name
            if line in got:
                touched[key] = touched.get(key, 0) + 1
            else:
                missing.setdefault(key, []).append(line)
    executed = {rel: ranges(ls) for rel, ls in sorted(hit.items())}
    return {"per_file": summary, "definitions_executed": sorted(touched), "executed_lines_all_files": executed,
            "lines_never_executed": {k: v for k, v in sorted(missing.items())}}
