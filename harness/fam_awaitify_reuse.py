"""`_core.awaitify` wrappers across separate tool calls and across failures (family `awaitifyreuse`, used by C03): function
objects answering with plain values / awaitables / exceptions, wrapped several times (`awaitify(f)` once per tool call) and
called through the wrappers in any order.  The real wrappers are compared, call by call, with `Machines/AwaitifyReuse.lean`
(`C03_awaitify_wrapper_state_is_per_wrapper`, `C03_awaitify_matches_spec_when_flavour_is_stable`,
`C03_awaitify_fresh_wrapper_per_tool_call`, `C03_awaitify_raising_probe_leaves_wrapper_undecided`).  Oracle on the real
code: whenever every wrapper sees ONE flavour during its lifetime (raising calls anywhere; the flavour may change between
tool calls), every call returns / raises what awaiting-if-awaitable the function's own answer gives."""
import inspect

from framework import Issue
from world import asyncstdlib, drive  # noqa: F401 - asyncstdlib is imported through world (VERIF_REPO)

import importlib
_core = importlib.import_module("asyncstdlib._core")


class _E(Exception):
    pass


def _mk(script, coro):
    it = iter(script)

    async def _aw(v):
        return v

    async def _awr(e):
        raise _E(e)

    def f():
        k, x = next(it)
        if k == "plain":
            return x
        if k == "awaitable":
            return _aw(x)
        if k == "raises":
            raise _E(x)
        return _awr(x)

    async def af():
        k, x = next(it)
        if k in ("plain", "awaitable"):
            return x
        raise _E(x)
    return af if coro else f


def _state(w):
    if not isinstance(w, _core.Awaitify):
        return "function"
    decided = [getattr(w, n) for n in w.__slots__ if n not in ("__wrapped__",)] if hasattr(w, "__slots__") else []
    a = decided[0] if decided else getattr(w, "_async_call", None)
    return "undecided" if a is None else ("async" if a is w.__wrapped__ else "sync")


def _call(w):
    async def go():
        return await w()
    res = drive(go())
    if res.exc is None:
        r = res.value
        if inspect.isawaitable(r):
            r.close()
            return ["unawaited"]
        return ["ret", r]
    if isinstance(res.exc, _E):
        return ["raised", res.exc.args[0]]
    if isinstance(res.exc, TypeError):
        return ["typeerror"]
    return ["raised", "lib:" + type(res.exc).__name__]


def _spec(case):
    its = [iter(f["answers"]) for f in case["funcs"]]
    ws, outs = [], []
    for op, x in case["ops"]:
        if op == "wrap":
            ws.append(x)
            outs.append(["wrapper", len(ws) - 1])
        elif x >= len(ws):
            outs.append(["nosuchwrapper"])
        else:
            k, v = next(its[ws[x]])
            outs.append(["ret", v] if k in ("plain", "awaitable") else ["raised", v])
    return outs


def observe(case):
    fns = [_mk([tuple(a) for a in f["answers"]], f["coro"]) for f in case["funcs"]]
    ws, outs = [], []
    for op, x in case["ops"]:
        if op == "wrap":
            ws.append(_core.awaitify(fns[x]))
            outs.append(["wrapper", len(ws) - 1])
        elif x >= len(ws):
            outs.append(["nosuchwrapper"])
        else:
            outs.append(_call(ws[x]))
    try:
        states = [_state(w) for w in ws]
    except Exception:  # noqa: BLE001 - the wrapper's private representation is not part of any property
        states = None
    marked = [i for i, f in enumerate(fns) if any(hasattr(f, n) for n in ("_async_call", "__awaitify__", "_awaitify"))]
    return {"outs": outs, "states": states, "spec": _spec(case), "function_objects_marked": marked}


def model_request(case):
    return {"m": "awaitifyreuse", "funcs": case["funcs"], "ops": case["ops"]}


def judge(case, obs, model):
    issues = []
    if case["mode"] == "stable_per_wrapper" and obs["outs"] != obs["spec"]:
        issues.append(Issue("oracle", {"asyncstdlib": obs["outs"], "expected": obs["spec"]}, "awaitify-changes-result:reused-function"))
    if obs["function_objects_marked"]:
        issues.append(Issue("oracle", obs, "awaitify-marks-the-function-object"))
    if model is not None:
        if "error" in model:
            issues.append(Issue("A", model))
        elif model["outs"] != obs["outs"] or model["spec"] != obs["spec"]:
            issues.append(Issue("A", {"asyncstdlib": obs["outs"], "model": model["outs"]}))
        elif obs["states"] is not None and model["states"] != obs["states"]:
            issues.append(Issue("drift", {"asyncstdlib": obs["states"], "model": model["states"]}))
    return issues


def random_case(rng):
    nf = rng.randint(1, 3)
    nops = rng.randint(1, 14)
    mode = rng.choice(["any", "stable_per_wrapper", "stable_per_wrapper"])
    ops, nw = [], 0
    for _ in range(nops):
        if nw == 0 or rng.random() < 0.3:
            ops.append(["wrap", rng.randrange(nf)])
            nw += 1
        else:
            ops.append(["call", rng.randrange(nw + (1 if rng.random() < 0.05 else 0))])
    funcs = [{"coro": rng.random() < 0.25, "answers": []} for _ in range(nf)]
    wf, wfl = [], []
    for op, x in ops:
        if op == "wrap":
            wf.append(x)
            wfl.append(rng.choice(["plain", "awaitable"]))
        elif x < len(wf):
            if mode == "any":
                k = rng.choice(["plain", "awaitable", "raises", "awaitable_raises"])
            elif wfl[x] == "plain":
                k = rng.choice(["plain", "plain", "raises"])
            else:
                k = rng.choice(["awaitable", "awaitable_raises", "raises"])
            funcs[wf[x]]["answers"].append([k, rng.randrange(10)])
    return {"family": "awaitifyreuse", "tool": "awaitify", "funcs": funcs, "ops": ops, "mode": mode, "srcs": [], "fns": [], "params": {}}


def cases(rng, count):
    for _ in range(count):
        yield random_case(rng)


def features(case, obs):
    return ["awaitifyreuse:" + case["mode"]] + sorted({"awaitify-out:" + o[0] for o in obs["outs"]})


def nontrivial(case, obs):
    return any(o[0] != "wrapper" for o in obs["outs"])
