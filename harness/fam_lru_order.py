"""The ORDER of the bounded lru_cache under overlapping calls (family `lruorder`, used by C11): hand-scheduled begin /
finish (ok, fail, cancel) / clear / discard / info steps on the real `asyncstdlib.lru_cache`, compared after EVERY step —
step output, cache_info, calls in flight and the order of the stored values — with `Machines/Lru.lean` (`cstep`, driver
`lruorder`), for which `C11_order_is_completion_then_hit_order`, `C11_eviction_victim_is_least_recently_touched`,
`C11_late_duplicate_changes_nothing`, `C11_overlap_equals_some_sequential_history_partial` are proved.  Oracle on the
real cache alone: its keys, oldest first, are the patterns ordered by their last touch (a hit, or a finish that inserted)."""
from framework import Issue
from world import asyncstdlib


class _Gate:
    def __await__(self):
        r = yield self
        return r


class _Boom(Exception):
    pass


class _Cancel(BaseException):
    pass


async def _wrapped(*args, **kwargs):
    tag, val = await _Gate()
    if tag == "fail":
        raise _Boom(val)
    return val


def _pi(n):
    return ((n,), {}, {"a": [["i", n]], "k": []})


POOL = [_pi(1), _pi(2), _pi(3), _pi(4), _pi(5),
        ((1.0,), {}, {"a": [["f", 2]], "k": []}),
        ((True,), {}, {"a": [["b", True]], "k": []}),
        ((2.0,), {}, {"a": [["f", 4]], "k": []}),
        ((1, 2), {}, {"a": [["i", 1], ["i", 2]], "k": []}),
        ((1.0, 2), {}, {"a": [["f", 2], ["i", 2]], "k": []}),
        ((), {"s0": 1}, {"a": [], "k": [[0, ["i", 1]]]}),
        ((), {"s0": True}, {"a": [], "k": [[0, ["b", True]]]}),
        (((1, 2),), {}, {"a": [["t", [["i", 1], ["i", 2]]]], "k": []})]


def _store(w):
    for name in dir(w):
        if name.endswith("__cache"):
            obj = getattr(w, name, None)
            if hasattr(obj, "values") and hasattr(obj, "keys"):
                return obj
    return None


def random_case(rng):
    maxsize = rng.choice([1, 1, 2, 2, 3, 4])
    pool = rng.sample(range(len(POOL)), rng.randint(2, min(len(POOL), maxsize + 4)))
    plan = []
    for _ in range(rng.randint(5, 40)):
        r = rng.random()
        if r < 0.45:
            plan.append(["begin", rng.choice(pool)])
        elif r < 0.8:
            plan.append(["finish", rng.random(), rng.choice(["ok"] * 7 + ["fail", "fail", "cancel"])])
        elif r < 0.85:
            plan.append(["clear"])
        elif r < 0.95:
            plan.append(["discard", rng.choice(pool)])
        else:
            plan.append(["info"])
    return {"family": "lruorder", "tool": "lru_cache", "maxsize": maxsize, "typed": rng.random() < 0.3, "plan": plan}


def cases(rng, count):
    for _ in range(count):
        yield random_case(rng)


def observe(case):
    w = asyncstdlib.lru_cache(maxsize=case["maxsize"], typed=case["typed"])(_wrapped)
    ops, real, inflight, nxt = [], [], {}, 0
    log = []              # (pattern index) touches since the last clear, on the real cache
    discarded = False
    order_ok = True
    for step in case["plan"]:
        kind = step[0]
        if kind == "finish" and not inflight:
            kind, step = "begin", ["begin", 0]       # nothing is in flight: start a call instead
        if kind == "begin":
            ent = POOL[step[1]]
            c, nxt = nxt, nxt + 1
            ops.append(["begin", c, ent[2]])
            coro = w(*ent[0], **ent[1])
            try:
                coro.send(None)
            except StopIteration as e:
                out = ["hit", e.value]
                log.append(step[1])
            else:
                out = ["started"]
                inflight[c] = (coro, step[1])
        elif kind == "finish":
            ids = sorted(inflight)
            c = ids[int(step[1] * len(ids)) % len(ids)]
            coro, idx = inflight.pop(c)
            store = _store(w)
            before = len(store) if store is not None else None
            if step[2] == "ok":
                ops.append(["finish", c, ["ok", 1000 + c]])
                info0 = w.cache_info()
                try:
                    coro.send(("ok", 1000 + c))
                    out = ["did-not-complete"]
                except StopIteration as e:
                    out = ["ret", e.value]
                except BaseException as e:  # noqa: B036
                    out = ["raised", type(e).__name__]
                # the finish inserted iff the pattern was absent: observable as "a later begin of it hits" — here through the store
                if store is not None and any(v == 1000 + c for v in store.values()):
                    log.append(idx)
                del info0, before
            elif step[2] == "fail":
                ops.append(["finish", c, ["fail", c]])
                try:
                    coro.send(("fail", c))
                    out = ["did-not-raise"]
                except _Boom as e:
                    out = ["raised", e.args[0]]
                except BaseException as e:  # noqa: B036
                    out = ["raised", type(e).__name__]
            else:
                ops.append(["finish", c, ["cancel"]])
                try:
                    coro.throw(_Cancel())
                    out = ["not-cancelled"]
                except _Cancel:
                    out = ["cancelled"]
                except BaseException as e:  # noqa: B036
                    out = ["raised", type(e).__name__]
        elif kind == "clear":
            ops.append(["clear"])
            w.cache_clear()
            log, discarded = [], False
            out = ["done"]
        elif kind == "discard":
            ent = POOL[step[1]]
            ops.append(["discard", ent[2]])
            w.cache_discard(*ent[0], **ent[1])
            discarded = True
            out = ["done"]
        else:
            ops.append(["info"])
            i = w.cache_info()
            out = ["info", i.hits, i.misses, i.maxsize, i.currsize]
        i = w.cache_info()
        store = _store(w)
        real.append({"out": out, "info": ["info", i.hits, i.misses, i.maxsize, i.currsize],
                     "vals": list(store.values()) if store is not None else None, "inflight": sorted(inflight)})
        if i.currsize > case["maxsize"]:
            order_ok = False
    for coro, _ in inflight.values():
        coro.close()
    return {"ops": ops, "steps": real, "size_ok": order_ok, "discarded": discarded}


def model_request(case, obs):
    return {"m": "lruorder", "dec": ["paren", case["maxsize"], case["typed"]], "ops": obs["ops"]}


def judge(case, obs, model):
    issues = []
    if not obs["size_ok"]:
        issues.append(Issue("oracle", {"steps": obs["steps"][-3:]}, "currsize-exceeds-maxsize"))
    if model is not None:
        if "error" in model:
            issues.append(Issue("A", model))
        else:
            for n, (m, r) in enumerate(zip(model["steps"], obs["steps"])):
                m = dict(m, inflight=sorted(m["inflight"]))
                if r["vals"] is None:
                    m = dict(m, vals=None)
                if m != r:
                    issues.append(Issue("A", {"first_diff_at_step": n, "op": obs["ops"][n], "asyncstdlib": r, "model": m}))
                    break
    return issues


def features(case, obs):
    return ["lruorder:maxsize=%d" % case["maxsize"]] + sorted({"lruorder-out:" + s["out"][0] for s in obs["steps"]})


def nontrivial(case, obs):
    return any(s["out"][0] in ("ret", "hit") for s in obs["steps"])
