"""C10 — lru_cache equals functools.lru_cache over every sequential call history."""
import functools
import itertools

from framework import Issue
from world import Susp, UserExc, drive, exc_name, asyncstdlib

RULE = (
    "a case = decorator form (bare / lru_cache() / positional / keyword / cache) x maxsize (None, negative, 0, 1..5, 128) x typed "
    "x kind (function, method, classmethod, staticmethod) x a history of ops over {call pattern -> ok v | fails, cache_clear, "
    "cache_discard pattern, cache_info, cache_parameters}; patterns mix int/float/bool/str/None/tuple atoms, positional vs "
    "keyword, keyword order. Exhaustive part: all ordered pairs of patterns of the pattern universe x typed (key equivalence), "
    "all histories of length <= L over 3 keys x {ok, fail, discard, clear} x maxsize {1,2,3} with cache_info after every op; then "
    "seeded random histories. Every case runs the real asyncstdlib cache (hand-driven) and the real functools.lru_cache around the "
    "equivalent plain function; cache_discard (absent from functools) is checked by probing replays of the real cache, and what "
    "follows a discard is compared with functools' pure-Python algorithm plus 'remove exactly that entry' (itself compared "
    "with the real functools on every case up to that point). "
    "non-trivial = at least one hit and one miss; distinct by case content"
)
EXHAUSTIVE = {"quick": True, "thorough": True}
SCOPE = {"quick": "all ordered pattern pairs (48 patterns) x typed; all histories of length <=4 over 7 symbols x maxsize 1..3",
         "thorough": "all ordered pattern pairs (48 patterns) x typed; all histories of length <=5 over 7 symbols x maxsize 1..3"}
TRUSTED = [
    "Machines/Lru.lean Spec.* and ftKey are hand-written from CPython 3.12 Modules/_functoolsmodule.c (lru_cache_make_key, "
    "uncached/infinite/bounded_lru_cache_wrapper) and Lib/functools.py; tied to the real functools.lru_cache only by the sampled edge B",
    "dict / OrderedDict are modelled as an association list oldest-first; a key is modelled by its equality class (Key.norm)",
]
ASSUMPTIONS = [
    "arguments are hashable (unhashable ones are compared against functools directly, without the model), == is an "
    "equivalence consistent with hash (no NaN)",
    "the wrapped function does not call the cache itself",
    "classmethod support relies on classmethod chaining descriptors (Python 3.9..3.12; the harness runs 3.12)",
    "functools has no cache_discard: after a discard of a pattern that functools holds, the functools reference stops and "
    "the discard is judged by probing the real cache (every pattern of the case: cached before/after) and by the Lean model",
]

STRS = ["self", "func", "typed", "args"]   # code space shared by str atoms and keyword names: names a wrapper is likely to use itself


# ---------------------------------------------------------------------------------------------
# patterns


def _prim(a):
    t = a[0]
    if t == "i":
        return int(a[1])
    if t == "f":
        return a[1] / 2.0
    if t == "b":
        return bool(a[1])
    if t == "s":
        return STRS[a[1]]
    if t == "n":
        return None
    if t == "l":                 # an unhashable argument (oracle-only cases, not modelled)
        return [1]
    raise ValueError(a)


def _arg(a):
    if a[0] == "t":
        return tuple(_prim(x) for x in a[1])
    return _prim(a)


def py_args(pat):
    return tuple(_arg(a) for a in pat["a"]), {STRS[n]: _arg(a) for n, a in pat["k"]}


_KWCODE = {"a": 0, "b": 1, "c": 2, "x": 3}     # the patterns below are written with short names; the real keyword is STRS[code]


def P(*args, **kw):
    return {"a": list(args), "k": [[_KWCODE[n], a] for n, a in kw.items()]}


I0, I1, I2 = ["i", 0], ["i", 1], ["i", 2]
F0, F1, FH, F2 = ["f", 0], ["f", 2], ["f", 1], ["f", 4]
BT, BF = ["b", True], ["b", False]
SA, SB = ["s", 0], ["s", 1]
NO = ["n"]
T1, T1F, T12, T0, TA = ["t", [I1]], ["t", [F1]], ["t", [I1, I2]], ["t", []], ["t", [SA]]
ATOMS = [I0, I1, I2, F0, F1, FH, F2, BT, BF, SA, SB, NO, T1, T1F, T12, T0, TA]

UNIVERSE = (
    [P()] + [P(a) for a in ATOMS]
    + [P(I1, I2), P(F1, I2), P(BT, F2), P(I1, SA), P(SA, I1), P(T1, I1), P(I1, I1), P(NO, NO)]
    + [P(a=I1), P(a=F1), P(a=BT), P(a=SA), P(b=I1), P(a=T1), P(a=T1F), P(a=NO)]
    + [P(a=I1, b=I2), P(b=I2, a=I1), P(a=F1, b=F2), P(I1, a=I2), P(F1, a=I2), P(I1, b=I2), P(SA, I1, a=NO)]
    + [P(I1, I2, I0), P(SA, a=SA), P(T12), P(I1, T1), P(F1, T1F), P(a=I1, b=I2, c=I0), P(a=I1, c=I0, b=I2)]
)


# ---------------------------------------------------------------------------------------------
# functools.lru_cache plus cache_discard: the pure-Python algorithm of Lib/functools.py over an ordered dict, keyed by
# CPython's own functools._make_key.  It is compared with the real functools.lru_cache on every case up to the
# first discard of a held entry (edge B'), and is the reference for what follows that discard: "exactly that entry
# removed", everything else as functools.

import collections


class _RefMod:
    """stands in for the `functools` module: lru_cache / cache with the same decorator forms"""

    @staticmethod
    def cache(fn):
        return _RefMod.lru_cache(maxsize=None)(fn)

    @staticmethod
    def lru_cache(maxsize=128, typed=False):
        if isinstance(maxsize, int):
            if maxsize < 0:
                maxsize = 0
        elif callable(maxsize) and isinstance(typed, bool):
            return _ref_wrap(maxsize, 128, False)
        elif maxsize is not None:
            raise TypeError("Expected first argument to be an integer, a callable, or None")
        return lambda fn: _ref_wrap(fn, maxsize, typed)


def _ref_wrap(fn, maxsize, typed):
    store = collections.OrderedDict()    # oldest first
    stat = {"hits": 0, "misses": 0}

    def wrapper(*args, **kwds):
        if maxsize == 0:
            stat["misses"] += 1
            return fn(*args, **kwds)
        key = functools._make_key(args, kwds, typed)
        if key in store:
            stat["hits"] += 1
            store.move_to_end(key)
            return store[key]
        stat["misses"] += 1
        result = fn(*args, **kwds)
        if key not in store:
            store[key] = result
            if maxsize is not None and len(store) > maxsize:
                store.popitem(last=False)
        return result

    def cache_info():
        return functools._CacheInfo(stat["hits"], stat["misses"], maxsize, len(store))

    def cache_clear():
        store.clear()
        stat["hits"] = stat["misses"] = 0

    def cache_discard(*args, **kwds):
        store.pop(functools._make_key(args, kwds, typed), None)

    wrapper.cache_info, wrapper.cache_clear, wrapper.cache_discard = cache_info, cache_clear, cache_discard
    wrapper.cache_parameters = lambda: {"maxsize": maxsize, "typed": typed}
    return wrapper


# ---------------------------------------------------------------------------------------------
# the real caches


class _Real:
    """the real cache (lib 'a' = asyncstdlib, 'f' = functools) around an instrumented function"""

    def __init__(self, case, lib):
        self.case, self.lib, self.kind = case, lib, case["kind"]
        self.log = []
        self.ctl = {"res": None, "susp": 0}
        log, ctl = self.log, self.ctl
        if lib == "a":
            async def fn(*args, **kw):
                log.append((args, kw))
                for j in range(ctl["susp"]):
                    await Susp(["w", j])
                r = ctl["res"]
                if r[0] == "fail":
                    raise UserExc(r[1])
                return None if case.get("none_results") and r[1] % 2 == 0 else r[1]
            mod = asyncstdlib
        else:
            def fn(*args, **kw):
                log.append((args, kw))
                r = ctl["res"]
                if r[0] == "fail":
                    raise UserExc(r[1])
                return None if case.get("none_results") and r[1] % 2 == 0 else r[1]    # a function may well return None
            mod = functools if lib == "f" else _RefMod
        dec, form = case["dec"], case["form"]
        if form == "bare":
            cached = mod.lru_cache(fn)
        elif form == "empty":
            cached = mod.lru_cache()(fn)
        elif form == "cache":
            cached = mod.cache(fn)
        elif form == "pos":
            cached = mod.lru_cache(dec[1], dec[2])(fn)
        elif form == "kwm":
            cached = mod.lru_cache(maxsize=dec[1])(fn)
        else:
            cached = mod.lru_cache(maxsize=dec[1], typed=dec[2])(fn)
        self.cached = cached
        self.n = 0
        if self.kind != "func":
            wrapped = {"method": cached, "classmethod": classmethod(cached), "staticmethod": staticmethod(cached)}[self.kind]
            # receivers are FALSY (an empty container-like instance; a class whose metaclass defines __bool__): binding must
            # test `instance is None`, not truthiness
            Meta = type("Meta", (type,), {"__bool__": lambda cls: False})
            C = Meta("C", (), {"m": wrapped, "__len__": lambda self: 0})
            D = type("D", (C,), {})
            E = type("E", (C,), {})
            self.classes = [C, D, E]
            self.insts = [C(), C(), D()]

    def selfobj(self, i):
        return self.insts[i] if self.kind == "method" else self.classes[i]

    def handle(self, i=None):
        """the attribute through which user code reaches the cache"""
        self.n += 1
        self.last_self = None
        if self.kind == "func":
            return self.cached
        if self.kind == "method":
            self.last_self = self.insts[i if i is not None else self.n % 3]
            return self.last_self.m
        if self.kind == "classmethod":
            self.last_self = self.classes[self.n % 3 if i is None else i]
            if i is None:
                return self.classes[self.n % 3].m
            return self.classes[i].m if self.n % 2 else self.classes[i]().m
        return self.classes[self.n % 3].m if self.n % 2 else self.insts[self.n % 3].m

    def do(self, op):
        tag = op[0]
        if tag in ("call", "mcall"):
            inst, pat, res = (op[1], op[2], op[3]) if tag == "mcall" else (None, op[1], op[2])
            args, kw = py_args(pat)
            self.ctl["res"], self.ctl["susp"] = res, self.case.get("susp", 0)
            before = len(self.log)
            h = self.handle(inst)
            if self.lib == "a":
                try:
                    coro = h(*args, **kw)
                except BaseException as e:  # noqa: B036 - the call itself is rejected (e.g. a keyword the wrapper claims)
                    value, exc = None, e
                else:
                    r = drive(coro)
                    value, exc = r.value, r.exc
            else:
                try:
                    value, exc = h(*args, **kw), None
                except BaseException as e:  # noqa: B036
                    value, exc = None, e
            invoked = len(self.log) > before
            if invoked:
                gargs, gkw = self.log[-1]
                want = ((self.selfobj(inst),) if inst is not None else ()) + args
                ok = len(gargs) == len(want) and all(
                    (g is w) if i == 0 and inst is not None else (type(g) is type(w) and g == w)
                    for i, (g, w) in enumerate(zip(gargs, want))) and list(gkw.items()) == list(kw.items()) and all(
                    type(gkw[k]) is type(kw[k]) for k in kw)
                if not ok or len(self.log) != before + 1:
                    return ["badargs", repr(gargs), repr(gkw)]
            if exc is not None:
                if isinstance(exc, UserExc) and invoked:
                    return ["raised", exc.eid]
                return ["exc", exc_name(exc), invoked]
            return ["ret", value, invoked]
        if tag == "clear":
            r = self.handle().cache_clear()
            return ["done"] if r is None else ["exc", "returned", repr(r)]
        if tag in ("discard", "mdiscard"):
            inst, pat = (op[1], op[2]) if tag == "mdiscard" else (None, op[1])
            args, kw = py_args(pat)
            if self.lib == "f":      # only replayed while functools does not hold the pattern: a no-op
                return ["done"]
            if self.lib == "r":      # a plain function is its own handle: the bound object is passed explicitly
                self.handle(inst)
                pre = () if self.last_self is None else (self.last_self,)
                self.cached.cache_discard(*pre, *args, **kw)
                return ["done"]
            try:
                r = self.handle(inst).cache_discard(*args, **kw)
            except Exception as e:
                return ["exc", "discard-raised", type(e).__name__]
            return ["done"] if r is None else ["exc", "returned", repr(r)]
        if tag == "info":
            i = self.handle().cache_info()
            if type(i).__name__ != "CacheInfo" or tuple(i) != (i.hits, i.misses, i.maxsize, i.currsize):
                return ["exc", "cacheinfo-shape"]
            return ["info", i.hits, i.misses, i.maxsize, i.currsize]
        if tag == "params":
            p = self.handle().cache_parameters()
            if sorted(p) != ["maxsize", "typed"]:
                return ["exc", "params-shape"]
            return ["params", p["maxsize"], p["typed"]]
        raise ValueError(op)


def _replay(case, lib, upto):
    r = _Real(case, lib)
    for op in case["ops"][:upto]:
        r.do(op)
    return r


def _bound_pattern(op):
    """(inst, pattern) of a call / discard op"""
    if op[0] in ("mcall", "mdiscard"):
        return op[1], op[2]
    return None, op[1]


def _is_cached(case, lib, upto, inst, pat):
    """replay the first `upto` ops on a fresh real cache, then call the pattern: cached iff the wrapped function is not invoked"""
    r = _replay(case, lib, upto)
    out = r.do(["mcall", inst, pat, ["ok", 987654]] if inst is not None else ["call", pat, ["ok", 987654]])
    return out[0] == "ret" and out[2] is False


def _same_key(case, a, b):
    """do two (inst, pattern) denote the same call pattern — decided by CPython's own key construction"""
    typed = case["dec"][2] if case["dec"] != "bare" else False
    (ia, pa), (ib, pb) = a, b
    aa, ka = py_args(pa)
    ab, kb = py_args(pb)
    marker = object()   # stands for the instance: identity
    if (ia is None) != (ib is None):
        return False
    if ia is not None:
        if ia != ib:
            return False
        aa, ab = (marker,) + aa, (marker,) + ab
    return functools._make_key(aa, ka, typed) == functools._make_key(ab, kb, typed)


def observe(case):
    ops = case["ops"]
    impl = _Real(case, "a")
    std = _Real(case, "f")
    ref = _Real(case, "r")
    oref = [ref.do(op) for op in ops]
    oi, os_, std_alive = [], [], True
    probes = []
    universe = []
    for op in ops:
        if op[0] in ("call", "mcall", "discard", "mdiscard"):
            bp = _bound_pattern(op)
            if bp not in universe:
                universe.append(bp)
    for idx, op in enumerate(ops):
        if op[0] in ("discard", "mdiscard"):
            inst, pat = _bound_pattern(op)
            # reference: functools cannot discard; it stays a valid reference iff it does not hold the pattern
            if std_alive and _is_cached(case, "f", idx, inst, pat):
                std_alive = False
            before_info = impl.do(["info"])
            oi.append(impl.do(op))
            after_info = impl.do(["info"])
            if len(probes) < 4:
                pre = [_is_cached(case, "a", idx, i, p) for i, p in universe]
                post = [_is_cached(case, "a", idx + 1, i, p) for i, p in universe]
                same = [_same_key(case, (inst, pat), u) for u in universe]
                probes.append({"at": idx, "pre": pre, "post": post, "same": same,
                               "info_before": before_info, "info_after": after_info})
            os_.append(["done"] if std_alive else None)
            continue
        oi.append(impl.do(op))
        os_.append(std.do(op) if std_alive else None)
    return {"impl": oi, "std": os_, "ref": oref, "probes": probes}


def model_request(case):
    if case.get("unmodelled"):
        return None
    return {"m": "lru", "mode": "seq", "dec": case["dec"], "ops": case["ops"]}


def _first_diff(a, b):
    return next((i for i, (x, y) in enumerate(zip(a, b)) if y is not None and x != y), None)


def judge(case, obs, model):
    issues = []
    impl, std = obs["impl"], obs["std"]
    bad = next((i for i, o in enumerate(impl) if o[0] in ("badargs", "exc")), None)
    if bad is not None and (std[bad] is None or std[bad] != impl[bad]):
        issues.append(Issue("oracle", {"op": case["ops"][bad], "impl": impl[bad], "functools": std[bad]},
                            "unexpected-" + impl[bad][0]))
    d = _first_diff(impl, std)
    if d is not None and not issues:
        kind = case["ops"][d][0]
        what = impl[d][0] + "-vs-" + std[d][0]
        issues.append(Issue("oracle", {"first_diff_at_op": d, "op": case["ops"][d], "impl": impl[d], "functools": std[d],
                                       "impl_all": impl, "functools_all": std},
                            "differs-from-functools:%s:%s" % (kind, what)))
    ref = obs["ref"]
    kb = _first_diff(ref, std)
    if kb is not None:
        # the harness's own reference disagrees with the real functools where functools is defined: machinery error
        issues.append(Issue("B", {"first_diff_at_op": kb, "functools": std, "python_reference": ref}))
    elif not issues and any(x is None for x in std):
        d = next((i for i, (x, y, z) in enumerate(zip(impl, ref, std)) if z is None and x != y), None)
        if d is not None:
            issues.append(Issue("oracle", {"first_diff_at_op": d, "op": case["ops"][d], "impl": impl[d],
                                           "functools_with_the_entry_removed": ref[d], "impl_all": impl, "reference_all": ref},
                                "differs-from-functools-after-discard:%s:%s-vs-%s" % (case["ops"][d][0], impl[d][0], ref[d][0])))
    for pr in obs["probes"]:
        exp_post = [c and not s for c, s in zip(pr["pre"], pr["same"])]
        hit = any(c and s for c, s in zip(pr["pre"], pr["same"]))
        ib, ia = pr["info_before"], pr["info_after"]
        disabled = ib[0] == "info" and ib[3] == 0
        ok_info = ib[0] == "info" and ia[0] == "info" and ia[1:4] == ib[1:4] and ia[4] == ib[4] - (1 if hit and not disabled else 0)
        if pr["post"] != exp_post or not ok_info:
            issues.append(Issue("oracle", {"discard_at_op": pr["at"], "cached_before": pr["pre"], "cached_after": pr["post"],
                                           "same_pattern": pr["same"], "info_before": ib, "info_after": ia},
                                "discard-not-exact"))
            break
    if model is not None:
        if "error" in model:
            issues.append(Issue("A", model))
        else:
            if model["impl"] != impl:
                k = next((i for i, (x, y) in enumerate(zip(model["impl"], impl)) if x != y), None)
                issues.append(Issue("A", {"first_diff_at_op": k, "impl": impl, "model": model["impl"]}))
            k = _first_diff(model["spec"], std)
            if k is not None:
                issues.append(Issue("B", {"first_diff_at_op": k, "functools": std, "spec": model["spec"]}))
            if model["impl"] != model["spec"]:
                issues.append(Issue("MS", model))
    return issues


def _mclass(dec):
    if dec == "bare":
        return "bare128"
    m = dec[1]
    if m is None:
        return "None"
    if m < 0:
        return "neg"
    if m == 0:
        return "0"
    return "1-5" if m <= 5 else "big"


def features(case, obs):
    f = ["kind=" + case["kind"], "form=" + case["form"], "maxsize=" + _mclass(case["dec"]),
         "typed=%s" % (case["dec"][2] if case["dec"] != "bare" else False),
         "ops=%d" % (10 * (len(case["ops"]) // 10))]
    tags = {op[0] for op in case["ops"]}
    for t in sorted(tags):
        f.append("op=" + t)
    if any(o[0] == "raised" for o in obs["impl"]):
        f.append("failing-call")
    if any(s is None for s in obs["std"]):
        f.append("functools-reference-stopped-at-discard")
    if obs["probes"]:
        f.append("discard-probed")
    infos = [o for o in obs["impl"] if o[0] == "info"]
    if any(o[3] is not None and o[3] > 0 and o[4] == o[3] for o in infos):
        f.append("cache-full")
    return f


def nontrivial(case, obs):
    rets = [o for o in obs["impl"] if o[0] == "ret"]
    return any(o[2] for o in rets) and any(not o[2] for o in rets)


# ---------------------------------------------------------------------------------------------
# case generation


def _with_infos(ops):
    out = []
    for op in ops:
        out.append(op)
        out.append(["info"])
    return out


def _mk(dec, form, kind, ops, susp=0):
    if kind in ("method", "classmethod"):
        # ops given with explicit instances
        pass
    return {"dec": dec, "form": form, "kind": kind, "ops": ops, "susp": susp}


def _pair_cases():
    for typed in (False, True):
        for p in UNIVERSE:
            for q in UNIVERSE:
                yield _mk(["paren", None, typed], "kw", "func",
                          [["call", p, ["ok", 1]], ["call", q, ["ok", 2]], ["info"]])


KEYS3 = [P(I1), P(I2), P(a=I1)]


def _symbols():
    syms = [["call", k, None] for k in KEYS3]
    syms.append(["call", KEYS3[0], "fail"])
    syms += [["discard", KEYS3[0]], ["discard", KEYS3[1]], ["clear"]]
    return syms


def _history_cases(L):
    syms = _symbols()
    for m in (1, 2, 3):
        for n in range(1, L + 1):
            for seq in itertools.product(range(len(syms)), repeat=n):
                ops, v = [], 10
                for s in seq:
                    op = syms[s]
                    if op[0] == "call":
                        v += 1
                        ops.append(["call", op[1], ["fail", v] if op[2] == "fail" else ["ok", v]])
                    else:
                        ops.append(op)
                yield _mk(["paren", m, False], "kw", "func", _with_infos(ops))


def _decorator_cases():
    """every decorator form x maxsize x typed x kind on a fixed history that exercises hit, miss, eviction, failure"""
    base = [P(I1), P(F1), P(BT), P(I1, I2), P(F1, I2), P(a=I1), P(SA), P(I1), P(I2), P(T1), P(NO), P(I0), P(I1)]
    forms = [("bare", "bare")] + [("empty", ["paren", 128, False])] + [("cache", ["paren", None, False])]
    for m in (None, -2, 0, 1, 2, 3, 4, 5):
        for typed in (False, True):
            forms.append(("kw", ["paren", m, typed]))
            forms.append(("pos", ["paren", m, typed]))
        forms.append(("kwm", ["paren", m, False]))
    for form, dec in forms:
        for kind in ("func", "method", "classmethod", "staticmethod"):
            ops, v = [], 20
            for i, p in enumerate(base):
                v += 1
                res = ["fail", v] if i in (2, 9) else ["ok", v]
                if kind in ("method", "classmethod"):
                    ops.append(["mcall", i % 2, p, res])
                else:
                    ops.append(["call", p, res])
                if i == 6:
                    ops.append(["mdiscard", 0, P(I1)] if kind in ("method", "classmethod") else ["discard", P(I1)])
                if i == 10:
                    ops.append(["params"])
            yield _mk(dec, form, kind, _with_infos(ops) + [["clear"], ["info"]], susp=(1 if kind == "func" else 0))


def _unhashable_cases():
    """an unhashable argument: TypeError before the wrapped function runs and before any counter moves — exactly as
    functools (oracle only: the Lean model has hashable atoms only)"""
    L = ["l"]
    for m in (None, 0, 2):
        for typed in (False, True):
            for kind in ("func", "method"):
                pats = [P(I1), P(L), P(I1, L), P(a=L), P(I1)]
                ops = []
                for i, p in enumerate(pats):
                    ops.append(["mcall", 0, p, ["ok", 40 + i]] if kind == "method" else ["call", p, ["ok", 40 + i]])
                    ops.append(["info"])
                c = _mk(["paren", m, typed], "kw", kind, ops)
                c["unmodelled"] = "unhashable argument"
                yield c


def _rand_pattern(rng, pool):
    return rng.choice(pool)


def random_case(rng, maxops):
    kind = rng.choice(["func", "func", "method", "classmethod", "staticmethod"])
    r = rng.random()
    if r < 0.08:
        form, dec = "bare", "bare"
    elif r < 0.12:
        form, dec = "empty", ["paren", 128, False]
    elif r < 0.16:
        form, dec = "cache", ["paren", None, False]
    else:
        m = rng.choice([None, -1, 0, 1, 1, 2, 2, 3, 3, 4, 5])
        typed = rng.random() < 0.4
        form = rng.choice(["kw", "pos"])
        dec = ["paren", m, typed]
    # a pool with many near-collisions: equal-but-differently-typed atoms, keyword order, …
    pool = rng.sample(UNIVERSE, rng.randint(2, 7))
    if rng.random() < 0.5:
        pool += [P(I1), P(F1), P(BT), P(I1, I1), P(F1, BT)][: rng.randint(1, 5)]
    ops, v = [], 30
    n = rng.randint(1, maxops)
    bound = kind in ("method", "classmethod")
    for _ in range(n):
        x = rng.random()
        inst = rng.randrange(2) if rng.random() < 0.8 else 2
        if x < 0.62:
            v += 1
            res = ["fail", v] if rng.random() < 0.12 else ["ok", v]
            p = _rand_pattern(rng, pool)
            ops.append(["mcall", inst, p, res] if bound else ["call", p, res])
        elif x < 0.74:
            p = _rand_pattern(rng, pool)
            ops.append(["mdiscard", inst, p] if bound else ["discard", p])
        elif x < 0.79:
            ops.append(["clear"])
        elif x < 0.97:
            ops.append(["info"])
        else:
            ops.append(["params"])
    ops.append(["info"])
    return _mk(dec, form, kind, ops, susp=rng.choice([0, 0, 1, 2]))


def cases(tier, rng):
    yield from _pair_cases()
    yield from _decorator_cases()
    yield from _unhashable_cases()
    yield from _history_cases(4 if tier == "quick" else 5)
    # wrapped functions that return None for some calls (a result like any other); compared with functools alone
    for _ in range(600 if tier == "quick" else 6000):
        yield dict(random_case(rng, 12), none_results=True, unmodelled=True)
    # a positional tuple that LOOKS like a flattened keyword item must not collide with the keyword call
    for typed in (False, True):
        for dec in (["paren", 4, typed], ["paren", None, typed]):
            for a, b in ((P(I1, NO, ["t", [SA, I2]]), P(I1, a=I2)), (P(NO, ["t", [SA, I1]]), P(a=I1)), (P(I1, ["t", [SA, I2]]), P(I1, a=I2))):
                for x, y in ((a, b), (b, a)):
                    yield {"kind": "func", "dec": dec, "form": "paren", "ops": [["call", x, ["ok", 1]], ["call", y, ["ok", 2]], ["call", x, ["ok", 3]], ["info"]],
                           "unmodelled": True}
    nr, maxops = (8000, 12) if tier == "quick" else (60000, 40)
    for _ in range(nr):
        yield random_case(rng, maxops)


def search_cases(broken, rng):
    for case in broken:
        for cut in range(1, len(case["ops"]) + 1):
            yield dict(case, ops=case["ops"][:cut] + [["info"]])
        if case["kind"] in ("func", "staticmethod"):
            for kind in ("func", "staticmethod"):
                yield dict(case, kind=kind)
    yield from _pair_cases()
    yield from _decorator_cases()
    yield from _history_cases(4)
    for _ in range(3000):
        yield random_case(rng, 14)
