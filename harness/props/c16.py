"""C16 — groupby matches itertools.groupby under every pattern of consuming groups."""
import itertools

from framework import Issue
from world import Item, UserExc, drive, exc_name, make_source, asyncstdlib

RULE = (
    "item sequences of length 0..L over K distinct keys x operation sequences over {advance groupby, advance group i, close group i} "
    "(exhaustive for small L and op count, then seeded random up to length 10 / 15 ops); key absent / sync / async; "
    "source kinds list / one-shot iterator / async generator / class-based async iterator. "
    "non-trivial = at least one key and one item delivered; distinct by case content"
)
EXHAUSTIVE = {"quick": True, "thorough": True}
SCOPE = {"quick": "all items over 2 keys of length <=4 x all valid op sequences of length <=6 with handles <=3",
         "thorough": "all items over 2 keys of length <=5 x all valid op sequences of length <=7 with handles <=3"}
ASSUMPTIONS = ["keys are small integers or the odd values None / 0 / False / () / '' (reflexive ==); key function and source do not fail (faults are C06's subject)"]


def _items(case):
    if case["key"] == "none":
        return [k * 1000 + i for i, k in enumerate(case["keys"])]  # plain ints would merge equal keys; see keyf
    return [Item(i, k) for i, k in enumerate(case["keys"])]


# "odd" key values: what a key function may legitimately return and a careless `if key:` / `is None` mistakes for
# "no key yet".  Each list is injective under ==, so key index <-> value is a bijection and the model (integer keys)
# still applies.  With key == "none" the items themselves are these raw values (no model: items have no identity).
KVALS = [[None, 0], [0, None], [None, ()], ["", None], [False, None], [None, 1, 0, ""], [(), 0, None, ""]]


def _kv(case):
    kv = case.get("kvals")
    return None if kv is None else [tuple(v) if isinstance(v, list) else v for v in kv]


def _key_index(kv, k):
    for i, v in enumerate(kv):
        if type(v) is type(k) and v == k:
            return i
    return "?%r" % (k,)


def _setup(case):
    """(items, sync key function or None, key -> reported key, item -> reported item)"""
    kv = _kv(case)
    keys = case["keys"]
    if kv is None:
        items = [Item(i, k) for i, k in enumerate(keys)]
        keyf = None if case["key"] == "none" else (lambda it: it.key)
        return items, keyf, (lambda k: k.key if isinstance(k, Item) else k), (lambda it: it.id)
    if case["key"] == "none":
        items = [kv[k] for k in keys]
        return items, None, (lambda k: _key_index(kv, k)), (lambda it: _key_index(kv, it))
    items = [Item(i, k) for i, k in enumerate(keys)]
    return items, (lambda it: kv[it.key]), (lambda k: _key_index(kv, k)), (lambda it: it.id)


def _failing(skey, case):
    """the key function, failing at the given invocations (`keyfail`): the consumer catches the error and carries on"""
    fails = set(case.get("keyfail") or [])
    if not fails or skey is None:
        return skey
    n = [0]

    def key(it):
        k = n[0]
        n[0] += 1
        if k in fails:
            raise UserExc(60 + k)
        return skey(it)
    return key


def _ops_async(case):
    log = []
    items, skey, key_out, item_out = _setup(case)
    skey = _failing(skey, case)
    if skey is None or case["key"] == "sync":
        keyf = skey
    elif case["key"] == "asyncobj":
        class KeyObj:                     # an object whose `__call__` is `async def`: not a coroutine FUNCTION
            async def __call__(self, it):
                return skey(it)
        keyf = KeyObj()
    elif case["key"] == "lambda":
        async def _k(it):
            return skey(it)
        keyf = lambda it: _k(it)          # noqa: E731 - a plain callable returning a coroutine
    else:
        async def keyf(it):
            return skey(it)
    src, st = make_source(case["src"] if case["src"] != "list" else "iter", [("item", it) for it in items], "s0", log)
    gb = asyncstdlib.groupby(src) if keyf is None else asyncstdlib.groupby(src, keyf)
    groups, outs = [], []
    consumed = []
    for op in case["ops"]:
        consumed.append(None)
        if op[0] == "adv":
            res = drive(gb.__anext__())
            if isinstance(res.exc, StopAsyncIteration):
                outs.append(["stop"])
            elif res.exc is not None:
                outs.append(["exc", exc_name(res.exc)])
            else:
                k, g = res.value
                outs.append(["key", key_out(k), len(groups)])
                groups.append(g)
        elif op[0] == "cls":
            if op[1] >= len(groups):
                outs.append(["nogroup"])
                continue
            res = drive(groups[op[1]].aclose())
            outs.append(["closed"] if res.exc is None else ["exc", exc_name(res.exc)])
        else:
            if op[1] >= len(groups):
                outs.append(["nogroup"])
                continue
            res = drive(groups[op[1]].__anext__())
            if isinstance(res.exc, StopAsyncIteration):
                outs.append(["stop"])
            elif res.exc is not None:
                outs.append(["exc", exc_name(res.exc)])
            else:
                outs.append(["item", item_out(res.value)])
        consumed[-1] = sum(1 for ev in log if ev[0] == "item")
    for k in range(len(consumed)):
        if consumed[k] is None:
            consumed[k] = consumed[k - 1] if k else 0
    return outs, consumed


class _Counting:
    def __init__(self, items):
        self.it = iter(items)
        self.n = 0

    def __iter__(self):
        return self

    def __next__(self):
        v = next(self.it)
        self.n += 1
        return v


def _ops_sync(case):
    items, skey, key_out, item_out = _setup(case)
    skey = _failing(skey, case)
    cnt = _Counting(items)
    gb = itertools.groupby(cnt) if skey is None else itertools.groupby(cnt, skey)
    groups, outs = [], []
    consumed = []
    dropped = set()     # itertools groups cannot be closed: the consumer drops them and never advances them again
    for op in case["ops"]:
        consumed.append(None)
        if op[0] == "cls":
            if op[1] >= len(groups):
                outs.append(["nogroup"])
                continue
            dropped.add(op[1])
            outs.append(["closed"])
        elif op[0] == "grp" and op[1] in dropped:
            outs.append(["stop"])
        elif op[0] == "adv":
            try:
                k, g = next(gb)
            except StopIteration:
                outs.append(["stop"])
            except UserExc as exc:
                outs.append(["exc", exc_name(exc)])
            else:
                outs.append(["key", key_out(k), len(groups)])
                groups.append(g)
        else:
            if op[1] >= len(groups):
                outs.append(["nogroup"])
                continue
            try:
                outs.append(["item", item_out(next(groups[op[1]]))])
            except StopIteration:
                outs.append(["stop"])
            except UserExc as exc:
                outs.append(["exc", exc_name(exc)])
        consumed[-1] = cnt.n
    for k in range(len(consumed)):
        if consumed[k] is None:
            consumed[k] = consumed[k - 1] if k else 0
    return outs, consumed


def observe(case):
    a, ac = _ops_async(case)
    s, sc = _ops_sync(case)
    return {"impl": a, "std": s, "impl_consumed": ac, "std_consumed": sc}


def model_request(case):
    if case.get("keyfail"):
        if case.get("kvals") is not None:
            return None
        # key invocation n is the key of item n (every fetched item has its key computed exactly once, in fetch order)
        fails = set(case["keyfail"])
        return {"m": "groupbyfault", "ops": [op for op in case["ops"]],
                "script": [["k", i, 60 + i] if i in fails else ["i", i, k] for i, k in enumerate(case["keys"])]}
    if case.get("kvals") is not None and case["key"] == "none":
        return None     # raw odd values as items: no identities to compare; decided by the itertools oracle
    return {"m": "groupby", "items": [[i, k] for i, k in enumerate(case["keys"])],
            "ops": [op for op in case["ops"]]}


def _valid(outs):
    # an op on a handle that was never handed out: the machine answers "stop" (no such current group)
    return [["stop"] if o == ["nogroup"] else o for o in outs]


def _valid_ops(ops, outs):
    """model view: `cls` on a handle that does not exist is a no-op the machine reports as closed"""
    return [(["closed"] if op[0] == "cls" else ["stop"]) if o == ["nogroup"] else o for op, o in zip(ops, outs)]


def judge(case, obs, model):
    issues = []
    if obs["impl"] != obs["std"]:
        first = next((i for i, (a, b) in enumerate(zip(obs["impl"], obs["std"])) if a != b), None)
        tag = "groupby-differs"
        issues.append(Issue("oracle", {"first_diff_at_op": first, "impl": obs["impl"], "itertools": obs["std"]}, tag))
    if not issues and obs["impl_consumed"] != obs["std_consumed"]:
        k = next(i for i, (x, y) in enumerate(zip(obs["impl_consumed"], obs["std_consumed"])) if x != y)
        issues.append(Issue("oracle", {"first_diff_at_op": k, "asyncstdlib_consumed": obs["impl_consumed"],
                                       "itertools_consumed": obs["std_consumed"]}, "groupby-reads-ahead"))
    if model is not None:
        if "error" not in model and (model["impl_consumed"] != obs["impl_consumed"]):
            issues.append(Issue("A", {"consumed": obs["impl_consumed"], "model": model["impl_consumed"]}))
        if "error" not in model and (model["spec_consumed"] != obs["std_consumed"]):
            issues.append(Issue("B", {"consumed": obs["std_consumed"], "spec": model["spec_consumed"]}))
        if "error" in model:
            issues.append(Issue("A", model))
        else:
            if case.get("keyfail"):
                unuser = lambda outs: [["exc", o[1][1]] if o[0] == "exc" and isinstance(o[1], list) and o[1][0] == "user" else o for o in outs]  # noqa: E731
                obs = dict(obs, impl=unuser(obs["impl"]), std=unuser(obs["std"]))
            if model["impl"] != _valid_ops(case["ops"], obs["impl"]):
                issues.append(Issue("A", {"impl": obs["impl"], "model": model["impl"]}))
            if model["spec"] != _valid_ops(case["ops"], obs["std"]):
                issues.append(Issue("B", {"itertools": obs["std"], "spec": model["spec"]}))
            if model["impl"] != model["spec"]:
                issues.append(Issue("MS", model))
    return issues


def features(case, obs):
    f = ["len=%d" % len(case["keys"]), "ops=%d" % len(case["ops"]), "key=" + case["key"], "src=" + case["src"]]
    if case.get("kvals") is not None:
        f.append("odd-key-values")
    f.append("stale-advance" if any(
        op[0] == "grp" and op[1] < sum(1 for o in case["ops"][:i] if o[0] == "adv") - 1
        for i, op in enumerate(case["ops"])) else "no-stale")
    return f


def nontrivial(case, obs):
    kinds = {o[0] for o in obs["impl"]}
    return "key" in kinds and "item" in kinds


def model_ops(ops):
    """drop ops on handles that do not exist yet (the machine has no such op)"""
    out, n = [], 0
    for op in ops:
        if op[0] == "adv":
            n += 1
            out.append(op)
        elif op[1] < n:
            out.append(op)
    return out


def _op_seqs(maxlen, maxh):
    alphabet = [["adv"]] + [["grp", i] for i in range(maxh)] + [["cls", i] for i in range(min(maxh, 2))]
    for n in range(0, maxlen + 1):
        for seq in itertools.product(alphabet, repeat=n):
            seq = list(seq)
            if model_ops(seq) == seq:
                yield seq


def cases(tier, rng):
    L, nops, maxh = (4, 6, 3) if tier == "quick" else (5, 7, 3)
    srcs = ["list", "iter", "agen", "aobj", "seq", "aobj_nc"]
    keysm = ["none", "sync", "async", "asyncobj", "lambda"]
    n = 0
    for ln in range(0, L + 1):
        for keys in itertools.product([0, 1], repeat=ln):
            for ops in _op_seqs(nops, maxh):
                n += 1
                yield {"keys": list(keys), "ops": ops, "key": keysm[n % 5], "src": srcs[n % len(srcs)]}
                if n % 4 == 0 and ln >= 2:
                    yield {"keys": list(keys), "ops": ops, "key": keysm[(n // 4) % 5], "src": srcs[n % len(srcs)],
                           "kvals": KVALS[(n // 12) % 5]}
    # the key function fails at one or two of its invocations; the consumer catches the error and carries on with the
    # same handles: the failing item is dropped exactly as itertools.groupby drops it
    for ln in (2, 3, 4):
        for keys in itertools.product([0, 1], repeat=ln):
            for ops in _op_seqs(5 if tier == "quick" else 6, 2):
                n += 1
                for kf in ([0], [1], [2], [3], [1, 2]):
                    if kf[-1] < ln and (tier != "quick" or (n + kf[0]) % 3 == 0):
                        yield {"keys": list(keys), "ops": ops + [["grp", 0], ["adv"], ["grp", 1]], "key": keysm[1 + n % 4],
                               "src": srcs[n % len(srcs)], "keyfail": kf}
    nr = 3000 if tier == "quick" else 60000
    for _ in range(nr):
        ln = rng.randint(0, 10)
        nk = rng.randint(2, 4)
        keys = []
        for _ in range(ln):
            keys.append(keys[-1] if keys and rng.random() < 0.5 else rng.randrange(nk))
        ops, nadv = [], 0
        for _ in range(rng.randint(1, 15)):
            if nadv == 0 or rng.random() < 0.35:
                ops.append(["adv"])
                nadv += 1
            else:
                h = nadv - 1 if rng.random() < 0.6 else rng.randrange(nadv)
                ops.append(["grp", h] if rng.random() < 0.85 else ["cls", h])
        case = {"keys": keys, "ops": ops, "key": rng.choice(keysm), "src": rng.choice(srcs)}
        if case["key"] != "none" and rng.random() < 0.25:
            case["keyfail"] = sorted(set(rng.randrange(max(ln, 1)) for _ in range(rng.randint(1, 2))))
        if rng.random() < 0.3:
            case["kvals"] = rng.choice(KVALS[5:] if nk > 2 else KVALS)
        yield case


def search_cases(broken, rng):
    for case in broken:
        for k in ("none", "sync", "async"):
            for s in ("list", "iter", "agen", "aobj"):
                yield dict(case, key=k, src=s)
        for cut in range(1, len(case["ops"])):
            yield dict(case, ops=case["ops"][:cut])
    yield from cases("quick", rng)
