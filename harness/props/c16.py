"""C16 — groupby matches itertools.groupby under every pattern of consuming groups."""
import itertools

from framework import Issue
from world import Item, drive, exc_name, make_source, asyncstdlib

RULE = (
    "item sequences of length 0..L over K distinct keys x operation sequences over {advance groupby, advance group i} "
    "(exhaustive for small L and op count, then seeded random up to length 10 / 15 ops); key absent / sync / async; "
    "source kinds list / one-shot iterator / async generator / class-based async iterator. "
    "non-trivial = at least one key and one item delivered; distinct by case content"
)
EXHAUSTIVE = {"quick": True, "thorough": True}
SCOPE = {"quick": "all items over 2 keys of length <=4 x all valid op sequences of length <=6 with handles <=3",
         "thorough": "all items over 2 keys of length <=5 x all valid op sequences of length <=7 with handles <=3"}
ASSUMPTIONS = ["keys are small integers (reflexive ==); key function and source do not fail (faults are C06's subject)"]


def _items(case):
    if case["key"] == "none":
        return [k * 1000 + i for i, k in enumerate(case["keys"])]  # plain ints would merge equal keys; see keyf
    return [Item(i, k) for i, k in enumerate(case["keys"])]


def _ops_async(case):
    keys = case["keys"]
    log = []
    if case["key"] == "none":
        # without a key function the items are their own keys: use items equal by key, distinct by id
        items = [Item(i, k) for i, k in enumerate(keys)]
        keyf = None
    else:
        items = [Item(i, k) for i, k in enumerate(keys)]
        if case["key"] == "sync":
            keyf = lambda it: it.key  # noqa: E731
        else:
            async def keyf(it):
                return it.key
    src, st = make_source(case["src"] if case["src"] != "list" else "iter", [("item", it) for it in items], "s0", log)
    gb = asyncstdlib.groupby(src) if keyf is None else asyncstdlib.groupby(src, keyf)
    groups, outs = [], []
    consumed = []
    for op in case["ops"]:
        consumed.append(None)
        if op[0] == "adv":
            res = drive(gb.__anext__())
            if isinstance(res.exc, StopAsyncIteration):
                outs.append(["stop"])
            elif res.exc is not None:
                outs.append(["exc", exc_name(res.exc)])
            else:
                k, g = res.value
                outs.append(["key", k.key if isinstance(k, Item) else k, len(groups)])
                groups.append(g)
        else:
            if op[1] >= len(groups):
                outs.append(["nogroup"])
                continue
            res = drive(groups[op[1]].__anext__())
            if isinstance(res.exc, StopAsyncIteration):
                outs.append(["stop"])
            elif res.exc is not None:
                outs.append(["exc", exc_name(res.exc)])
            else:
                outs.append(["item", res.value.id])
        consumed[-1] = sum(1 for ev in log if ev[0] == "item")
    for k in range(len(consumed)):
        if consumed[k] is None:
            consumed[k] = consumed[k - 1] if k else 0
    return outs, consumed


class _Counting:
    def __init__(self, items):
        self.it = iter(items)
        self.n = 0

    def __iter__(self):
        return self

    def __next__(self):
        v = next(self.it)
        self.n += 1
        return v


def _ops_sync(case):
    items = [Item(i, k) for i, k in enumerate(case["keys"])]
    cnt = _Counting(items)
    gb = itertools.groupby(cnt) if case["key"] == "none" else itertools.groupby(cnt, lambda it: it.key)
    groups, outs = [], []
    consumed = []
    for op in case["ops"]:
        consumed.append(None)
        if op[0] == "adv":
            try:
                k, g = next(gb)
            except StopIteration:
                outs.append(["stop"])
            else:
                outs.append(["key", k.key if isinstance(k, Item) else k, len(groups)])
                groups.append(g)
        else:
            if op[1] >= len(groups):
                outs.append(["nogroup"])
                continue
            try:
                outs.append(["item", next(groups[op[1]]).id])
            except StopIteration:
                outs.append(["stop"])
        consumed[-1] = cnt.n
    for k in range(len(consumed)):
        if consumed[k] is None:
            consumed[k] = consumed[k - 1] if k else 0
    return outs, consumed


def observe(case):
    a, ac = _ops_async(case)
    s, sc = _ops_sync(case)
    return {"impl": a, "std": s, "impl_consumed": ac, "std_consumed": sc}


def model_request(case):
    return {"m": "groupby", "items": [[i, k] for i, k in enumerate(case["keys"])],
            "ops": [op for op in case["ops"]]}


def _valid(outs):
    # an op on a handle that was never handed out: the machine answers "stop" (no such current group)
    return [["stop"] if o == ["nogroup"] else o for o in outs]


def judge(case, obs, model):
    issues = []
    if obs["impl"] != obs["std"]:
        first = next((i for i, (a, b) in enumerate(zip(obs["impl"], obs["std"])) if a != b), None)
        tag = "groupby-differs"
        issues.append(Issue("oracle", {"first_diff_at_op": first, "impl": obs["impl"], "itertools": obs["std"]}, tag))
    if not issues and obs["impl_consumed"] != obs["std_consumed"]:
        k = next(i for i, (x, y) in enumerate(zip(obs["impl_consumed"], obs["std_consumed"])) if x != y)
        issues.append(Issue("oracle", {"first_diff_at_op": k, "asyncstdlib_consumed": obs["impl_consumed"],
                                       "itertools_consumed": obs["std_consumed"]}, "groupby-reads-ahead"))
    if model is not None:
        if "error" not in model and (model["impl_consumed"] != obs["impl_consumed"]):
            issues.append(Issue("A", {"consumed": obs["impl_consumed"], "model": model["impl_consumed"]}))
        if "error" not in model and (model["spec_consumed"] != obs["std_consumed"]):
            issues.append(Issue("B", {"consumed": obs["std_consumed"], "spec": model["spec_consumed"]}))
        if "error" in model:
            issues.append(Issue("A", model))
        else:
            if model["impl"] != _valid(obs["impl"]):
                issues.append(Issue("A", {"impl": obs["impl"], "model": model["impl"]}))
            if model["spec"] != _valid(obs["std"]):
                issues.append(Issue("B", {"itertools": obs["std"], "spec": model["spec"]}))
            if model["impl"] != model["spec"]:
                issues.append(Issue("MS", model))
    return issues


def features(case, obs):
    f = ["len=%d" % len(case["keys"]), "ops=%d" % len(case["ops"]), "key=" + case["key"], "src=" + case["src"]]
    f.append("stale-advance" if any(
        op[0] == "grp" and op[1] < sum(1 for o in case["ops"][:i] if o[0] == "adv") - 1
        for i, op in enumerate(case["ops"])) else "no-stale")
    return f


def nontrivial(case, obs):
    kinds = {o[0] for o in obs["impl"]}
    return "key" in kinds and "item" in kinds


def model_ops(ops):
    """drop ops on handles that do not exist yet (the machine has no such op)"""
    out, n = [], 0
    for op in ops:
        if op[0] == "adv":
            n += 1
            out.append(op)
        elif op[1] < n:
            out.append(op)
    return out


def _op_seqs(maxlen, maxh):
    alphabet = [["adv"]] + [["grp", i] for i in range(maxh)]
    for n in range(0, maxlen + 1):
        for seq in itertools.product(alphabet, repeat=n):
            seq = list(seq)
            if model_ops(seq) == seq:
                yield seq


def cases(tier, rng):
    L, nops, maxh = (4, 6, 3) if tier == "quick" else (5, 7, 3)
    srcs = ["list", "iter", "agen", "aobj", "seq", "aobj_nc"]
    keysm = ["none", "sync", "async"]
    n = 0
    for ln in range(0, L + 1):
        for keys in itertools.product([0, 1], repeat=ln):
            for ops in _op_seqs(nops, maxh):
                n += 1
                yield {"keys": list(keys), "ops": ops, "key": keysm[n % 3], "src": srcs[n % len(srcs)]}
    nr = 3000 if tier == "quick" else 60000
    for _ in range(nr):
        ln = rng.randint(0, 10)
        nk = rng.randint(2, 4)
        keys = []
        for _ in range(ln):
            keys.append(keys[-1] if keys and rng.random() < 0.5 else rng.randrange(nk))
        ops, nadv = [], 0
        for _ in range(rng.randint(1, 15)):
            if nadv == 0 or rng.random() < 0.35:
                ops.append(["adv"])
                nadv += 1
            else:
                h = nadv - 1 if rng.random() < 0.6 else rng.randrange(nadv)
                ops.append(["grp", h])
        yield {"keys": keys, "ops": ops, "key": rng.choice(keysm), "src": rng.choice(srcs)}


def search_cases(broken, rng):
    for case in broken:
        for k in ("none", "sync", "async"):
            for s in ("list", "iter", "agen", "aobj"):
                yield dict(case, key=k, src=s)
        for cut in range(1, len(case["ops"])):
            yield dict(case, ops=case["ops"][:cut])
    yield from cases("quick", rng)
