"""C04 — owned async iterators are released when a tool finishes, fails or is closed."""
import s1
from framework import Issue
import fam_chain_obj

RULE = (
    "every tool and aggregation x parameter grid x item sequences up to length L x {exhaust, close after 1..len+1 items, "
    "throw after 1..len+1 items} x {no fault, every single fault position in sources and callables}; sources are async "
    "generators and class-based iterators with aclose. Checked on the real code after the close/raise/exhaustion completes: "
    "every source was closed or ran to exhaustion (async generator: frame gone; class-based: aclose() called or "
    "StopAsyncIteration delivered). non-trivial = the tool was advanced and did not simply run dry; distinct by case content"
)
AMPLIFY = "search"   # on a source change: quick cases + the failing-input search (the thorough generator is minutes / GBs)
EXHAUSTIVE = {"quick": True, "thorough": True}
SCOPE = {"quick": "L=3, <=3 sources, all cut points, all single fault positions (faults on cut cases sampled)",
         "thorough": "L=4, <=4 sources, all cut points x all single fault positions"}
ASSUMPTIONS = ["H-close: a user aclose() neither raises nor suspends",
               "parameter-validation errors (e.g. batched n<1) are not errors 'from a source, a callable or the consumer'"]


# ---- handles that advertise closing what they own: chain, tee, groupby -------------------------------------------


def _handle_cases(tier):
    L = 3
    for kind in s1.KINDS_ASYNC:
        for ln in range(0, L + 1):
            script = [["o", i, i // 2] for i in range(ln)]
            for adv in range(0, ln + 2):
                yield {"tool": "groupby", "family": "handle", "handle": "groupby", "advance": adv, "inner": adv % 2, "params": {},
                       "srcs": [{"kind": kind, "script": script}], "fns": [], "cons": {"fin": "close"}}
                yield {"tool": "chain", "family": "handle", "handle": "chain", "advance": adv, "params": {},
                       "srcs": [{"kind": kind, "script": script}, {"kind": kind, "script": script[:1]}], "fns": [], "cons": {"fin": "close"}}
            for n in (2, 3):
                import itertools as _it
                # every child advanced `a` items (0 = never started), then the children are closed in every order
                for started in _it.product((0, 1, 2), repeat=n):
                    for order in _it.permutations(range(n)):
                        if tier == "quick" and n == 3 and order != tuple(range(n)) and order != tuple(reversed(range(n))):
                            continue
                        yield {"tool": "tee", "family": "handle", "handle": "tee", "n": n, "started": list(started), "order": list(order),
                               "whole": False, "params": {}, "srcs": [{"kind": kind, "script": script}], "fns": [], "cons": {"fin": "close"}}
                        # ... and with the surviving children advanced `mid` more items after every individual close
                        for mid in (1, 2):
                            yield {"tool": "tee", "family": "handle", "handle": "tee", "n": n, "started": list(started), "order": list(order),
                                   "mid": mid, "whole": False, "params": {}, "srcs": [{"kind": kind, "script": script}], "fns": [],
                                   "cons": {"fin": "close"}}
                    yield {"tool": "tee", "family": "handle", "handle": "tee", "n": n, "started": list(started), "order": [], "whole": True,
                           "params": {}, "srcs": [{"kind": kind, "script": script}], "fns": [], "cons": {"fin": "close"}}


def _observe_handle(case):
    from tools import mkscript
    from world import asyncstdlib, drive, exc_name, make_source
    log = []
    S, states = [], []
    for i, src in enumerate(case["srcs"]):
        obj, st = make_source(src["kind"], mkscript(src["script"]), i, log)
        S.append(obj)
        states.append(st)
    out = {"errors": [], "released_after": []}
    h = case["handle"]
    if h == "groupby":
        gb = asyncstdlib.groupby(S[0], lambda it: it.key)
        for k in range(case["advance"]):
            res = drive(gb.__anext__())
            if res.exc is None and case["inner"]:
                drive(res.value[1].__anext__())
        res = drive(gb.aclose())
        out["errors"].append(exc_name(res.exc))
    elif h == "chain":
        ch = asyncstdlib.chain(*S)
        for k in range(case["advance"]):
            drive(ch.__anext__())
        res = drive(ch.aclose())
        out["errors"].append(exc_name(res.exc))
    else:
        t = asyncstdlib.tee(S[0], n=case["n"])
        kids = list(t)
        for i, a in enumerate(case["started"]):
            for _ in range(a):
                drive(kids[i].__anext__())
        if case["whole"]:
            res = drive(t.aclose())
            out["errors"].append(exc_name(res.exc))
        else:
            for j, i in enumerate(case["order"]):
                res = drive(kids[i].aclose())
                out["errors"].append(exc_name(res.exc))
                out["released_after"].append(states[0].released())
                for k in case["order"][j + 1:]:
                    for _ in range(case.get("mid", 0)):
                        res = drive(kids[k].__anext__())
                        if res.exc is not None and not isinstance(res.exc, StopAsyncIteration):
                            out["errors"].append(exc_name(res.exc))
    out["srcs"] = [st.summary() for st in states]
    out["async"] = {"out": ["closed"], "vis": log, "srcs": out["srcs"]}
    return out


def observe(case):  # noqa: F811
    if case.get("family") == "chainobj":
        return fam_chain_obj.observe(case)
    if case.get("family") == "closeall":
        return _observe_closeall(case)
    if case.get("family") == "oddsrc":
        return _observe_odd(case)
    if case.get("family") == "handle":
        return _observe_handle(case)
    return s1.observe(case)


def model_request(case):  # noqa: F811
    if case.get("family") == "chainobj":
        return fam_chain_obj.model_request(case)
    if case.get("family") == "closeall":
        return {"m": "cleanup", "behs": case["behs"], "inflight": case["inflight"]}
    if case.get("family") in ("handle", "oddsrc"):
        return None
    return s1.model_request(case)


def features(case, obs):  # noqa: F811
    if case.get("family") == "chainobj":
        return fam_chain_obj.features(case, obs)
    if case.get("family") == "closeall":
        return ["closeall:n=%d" % len(case["behs"]), "closeall:inflight=%s" % (case["inflight"] is not None)]
    if case.get("family") == "oddsrc":
        return ["oddsrc=" + case["bad"], "tool=" + case["tool"]]
    if case.get("family") == "handle":
        return ["handle=" + case["handle"], "kind=" + case["srcs"][0]["kind"]]
    return s1.features(case, obs)


def nontrivial(case, obs):  # noqa: F811
    if case.get("family") == "chainobj":
        return fam_chain_obj.nontrivial(case, obs)
    if case.get("family") in ("handle", "oddsrc", "closeall"):
        return True
    return s1.nontrivial(case, obs)


def _judge_handle(case, obs):
    issues = []
    h = case["handle"]
    errs = [e for e in obs["errors"] if e is not None]
    if errs:
        issues.append(Issue("oracle", {"errors": obs["errors"]}, "closing-%s-failed:%s" % (h, errs[0][1])))
    leaked = [i for i, s in enumerate(obs["srcs"]) if s["released"] is False]
    if leaked:
        unstarted = h == "tee" and 0 in case["started"]
        issues.append(Issue("oracle", {"leaked": leaked, "srcs": obs["srcs"], "case": {k: case.get(k) for k in ("advance", "started", "order", "whole")}},
                            "handle-close-leaves-source-open:%s%s%s" % (h, ":child-never-started" if unstarted else "",
                                                                         ":whole-handle" if case.get("whole") else "")))
    if h == "tee" and not case["whole"] and obs["released_after"]:
        early = [j for j, r in enumerate(obs["released_after"][:-1]) if r]
        src_len = len(case["srcs"][0]["script"])
        exhausted_by_children = any(a > src_len for a in case["started"]) or case.get("mid")
        if early and not exhausted_by_children and obs["srcs"][0]["ended"] == 0:
            issues.append(Issue("oracle", {"released_after": obs["released_after"], "order": case["order"]},
                                "tee-closed-source-before-last-child-done"))
    return issues


def cases(tier, rng):
    yield from _handle_cases(tier)
    yield from _odd_cases()
    yield from _closeall_cases()
    # chain / chain.from_iterable as an object: next / aclose / aclose-while-running / cancel (Machines/ChainObj.lean)
    yield from fam_chain_obj.cases(rng, 1500 if tier == "quick" else 20000)
    n = 0
    for case in s1.base_cases(tier, rng, s1.KINDS_ASYNC, s1.cons_cuts_and_throws, maxlen=3 if tier == "quick" else 4):
        if case["tool"] == "islice" and (case["params"].get("step", 1) == 3 or (case["params"].get("stop") or 0) > 3):
            continue
        yield case
        n += 1
        if case["cons"]["fin"] == "exhaust" or tier != "quick" or n % 5 == 0:
            yield from s1.with_faults(case)
    yield from s1.random_cases(tier, rng, s1.KINDS_ASYNC, 2000 if tier == "quick" else 40000, faults=True)
    # multi-source tools over MIXED argument lists (synchronous iterables between / before / after async iterators):
    # bookkeeping that counts or indexes "the async ones" drifts when the arguments are not all of one kind
    import itertools as _it
    from tools import build_case
    grid = s1.tool_grid(tier)
    layouts = [["list", "list", "aobj"], ["aobj", "list", "agen"], ["list", "aobj", "iter", "agen"], ["agen", "list", "list", "aobj", "aobj"],
               ["iter", "agen"], ["aobj", "seq"]]
    for tool in ("chain", "zip", "map", "zip_longest", "merge"):
        nsrc, plist, fns, style = grid[tool]
        for params in plist[:2]:
            for kinds in layouts:
                keyseqs = [[1, 2][: 1 + i % 2] for i in range(len(kinds))]
                total = sum(len(k) for k in keyseqs)
                for cons in s1.cons_cuts_and_throws(tool, total):
                    yield dict(build_case(tool, params, fns, style, keyseqs, kinds, cons, ["def"] * len(fns)), family="mixed")


def _proj(vis, out):
    return [s1._ref_out(out)]


def judge(case, obs, model):
    issues = []
    if case.get("family") == "chainobj":
        return fam_chain_obj.judge(case, obs, model)
    if case.get("family") == "closeall":
        return _judge_closeall(case, obs, model)
    if case.get("family") == "oddsrc":
        return _judge_odd(case, obs)
    if case.get("family") == "handle":
        return _judge_handle(case, obs)
    a = obs["async"]
    leaked = [i for i, s in enumerate(a["srcs"]) if s["released"] is False]
    if leaked and not a.get("at_construction"):
        how = case["cons"]["fin"] if a["out"][0] in ("closed", "exhausted") or (
            a["out"][0] == "raised" and a["out"][1][0] == "user" and a["out"][1][1] >= 900) else "error"
        started = "started" if any(a["srcs"][i]["pulls"] > 0 for i in leaked) else "never-started"
        issues.append(Issue("oracle", {"leaked": leaked, "srcs": a["srcs"], "out": a["out"]},
                            "source-not-released:%s:%s:%s" % (case["tool"], how, started)))
    after = a.get("srcs_after_owner_close")
    if after is not None:
        still = [i for i, s in enumerate(after) if s["released"] is False]
        if still or a.get("owner_close_exc") is not None:
            issues.append(Issue("oracle", {"leaked_after_owner_close": still, "close_exc": a.get("owner_close_exc"), "srcs": after},
                                "not-released-after-owner-close:" + case["tool"]))
    if a["out"][0] == "raised" and a["out"][1] == ["lib", "RuntimeError"] and case["cons"]["fin"] == "close":
        issues.append(Issue("oracle", {"out": a["out"]}, "close-failed:" + case["tool"]))
    if model is not None and "error" not in model:
        # (synchronous kinds have no release state on the real side: `released` is None there)
        i_rel = [s["released"] for s in a["srcs"] if s["released"] is not None]
        m_rel = [m["released"] for m, s in zip(model["impl"]["srcs"], a["srcs"]) if s["released"] is not None]
        if m_rel != i_rel:
            issues.append(Issue("A", {"asyncstdlib": a["srcs"], "model": model["impl"]["srcs"]}))
        if s1._ref_out(a["out"]) != s1._ref_out(model["impl"]["out"]) and a["out"] != model["impl"]["out"]:
            issues.append(Issue("A", {"asyncstdlib": a["out"], "model": model["impl"]["out"]}))
    elif model is not None:
        issues.append(Issue("A", model))
    return issues


def search_cases(broken, rng):
    for case in broken:
        for kind in ("aobj", "agen"):
            c = dict(case)
            c["srcs"] = [dict(s, kind=kind) for s in case["srcs"]]
            yield c
    yield from s1.random_cases("quick", rng, s1.KINDS_ASYNC, 4000, faults=True)


# ---- sources that fail outside their __anext__: a raising aclose(), a raising __aiter__ ----------------------------------
# Oracle-only (the Lean models carry hypothesis H-close): when one source's own aclose() raises while the tool is being
# closed / is failing, or one iterable's __aiter__ raises when the tool starts, every OTHER async iterator handed to the
# tool must still be closed or exhausted when that close / raise completes.


class _OddSource:
    """class-based async iterator over `items`; `bad`: None | "close" (aclose raises after closing) | "aiter" (__aiter__ raises)"""

    def __init__(self, items, bad, name):
        self.items, self.bad, self.name = list(items), bad, name
        self.i, self.closes, self.ended = 0, 0, 0

    def __aiter__(self):
        if self.bad == "aiter":
            from world import user_exc
            raise user_exc(40 + self.name)
        return self

    async def __anext__(self):
        if self.i >= len(self.items):
            self.ended += 1
            raise StopAsyncIteration
        self.i += 1
        return self.items[self.i - 1]

    async def aclose(self):
        self.closes += 1
        if self.bad == "close":
            from world import user_exc
            raise user_exc(48 + self.name)

    def released(self):
        return self.closes > 0 or self.ended > 0


_ODD_TOOLS = {
    "zip": lambda A, S: A.zip(*S), "zip_strict": lambda A, S: A.zip(*S, strict=True), "map": lambda A, S: A.map(lambda *a: a, *S),
    "zip_longest": lambda A, S: A.zip_longest(*S), "merge": lambda A, S: A.merge(*S), "chain": lambda A, S: A.chain(*S),
    "compress": lambda A, S: A.compress(S[0], S[1]),
}


def _odd_cases():
    for tool in _ODD_TOOLS:
        for nsrc in ((2,) if tool == "compress" else (2, 3)):
            for bad_at in range(nsrc):
                for bad in ("close", "aiter"):
                    for take in (1, 2):          # the tool is advanced at least once ("once a library iterator has been advanced")
                        for fin in ("close", "exhaust"):
                            yield {"tool": tool, "family": "oddsrc", "nsrc": nsrc, "bad_at": bad_at, "bad": bad, "take": take, "fin": fin,
                                   "params": {}, "srcs": [{"kind": "aobj", "script": []}], "fns": [], "cons": {"fin": fin}}


def _observe_odd(case):
    from world import Item, asyncstdlib, drive, exc_name
    S = [_OddSource([Item(10 * i + j, j + 1) for j in range(3)], case["bad"] if i == case["bad_at"] else None, i)
         for i in range(case["nsrc"])]
    outs = []
    try:
        it = _ODD_TOOLS[case["tool"]](asyncstdlib, S)
    except BaseException as exc:  # noqa: B036
        return {"construct": exc_name(exc), "srcs": [[s.released(), s.i] for s in S], "outs": [],
                "async": {"out": ["raised", exc_name(exc)], "vis": [], "srcs": []}}
    n = 0
    while case["fin"] == "exhaust" or n < case["take"]:
        r = drive(it.__anext__())
        n += 1
        if r.exc is not None:
            outs.append(["end", exc_name(r.exc) if not isinstance(r.exc, StopAsyncIteration) else "stop"])
            break
        outs.append(["item"])
    r = drive(it.aclose())
    outs.append(["aclose", exc_name(r.exc)])
    return {"construct": None, "outs": outs, "srcs": [[s.released(), s.i] for s in S],
            "async": {"out": ["closed"], "vis": [], "srcs": []}}


def _judge_odd(case, obs):
    leaked = [i for i, (rel, pulled) in enumerate(obs["srcs"]) if not rel and i != case["bad_at"]]
    if case["bad"] == "aiter":
        if obs["construct"] is not None:
            return []          # the tool could not even be constructed: nothing was advanced
        # iterables after the failing one were never touched by the tool (cf. known finding D19 for chain): only the
        # iterators the tool had already obtained are demanded
        leaked = [i for i in leaked if i < case["bad_at"]]
    if leaked:
        return [Issue("oracle", {"leaked": leaked, "srcs": obs["srcs"], "outs": obs["outs"]},
                      "other-sources-leaked-when-%s-raises:%s" % ("aclose" if case["bad"] == "close" else "aiter", case["tool"]))]
    return []


# ---- the clean-up helper itself: _core.close_all vs Machines/Cleanup.lean and vs nested `async with ScopedIter` ----------
# Behaviours per iterator: "ok" | "none" (no aclose attribute) | ["raises", e] (closes, then raises) | ["interrupted", e]
# (a cancellation thrown into the suspended aclose(): for the library both are "aclose() raised e").


class _CloseExc(BaseException):
    def __init__(self, n):
        super().__init__(n)
        self.n = n


def _closeall_cases():
    import itertools as _it
    alpha = ["ok", "none", ["raises", 1], ["raises", 2], ["interrupted", 3]]
    for ln in range(0, 5):
        for behs in _it.product(alpha, repeat=ln):
            for infl in (None, 5):
                yield {"tool": "close_all", "family": "closeall", "behs": list(behs), "inflight": infl, "params": {},
                       "srcs": [{"kind": "aobj", "script": []}], "fns": [], "cons": {"fin": "close"}}


def _observe_closeall(case):
    import contextlib
    from asyncstdlib._core import ScopedIter, close_all
    from world import Susp, drive

    class It:
        def __init__(self, i, beh, log):
            self.i, self.beh, self.log = i, beh, log

        def __aiter__(self):
            return self

        async def __anext__(self):
            raise StopAsyncIteration

        async def aclose(self):
            self.log.append(self.i)
            if isinstance(self.beh, list) and self.beh[0] == "interrupted":
                await Susp(["close", self.i])       # the driver throws the cancellation in here
            if isinstance(self.beh, list):
                raise _CloseExc(self.beh[1])

    class NoClose:
        def __aiter__(self):
            return self

        async def __anext__(self):
            raise StopAsyncIteration

    def mk(log):
        return [NoClose() if b == "none" else It(i, b, log) for i, b in enumerate(case["behs"])]

    def reply(i, tok):
        # a suspended aclose() is cancelled: the exception it was going to raise is thrown in instead
        return ("throw", _CloseExc(case["behs"][tok[1]][1]))

    def run(coro):
        r = drive(coro, reply)
        return None if r.exc is None else (r.exc.n if isinstance(r.exc, _CloseExc) else ["other", type(r.exc).__name__])
    infl = case["inflight"]
    out = {}
    log = []
    out["robust"] = {"exc": run(close_all(mk(log))), "log": log}

    async def in_finally(its):
        try:
            if infl is not None:
                raise _CloseExc(infl)
        finally:
            await close_all(its)
    log = []
    out["finally"] = {"exc": run(in_finally(mk(log))), "log": log}

    async def nested(its, inflight):
        async with contextlib.AsyncExitStack() as st:
            for it in reversed(its):
                await st.enter_async_context(ScopedIter(it))
            if inflight is not None:
                raise _CloseExc(inflight)
    log = []
    out["nested"] = {"exc": run(nested(mk(log), None)), "log": log}
    log = []
    out["finally_nested"] = {"exc": run(nested(mk(log), infl)), "log": log}
    out["async"] = {"out": ["closed"], "vis": [], "srcs": []}
    return out


def _judge_closeall(case, obs, model):
    issues = []
    behs = case["behs"]
    closeable = [i for i, b in enumerate(behs) if b != "none"]
    for where in ("robust", "finally"):
        if obs[where]["log"] != closeable:
            issues.append(Issue("oracle", {"where": where, "aclose_calls": obs[where]["log"], "closeable": closeable, "behs": behs},
                                "close_all-skipped-or-repeated-an-iterator"))
    fails = [b[1] for b in behs if isinstance(b, list)]
    want = fails[-1] if fails else None
    if obs["robust"]["exc"] != want:
        issues.append(Issue("oracle", {"exc": obs["robust"]["exc"], "expected_last_failure": want, "behs": behs},
                            "close_all-propagates-the-wrong-exception"))
    if obs["finally"]["exc"] != (want if want is not None else case["inflight"]):
        issues.append(Issue("oracle", {"exc": obs["finally"]["exc"], "behs": behs, "inflight": case["inflight"]},
                            "close_all-in-finally-propagates-the-wrong-exception"))
    if (obs["robust"], obs["finally"]) != (obs["nested"], obs["finally_nested"]) and not issues:
        issues.append(Issue("oracle", {"close_all": [obs["robust"], obs["finally"]], "nested_scopes": [obs["nested"], obs["finally_nested"]]},
                            "close_all-differs-from-nested-async-with"))
    if model is not None:
        if "error" in model:
            issues.append(Issue("A", model))
        else:
            if [model["robust"]["log"], model["robust"]["exc"], model["finally"]] != \
                    [obs["robust"]["log"], obs["robust"]["exc"], obs["finally"]["exc"]]:
                issues.append(Issue("A", {"asyncstdlib": [obs["robust"], obs["finally"]], "model": [model["robust"], model["finally"]]}))
            if [model["nested"]["log"], model["nested"]["exc"], model["finally_nested"]] != \
                    [obs["nested"]["log"], obs["nested"]["exc"], obs["finally_nested"]["exc"]]:
                issues.append(Issue("B", {"python_nested_with": [obs["nested"], obs["finally_nested"]],
                                          "spec": [model["nested"], model["finally_nested"]]}))
            if model["robust"]["log"] != model["nested"]["log"] or model["robust"]["exc"] != model["nested"]["exc"] \
                    or model["finally"] != model["finally_nested"]:
                issues.append(Issue("MS", model))
    return issues
