"""C04 — owned async iterators are released when a tool finishes, fails or is closed."""
import s1
from framework import Issue
from s1 import features, model_request, nontrivial, observe  # noqa: F401

RULE = (
    "every tool and aggregation x parameter grid x item sequences up to length L x {exhaust, close after 1..len+1 items, "
    "throw after 1..len+1 items} x {no fault, every single fault position in sources and callables}; sources are async "
    "generators and class-based iterators with aclose. Checked on the real code after the close/raise/exhaustion completes: "
    "every source was closed or ran to exhaustion (async generator: frame gone; class-based: aclose() called or "
    "StopAsyncIteration delivered). non-trivial = the tool was advanced and did not simply run dry; distinct by case content"
)
EXHAUSTIVE = {"quick": True, "thorough": True}
SCOPE = {"quick": "L=3, <=3 sources, all cut points, all single fault positions (faults on cut cases sampled)",
         "thorough": "L=4, <=4 sources, all cut points x all single fault positions"}
ASSUMPTIONS = ["H-close: a user aclose() neither raises nor suspends",
               "parameter-validation errors (e.g. batched n<1) are not errors 'from a source, a callable or the consumer'"]


def cases(tier, rng):
    n = 0
    for case in s1.base_cases(tier, rng, s1.KINDS_ASYNC, s1.cons_cuts_and_throws, maxlen=3 if tier == "quick" else 4):
        if case["tool"] == "islice" and (case["params"].get("step", 1) == 3 or (case["params"].get("stop") or 0) > 3):
            continue
        yield case
        n += 1
        if case["cons"]["fin"] == "exhaust" or tier != "quick" or n % 5 == 0:
            yield from s1.with_faults(case)
    yield from s1.random_cases(tier, rng, s1.KINDS_ASYNC, 2000 if tier == "quick" else 40000, faults=True)


def _proj(vis, out):
    return [s1._ref_out(out)]


def judge(case, obs, model):
    issues = []
    a = obs["async"]
    leaked = [i for i, s in enumerate(a["srcs"]) if s["released"] is False]
    if leaked and not a.get("at_construction"):
        how = case["cons"]["fin"] if a["out"][0] in ("closed", "exhausted") or (
            a["out"][0] == "raised" and a["out"][1][0] == "user" and a["out"][1][1] >= 900) else "error"
        started = "started" if any(a["srcs"][i]["pulls"] > 0 for i in leaked) else "never-started"
        issues.append(Issue("oracle", {"leaked": leaked, "srcs": a["srcs"], "out": a["out"]},
                            "source-not-released:%s:%s:%s" % (case["tool"], how, started)))
    after = a.get("srcs_after_owner_close")
    if after is not None:
        still = [i for i, s in enumerate(after) if s["released"] is False]
        if still or a.get("owner_close_exc") is not None:
            issues.append(Issue("oracle", {"leaked_after_owner_close": still, "close_exc": a.get("owner_close_exc"), "srcs": after},
                                "not-released-after-owner-close:" + case["tool"]))
    if a["out"][0] == "raised" and a["out"][1] == ["lib", "RuntimeError"] and case["cons"]["fin"] == "close":
        issues.append(Issue("oracle", {"out": a["out"]}, "close-failed:" + case["tool"]))
    if model is not None and "error" not in model:
        m_rel = [s["released"] for s in model["impl"]["srcs"]]
        i_rel = [s["released"] for s in a["srcs"]]
        if m_rel != i_rel:
            issues.append(Issue("A", {"asyncstdlib": a["srcs"], "model": model["impl"]["srcs"]}))
        if s1._ref_out(a["out"]) != s1._ref_out(model["impl"]["out"]) and a["out"] != model["impl"]["out"]:
            issues.append(Issue("A", {"asyncstdlib": a["out"], "model": model["impl"]["out"]}))
    elif model is not None:
        issues.append(Issue("A", model))
    return issues


def search_cases(broken, rng):
    for case in broken:
        for kind in ("aobj", "agen"):
            c = dict(case)
            c["srcs"] = [dict(s, kind=kind) for s in case["srcs"]]
            yield c
    yield from s1.random_cases("quick", rng, s1.KINDS_ASYNC, 4000, faults=True)
