"""C17 — event-loop agnostic: the library suspends only where user awaitables suspend."""
import copy
import subprocess
import sys

import s1
import tools
import world
from framework import Issue
import fam_close_busy
from tools import run_async
from world import Interrupt, Item, Susp, asyncstdlib, drive, exc_name

A = asyncstdlib
RULE = (
    "every iterator tool and aggregation x parameter grid x item sequences, with sources that suspend 0..2 times per pull and "
    "async callables that suspend once per call, hand-driven: every object reaching the driver must be exactly the next token "
    "a user awaitable yielded (user-side log), every reply must reach the awaitable that yielded the token, and the token "
    "sequence must equal the one predicted from the Lean model's event log; all-sync argument sets must finish without a "
    "single suspension; then an Interrupt is thrown in at each suspension point of resilient awaitables, which must receive "
    "that very object and the operation must still complete with the baseline result. The same three checks run over scripted "
    "scenarios for every other public operation (lru_cache, cached_property with/without lock, contextmanager, ContextDecorator, "
    "ExitStack, closing, nullcontext, tee with/without lock, groupby, borrow, scoped_iter, any_iter, await_each, apply, sync, "
    "anext, iter) and, with two or three hand-interleaved tasks, for tee closed while a child is busy, tee with a contended user "
    "lock, overlapping lru_cache calls and cached_property with a contended lock. A subprocess imports and uses the library with asyncio's loop accessors patched to raise. "
    "non-trivial = at least one suspension; distinct by case content"
)
EXHAUSTIVE = {"quick": True, "thorough": True}
SCOPE = {"quick": "L=2, susp 0..2, every suspension point thrown into", "thorough": "L=3"}
ASSUMPTIONS = ["a loop-specific await hidden in a path that no enumerated case executes is invisible to this check",
               "H-close for the predicted token sequence (user aclose() does not suspend)"]



# ---- asyncio tripwire: hand-driven operations have no event loop, so the library has no business asking for one ---------

_TRIP = []


class _Tripwire:
    """records every use of asyncio's loop lookup / future / lock / sleep machinery while an operation is hand-driven"""
    NAMES = [("asyncio.events", "get_running_loop"), ("asyncio.events", "_get_running_loop"),
             ("asyncio.events", "get_event_loop"), ("asyncio.events", "new_event_loop"),
             ("asyncio", "get_running_loop"), ("asyncio", "get_event_loop"), ("asyncio", "new_event_loop"),
             ("asyncio", "current_task"), ("asyncio.tasks", "current_task"), ("asyncio", "sleep"), ("asyncio.tasks", "sleep"),
             ("asyncio", "ensure_future"), ("asyncio.tasks", "ensure_future"), ("asyncio", "create_task"),
             ("asyncio.tasks", "create_task")]

    def __enter__(self):
        import importlib
        del _TRIP[:]
        del world.ASYNCIO_TRIPS[:]
        world.ASYNCIO_ARMED[0] = True
        self.saved = []
        for modname, name in self.NAMES:
            mod = importlib.import_module(modname)
            orig = getattr(mod, name)
            self.saved.append((mod, name, orig))

            def wrapper(*a, _orig=orig, _n=modname + "." + name, **k):
                _TRIP.append(_n)
                return _orig(*a, **k)
            setattr(mod, name, wrapper)
        return self

    def __exit__(self, *exc):
        for mod, name, orig in self.saved:
            setattr(mod, name, orig)
        world.ASYNCIO_ARMED[0] = False
        _TRIP.extend("early-bound:" + n for n in world.ASYNCIO_TRIPS)   # names the library bound at import time
        return False


def _tripped(obs):
    if _TRIP:
        obs["log_issues"] = list(obs["log_issues"]) + [("touches-asyncio", {"calls": sorted(set(_TRIP)), "n": len(_TRIP)})]
    return obs


# ---- family 1: S1 tools -------------------------------------------------------------------------------------


def _susp_case(case, n):
    c = copy.deepcopy(case)
    for s in c["srcs"]:
        s["susp"] = n if s["kind"] in ("agen", "aobj", "aobj_nc") else 0
    for f in c.get("fns", []):
        f["susp"] = 1 if n else 0
    return c


def cases(tier, rng):
    L = 2 if tier == "quick" else 3
    yield {"family": "noloop", "tool": "subprocess", "srcs": [], "params": {}}
    for name in sorted(SCENARIOS):
        if name.endswith("_huge") and tier == "quick":
            continue
        yield {"family": "scenario", "tool": name, "srcs": [], "params": {}}
    for name in sorted(CONC):
        yield {"family": "conc", "tool": name, "srcs": [], "params": {}}
    # a handle closed by one task while another task is inside it, every schedule (Machines/CloseBusy.lean)
    for case in fam_close_busy.cases(4 if tier == "quick" else 7):
        yield dict(case, tool="closebusy-" + case["real"], srcs=[], params={})
    k = 0
    for case in s1.base_cases(tier, rng, ["agen", "aobj", "iter", "list", "aobj_nc"], s1.cons_exhaust, maxlen=L):
        if case["tool"] == "islice" and (case["params"].get("step", 1) > 1 or (case["params"].get("stop") or 0) > 2):
            continue
        if case["tool"] == "cycle":
            case = dict(case, cons={"fin": "close", "take": 2 * sum(len(s["script"]) for s in case["srcs"]) + 1})
        k += 1
        yield dict(_susp_case(case, 1 + k % 2), family="tool")
        if k % 4 == 0:
            allsync = copy.deepcopy(case)
            for s in allsync["srcs"]:
                s["kind"] = ["list", "iter", "seq"][k % 3]
            for f in allsync.get("fns", []):
                f["flavour"] = "def"
            yield dict(allsync, family="tool", allsync=True)


def _check_log(tokens, mark):
    """driver-side tokens vs the user-side log since `mark`"""
    user = world.SUSP_LOG[mark:]
    issues = []
    user_toks = [e[1] if e[0] == "susp" else ["retry", e[1]] for e in user if e[0] in ("susp", "thrown-in")]
    if tokens != user_toks:
        foreign = [t for t in tokens if not (isinstance(t, list) and t and t[0] in ("src", "fn", "close", "retry", "u"))]
        issues.append(("foreign-object-reached-loop" if foreign else "token-order-differs", {"driver": tokens[:8], "user": user_toks[:8]}))
    bad = [e for e in user if e[0] == "reply" and e[2] != ("r", e[1]) and e[2] != ["r", e[1]]]
    if bad:
        issues.append(("reply-misrouted", {"bad": bad[:3]}))
    return issues


def _observe_tool(case):
    world.RESILIENT[0] = False
    mark = len(world.SUSP_LOG)
    base = run_async(case)
    issues = _check_log(base["tokens"], mark)
    n = len(base["tokens"])
    throws = []
    world.RESILIENT[0] = True
    try:
        for j in range(n):
            mark = len(world.SUSP_LOG)
            exc = Interrupt(700 + j)

            def reply(i, tok, j=j, exc=exc, st={"k": 0}):
                st["k"] += 1
                if st["k"] == j + 1:
                    return ("throw", exc)
                return ("send", ("r", tok if not (isinstance(tok, list) and tok and tok[0] == "retry") else tok[1]))
            r = run_async(case, reply)
            got = [e for e in world.SUSP_LOG[mark:] if e[0] == "thrown-in"]
            throws.append({"at": j, "token": base["tokens"][j], "received": got, "out": r["out"],
                           "same_result": r["out"] == base["out"] and tools.yields(r["vis"]) == tools.yields(base["vis"])})
    finally:
        world.RESILIENT[0] = False
    # third pass: the cancellation PROPAGATES (non-resilient awaitables) and the clean-up it triggers suspends in the
    # user's own aclose(): those suspensions, too, must reach the driver as the user's tokens, get the driver's replies,
    # and the operation must end with the very exception that was thrown in
    if any(s["kind"] == "aobj" for s in case["srcs"]) and not case.get("allsync"):
        c2 = copy.deepcopy(case)
        for s in c2["srcs"]:
            if s["kind"] == "aobj":
                s["close_susp"] = 1
        for j in range(min(n, 6)):
            mark = len(world.SUSP_LOG)
            exc = Interrupt(750 + j)

            def reply2(i, tok, j=j, exc=exc, st={"k": 0}):
                st["k"] += 1
                if st["k"] == j + 1:
                    return ("throw", exc)
                return ("send", ("r", tok))
            r = run_async(c2, reply2)
            after = _check_log(r["tokens"] + r.get("owner_close_tokens", []), mark)
            for tag, detail in after:
                issues.append(("after-propagating-cancel:" + tag, dict(detail, thrown_at=j)))
            if r["out"] != ["raised", ["user", 750 + j]] and r["out"][0] not in ("stopped", "closed"):
                issues.append(("propagating-cancel-replaced", {"thrown_at": j, "out": r["out"]}))
    # fourth pass: the consumer closes the tool early and the users' aclose()s suspend; an exception thrown in at each of
    # THOSE suspensions must reach that very aclose() (which handles it and carries on) - the library's clean-up must not
    # intercept, postpone or replace what the loop throws
    close_throws = []
    if sum(1 for s in case["srcs"] if s["kind"] == "aobj") >= 1 and not case.get("allsync") \
            and case["tool"] not in tools.AGGREGATIONS and case["tool"] != "cycle":
        c3 = copy.deepcopy(case)
        for s in c3["srcs"]:
            if s["kind"] == "aobj":
                s["close_susp"] = 1
        c3["cons"] = {"fin": "close", "take": 1}
        world.RESILIENT[0] = False
        mark3 = len(world.SUSP_LOG)
        base3 = run_async(c3)
        # the tokens of the users' suspending aclose()s reach the driver, and its replies reach them
        for tag, detail in _check_log(base3["tokens"], mark3):
            issues.append(("early-close:" + tag, detail))
        world.RESILIENT[0] = True
        try:
            for j, tok in enumerate(base3["tokens"]):
                if not (isinstance(tok, list) and tok and tok[0] == "close"):
                    continue
                mark = len(world.SUSP_LOG)
                exc = Interrupt(700 + j)

                def reply3(i, tok, j=j, exc=exc, st={"k": 0}):
                    st["k"] += 1
                    if st["k"] == j + 1:
                        return ("throw", exc)
                    return ("send", ("r", tok if not (isinstance(tok, list) and tok and tok[0] == "retry") else tok[1]))
                r = run_async(c3, reply3)
                got = [e for e in world.SUSP_LOG[mark:] if e[0] == "thrown-in"]
                close_throws.append({"at": j, "token": tok, "received": got, "out": r["out"], "same_result": r["out"] == base3["out"]})
        finally:
            world.RESILIENT[0] = False
    del world.SUSP_LOG[:]
    return {"tokens": base["tokens"], "log_issues": issues, "throws": throws, "close_throws": close_throws,
            "async": {"out": base["out"], "vis": base["vis"]}}


# ---- family 2: scripted scenarios for the other public operations -------------------------------------------------


class _Lock:
    """a user lock whose acquisition suspends once"""

    def __init__(self):
        self.held = False

    async def __aenter__(self):
        await Susp(["u", "lock-enter"])
        self.held = True

    async def __aexit__(self, *a):
        await Susp(["u", "lock-exit"])
        self.held = False


async def _agen(n):
    for i in range(n):
        await Susp(["u", "src", i])
        yield Item(i, i)


async def _sc_lru():
    @A.lru_cache(maxsize=2)
    async def f(x):
        await Susp(["u", "lru", x])
        return x * 2
    return [await f(1), await f(1), await f(2), await f(3), await f(1)]


async def _sc_cached_property():
    class C:
        @A.cached_property
        async def v(self):
            await Susp(["u", "getter"])
            return 7
    c = C()
    return [await c.v, await c.v]


async def _sc_cached_property_lock():
    class C:
        @A.cached_property(_Lock)
        async def v(self):
            await Susp(["u", "getter"])
            return 7
    c = C()
    return [await c.v, await c.v]


async def _sc_contextmanager():
    @A.contextmanager
    async def cm():
        await Susp(["u", "enter"])
        try:
            yield 5
        finally:
            await Susp(["u", "exit"])
    async with cm() as v:
        await Susp(["u", "body"])
    return v


async def _sc_closed_generator():
    """contexts of the library that are active inside an async generator which its consumer closes early: GeneratorExit
    leaves the blocks, and the clean-up of the user's managers / sources (which suspends) must still be AWAITED"""
    @A.contextmanager
    async def cm(name):
        try:
            yield name
        finally:
            await Susp(["u", "cleanup", name])

    class Closeable:
        async def aclose(self):
            await Susp(["u", "aclose"])

    async def outer():
        async with cm(1) as v, A.ExitStack() as st, A.closing(Closeable()):
            await st.enter_context(cm(2))
            st.callback(Closeable().aclose)
            async with A.scoped_iter(_agen_closing()) as it:
                yield v, await A.anext(it)
                yield v

    async def _agen_closing():
        try:
            yield 7
            yield 8
        finally:
            await Susp(["u", "src-finally"])
    g = outer()
    first = await g.__anext__()
    await g.aclose()
    return first


async def _sc_decorator():
    @A.contextmanager
    async def cm():
        await Susp(["u", "enter"])
        yield
        await Susp(["u", "exit"])

    @cm()
    async def body(x):
        await Susp(["u", "body", x])
        return x
    return [await body(1), await body(2)]


async def _sc_exitstack():
    class CM:
        def __init__(self, i):
            self.i = i

        async def __aenter__(self):
            await Susp(["u", "aenter", self.i])
            return self.i

        async def __aexit__(self, *a):
            await Susp(["u", "aexit", self.i])
    out = []

    async def cb(x):
        await Susp(["u", "cb", x])
    async with A.ExitStack() as st:
        out.append(await st.enter_context(CM(1)))
        st.callback(cb, 9)
        out.append(await st.enter_context(CM(2)))
    return out


async def _sc_closing_nullcontext():
    g = _agen(2)
    async with A.closing(g) as it, A.nullcontext(3) as n:
        v = await A.anext(it)
    return [v.id, n]


async def _sc_tee(lock):
    out = []
    async with A.tee(_agen(3), n=2, lock=lock) as (a, b):
        out.append((await A.anext(a)).id)
        out.append((await A.anext(b)).id)
        out.append((await A.anext(b)).id)
        out.append([x.id async for x in a])
    return out


async def _sc_groupby():
    async def key(it):
        await Susp(["u", "key", it.id])
        return it.id // 2
    out = []
    async for k, g in A.groupby(_agen(4), key):
        out.append([k, [x.id async for x in g]])
    return out


async def _sc_borrow_scoped():
    out = []
    async with A.scoped_iter(_agen(5)) as it:
        out.append([x.id async for x in A.islice(A.borrow(it), 2)])
        out.append([x.id async for x in A.islice(it, 2)])
    return out


async def _sc_asynctools():
    async def aw(i):
        await Susp(["u", "aw", i])
        return i

    async def givelist():
        await Susp(["u", "outer"])
        return [aw(1), 2]
    out = [x async for x in A.any_iter(givelist())]
    out.append([x async for x in A.await_each([aw(3), aw(4)])])
    out.append(await A.apply(lambda a, b=0: a + b, aw(5), b=aw(6)))
    out.append(await A.sync(lambda: aw(7))())
    out.append(await A.sync(lambda: 8)())
    return out


async def _sc_iter_anext():
    vals = iter([1, 2, 0])

    async def src():
        await Susp(["u", "call"])
        return next(vals)
    out = [x async for x in A.iter(src, 0)]
    out.append(await A.anext(A.iter([]), "d"))
    return out


async def _sc_long_sync_inputs(n=10000):
    """LONG all-synchronous inputs (10 000 items, past any plausible internal batch size): every operation still completes
    without suspending once - a periodic "cooperative" checkpoint inside the library would reach the loop as a foreign token"""
    import operator
    out = []
    out.append(len(await A.list(range(n))))
    out.append(len(await A.tuple(iter(range(n)))))
    out.append(await A.sum(range(n)))
    out.append(await A.min(range(n), key=lambda x: -x))
    out.append(await A.max(x for x in range(n)))
    out.append(await A.all(range(1, n)))
    out.append(await A.any(A.map(lambda x: False, range(n))))
    out.append(len(await A.sorted(range(n), reverse=True)))
    out.append(len(await A.set(range(n))))
    out.append(await A.reduce(operator.add, range(n)))
    out.append(await A.nlargest(range(n), 2))
    out.append(len([x async for x in A.zip(range(n), iter(range(n)))]))
    out.append(len([x async for x in A.filter(None, range(n))]))
    out.append(len([x async for x in A.enumerate(range(n))]))
    out.append(len([x async for x in A.islice(range(n), 1, None, 2)]))
    out.append(len([x async for x in A.chain(range(n), range(n))]))
    out.append(len([x async for x in A.batched(range(n), 3)]))
    out.append(len([x async for x in A.accumulate(range(n))]))
    out.append(len([x async for x in A.merge(range(n), range(n))]))
    out.append(len([x async for x in A.takewhile(lambda x: True, range(n))]))
    out.append(len([x async for x in A.pairwise(range(n))]))
    a, b = A.tee(range(n), n=2)
    out.append(len([x async for x in a]) + len([x async for x in b]))
    out.append(sum([1 async for k, g in A.groupby(range(n), key=lambda x: x // 100)]))
    out.append(len([x async for x in A.any_iter(range(n))]))
    return out


# ---- family 3: two tasks interleaved by hand: while task A is suspended inside a user awaitable, task B runs -------


def _conc_tee_close_busy():
    """B closes the tee while A is suspended inside the source"""
    t = A.tee(_agen(3), n=2)

    async def a():
        return [(await A.anext(t[0])).id]

    async def b():
        try:
            await t.aclose()
            return "closed"
        except RuntimeError:
            return "busy"
    return [a(), b()], [0, 1, 0, 0, 1, 1]


def _conc_close_busy(make):
    """B closes a library iterator while A is suspended inside the user's source through it: whatever B's close does
    (CPython refuses it for a running generator), B must not suspend on anything of the library's own"""
    def build():
        it = make(_agen(3))

        async def a():
            v = await A.anext(it)
            return "item"

        async def b():
            try:
                await it.aclose()
                return "closed"
            except RuntimeError:
                return "busy"
        return [a(), b()], [0, 1, 0, 0, 1, 1]
    return build


_CLOSE_BUSY = {
    "conc_chain_close_busy": lambda src: A.chain(src, [1, 2]),
    "conc_groupby_close_busy": lambda src: A.groupby(src),
    "conc_borrow_close_busy": lambda src: A.borrow(src),
    "conc_zip_close_busy": lambda src: A.zip(src, [1, 2, 3]),
    "conc_map_close_busy": lambda src: A.map(lambda x: x, src),
    "conc_islice_close_busy": lambda src: A.islice(src, 1, 3),
    "conc_merge_close_busy": lambda src: A.merge(src, [], key=lambda x: x.id),
    "conc_chain_from_iterable_close_busy": lambda src: A.chain.from_iterable([src, [1]]),
}


def _conc_tee_lock():
    lock = _Lock()
    t = A.tee(_agen(2), n=2, lock=lock)

    async def reader(i):
        return [x.id async for x in t[i]]
    return [reader(0), reader(1)], [0, 1, 0, 1, 0, 1] * 8


def _conc_lru_overlap():
    @A.lru_cache(maxsize=1)
    async def f(x):
        await Susp(["u", "lru", x])
        return x

    async def c(x):
        return [await f(x), await f(x)]
    return [c(1), c(2), c(1)], [0, 1, 2, 1, 0, 2] * 4


def _conc_cached_property_lock():
    class C:
        @A.cached_property(_Lock)
        async def v(self):
            await Susp(["u", "getter"])
            return 7
    o = C()

    async def c():
        return await o.v
    return [c(), c(), c()], [0, 1, 2, 0, 1, 2] * 6



class _OverlapSrc:
    """class-based source that tolerates overlapping __anext__ calls (each suspends once)"""

    def __init__(self, keys):
        self.keys, self.i = list(keys), 0

    def __aiter__(self):
        return self

    async def __anext__(self):
        await Susp(["u", "osrc", self.i])
        if self.i >= len(self.keys):
            raise StopAsyncIteration
        k = self.keys[self.i]
        self.i += 1
        return Item(self.i, k)


def _conc_groupby_parent_and_group():
    """A advances the current group and is suspended inside the source while B advances the groupby itself"""
    g = A.groupby(_OverlapSrc([1, 1, 2, 2, 1]), key=lambda v: v.key)
    box = {}

    async def first():
        box["k"], box["grp"] = await A.anext(g)
        return box["k"]

    async def a():
        return [x.id async for x in box["grp"]]

    async def b():
        return [k async for k, _ in g]
    return [first(), a(), b()], [0, 0, 1, 2, 1, 2, 1, 2] * 4


def _conc_groupby_same_group():
    """two tasks advance the same group"""
    g = A.groupby(_OverlapSrc([1, 1, 1, 2]), key=lambda v: v.key)
    box = {}

    async def first():
        box["k"], box["grp"] = await A.anext(g)
        return box["k"]

    async def a():
        return [x.id async for x in box["grp"]]
    return [first(), a(), a()], [0, 0, 1, 2, 1, 2] * 4


def _conc_tee_nolock():
    """two children of a lock-free tee are in flight inside the source at the same time"""
    t = A.tee(_OverlapSrc([1, 2, 3]), n=2)

    async def reader(i):
        return [x.id async for x in t[i]]
    return [reader(0), reader(1)], [0, 1, 0, 1] * 8


def _conc_borrow_two_readers():
    h = A.borrow(_OverlapSrc([1, 2, 3]))

    async def reader():
        out = []
        try:
            async for x in A.iter(h):
                out.append(x.id)
        except RuntimeError:
            out.append("busy")
        return out
    return [reader(), reader()], [0, 1, 0, 1] * 6


def _conc_cached_property_nolock():
    class C:
        @A.cached_property
        async def v(self):
            await Susp(["u", "getter"])
            return 7
    o = C()

    async def c():
        return await o.v
    return [c(), c()], [0, 1, 0, 1] * 3


def _conc_contextmanager_overlap():
    @A.contextmanager
    async def cm(i):
        await Susp(["u", "enter", i])
        try:
            yield i
        finally:
            await Susp(["u", "exit", i])

    @cm(9)
    async def f(x):
        await Susp(["u", "body", x])
        return x
    return [f(1), f(2)], [0, 1, 0, 1, 1, 0] * 2


CONC = {"conc_tee_close_busy": _conc_tee_close_busy, "conc_tee_lock": _conc_tee_lock, "conc_lru_overlap": _conc_lru_overlap,
        "conc_cached_property_lock": _conc_cached_property_lock,
        "conc_groupby_parent_and_group": _conc_groupby_parent_and_group, "conc_groupby_same_group": _conc_groupby_same_group,
        "conc_tee_nolock": _conc_tee_nolock, "conc_borrow_two_readers": _conc_borrow_two_readers,
        "conc_cached_property_nolock": _conc_cached_property_nolock, "conc_contextmanager_overlap": _conc_contextmanager_overlap}
CONC.update({name: _conc_close_busy(make) for name, make in _CLOSE_BUSY.items()})


def _observe_conc(case):
    world.RESILIENT[0] = False
    del world.SUSP_LOG[:]
    coros, schedule = CONC[case["tool"]]()
    done = [None] * len(coros)
    tokens, foreign = [], []
    pending_reply = [None] * len(coros)
    steps = 0
    for i in schedule + list(range(len(coros))) * 200:
        if all(d is not None for d in done):
            break
        if done[i] is not None:
            continue
        steps += 1
        if steps > 3000:
            break
        try:
            tok = coros[i].send(pending_reply[i])
        except StopIteration as stop:
            done[i] = ["ok", _canon(stop.value)]
            continue
        except BaseException as exc:  # noqa: B036
            done[i] = ["exc", exc_name(exc)]
            continue
        tokens.append(tok)
        if not (isinstance(tok, list) and tok and tok[0] == "u"):
            foreign.append([i, repr(tok)[:60]])
        pending_reply[i] = ("r", tok)
    for c in coros:
        c.close()
    bad = [e for e in world.SUSP_LOG if e[0] == "reply" and e[2] != ("r", e[1])]
    user = [e[1] for e in world.SUSP_LOG if e[0] == "susp"]
    del world.SUSP_LOG[:]
    issues = []
    if foreign:
        issues.append(("foreign-object-reached-loop", {"foreign": foreign[:4]}))
    if [t for t in tokens if isinstance(t, list) and t and t[0] == "u"] != user:
        issues.append(("token-order-differs", {"driver": tokens[:8], "user": user[:8]}))
    if bad:
        issues.append(("reply-misrouted", {"bad": bad[:3]}))
    if any(d is None for d in done):
        issues.append(("task-never-finishes", {"done": done, "steps": steps}))
    return {"tokens": tokens[:50], "log_issues": issues, "throws": [], "done": done,
            "async": {"out": ["returned", ["n"]], "vis": []}}


SCENARIOS = {
    "lru_cache": _sc_lru, "cached_property": _sc_cached_property, "cached_property_lock": _sc_cached_property_lock,
    "contextmanager": _sc_contextmanager, "decorator": _sc_decorator, "exitstack": _sc_exitstack,
    "closing_nullcontext": _sc_closing_nullcontext, "tee_nolock": lambda: _sc_tee(None), "tee_lock": lambda: _sc_tee(_Lock()),
    "groupby": _sc_groupby, "borrow_scoped": _sc_borrow_scoped, "asynctools": _sc_asynctools, "iter_anext": _sc_iter_anext,
    "long_sync_inputs": _sc_long_sync_inputs, "closed_generator": _sc_closed_generator,
    # thorough tier, and every run on a tree whose source fingerprint changed (amplified): 300 000 items per operation
    "long_sync_inputs_huge": lambda: _sc_long_sync_inputs(300000),
}


def _canon(v):
    if isinstance(v, Item):
        return v.id
    if isinstance(v, (list, tuple)):
        return [_canon(x) for x in v]
    return v


def _observe_scenario(case):
    sc = SCENARIOS[case["tool"]]
    world.RESILIENT[0] = False
    del world.SUSP_LOG[:]
    base = drive(sc())
    issues = _check_log(base.tokens, 0)
    n = len(base.tokens)
    throws = []
    world.RESILIENT[0] = True
    try:
        for j in range(n):
            del world.SUSP_LOG[:]
            exc = Interrupt(700 + j)

            def reply(i, tok, j=j, exc=exc):
                if i == j:
                    return ("throw", exc)
                return ("send", ("r", tok[1] if tok and tok[0] == "retry" else tok))
            r = drive(sc(), reply)
            got = [e for e in world.SUSP_LOG if e[0] == "thrown-in"]
            throws.append({"at": j, "token": base.tokens[j], "received": got, "out": exc_name(r.exc),
                           "same_result": r.exc is None and _canon(r.value) == _canon(base.value)})
    finally:
        world.RESILIENT[0] = False
    del world.SUSP_LOG[:]
    return {"tokens": base.tokens, "log_issues": issues, "throws": throws, "exc": exc_name(base.exc),
            "async": {"out": ["returned", ["n"]], "vis": []}}


NOLOOP = r"""
import sys
sys.path.insert(0, %r)
import asyncio
class LoopTouched(BaseException):
    pass
def boom(*a, **k):
    raise LoopTouched("asyncio loop touched")   # not an Exception: an `except RuntimeError` fallback cannot hide it
asyncio.get_running_loop = asyncio.get_event_loop = asyncio.new_event_loop = boom
asyncio.events.get_running_loop = asyncio.events.get_event_loop = asyncio.events.new_event_loop = boom
asyncio.events._get_running_loop = boom
import asyncstdlib as a
async def main():
    out = [x async for x in a.map(lambda x, y: x + y, [1, 2], a.iter([3, 4]))]
    out.append(await a.sum(a.filter(None, [0, 1, 2])))
    async with a.ExitStack() as st:
        await st.enter_context(a.nullcontext(1))
    @a.lru_cache
    async def f(x): return x
    out.append(await f(3))
    class C:
        @a.cached_property
        async def v(self): return 4
    out.append(await C().v)
    async with a.tee([1, 2], n=2) as (p, q):
        out.append([x async for x in a.zip(p, q)])
    return out
c = main()
try:
    c.send(None)
except StopIteration as s:
    print("OK", s.value)
else:
    print("SUSPENDED")
"""


def observe(case):
    fam = case.get("family")
    if fam == "noloop":
        p = subprocess.run([sys.executable, "-c", NOLOOP % world.REPO], capture_output=True, text=True, timeout=60)
        return {"stdout": p.stdout.strip(), "stderr": p.stderr.strip()[-600:], "tokens": [], "throws": [], "log_issues": [],
                "async": {"out": ["returned", ["n"]], "vis": []}}
    with _Tripwire():
        if fam == "closebusy":
            obs = dict(fam_close_busy.observe(case), tokens=[1] if case["sched"] else [], throws=[], log_issues=[],
                       **{"async": {"out": ["returned", ["n"]], "vis": []}})
        elif fam == "scenario":
            obs = _observe_scenario(case)
        elif fam == "conc":
            obs = _observe_conc(case)
        else:
            obs = _observe_tool(case)
    return _tripped(obs)


def model_request(case):
    # (nlargest/nsmallest: the bounded-heap algorithm is modelled since Std/Select.lean, including the extra poll of an
    # exhausted source when 0 < len < n, so their token sequence is predicted like everyone else's)
    if case.get("family") == "closebusy":
        return fam_close_busy.model_request(case)
    if case.get("family") != "tool" or case["tool"] in s1.NO_MODEL:
        return None
    return tools.model_request(case)


def _expected_tokens(case, vis):
    """the loop channel predicted from the model's visible events (Properties/C17.lean `loopTrace`)"""
    out, pulls, calls = [], {}, {}
    for ev in vis:
        if ev[0] == "pull":
            s = ev[1]
            k = pulls.get(s, 0)
            pulls[s] = k + 1
            out += [["src", s, k, j] for j in range(case["srcs"][s].get("susp", 0))]
        elif ev[0] == "call":
            f = ev[1]
            n = calls.get(f, 0)
            calls[f] = n + 1
            spec = case["fns"][f]
            if spec.get("flavour", "def") != "def":
                out += [["fn", f, n, j] for j in range(spec.get("susp", 0))]
    return out


def judge(case, obs, model):
    issues = []
    fam = case.get("family")
    name = case["tool"]
    if fam == "noloop":
        if not obs["stdout"].startswith("OK"):
            issues.append(Issue("oracle", obs, "touches-asyncio-loop-or-suspends"))
        return issues
    if fam == "closebusy":
        return fam_close_busy.judge(case, obs, model)
    for tag, detail in obs["log_issues"]:
        issues.append(Issue("oracle", detail, "%s:%s" % (tag, name)))
    if fam == "scenario" and obs.get("exc") is not None:
        issues.append(Issue("oracle", {"exc": obs["exc"]}, "scenario-failed:" + name))
    if case.get("allsync") and obs["tokens"]:
        issues.append(Issue("oracle", {"tokens": obs["tokens"][:5]}, "suspends-with-sync-arguments:" + name))
    for t in list(obs["throws"]) + list(obs.get("close_throws", [])):
        if [e[1:] for e in t["received"]] != [[t["token"], 700 + t["at"]]]:
            issues.append(Issue("oracle", t, "thrown-exception-did-not-reach-awaitable:" + name))
            break
        if not t["same_result"]:
            issues.append(Issue("oracle", t, "operation-disturbed-by-handled-throw:" + name))
            break
    if model is not None and "error" not in model:
        exp = _expected_tokens(case, model["impl"]["vis"])
        if exp != obs["tokens"]:
            issues.append(Issue("A", {"asyncstdlib": obs["tokens"][:10], "model": exp[:10]}))
    elif model is not None:
        issues.append(Issue("A", model))
    return issues


def features(case, obs):
    return ["family=" + case.get("family", "?"), "tool=" + case["tool"], "tokens=%d" % min(len(obs["tokens"]), 9)]


def nontrivial(case, obs):
    return bool(obs["tokens"]) or case.get("family") == "noloop"


def search_cases(broken, rng):
    yield from cases("quick", rng)
