"""C01 — iterator tools produce exactly what their standard-library namesakes produce."""
import s1
from framework import Issue
from s1 import features, model_request, nontrivial, observe  # noqa: F401
from tools import yields

RULE = (
    "every iterator tool x parameter grid x all item sequences up to length L over 2 keys (ties among distinguishable "
    "items everywhere; 1..4 sources of unequal lengths), consumer runs to exhaustion (cycle: 2*len+1 items); source kinds "
    "and callable flavours rotated; plus seeded random longer cases over 3 keys. Compared with the real stdlib function on "
    "the same data: the yielded objects by identity, in order, and the way it ends (exhaustion or exception type). "
    "non-trivial = at least one yield or a raised outcome; distinct by case content"
)
EXHAUSTIVE = {"quick": True, "thorough": True}
SCOPE = {"quick": "L=4 (islice 5), <=3 sources", "thorough": "L=5, <=4 sources"}
ASSUMPTIONS = ["documented deviations are part of the reference: accumulate of an empty iterable without initial raises TypeError",
               "batched(strict=) is compared with the CPython 3.13 algorithm (3.12 has no strict flag)"]


def cases(tier, rng):
    yield from s1.base_cases(tier, rng, s1.KINDS_ALL, s1.cons_exhaust, tools_subset=s1.ITER_TOOLS, maxlen=4 if tier == "quick" else 5)
    yield from s1.random_cases(tier, rng, s1.KINDS_ALL, 3000 if tier == "quick" else 60000, cons_kinds=("exhaust",), tools_subset=s1.ITER_TOOLS)


def _proj(vis, out):
    return [yields(vis), s1._ref_out(out)]


def judge(case, obs, model):
    issues = []
    a, s = obs["async"], obs["sync"]
    if yields(a["vis"]) != yields(s["vis"]):
        issues.append(Issue("oracle", {"asyncstdlib": yields(a["vis"]), "stdlib": yields(s["vis"])}, "items-differ:" + case["tool"]))
    elif not s1.same_ending(a["out"], s["out"]):
        issues.append(Issue("oracle", {"asyncstdlib": a["out"], "stdlib": s["out"]}, "ending-differs:" + case["tool"]))
    issues += s1.correspondence(case, obs, model, _proj)
    return issues


def search_cases(broken, rng):
    for case in broken:
        for kind in ("aobj", "agen", "iter", "list"):
            c = dict(case)
            c["srcs"] = [dict(s, kind=kind) for s in case["srcs"]]
            yield c
    yield from s1.random_cases("quick", rng, s1.KINDS_ALL, 4000, cons_kinds=("exhaust",), tools_subset=s1.ITER_TOOLS)
