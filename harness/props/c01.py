"""C01 — iterator tools produce exactly what their standard-library namesakes produce."""
import s1
from framework import Issue
from s1 import nontrivial  # noqa: F401
from tools import yields

RULE = (
    "every iterator tool x parameter grid x all item sequences up to length L over 2 keys (ties among distinguishable "
    "items everywhere; 1..4 sources of unequal lengths), consumer runs to exhaustion (cycle: 2*len+1 items); source kinds "
    "and callable flavours rotated; an 'odd values' family puts None / a fillvalue-like object / 0 / False / () — the values "
    "library-internal sentinels get confused with — at every position of short streams and random positions of random ones; "
    "plus seeded random longer cases over 3 keys. Compared with the real stdlib function on "
    "the same data: the yielded objects by identity, in order, and the way it ends (exhaustion or exception type). "
    "non-trivial = at least one yield or a raised outcome; distinct by case content"
)
EXHAUSTIVE = {"quick": True, "thorough": True}
SCOPE = {"quick": "L=4 (islice 5), <=3 sources", "thorough": "L=5, <=4 sources"}
ASSUMPTIONS = ["documented deviations are part of the reference: accumulate of an empty iterable without initial raises TypeError",
               "batched(strict=) is compared with the CPython 3.13 algorithm (3.12 has no strict flag)"]


def _tee_cases(tier):
    """tee children (C01 lists them): sequential consumption patterns compared with itertools.tee; the schedule-level
    behaviour of tee is C09's machine"""
    L = 3 if tier == "quick" else 4
    for n in (2, 3):
        for ln in range(0, L + 1):
            for kind in ("list", "iter", "agen", "aobj"):
                # a pattern is a list of [child, how many items to take] steps followed by who is closed when
                pats = [[[c, ln + 1] for c in range(n)],                       # drain one after the other
                        [[c, 1] for _ in range(ln + 1) for c in range(n)],    # lockstep
                        [[0, 1], [n - 1, 1], ["close", n - 1], [0, ln + 1]],    # close a later child, drain the first
                        [[c, 1] for c in range(n)] + [["close", 0]] + [[c, ln + 1] for c in range(1, n)],
                        [[0, ln // 2 + 1], [1, ln + 1], [0, ln + 1]]]
                for pat in pats:
                    yield {"tool": "tee", "family": "tee", "n": n, "params": {}, "pattern": pat, "fns": [],
                           "srcs": [{"kind": kind, "script": [["o", i, i % 2] for i in range(ln)]}], "cons": {"fin": "exhaust"}}


def _run_tee(case, sync):
    import itertools as _it
    from tools import mkscript
    from world import asyncstdlib, drive, canon, exc_name, make_source
    items = [v for _, v in mkscript(case["srcs"][0]["script"])]
    out = {c: [] for c in range(case["n"])}
    ends = {}
    if sync:
        kids = list(_it.tee(iter(items), case["n"]))
    else:
        src, _ = make_source(case["srcs"][0]["kind"], [("item", v) for v in items], 0, [])
        kids = list(asyncstdlib.tee(src, case["n"]))
    closed = set()
    for step in case["pattern"]:
        if step[0] == "close":
            closed.add(step[1])
            if not sync:
                drive(kids[step[1]].aclose())
            continue
        c, k = step
        if c in closed or c in ends:
            continue
        for _ in range(k):
            if sync:
                try:
                    out[c].append(canon(next(kids[c])))
                except StopIteration:
                    ends[c] = "exhausted"
                    break
            else:
                res = drive(kids[c].__anext__())
                if res.exc is None:
                    out[c].append(canon(res.value))
                else:
                    ends[c] = "exhausted" if isinstance(res.exc, StopAsyncIteration) else ["raised", exc_name(res.exc)]
                    break
    return {"out": [out[c] for c in range(case["n"])], "ends": [ends.get(c) for c in range(case["n"])]}


def observe(case):  # noqa: F811
    if case.get("family") == "tee":
        a = _run_tee(case, False)
        return {"tee_async": a, "tee_sync": _run_tee(case, True), "async": {"out": ["exhausted"], "vis": [["yield", v] for v in a["out"][0]]}}
    return s1.observe(case)


def model_request(case):  # noqa: F811
    if case.get("family") == "tee":
        return None
    return s1.model_request(case)


def features(case, obs):  # noqa: F811
    if case.get("family") == "tee":
        return ["tool=tee", "kind=" + case["srcs"][0]["kind"]]
    return s1.features(case, obs)


def cases(tier, rng):
    yield from _tee_cases(tier)
    yield from s1.base_cases(tier, rng, s1.KINDS_ALL, s1.cons_exhaust, tools_subset=s1.ITER_TOOLS, maxlen=4 if tier == "quick" else 5)
    yield from s1.odd_value_cases(tier, rng, s1.KINDS_ALL, 1500 if tier == "quick" else 20000, tools_subset=s1.ITER_TOOLS)
    yield from s1.impure_fn_cases(tier, rng, s1.KINDS_ALL, tools_subset=s1.ITER_TOOLS)
    yield from s1.random_cases(tier, rng, s1.KINDS_ALL, 3000 if tier == "quick" else 60000, cons_kinds=("exhaust",), tools_subset=s1.ITER_TOOLS)


def _proj(vis, out):
    return [yields(vis), s1._ref_out(out)]


def judge(case, obs, model):
    issues = []
    if case.get("family") == "tee":
        if obs["tee_async"] != obs["tee_sync"]:
            issues.append(Issue("oracle", {"asyncstdlib": obs["tee_async"], "itertools": obs["tee_sync"]}, "items-differ:tee"))
        return issues
    a, s = obs["async"], obs["sync"]
    if yields(a["vis"]) != yields(s["vis"]):
        issues.append(Issue("oracle", {"asyncstdlib": yields(a["vis"]), "stdlib": yields(s["vis"])}, "items-differ:" + case["tool"]))
    elif not s1.same_ending(a["out"], s["out"]):
        issues.append(Issue("oracle", {"asyncstdlib": a["out"], "stdlib": s["out"]}, "ending-differs:" + case["tool"]))
    issues += s1.correspondence(case, obs, model, _proj)
    return issues


def search_cases(broken, rng):
    for case in broken:
        for kind in ("aobj", "agen", "iter", "list"):
            c = dict(case)
            c["srcs"] = [dict(s, kind=kind) for s in case["srcs"]]
            yield c
    yield from s1.random_cases("quick", rng, s1.KINDS_ALL, 4000, cons_kinds=("exhaust",), tools_subset=s1.ITER_TOOLS)
