"""C01 — iterator tools produce exactly what their standard-library namesakes produce."""
import s1
from framework import Issue
from s1 import nontrivial  # noqa: F401
from tools import yields

RULE = (
    "every iterator tool x parameter grid x all item sequences up to length L over 2 keys (ties among distinguishable "
    "items everywhere; 1..4 sources of unequal lengths), consumer runs to exhaustion (cycle: 2*len+1 items); source kinds "
    "and callable flavours rotated; an 'odd values' family puts None / a fillvalue-like object / 0 / False / () — the values "
    "library-internal sentinels get confused with — at every position of short streams and random positions of random ones; "
    "plus seeded random longer cases over 3 keys. Compared with the real stdlib function on "
    "the same data: the yielded objects by identity, in order, and the way it ends (exhaustion or exception type). "
    "non-trivial = at least one yield or a raised outcome; distinct by case content"
)
EXHAUSTIVE = {"quick": True, "thorough": True}
SCOPE = {"quick": "L=4 (islice 5), <=3 sources", "thorough": "L=5, <=4 sources"}
ASSUMPTIONS = ["documented deviations are part of the reference: accumulate of an empty iterable without initial raises TypeError",
               "batched(strict=) is compared with the CPython 3.13 algorithm (3.12 has no strict flag)"]


def _tee_cases(tier):
    """tee children (C01 lists them): sequential consumption patterns compared with itertools.tee; the schedule-level
    behaviour of tee is C09's machine"""
    L = 3 if tier == "quick" else 4
    for n in (2, 3):
        for ln in range(0, L + 1):
            for kind in ("list", "iter", "agen", "aobj"):
                # a pattern is a list of [child, how many items to take] steps followed by who is closed when
                pats = [[[c, ln + 1] for c in range(n)],                       # drain one after the other
                        [[c, 1] for _ in range(ln + 1) for c in range(n)],    # lockstep
                        [[0, 1], [n - 1, 1], ["close", n - 1], [0, ln + 1]],    # close a later child, drain the first
                        [[c, 1] for c in range(n)] + [["close", 0]] + [[c, ln + 1] for c in range(1, n)],
                        [[0, ln // 2 + 1], [1, ln + 1], [0, ln + 1]]]
                if kind == "list":
                    # the list changes while the children are at different positions: the children share ONE iterator
                    pats.append([[0, ln + 1], ["append"], [n - 1, ln + 2], [0, 1]])
                    pats.append([[0, 1], ["append"], [n - 1, ln + 2], [0, ln + 2]])
                for pat in pats:
                    yield {"tool": "tee", "family": "tee", "n": n, "params": {}, "pattern": pat, "fns": [],
                           "srcs": [{"kind": kind, "script": [["o", i, i % 2] for i in range(ln)]}], "cons": {"fin": "exhaust"}}


def _run_tee(case, sync):
    import itertools as _it
    from tools import mkscript
    from world import asyncstdlib, drive, canon, exc_name, make_source
    items = [v for _, v in mkscript(case["srcs"][0]["script"])]
    out = {c: [] for c in range(case["n"])}
    ends = {}
    fetched_after = []      # items fetched from the source after every single advance (laziness, C05)

    class Counting:
        def __init__(self, xs):
            self.it, self.n = iter(xs), 0

        def __iter__(self):
            return self

        def __next__(self):
            v = next(self.it)
            self.n += 1
            return v
    if sync:
        cnt = Counting(items)
        kids = list(_it.tee(cnt, case["n"]))
        fetched = lambda: cnt.n                                   # noqa: E731
    else:
        src, st = make_source(case["srcs"][0]["kind"], [("item", v) for v in items], 0, [])
        kids = list(asyncstdlib.tee(src, case["n"]))
        fetched = lambda: min(st.pulls, len(items))               # noqa: E731
    closed = set()
    for step in case["pattern"]:
        if step[0] == "append":
            extra = mkscript([["o", 900, 0]])[0][1]
            (items if sync else src).append(extra)
            continue
        if step[0] == "close":
            closed.add(step[1])
            if not sync:
                drive(kids[step[1]].aclose())
            continue
        c, k = step
        if c in closed or c in ends:
            continue
        for _ in range(k):
            if sync:
                try:
                    out[c].append(canon(next(kids[c])))
                except StopIteration:
                    ends[c] = "exhausted"
                    break
            else:
                res = drive(kids[c].__anext__())
                if res.exc is None:
                    out[c].append(canon(res.value))
                else:
                    ends[c] = "exhausted" if isinstance(res.exc, StopAsyncIteration) else ["raised", exc_name(res.exc)]
                    break
            fetched_after.append(fetched())
    res = {"out": [out[c] for c in range(case["n"])], "ends": [ends.get(c) for c in range(case["n"])]}
    if case["srcs"][0]["kind"] != "list":        # pulls from a real list are not observable
        res["fetched_after"] = fetched_after
    elif not sync:
        res["list_iters"] = st.iters            # ... but how often an iterator is requested from it is
    return res


# ---- heapq's binary heap: Machines/Heap.lean vs the real `heapq` module (edge B) -------------------------------------
# merge and nlargest/nsmallest delegate their ordering to heapq.heapify / heapreplace / heappop; the Lean model contains
# those algorithms as written (Properties/C01Heap.lean proves they implement the abstract "minimum entry" the merge
# model uses).  Same algorithm => identical array layout after every operation, not just the same multiset.


class _HK:
    __slots__ = ("v", "d")

    def __init__(self, v, d):
        self.v, self.d = v, d

    def __lt__(self, other):
        return self.v // self.d < other.v // other.d


def _heap_cases(tier, rng):
    import itertools as _it
    for init in _it.chain.from_iterable(_it.product(range(3), repeat=n) for n in range(0, 5)):
        yield {"tool": "heapq", "family": "heap", "init": list(init), "div": 1,
               "ops": [["heapify"], ["replace", 1], ["pop"], ["push", 0], ["pop"], ["pop"], ["replace", 2]],
               "srcs": [{"kind": "list", "script": []}], "params": {}}
    for _ in range(400 if tier == "quick" else 6000):
        ops = []
        for _ in range(rng.randint(0, 25)):
            r = rng.random()
            if r < 0.3:
                ops.append(["push", rng.randint(-10, 30)])
            elif r < 0.55:
                ops.append(["pop"])
            elif r < 0.8:
                ops.append(["replace", rng.randint(-10, 30)])
            elif r < 0.9:
                ops.append(["heapify"])
            elif r < 0.95:
                ops.append(["siftup", rng.randint(0, 22)])
            else:
                p = rng.randint(0, 22)
                ops.append(["siftdown", rng.randint(0, p), p])
        yield {"tool": "heapq", "family": "heap", "init": [rng.randint(-10, 30) for _ in range(rng.randint(0, 20))],
               "div": rng.choice([1, 1, 1, 2, 3, 5]), "ops": ops, "srcs": [{"kind": "list", "script": []}], "params": {}}


def _observe_heap(case):
    import heapq
    d = case["div"]
    h = [_HK(v, d) for v in case["init"]]
    heaps, outs = [], []
    for op in case["ops"]:
        o = None
        try:
            if op[0] == "push":
                heapq.heappush(h, _HK(op[1], d))
            elif op[0] == "pop":
                o = heapq.heappop(h).v
            elif op[0] == "replace":
                o = heapq.heapreplace(h, _HK(op[1], d)).v
            elif op[0] == "heapify":
                heapq.heapify(h)
            elif op[0] == "siftup":
                if op[1] >= len(h):
                    raise IndexError
                heapq._siftup(h, op[1])
            elif op[0] == "siftdown":
                if op[2] >= len(h):
                    raise IndexError
                heapq._siftdown(h, op[1], op[2])
        except IndexError:
            o = "IndexError"
        heaps.append([k.v for k in h])
        outs.append(o)
    return {"heapq": {"heaps": heaps, "outs": outs}, "async": {"out": ["exhausted"], "vis": [["yield", ["i", 1]]] if case["ops"] else []}}


def _observe_accinit(case):
    """accumulate(..., initial=None): for itertools `None` means "no initial value" (it is the parameter's default)"""
    import itertools as _it
    from world import asyncstdlib, drive
    items = case["items"]
    fn = (lambda a, b: (a or 0) + b)

    async def collect():
        return [x async for x in asyncstdlib.accumulate(list(items), fn, initial=None)]
    res = drive(collect())
    got = ["raised", type(res.exc).__name__] if res.exc is not None else ["items", res.value]
    try:
        want = ["items", list(_it.accumulate(list(items), fn, initial=None))]
    except Exception as exc:  # noqa: BLE001
        want = ["raised", type(exc).__name__]
    if not items and want == ["items", []]:
        want = ["raised", "TypeError"]       # the documented deviation: empty input without an initial value
    return {"got": got, "want": want, "async": {"out": ["exhausted"], "vis": []}}


def observe(case):  # noqa: F811
    if case.get("family") == "accinit":
        return _observe_accinit(case)
    if case.get("family") == "heap":
        return _observe_heap(case)
    if case.get("family") == "tee":
        a = _run_tee(case, False)
        return {"tee_async": a, "tee_sync": _run_tee(case, True), "async": {"out": ["exhausted"], "vis": [["yield", v] for v in a["out"][0]]}}
    return s1.observe(case)


def model_request(case):  # noqa: F811
    if case.get("family") == "accinit":
        return None
    if case.get("family") == "heap":
        return {"m": "heap", "init": case["init"], "ops": case["ops"], "div": case["div"]}
    if case.get("family") == "tee":
        return None
    return s1.model_request(case)


def features(case, obs):  # noqa: F811
    if case.get("family") == "accinit":
        return ["tool=accumulate", "accinit"]
    if case.get("family") == "heap":
        return ["tool=heapq", "heap:ops=%d" % min(len(case["ops"]), 9), "heap:div=%d" % case["div"]]
    if case.get("family") == "tee":
        return ["tool=tee", "kind=" + case["srcs"][0]["kind"]]
    return s1.features(case, obs)


def cases(tier, rng):
    for items in ([], [1], [1, 2, 3]):
        yield {"tool": "accumulate", "family": "accinit", "items": items, "srcs": [], "params": {}, "fns": [], "cons": {"fin": "exhaust"}}
    yield from _tee_cases(tier)
    yield from _heap_cases(tier, rng)
    yield from s1.base_cases(tier, rng, s1.KINDS_ALL, s1.cons_exhaust, tools_subset=s1.ITER_TOOLS, maxlen=4 if tier == "quick" else 5)
    yield from s1.odd_value_cases(tier, rng, s1.KINDS_ALL, 1500 if tier == "quick" else 20000, tools_subset=s1.ITER_TOOLS)
    yield from s1.impure_fn_cases(tier, rng, s1.KINDS_ALL, tools_subset=s1.ITER_TOOLS)
    yield from s1.shared_source_cases(tier, rng, s1.KINDS_ALL)
    yield from s1.random_cases(tier, rng, s1.KINDS_ALL, 3000 if tier == "quick" else 60000, cons_kinds=("exhaust",), tools_subset=s1.ITER_TOOLS)


def _proj(vis, out):
    return [yields(vis), s1._ref_out(out)]


def judge(case, obs, model):
    issues = []
    if case.get("family") == "heap":
        if model is None or "error" in model:
            return [Issue("B", model or {"error": "no model answer"})]
        if model != obs["heapq"]:
            k = next((i for i, (a, b) in enumerate(zip(model["heaps"], obs["heapq"]["heaps"])) if a != b), None)
            return [Issue("B", {"first_diff_at_op": k, "heapq": obs["heapq"], "model": model})]
        return []
    if case.get("family") == "accinit":
        if obs["got"] != obs["want"]:
            issues.append(Issue("oracle", {"asyncstdlib": obs["got"], "itertools": obs["want"]}, "accumulate-initial-none-is-a-value"))
        return issues
    if case.get("family") == "tee":
        a, b = obs["tee_async"], obs["tee_sync"]
        if a.get("list_iters", 0) > 1:
            issues.append(Issue("oracle", {"iterator_requests": a["list_iters"]}, "list-argument-iterated-again:tee"))
        a = {k: v for k, v in a.items() if k != "list_iters"}
        if (a["out"], a["ends"]) != (b["out"], b["ends"]):
            issues.append(Issue("oracle", {"asyncstdlib": a, "itertools": b}, "items-differ:tee"))
        return issues
    a, s = obs["async"], obs["sync"]
    if yields(a["vis"]) != yields(s["vis"]):
        issues.append(Issue("oracle", {"asyncstdlib": yields(a["vis"]), "stdlib": yields(s["vis"])}, "items-differ:" + case["tool"]))
    elif not s1.same_ending(a["out"], s["out"]):
        issues.append(Issue("oracle", {"asyncstdlib": a["out"], "stdlib": s["out"]}, "ending-differs:" + case["tool"]))
    issues += s1.correspondence(case, obs, model, _proj)
    return issues


def search_cases(broken, rng):
    for case in broken:
        for kind in ("aobj", "agen", "iter", "list"):
            c = dict(case)
            c["srcs"] = [dict(s, kind=kind) for s in case["srcs"]]
            yield c
    yield from s1.random_cases("quick", rng, s1.KINDS_ALL, 4000, cons_kinds=("exhaust",), tools_subset=s1.ITER_TOOLS)
